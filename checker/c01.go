package main

import (
	"fmt"
	"go/token"
	"go/types"
	"sort"
	"strings"

	"golang.org/x/tools/go/packages"
	"golang.org/x/tools/go/ssa"
)

const (
	pkgQB      = modPrefix + "/exporter/exporterhelper/internal/queuebatch"
	pkgEHI     = modPrefix + "/exporter/exporterhelper/internal"
	pkgEH      = modPrefix + "/exporter/exporterhelper"
	pkgExperr  = modPrefix + "/exporter/exporterhelper/internal/experr"
	pkgStorage = modPrefix + "/extension/xextension/storage"
	pkgRequest = modPrefix + "/exporter/exporterhelper/internal/request"
	pkgSender  = modPrefix + "/exporter/exporterhelper/internal/sender"
	pkgConsErr = modPrefix + "/consumer/consumererror"
)

func init() {
	register(&Property{
		ID:         "C01",
		Run:        runC01,
		Explain:    "Static structural necessary conditions of crash-safety of the persistent queue, decided on every path of the code as written: (R1) enqueue writes item body and new write index in ONE storage batch and advances in-memory state only on its success; (R2) dequeue advances the read index, records the index as dispatched and reads the body in ONE batch, the dispatched list containing the index before it is serialised; (R3) the only code that can delete an item body is the completion callback (on the non-shutdown side), the dequeue-failure path and start-up recovery; the completion callback receives the consumer's error unchanged; (R4) start-up recovery re-enqueues before it deletes (no path from a delete batch to the enqueue call); (R5) the retry sender's stop branch returns a shutdown-classified error and every function between the retry sender and Done.OnDone preserves the error chain; (R6) the storage client is closed only by the unref helper under refCount==0, referenced on each successful dispatch and released by a deferred unref in the completion callback; (R7) must-lockset: every access to the queue's mutable fields happens under the queue mutex.",
		NotDecided: "Atomicity of the storage extension's Batch; enumeration of crash points (needs executions); losses caused by storage errors (the dequeue-failure path deletes deliberately); recovery when re-enqueue is refused for capacity; duplicate-delivery bounds.",
		Assumes:    []string{"storage.Client.Batch is atomic and durable when it returns nil (the property's own assumption: crash points are between storage calls)", "component contract: Start happens-before Offer/Read/Shutdown"},
	})
}

// ---------- storage operation classification ----------

type storOp struct {
	Kind     string // Set | Get | Delete
	KeyClass string // "item" or the constant key
	KeyIdx   ssa.Value
	Val      ssa.Value
	Call     *ssa.Call
}

func (o storOp) String() string { return o.Kind + "(" + o.KeyClass + ")" }

func classifyOp(v ssa.Value) (storOp, bool) {
	ops := classifyOps(v, 0)
	if len(ops) == 0 {
		return storOp{}, false
	}
	return ops[0], true
}

// classifyOps resolves an operation value to the storage constructor call(s) it can come from,
// following parameters to all static call sites and multi-value returns into callees (depth ≤ 3).
func classifyOps(v ssa.Value, depth int) []storOp {
	if depth > 3 {
		return nil
	}
	sv := strip(v)
	switch x := sv.(type) {
	case *ssa.Call:
		if op, ok := classifyOpCall(x); ok {
			return []storOp{op}
		}
	case *ssa.Parameter:
		fn := x.Parent()
		idx := -1
		for i, pa := range fn.Params {
			if pa == x {
				idx = i
			}
		}
		if idx < 0 || fn.Pkg == nil {
			return nil
		}
		var out []storOp
		for _, m := range fn.Pkg.Members {
			_ = m
		}
		for _, caller := range pkgFuncs(fn) {
			for _, ci := range calls(caller, func(ci ssa.CallInstruction) bool { return staticCalleeFn(ci) == fn }) {
				if idx < len(ci.Common().Args) {
					out = append(out, classifyOps(ci.Common().Args[idx], depth+1)...)
				}
			}
		}
		return out
	case *ssa.Extract:
		if call, ok := x.Tuple.(*ssa.Call); ok {
			if cf := staticCalleeFn(call); cf != nil && cf.Blocks != nil {
				var out []storOp
				for _, r := range returnsOf(cf) {
					res := resultsOf(r)
					if x.Index < len(res) {
						out = append(out, classifyOps(res[x.Index], depth+1)...)
					}
				}
				return out
			}
		}
	case *ssa.Phi:
		var out []storOp
		for _, e := range x.Edges {
			out = append(out, classifyOps(e, depth+1)...)
		}
		return out
	}
	return nil
}

var pkgFuncsCache = map[*ssa.Package][]*ssa.Function{}
var pkgFuncsProg *Prog

// pkgFuncs: all source functions of fn's package (generic origins).
func pkgFuncs(fn *ssa.Function) []*ssa.Function {
	pkg := fn.Pkg
	if pkg == nil && fn.Origin() != nil {
		pkg = fn.Origin().Pkg
	}
	if pkg == nil || pkgFuncsProg == nil {
		return nil
	}
	if fs, ok := pkgFuncsCache[pkg]; ok {
		return fs
	}
	fs := pkgFuncsProg.AllSrcFuncs(pkgFuncsProg.ByPath[pkg.Pkg.Path()])
	pkgFuncsCache[pkg] = fs
	return fs
}

func classifyOpCall(call *ssa.Call) (storOp, bool) {
	f := calleeOf(call)
	if f == nil || f.Pkg() == nil || f.Pkg().Path() != pkgStorage {
		return storOp{}, false
	}
	var op storOp
	switch f.Name() {
	case "SetOperation":
		op.Kind = "Set"
		op.Val = call.Call.Args[1]
	case "GetOperation":
		op.Kind = "Get"
	case "DeleteOperation":
		op.Kind = "Delete"
	default:
		return storOp{}, false
	}
	op.Call = call
	key := call.Call.Args[0]
	if s, ok := constString(key); ok {
		op.KeyClass = s
	} else if kc, ok := strip(key).(*ssa.Call); ok && len(kc.Call.Args) == 1 {
		// index-to-key function: func(uint64) string
		if b, ok := kc.Call.Args[0].Type().Underlying().(*types.Basic); ok && b.Kind() == types.Uint64 {
			op.KeyClass = "item"
			op.KeyIdx = kc.Call.Args[0]
		}
	}
	if op.KeyClass == "" {
		// the Key field of another operation taken out of a slice of operations built in this function
		// (e.g. DeleteOperation(op.Key) for op ranging over the retrieve batch)
		if u, ok := strip(key).(*ssa.UnOp); ok && u.Op == token.MUL {
			if fa, ok := u.X.(*ssa.FieldAddr); ok && derefStruct(fa.X.Type()) != nil && derefStruct(fa.X.Type()).Field(fa.Field).Name() == "Key" {
				if el, ok := strip(fa.X).(*ssa.UnOp); ok && el.Op == token.MUL {
					if ia, ok := el.X.(*ssa.IndexAddr); ok {
						if elems, ok := variadicElems(ia.X); ok && len(elems) > 0 {
							cls := ""
							same := true
							for _, e := range elems {
								if src, ok := strip(e).(*ssa.Call); ok && src != call {
									if so, ok := classifyOpCall(src); ok {
										if cls == "" {
											cls = so.KeyClass
										} else if cls != so.KeyClass {
											same = false
										}
										continue
									}
								}
								same = false
							}
							if same && cls != "" {
								op.KeyClass = cls
							}
						}
					}
				}
			}
		}
	}
	if op.KeyClass == "" {
		op.KeyClass = "?"
	}
	return op, true
}

type batchCall struct {
	Call ssa.CallInstruction
	Ops  []storOp
	Full bool // all operands resolved
}

func storageCalls(fn *ssa.Function, method string) []ssa.CallInstruction {
	return calls(fn, func(ci ssa.CallInstruction) bool {
		cc := ci.Common()
		return cc.IsInvoke() && cc.Method.Name() == method && isMethod(cc.Method, pkgStorage, "Client", method)
	})
}

func batchCalls(fn *ssa.Function) []batchCall {
	var out []batchCall
	for _, ci := range storageCalls(fn, "Batch") {
		bc := batchCall{Call: ci, Full: true}
		args := ci.Common().Args
		els, ok := variadicElems(args[len(args)-1])
		if !ok {
			bc.Full = false
		}
		for _, e := range els {
			if ops := classifyOps(e, 0); len(ops) > 0 {
				bc.Ops = append(bc.Ops, ops...)
			} else {
				bc.Full = false
			}
		}
		out = append(out, bc)
	}
	return out
}

func (b batchCall) has(kind, keyClass string) *storOp {
	for i := range b.Ops {
		if b.Ops[i].Kind == kind && (keyClass == "" || b.Ops[i].KeyClass == keyClass) {
			return &b.Ops[i]
		}
	}
	return nil
}

// loadsOfField: does the backward slice of v contain a load of field f of type T?
func sliceLoadsField(v ssa.Value, T *types.Named, f string) []*ssa.UnOp {
	var out []*ssa.UnOp
	for x := range backSlice(v) {
		if u, ok := x.(*ssa.UnOp); ok && u.Op == token.MUL && isFieldAccess(u.X, T, f) {
			out = append(out, u)
		}
	}
	return out
}

func fieldStores(fn *ssa.Function, T *types.Named, f string) []*ssa.Store {
	var out []*ssa.Store
	allInstrs(fn, func(in ssa.Instruction) {
		if s, ok := in.(*ssa.Store); ok && isFieldAccess(s.Addr, T, f) {
			if _, isFA := s.Addr.(*ssa.FieldAddr); isFA {
				out = append(out, s)
			}
		}
	})
	return out
}

// isIncrement: store value is load(field)+1
func isIncrementOf(s *ssa.Store, T *types.Named, f string, delta int64) bool {
	bo, ok := s.Val.(*ssa.BinOp)
	if !ok {
		return false
	}
	k, isC := constInt(bo.Y)
	if !isC {
		return false
	}
	if !((bo.Op == token.ADD && k == delta) || (bo.Op == token.SUB && k == -delta)) {
		return false
	}
	u, ok := bo.X.(*ssa.UnOp)
	return ok && u.Op == token.MUL && isFieldAccess(u.X, T, f)
}

type pqAnchors struct {
	pk                                                  *packages.Package
	T                                                   *types.Named
	methods                                             []*ssa.Function
	all                                                 []*ssa.Function // methods + their anon funcs
	enqueue, dequeue, finish, recovery, complete, unref *ssa.Function
	client                                              string
}

func findPQ(p *Prog) *pqAnchors {
	if pkgFuncsProg != p {
		pkgFuncsProg = p
		pkgFuncsCache = map[*ssa.Package][]*ssa.Function{}
	}
	pk := p.ByPath[pkgQB]
	if pk == nil {
		return nil
	}
	a := &pqAnchors{pk: pk}
	for _, n := range pk.Types.Scope().Names() {
		tn, ok := pk.Types.Scope().Lookup(n).(*types.TypeName)
		if !ok {
			continue
		}
		st, ok := tn.Type().Underlying().(*types.Struct)
		if !ok {
			continue
		}
		for i := 0; i < st.NumFields(); i++ {
			if typeIs(st.Field(i).Type(), pkgStorage, "Client") {
				if _, isPtr := st.Field(i).Type().(*types.Pointer); !isPtr {
					a.T, _ = tn.Type().(*types.Named)
					a.client = st.Field(i).Name()
				}
			}
		}
	}
	if a.T == nil {
		return nil
	}
	for _, fn := range p.AllSrcFuncs(pk) {
		r := fn
		for r.Parent() != nil {
			r = r.Parent()
		}
		if recvNamedOfFn(r) == a.T.Origin() {
			a.all = append(a.all, fn)
			if fn.Parent() == nil {
				a.methods = append(a.methods, fn)
			}
		}
	}
	for _, fn := range a.methods {
		for _, s := range fieldStores(fn, a.T, "writeIndex") {
			if isIncrementOf(s, a.T, "writeIndex", 1) {
				a.enqueue = fn
			}
		}
		for _, s := range fieldStores(fn, a.T, "readIndex") {
			if isIncrementOf(s, a.T, "readIndex", 1) {
				a.dequeue = fn
			}
		}
		if len(storageCalls(fn, "Close")) > 0 {
			a.unref = fn
		}
	}
	for _, fn := range a.methods {
		hasDel, hasSetDI := false, false
		for _, b := range batchCalls(fn) {
			if b.has("Delete", "item") != nil {
				hasDel = true
			}
			for _, o := range b.Ops {
				if o.Kind == "Set" && len(sliceLoadsField(o.Val, a.T, "currentlyDispatchedItems")) > 0 {
					hasSetDI = true
				}
			}
		}
		callsEnq := a.enqueue != nil && len(callsTo(fn, funcObj(a.enqueue))) > 0
		if hasDel && hasSetDI && fn != a.dequeue {
			a.finish = fn
		}
		if hasDel && callsEnq {
			a.recovery = fn
		}
	}
	if a.recovery == nil {
		// the re-enqueue (or the delete batch) was moved into a helper of the recovery
		a.recovery = recoveryViaHelpersA1(a)
	}
	for _, fn := range a.methods {
		if len(callsNamed(fn, func(f *types.Func) bool { return isFunc(f, pkgExperr, "IsShutdownErr") })) > 0 {
			a.complete = fn
		}
	}
	return a
}

func runC01(c *Ctx) {
	p := c.P
	a := findPQ(p)
	c.Rule("R1", "ORD+GATE", "enqueue: Set(item@writeIndex) and Set(write index = writeIndex+1) are operations of the same Batch call; writeIndex++ / size update / success return happen only on that call's err==nil side", 5)
	if a == nil || a.enqueue == nil || a.dequeue == nil || a.complete == nil || a.unref == nil {
		c.Anchor(fmt.Sprintf("persistent queue (struct with storage.Client field) and its enqueue/dequeue/finish/complete/unref methods: %+v", anchorsState(a)))
		return
	}
	T := a.T
	// ----- R1
	{
		fn := a.enqueue
		var B *batchCall
		bcs := batchCalls(fn)
		for i := range bcs {
			if bcs[i].has("Set", "item") != nil {
				B = &bcs[i]
			}
		}
		if B == nil {
			c.Bad("enqueue batch with Set(item)", p.Pos(fn.Pos()), "no Batch call in "+fnName(fn)+" carries the item body")
		} else {
			pos := p.Pos(B.Call.Pos())
			item := B.has("Set", "item")
			var wi *storOp
			for i := range B.Ops {
				o := &B.Ops[i]
				if o.Kind == "Set" && o.KeyClass != "item" && len(sliceLoadsField(o.Val, T, "writeIndex")) > 0 {
					wi = o
				}
			}
			c.Check(wi != nil, "enqueue: item body and write index in one Batch", pos, "same Batch call carries Set(item) and Set(wi)", "the Batch that stores the item body does not also store the new write index: a crash between the two storage calls loses or orphans the request")
			// item key index is the current writeIndex
			idx, isLoad := strip(item.KeyIdx).(*ssa.UnOp)
			c.Check(isLoad && idx.Op == token.MUL && isFieldAccess(idx.X, T, "writeIndex"), "enqueue: item stored at key(writeIndex)", pos, "key index is the loaded writeIndex", "item key is not derived from the current writeIndex")
			if wi != nil {
				plus1 := false
				for x := range backSlice(wi.Val) {
					if bo, ok := x.(*ssa.BinOp); ok && bo.Op == token.ADD {
						if k, ok := constInt(bo.Y); ok && k == 1 {
							if u, ok := bo.X.(*ssa.UnOp); ok && isFieldAccess(u.X, T, "writeIndex") {
								plus1 = true
							}
						}
					}
				}
				c.Check(plus1, "enqueue: stored write index is writeIndex+1", pos, "wi value = writeIndex+1", "stored write index is not writeIndex+1: the new item would be invisible (or a phantom item visible) after restart")
			}
			for _, s := range fieldStores(fn, T, "writeIndex") {
				c.Check(errGuardOn(s.Block(), B.Call, true), "enqueue: writeIndex advanced only after successful Batch", p.Pos(s.Pos()), "store dominated by err==nil side", "in-memory writeIndex is advanced on a path where the Batch did not succeed")
			}
			for _, s := range fieldStores(fn, T, "queueSize") {
				c.Check(errGuardOn(s.Block(), B.Call, true), "enqueue: queueSize updated only after successful Batch", p.Pos(s.Pos()), "store dominated by err==nil side", "queue size is updated on a path where the Batch did not succeed")
			}
			for _, r := range returnsOf(fn) {
				if len(r.Results) == 1 && isNilConst(resultsOf(r)[0]) {
					c.Check(errGuardOn(r.Block(), B.Call, true), "enqueue: success return only after successful Batch", p.Pos(r.Pos()), "return nil dominated by err==nil side", "enqueue reports success on a path where the item was not durably stored")
				}
			}
			// no other storage write of wi/item outside B
			for _, ob := range bcs {
				if ob.Call == B.Call {
					continue
				}
				for _, o := range ob.Ops {
					if o.Kind == "Set" && (o.KeyClass == "item" || len(sliceLoadsField(o.Val, T, "writeIndex")) > 0) {
						c.Bad("enqueue: item/write index written by a second Batch", p.Pos(ob.Call.Pos()), "item body or write index is (also) written by a different storage call: not atomic")
					}
				}
			}
			for _, sc := range storageCalls(fn, "Set") {
				args := sc.Common().Args
				if len(sliceLoadsField(args[len(args)-1], T, "writeIndex")) > 0 {
					c.Bad("enqueue: write index written by a separate Set", p.Pos(sc.Pos()), "write index is written by a separate storage call")
				}
			}
		}
	}
	// ----- R2
	c.Rule("R2", "ORD", "dequeue: Set(read index), Set(dispatched list) and Get(item) are operations of the same Batch; the read index is advanced and the index appended to the dispatched list before they are serialised for that batch; the body read is the one at the old read index", 5)
	{
		fn := a.dequeue
		var B *batchCall
		bcs := batchCalls(fn)
		for i := range bcs {
			if bcs[i].has("Get", "item") != nil {
				B = &bcs[i]
			}
		}
		if B == nil {
			c.Bad("dequeue batch with Get(item)", p.Pos(fn.Pos()), "no Batch call in "+fnName(fn)+" reads the item body")
		} else {
			pos := p.Pos(B.Call.Pos())
			var ri, di *storOp
			for i := range B.Ops {
				o := &B.Ops[i]
				if o.Kind != "Set" {
					continue
				}
				if len(sliceLoadsField(o.Val, T, "readIndex")) > 0 {
					ri = o
				}
				if len(sliceLoadsField(o.Val, T, "currentlyDispatchedItems")) > 0 {
					di = o
				}
			}
			c.Check(ri != nil && di != nil, "dequeue: read index, dispatched list and body read in one Batch", pos, "same Batch carries Set(ri), Set(di), Get(item)", fmt.Sprintf("Set(ri) present=%v, Set(di) present=%v in the Batch that reads the body: a crash between separate storage calls loses the in-flight request", ri != nil, di != nil))
			var inc *ssa.Store
			for _, s := range fieldStores(fn, T, "readIndex") {
				if isIncrementOf(s, T, "readIndex", 1) {
					inc = s
				}
			}
			get := B.has("Get", "item")
			idxLoad, isLoad := strip(get.KeyIdx).(*ssa.UnOp)
			oldIdx := isLoad && isFieldAccess(idxLoad.X, T, "readIndex") && inc != nil && instrDominates(idxLoad, inc)
			c.Check(oldIdx, "dequeue: body read at the pre-increment read index", pos, "Get key = readIndex loaded before the increment", "the body read is not the one at the old read index")
			if ri != nil && inc != nil {
				after := false
				for _, u := range sliceLoadsField(ri.Val, T, "readIndex") {
					if instrDominates(inc, u) {
						after = true
					}
				}
				c.Check(after, "dequeue: stored read index is the advanced one", pos, "Set(ri) value loaded after the increment", "the read index written to storage is not the advanced one: the item would be dispatched again AND re-enqueued after a crash, or never")
			}
			// append of idx to the dispatched list before serialisation
			var app *ssa.Store
			for _, s := range fieldStores(fn, T, "currentlyDispatchedItems") {
				if call, ok := s.Val.(*ssa.Call); ok && builtinName(call) == "append" {
					els, _ := variadicElems(call.Call.Args[1])
					for _, e := range els {
						if get.KeyIdx != nil && sameValue(e, get.KeyIdx) {
							app = s
						}
					}
				}
			}
			if app == nil {
				c.Bad("dequeue: index appended to the dispatched list", pos, "the dequeued index is not appended to currentlyDispatchedItems")
			} else if di != nil {
				after := false
				for _, u := range sliceLoadsField(di.Val, T, "currentlyDispatchedItems") {
					if instrDominates(app, u) {
						after = true
					}
				}
				c.Check(after, "dequeue: dispatched list serialised after the append", p.Pos(app.Pos()), "append dominates the serialisation", "the dispatched list is serialised before the index is appended: a crash after this batch loses the in-flight request")
			}
			// refClient++ only on success
			for _, s := range fieldStores(fn, T, "refClient") {
				c.Check(errGuardOn(s.Block(), B.Call, true) || guardedByNilOfPhiFrom(s.Block(), B.Call), "dequeue: client referenced only for a dispatched item", p.Pos(s.Pos()), "refClient++ on the success side", "refClient++ on a failing path")
			}
		}
	}
	// ----- R3
	c.Rule("R3", "WHO+GATE", "an item body can be deleted only by: the completion callback on the not-shutdown side of experr.IsShutdownErr(consumer error), the dequeue-failure path, and start-up recovery; the done object forwards the consumer's error unchanged", 5)
	{
		all := p.AllSrcFuncs(a.pk)
		dyn := map[string]bool{}
		sites := map[*ssa.Function]int{}
		for _, fn := range all {
			allInstrs(fn, func(in ssa.Instruction) {
				if ci, ok := in.(ssa.CallInstruction); ok {
					if ci.Common().IsInvoke() {
						dyn[ci.Common().Method.Name()] = true
					} else if cf := staticCalleeFn(ci); cf != nil {
						sites[cf]++
					}
				}
			})
		}
		// functions that (transitively, through static calls) reach a storage delete
		hasDelete := func(fn *ssa.Function) []ssa.Instruction {
			var out []ssa.Instruction
			for _, b := range batchCalls(fn) {
				if b.has("Delete", "") != nil || !b.Full {
					if b.has("Delete", "") != nil {
						out = append(out, b.Call)
					}
				}
			}
			for _, sc := range storageCalls(fn, "Delete") {
				out = append(out, sc)
			}
			return out
		}
		dr := map[*ssa.Function]bool{}
		for _, fn := range all {
			if len(hasDelete(fn)) > 0 {
				dr[fn] = true
			}
		}
		for changed := true; changed; {
			changed = false
			for _, fn := range all {
				if dr[fn] {
					continue
				}
				// the dequeue and completion functions gate their deletes internally (checked below):
				// reaching them is not reaching an ungated delete
				for _, ci := range calls(fn, func(ci ssa.CallInstruction) bool {
					cf := staticCalleeFn(ci)
					return cf != nil && dr[cf] && cf != a.dequeue && cf != a.complete
				}) {
					_ = ci
					dr[fn] = true
					changed = true
					break
				}
			}
		}
		startup := runLock(p, queueLockClass(p)).Startup
		check := func(fn *ssa.Function, in ssa.Instruction, what string) {
			site := what + " in " + fnName(fn)
			root := rootFn(fn)
			switch {
			case root == a.dequeue:
				guarded := false
				for _, g := range guardsOf(in.Block()) {
					op, x, y, ok := cmpOf(g)
					if ok && op == token.NEQ && (isNilConst(x) || isNilConst(y)) {
						guarded = true
					}
				}
				c.Check(guarded, site, p.Pos(in.Pos()), "only on the err!=nil side (item could not be read/decoded)", "dequeue deletes the item on a path that is not an error path")
			case root == a.complete:
				errParam := lastErrorParam(root)
				guarded := false
				for _, g := range guardsOf(in.Block()) {
					v, br := boolOf(g)
					if cc, ok := v.(*ssa.Call); ok && isFunc(calleeOf(cc), pkgExperr, "IsShutdownErr") && !br {
						if errParam != nil && sameValue(cc.Call.Args[0], errParam) {
							guarded = true
						}
					}
				}
				c.Check(guarded, site, p.Pos(in.Pos()), "on the false side of experr.IsShutdownErr(consumeErr)", "the completion callback deletes the item without the shutdown-error guard on the consumer's error: a hand-off interrupted by shutdown loses the request")
			case startup[root] || root == a.recovery:
				c.OK(site, p.Pos(in.Pos()), "start-up recovery (reachable only from Start)")
			default:
				obj := root.Object()
				helper := obj != nil && !dyn[root.Name()] && sites[root] > 0 && (!obj.Exported() || (recvNamedOfFn(root) != nil && !recvNamedOfFn(root).Obj().Exported()))
				if helper && fn.Parent() == nil {
					c.OK(site, p.Pos(in.Pos()), "helper: only callable through its static call sites, which are checked themselves")
				} else {
					c.Bad(site, p.Pos(in.Pos()), "an item body can be deleted from an entry point outside {completion callback, dequeue-failure path, start-up recovery}")
				}
			}
		}
		for _, fn := range all {
			if !dr[fn] {
				continue
			}
			for _, in := range hasDelete(fn) {
				check(fn, in, "storage delete")
			}
			for _, ci := range calls(fn, func(ci ssa.CallInstruction) bool {
				cf := staticCalleeFn(ci)
				return cf != nil && dr[cf] && cf != a.dequeue && cf != a.complete
			}) {
				check(fn, ci, "call of delete-reaching "+staticCalleeFn(ci).Name())
			}
		}
		// done object forwards the error
		for _, fn := range p.AllSrcFuncs(a.pk) {
			if fn.Name() != "OnDone" || fn.Parent() != nil {
				continue
			}
			for _, ci := range calls(fn, func(ci ssa.CallInstruction) bool {
				return ci.Common().IsInvoke() && ci.Common().Method.Name() == "onDone"
			}) {
				args := ci.Common().Args
				last := args[len(args)-1]
				_, isParam := strip(last).(*ssa.Parameter)
				c.Check(isParam, "done object forwards the consumer error: "+fnName(fn), p.Pos(ci.Pos()), "error parameter passed unchanged", "the done object does not pass the consumer's error to the queue")
			}
		}
	}
	// ----- R4
	c.Rule("R4", "ORD", "start-up recovery is copy-then-delete: no path leads from a storage call carrying Delete operations to the enqueue call", 1)
	if a.recovery == nil {
		c.Anchor("recovery method (deletes item bodies and calls enqueue)")
	} else {
		fn := a.recovery
		// the (re-)enqueue calls: of the enqueue method itself, or of a helper that makes it
		enq := putSitesA1(fn, a, 3)
		for _, d := range deleteBeforeEnqueueInHelpersA1(fn, a, 3, true) {
			c.Bad("recovery: delete batch reached through a helper in "+fnName(d.Parent()), p.Pos(d.Pos()), "item bodies are deleted (inside a helper) before they are re-enqueued: a crash after that storage call and before the last re-enqueue loses the in-flight requests")
		}
		for _, b := range batchCalls(fn) {
			if b.has("Delete", "") == nil {
				continue
			}
			bad := false
			for _, e := range enq {
				if canReach(b.Call, e, nil) {
					bad = true
				}
			}
			c.Check(!bad, "recovery: delete batch in "+fnName(fn), p.Pos(b.Call.Pos()), "no enqueue call is reachable after the delete batch", "item bodies are deleted before they are re-enqueued: a crash after this storage call and before the last re-enqueue loses the in-flight requests")
		}
	}
	runC01Chain(c, a)
	runC01Recovery(c, a)
	runC01Recovery2(c, a)
	runC01Round3(c, a)
	runC01Shares4(c)
	runC01RecoveryNoWait(c, a)
	runC01RecoveryReadError(c, a)
	runC01DispatchError(c, a)
	// ----- R6
	c.Rule("R6", "WHO+GATE+PAIR", "the storage client is closed only by the unref helper under refCount==0; the completion callback always releases its reference (deferred unref)", 3)
	{
		for _, fn := range p.AllSrcFuncs(a.pk) {
			for _, cl := range storageCalls(fn, "Close") {
				if fn != a.unref {
					c.Bad("storage Close in "+fnName(fn), p.Pos(cl.Pos()), "the storage client is closed outside the unref helper: in-flight completions would fail to delete their items")
					continue
				}
				guarded := false
				for _, g := range guardsOf(cl.Block()) {
					op, x, y, ok := cmpOf(g)
					if !ok || op != token.EQL {
						continue
					}
					k, isC := constInt(y)
					if isC && k == 0 && len(sliceLoadsField(x, T, "refClient")) > 0 {
						guarded = true
					}
				}
				c.Check(guarded, "storage Close guarded by refClient==0", p.Pos(cl.Pos()), "Close only when the last reference is dropped", "Close is not guarded by refClient==0")
			}
		}
		dec := false
		for _, s := range fieldStores(a.unref, T, "refClient") {
			if isIncrementOf(s, T, "refClient", -1) {
				dec = true
			}
		}
		c.Check(dec, "unref decrements the reference count", p.Pos(a.unref.Pos()), "refClient--", "unref helper does not decrement refClient")
		// completion: deferred unref on every path
		unrefObj := funcObj(a.unref)
		okDefer := false
		allInstrs(a.complete, func(in ssa.Instruction) {
			d, ok := in.(*ssa.Defer)
			if !ok {
				return
			}
			if calleeOf(d) == unrefObj {
				okDefer = d.Block() == a.complete.Blocks[0]
			}
			// the deferred function (method, function or closure literal) is a wrapper of the unref: it makes the
			// call on every one of its paths, and the defer statement itself lies on every path of the completion
			if cf := helperCalleeA1(d); cf != nil && cf != a.unref && deferredOnEveryPathA1(d) && alwaysCallsA1(cf, unrefObj, 3) {
				okDefer = true
			}
			if mc, ok := d.Call.Value.(*ssa.MakeClosure); ok {
				cf := mc.Fn.(*ssa.Function)
				for _, uc := range callsTo(cf, unrefObj) {
					// unconditional within the closure
					if uc.Block() == cf.Blocks[0] && d.Block() == a.complete.Blocks[0] {
						okDefer = true
					}
				}
			}
		})
		c.Check(okDefer, "completion releases the client reference on every path", p.Pos(a.complete.Pos()), "unconditional deferred unref in the entry block", "the completion callback does not release its storage-client reference on every path (client leaks or is closed early)")
	}
	// ----- R7
	c.Rule("R7", "LOCK", "every read/write of the persistent queue's mutable fields (readIndex, writeIndex, currentlyDispatchedItems, queueSize, refClient, stopped) and every storage call (which serialises that state) happens with the queue mutex must-held", 20)
	lc := queueLockClass(p)
	if lc == nil {
		c.Anchor("queue lock class")
	} else {
		lc.MustHoldCall = func(ci ssa.CallInstruction) (string, bool) {
			cc := ci.Common()
			if cc.IsInvoke() && cc.Method.Pkg() != nil && cc.Method.Pkg().Path() == pkgStorage && recvNamedInterface(cc.Method) == "Client" {
				if recvNamedOfFn(rootFn(ci.Parent())) == T.Origin() {
					return T.Obj().Name() + ". storage." + cc.Method.Name(), true
				}
			}
			return "", false
		}
		res := runLock(p, lc)
		filtered := &lockResult{EntryHeld: res.EntryHeld, Startup: res.Startup, Funcs: res.Funcs}
		for _, acc := range res.Accesses {
			if strings.HasPrefix(acc.Key, T.Obj().Name()+".") || strings.HasPrefix(acc.Key, "call "+T.Obj().Name()+".") {
				filtered.Accesses = append(filtered.Accesses, acc)
			}
		}
		for _, u := range res.Unclassified {
			if strings.HasPrefix(u, T.Obj().Name()+".") {
				filtered.Unclassified = append(filtered.Unclassified, u)
			}
		}
		reportLock(c, filtered, lc)
	}
}

func anchorsState(a *pqAnchors) map[string]bool {
	if a == nil {
		return nil
	}
	return map[string]bool{"type": a.T != nil, "enqueue": a.enqueue != nil, "dequeue": a.dequeue != nil, "finish": a.finish != nil, "complete": a.complete != nil, "unref": a.unref != nil, "recovery": a.recovery != nil}
}

func lastErrorParam(fn *ssa.Function) *ssa.Parameter {
	for i := len(fn.Params) - 1; i >= 0; i-- {
		if types.Identical(fn.Params[i].Type(), types.Universe.Lookup("error").Type()) {
			return fn.Params[i]
		}
	}
	return nil
}

// guardedByNilOfPhiFrom: block is guarded by `err == nil` where err is a phi merging the
// result of call with later error results (err reused for unmarshal).
func guardedByNilOfPhiFrom(b *ssa.BasicBlock, call ssa.CallInstruction) bool {
	for _, g := range guardsOf(b) {
		op, x, y, ok := cmpOf(g)
		if !ok || op != token.EQL {
			continue
		}
		var other ssa.Value
		if isNilConst(y) {
			other = x
		} else if isNilConst(x) {
			other = y
		} else {
			continue
		}
		for v := range backSlice(other) {
			if cv, ok := call.(ssa.Value); ok && v == cv {
				return true
			}
		}
	}
	return false
}

// queueLockClass builds the lock class shared by C01.R7 / C02.R1.
func queueLockClass(p *Prog) *LockClass {
	pk := p.ByPath[pkgQB]
	if pk == nil {
		return nil
	}
	get := func(n string) *types.Named {
		tn, _ := pk.Types.Scope().Lookup(n).(*types.TypeName)
		if tn == nil {
			return nil
		}
		nn, _ := tn.Type().(*types.Named)
		return nn
	}
	a := findPQ(p)
	if a == nil {
		return nil
	}
	pq := a.T
	// memory queue: generic struct with a sync.Mutex, a *sync.Cond and a field `size`/`items`
	var mq, cond, lq, node *types.Named
	for _, n := range pk.Types.Scope().Names() {
		nn := get(n)
		if nn == nil || nn == pq {
			continue
		}
		st, ok := nn.Underlying().(*types.Struct)
		if !ok {
			continue
		}
		hasMu, hasLocker, hasCondPtr, selfPtr := false, false, false, 0
		for i := 0; i < st.NumFields(); i++ {
			ft := st.Field(i).Type()
			if typeIs(ft, "sync", "Mutex") {
				if _, isPtr := ft.(*types.Pointer); !isPtr {
					hasMu = true
				}
			}
			if typeIs(ft, "sync", "Locker") {
				hasLocker = true
			}
			if pt, ok := ft.(*types.Pointer); ok {
				if typeIs(pt.Elem(), "sync", "Cond") {
					hasCondPtr = true
				}
				if en := namedOf(pt.Elem()); en != nil && strings.HasPrefix(en.Obj().Name(), "node") {
					selfPtr++
				}
			}
		}
		switch {
		case hasMu && hasCondPtr:
			mq = nn
		case hasLocker:
			cond = nn
		case selfPtr == 2:
			lq = nn
		case selfPtr == 1 && nn.Obj().Name() == "node":
			node = nn
		}
	}
	if mq == nil || cond == nil || lq == nil || node == nil {
		return nil
	}
	muOf := func(n *types.Named) string {
		st := n.Underlying().(*types.Struct)
		for i := 0; i < st.NumFields(); i++ {
			if typeIs(st.Field(i).Type(), "sync", "Mutex") {
				return st.Field(i).Name()
			}
		}
		return ""
	}
	lockerOf := func(n *types.Named) string {
		st := n.Underlying().(*types.Struct)
		for i := 0; i < st.NumFields(); i++ {
			if typeIs(st.Field(i).Type(), "sync", "Locker") {
				return st.Field(i).Name()
			}
		}
		return ""
	}
	lc := &LockClass{Name: "queue.mu", Pkgs: []*packages.Package{pk},
		Mutexes: map[fieldKey]bool{{pq, muOf(pq)}: true, {mq, muOf(mq)}: true},
		Aliases: map[fieldKey]bool{{cond, lockerOf(cond)}: true},
		Guarded: map[fieldKey]bool{},
		NotGuarded: map[fieldKey]string{
			{pq, "client"}:          "start-up-initialised: stored only by initClient (reachable only from Start); read-only afterwards",
			{pq, "hasMoreElements"}: "constructor-immutable (set in newPersistentQueue on the fresh object)",
			{pq, "hasMoreSpace"}:    "constructor-immutable",
			{mq, "hasMoreElements"}: "constructor-immutable",
			{mq, "hasMoreSpace"}:    "constructor-immutable",
		},
		Structs: []*types.Named{pq, mq, cond, lq, node},
	}
	for _, f := range []string{"readIndex", "writeIndex", "currentlyDispatchedItems", "queueSize", "refClient", "stopped"} {
		lc.Guarded[fieldKey{pq, f}] = true
	}
	for _, f := range []string{"items", "size", "stopped"} {
		lc.Guarded[fieldKey{mq, f}] = true
	}
	// the condition variable's own state: every field but the locker and (constructor-immutable) channel references
	{
		st := cond.Underlying().(*types.Struct)
		for i := 0; i < st.NumFields(); i++ {
			if typeIs(st.Field(i).Type(), "sync", "Locker") {
				continue
			}
			if _, isChan := st.Field(i).Type().Underlying().(*types.Chan); isChan {
				continue
			}
			lc.Guarded[fieldKey{cond, st.Field(i).Name()}] = true
		}
	}
	lc.Guarded[fieldKey{lq, "head"}] = true
	lc.Guarded[fieldKey{lq, "tail"}] = true
	lc.Guarded[fieldKey{node, "next"}] = true
	// every guarded name must exist
	for k := range lc.Guarded {
		st := k.T.Underlying().(*types.Struct)
		found := false
		for i := 0; i < st.NumFields(); i++ {
			if st.Field(i).Name() == k.F {
				found = true
			}
		}
		if !found {
			return nil
		}
	}
	lc.StartRoot = func(fn *ssa.Function) bool {
		return fn.Parent() == nil && fn.Name() == "Start" && recvNamedOfFn(fn) == pq.Origin()
	}
	return lc
}

func sortedFnNames(m map[*ssa.Function]bool) []string {
	var out []string
	for f := range m {
		out = append(out, fnName(f))
	}
	sort.Strings(out)
	return out
}

func recvNamedInterface(f *types.Func) string {
	sig, ok := f.Type().(*types.Signature)
	if !ok || sig.Recv() == nil {
		return ""
	}
	if n := namedOf(sig.Recv().Type()); n != nil {
		return n.Obj().Name()
	}
	return ""
}
