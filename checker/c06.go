package main

import (
	"fmt"
	"go/token"
	"go/types"
	"os"
	"strings"

	"golang.org/x/tools/go/ssa"
)

const (
	pkgFanout   = modPrefix + "/internal/fanoutconsumer"
	pkgConsumer = modPrefix + "/consumer"
	pkgCapCons  = modPrefix + "/service/internal/capabilityconsumer"
)

func init() {
	register(&Property{
		ID:         "C06",
		Run:        runC06,
		Explain:    "Static structural necessary conditions of fan-out isolation, checked independently on each of the four sibling implementations (logs/metrics/traces/profiles; the outcomes must agree): (R1) clone discipline – every send to a mutating consumer passes a fresh clone, or the incoming payload at most at one site, outside loops, guarded by len(readonly)==0 and !payload.IsReadOnly(); every send to a read-only consumer passes the incoming payload; (R2) the clone function returns a fresh payload that was the destination of CopyTo from its argument; (R3) MarkReadOnly lies after the mutable sends and before the read-only sends and is skipped only when fewer than two read-only consumers share the payload or it is already read-only; (R4) every consumer is called (loops exit only at their index bound, the mutable loop covers [0,len-1) and the remaining element is sent separately, the read-only loop ranges over all), every result flows into the single returned accumulator; (R5) the constructor partitions consumers by Capabilities().MutatesData and the fan-out advertises mutation only when all consumers mutate; (R6) the MutatesData advertised by a pipeline's capabilities node depends on the fan-out node and every processor, the connector's aggregate on itself and all next consumers, and the exporter helper adds MutatesData whenever either batching configuration is enabled.",
		NotDecided: "Equality of the cloned content (C07/C08); mutation performed asynchronously after return other than through the never-share rule; that third-party consumers honour their declared capabilities.",
		Assumes:    []string{"pdata CopyTo produces an independent deep copy (C07)", "MarkReadOnly makes all mutators panic (C07.R1)"},
		Technique:  "static analysis: value provenance and guard sets on SSA, loop-exit classification, backward-slice dependence, sibling cross-check",
	})
}

func runC06(c *Ctx) {
	p := c.P
	fpk := p.ByPath[pkgFanout]
	c.Rule("R1", "PROV+GATE", "sends to mutating consumers pass a fresh clone or (once, outside loops, under len(readonly)==0 && !IsReadOnly) the incoming payload; sends to read-only consumers pass the incoming payload", 12)
	if fpk == nil {
		c.Anchor("internal/fanoutconsumer")
		return
	}
	type fan struct {
		T         *types.Named
		consume   *ssa.Function
		mutF, roF string
		signal    string
	}
	var fans []fan
	for _, fn := range p.AllSrcFuncs(fpk) {
		if fn.Parent() != nil || !strings.HasPrefix(fn.Name(), "Consume") || fn.Name() == "Consume" {
			continue
		}
		T := recvNamedOfFn(fn)
		if T == nil {
			continue
		}
		st, ok := T.Underlying().(*types.Struct)
		if !ok {
			continue
		}
		f := fan{T: T, consume: fn, signal: strings.TrimPrefix(fn.Name(), "Consume")}
		nMut, nRo := 0, 0
		for i := 0; i < st.NumFields(); i++ {
			if _, isSl := st.Field(i).Type().Underlying().(*types.Slice); !isSl {
				continue
			}
			n := strings.ToLower(st.Field(i).Name())
			if strings.Contains(n, "mut") {
				nMut++
				f.mutF = st.Field(i).Name()
			} else if strings.Contains(n, "read") {
				nRo++
				f.roF = st.Field(i).Name()
			}
		}
		if nMut != 1 || nRo != 1 {
			// the names do not tell the two lists apart (renamed fields): identify them by what the constructor does
			f.mutF, f.roF = fanListsByEffectA3(p, p.AllSrcFuncs(fpk), T)
		}
		if f.mutF != "" && f.roF != "" {
			fans = append(fans, f)
		}
	}
	if len(fans) != 4 {
		c.Undecided("fan-out consumer types", "-", fmt.Sprintf("expected 4 sibling fan-out types with mutable/readonly lists, found %d", len(fans)))
	}
	for _, f := range fans {
		c.Rule("R1", "", "", 0)
		fn := f.consume
		payload := fn.Params[len(fn.Params)-1]
		tag := "[" + f.signal + "] "
		// the method itself and the same-package helpers it hands the payload to (a section of the method that was
		// extracted): a send inside a helper stands, in the method, where the helper is called, under the guards of
		// that call in addition to its own
		bodies := fanBodiesA3(fn, payload)
		bodyOfFn := map[*ssa.Function]*fanBodyA3{}
		for _, b := range bodies {
			bodyOfFn[b.fn] = b
		}
		payloadIn := func(g *ssa.Function) ssa.Value {
			if b := bodyOfFn[g]; b != nil {
				return b.payload
			}
			return payload
		}
		at := func(in ssa.Instruction) ssa.Instruction {
			if b := bodyOfFn[in.Parent()]; b != nil && b.call != nil {
				return b.call.(ssa.Instruction)
			}
			return in
		}
		allGuards := func(in ssa.Instruction, own []Guard) []Guard {
			if a := at(in); a != in {
				return append(append([]Guard{}, own...), guardsOf(a.Block())...)
			}
			return own
		}
		inLoop := func(in ssa.Instruction) bool {
			if h, _ := innermostLoop(in.Block()); h != nil {
				return true
			}
			if a := at(in); a != in {
				h, _ := innermostLoop(a.Block())
				return h != nil
			}
			return false
		}
		reach := func(a, b ssa.Instruction) bool {
			if a.Parent() == b.Parent() {
				return canReach(a, b, nil)
			}
			return canReach(at(a), at(b), nil)
		}
		isNotReadOnlyGuard := func(g Guard) bool {
			v, br := boolOf(g)
			call, ok := v.(*ssa.Call)
			return ok && calleeOf(call) != nil && calleeOf(call).Name() == "IsReadOnly" && !br && len(call.Call.Args) == 1 && call.Call.Args[0] == payloadIn(call.Parent())
		}
		var sends []ssa.CallInstruction
		for _, b := range bodies {
			allInstrs(b.fn, func(in ssa.Instruction) {
				ci, ok := in.(ssa.CallInstruction)
				if !ok || !ci.Common().IsInvoke() || ci.Common().Method.Name() != fn.Name() {
					return
				}
				sends = append(sends, ci)
			})
		}
		listOf := func(ci ssa.CallInstruction) string {
			for v := range backSlice(ci.Common().Value) {
				if fa, ok := v.(*ssa.FieldAddr); ok && namedOf(fa.X.Type()) == f.T {
					return derefStruct(fa.X.Type()).Field(fa.Field).Name()
				}
			}
			return ""
		}
		isClone := func(v ssa.Value) (bool, *ssa.Function) {
			call, ok := strip(v).(*ssa.Call)
			if !ok {
				return false, nil
			}
			cf := staticCalleeFn(call)
			if cf == nil || cf.Pkg == nil || cf.Pkg.Pkg.Path() != pkgFanout || len(call.Call.Args) != 1 || call.Call.Args[0] != payloadIn(call.Parent()) {
				return false, nil
			}
			return true, cf
		}
		var cloneFn *ssa.Function
		var mutSends, roSends []ssa.CallInstruction
		origToMutable := 0
		for _, s := range sends {
			arg := s.Common().Args[len(s.Common().Args)-1]
			switch listOf(s) {
			case f.mutF:
				mutSends = append(mutSends, s)
				// the payload argument may be chosen on the way to the call (`x := payload; if shared { x = clone }`):
				// every alternative is judged under the conditions that select it
				looped := inLoop(s)
				origHere := false
				for _, alt := range valueAlternativesA3(arg, s.Block()) {
					if ok, cf := isClone(alt.v); ok {
						cloneFn = cf
						c.OK(tag+"mutating consumer receives a clone", p.Pos(s.Pos()), "argument is clone(payload)")
						continue
					}
					if alt.v == payloadIn(s.Parent()) {
						if !origHere {
							origToMutable++ // counted per call site, not per way of choosing the argument
						}
						origHere = true
						gEmpty, gMutable := false, false
						for _, g := range allGuards(s, alt.guards) {
							if lenIsZeroA3(g, f.T, f.roF) {
								gEmpty = true
							}
							if isNotReadOnlyGuard(g) {
								gMutable = true
							}
						}
						c.Check(!looped && gEmpty && gMutable, tag+"original payload reaches a mutating consumer only when nothing is shared", p.Pos(s.Pos()), "outside loops, under len(readonly)==0 && !IsReadOnly()", fmt.Sprintf("in loop=%v, guarded by len(readonly)==0=%v, guarded by !IsReadOnly()=%v: a mutating consumer can change data another consumer (or the caller) still reads", looped, gEmpty, gMutable))
						continue
					}
					c.Bad(tag+"mutating consumer receives clone or original", p.Pos(s.Pos()), "payload argument is neither clone(payload) nor the incoming payload")
				}
			case f.roF:
				roSends = append(roSends, s)
				c.Check(arg == payloadIn(s.Parent()), tag+"read-only consumer receives the incoming payload", p.Pos(s.Pos()), "incoming payload", "a read-only consumer is sent something other than the incoming payload")
			default:
				c.Undecided(tag+"send to a consumer of unknown list", p.Pos(s.Pos()), "receiver does not come from the mutable or readonly list")
			}
		}
		c.Check(origToMutable <= 1, tag+"at most one mutating consumer receives the original", p.Pos(fn.Pos()), fmt.Sprintf("%d site(s)", origToMutable), "several mutating consumers receive the same payload")

		// R2 clone function
		c.Rule("R2", "PROV", "the clone function returns a fresh New<Signal>() that was the destination of CopyTo from its argument", 4)
		if cloneFn == nil {
			c.Bad(tag+"clone function", p.Pos(fn.Pos()), "no clone function is used")
		} else {
			ok := false
			for _, r := range returnsOf(cloneFn) {
				res, isCall := strip(resultsOf(r)[0]).(*ssa.Call)
				if !isCall || calleeOf(res) == nil || !strings.HasPrefix(calleeOf(res).Name(), "New") || len(res.Call.Args) != 0 {
					continue
				}
				for _, cp := range callsNamed(cloneFn, func(g *types.Func) bool { return g.Name() == "CopyTo" }) {
					a := cp.Common().Args
					if len(a) == 2 && a[0] == ssa.Value(cloneFn.Params[0]) && strip(a[1]) == ssa.Value(res) && instrDominates(cp, r) {
						ok = true
					}
				}
			}
			c.Check(ok, tag+"clone is a fresh deep copy", p.Pos(cloneFn.Pos()), "New(); src.CopyTo(new); return new", "the clone function does not return a fresh payload filled by CopyTo from its argument (shallow or partial clone)")
		}

		// R3 MarkReadOnly
		c.Rule("R3", "ORD+GATE", "MarkReadOnly on the payload lies after every send to a mutating consumer and before every send to a read-only consumer, outside loops, skipped only under len(readonly) ≤ 1 or payload already read-only", 4)
		var marks []ssa.CallInstruction
		for _, b := range bodies {
			marks = append(marks, callsNamed(b.fn, func(g *types.Func) bool { return g.Name() == "MarkReadOnly" })...)
		}
		if len(marks) != 1 || marks[0].Common().Args[0] != payloadIn(marks[0].Parent()) {
			c.Bad(tag+"payload shared by read-only consumers is marked read-only", p.Pos(fn.Pos()), fmt.Sprintf("%d MarkReadOnly calls on the payload", len(marks)))
		} else {
			m := marks[0]
			okOrd := true
			for _, s := range mutSends {
				if reach(m, s) {
					okOrd = false
				}
			}
			for _, s := range roSends {
				if !reach(m, s) || reach(s, m) {
					okOrd = false
				}
			}
			markLooped := inLoop(m)
			okGuards := true
			var why []string
			for _, g := range allGuards(m, guardsOf(m.Block())) {
				good := false
				if op, k, ok := lenCmpA3(g, f.T, f.roF); ok { // len on either side of the comparison
					if (op == token.GTR && (k == 0 || k == 1)) || (op == token.GEQ && (k == 1 || k == 2)) || (op == token.NEQ && k == 0) {
						good = true
					}
				}
				if isNotReadOnlyGuard(g) {
					good = true
				}
				if !good {
					okGuards = false
					why = append(why, fmt.Sprintf("extra guard at %s", p.Pos(g.If.Pos())))
				}
			}
			c.Check(okOrd && !markLooped && okGuards, tag+"payload shared by read-only consumers is marked read-only", p.Pos(m.Pos()), "after mutable sends, before read-only sends, skipped only when not shared / already read-only", fmt.Sprintf("ordering ok=%v, outside loop=%v, guards ok=%v %v", okOrd, !markLooped, okGuards, why))
		}

		// R4 everyone is called; aggregate
		c.Rule("R4", "ORD+DEP", "every consumer is invoked: loops exit only at their index bound; the mutable loop runs over [0,len-1) with the remaining element sent separately; the read-only loop ranges over the whole list; every result flows into the single returned accumulator", 8)
		rs := returnsOf(fn)
		if len(rs) != 1 {
			c.Bad(tag+"single return of the accumulator", p.Pos(fn.Pos()), fmt.Sprintf("%d returns: an early return skips consumers", len(rs)))
		} else {
			sl := backSlice(resultsOf(rs[0])[0])
			all := true
			for _, s := range sends {
				if a := at(s); a != ssa.Instruction(s) {
					// a send inside a helper: its result reaches the helper's single returned value, and the helper's
					// result reaches the method's
					hv, isV := a.(ssa.Value)
					hrs := returnsOf(s.Parent())
					if !isV || !sl[hv] || len(hrs) != 1 || len(resultsOf(hrs[0])) != 1 || !backSlice(resultsOf(hrs[0])[0])[s.(ssa.Value)] {
						all = false
					}
					continue
				}
				if !sl[s.(ssa.Value)] {
					all = false
				}
			}
			c.Check(all, tag+"every consumer's error is aggregated into the returned error", p.Pos(rs[0].Pos()), "all results in the slice of the returned value", "a consumer's result does not flow into the returned error")
		}
		for _, s := range sends {
			hdr, _ := innermostLoop(s.Block())
			if hdr == nil {
				continue
			}
			okExit := loopHasOnlyConditionExit(s.Block())
			// the loop condition is a pure index-bound test: header If cond = idx < bound with bound from len(list) [-1]
			// (index form `i < len(list)[-1]`, or a range over the list / over list[:len(list)-1])
			bound := rangeLoopBoundA3(hdr, f.T, listOf(s))
			okBound := bound != ""
			c.Check(okExit && okBound, tag+"loop over "+listOf(s)+" consumers visits every index", p.Pos(s.Pos()), "exits only at its index bound ("+bound+")", fmt.Sprintf("only-condition exit=%v, pure index bound=%v: an earlier failure (or another condition) makes later consumers miss the payload", okExit, okBound))
			if listOf(s) == f.mutF && bound == "len-1" {
				// the remaining element: a non-loop send whose receiver index is len-1
				rest := false
				for _, t := range mutSends {
					if inLoop(t) {
						continue
					}
					for v := range backSlice(t.Common().Value) {
						if ia, ok := v.(*ssa.IndexAddr); ok {
							if sub, ok := ia.Index.(*ssa.BinOp); ok && sub.Op == token.SUB && isLenOfField(sub.X, f.T, f.mutF) {
								if k, isC := constInt(sub.Y); isC && k == 1 {
									rest = true
								}
							}
						}
					}
				}
				c.Check(rest, tag+"the last mutating consumer is sent to separately", p.Pos(s.Pos()), "mutable[len-1] receives the payload after the loop", "the loop stops at len-1 but no send to mutable[len-1] exists")
			}
			if listOf(s) == f.roF {
				c.Check(bound == "len", tag+"read-only loop ranges over the whole list", p.Pos(s.Pos()), "bound len(readonly)", "the read-only loop does not cover the whole list")
			}
		}
		// every path of the mutable section sends to the last consumer: the non-loop mutable sends are
		// on complementary branches
		nonLoop := 0
		for _, t := range mutSends {
			if !inLoop(t) {
				nonLoop++
			}
		}
		c.Check(nonLoop >= 1, tag+"the mutable section always serves its last consumer", p.Pos(fn.Pos()), fmt.Sprintf("%d non-loop send(s)", nonLoop), "no send to the last mutating consumer")
	}

	// R5 constructors
	c.Rule("R5", "DEP", "the fan-out constructor partitions consumers by Capabilities().MutatesData into the mutable / read-only lists; the fan-out advertises MutatesData only when all consumers mutate", 8)
	for _, f := range fans {
		tag := "[" + f.signal + "] "
		for _, fn := range p.AllSrcFuncs(fpk) {
			if fn.Parent() != nil {
				continue
			}
			// constructor: stores (appends) into both lists
			ms, rs := fieldStores(fn, f.T, f.mutF), fieldStores(fn, f.T, f.roF)
			if len(ms) == 0 || len(rs) == 0 || recvNamedOfFn(fn) != nil {
				continue
			}
			capDep := func(b *ssa.BasicBlock, want bool) bool {
				for _, g := range guardsOf(b) {
					v, br := boolOf(g)
					isCap := false
					for x := range backSlice(v) {
						if call, ok := x.(*ssa.Call); ok && call.Call.IsInvoke() && call.Call.Method.Name() == "Capabilities" {
							isCap = true
						}
					}
					if isCap && br == want {
						return true
					}
				}
				return false
			}
			// the decision is taken where an element is appended: in place (`x.list = append(x.list, c)`) or to a local
			// accumulator that is stored into the field afterwards (`&T{list: local}`)
			appendsUnder := func(stores []*ssa.Store, want bool) bool {
				n := 0
				for _, st := range stores {
					for _, ap := range appendsFeedingA3(st.Val) {
						n++
						if !capDep(ap.Block(), want) {
							return false
						}
					}
				}
				return n > 0
			}
			c.Check(appendsUnder(ms, true), tag+"consumers declaring MutatesData go to the mutable list", p.Pos(ms[0].Pos()), "append under MutatesData==true", "a consumer is classified as mutable regardless of (or against) its declared capability")
			c.Check(appendsUnder(rs, false), tag+"consumers not declaring MutatesData go to the read-only list", p.Pos(rs[0].Pos()), "append under MutatesData==false", "a consumer is classified as read-only regardless of (or against) its declared capability")
		}
		// Capabilities(): MutatesData = len(mutable)>0 && len(readonly)==0
		for _, fn := range p.AllSrcFuncs(fpk) {
			if fn.Parent() != nil || fn.Name() != "Capabilities" || recvNamedOfFn(fn) != f.T {
				continue
			}
			dm, dr := false, false
			for _, r := range returnsOf(fn) {
				for v := range backSlice(resultsOf(r)[0]) {
					if isLenOfField(v, f.T, f.mutF) {
						dm = true
					}
					if isLenOfField(v, f.T, f.roF) {
						dr = true
					}
				}
			}
			// walk all instructions (struct literal built via Alloc)
			allInstrs(fn, func(in ssa.Instruction) {
				if v, ok := in.(ssa.Value); ok {
					if isLenOfField(v, f.T, f.mutF) {
						dm = true
					}
					if isLenOfField(v, f.T, f.roF) {
						dr = true
					}
				}
			})
			c.Check(dm && dr, tag+"fan-out capability depends on both lists", p.Pos(fn.Pos()), "len(mutable), len(readonly)", "the advertised MutatesData ignores the read-only (or mutable) list: upstream may hand over data it still shares")
		}
	}

	// R7 deep-copy preconditions shared with C07
	pi := loadPdata(p)
	if len(pi.pkgs) >= 9 {
		sub := NewCtx(p, "C07", c.Tier, c.Config)
		runC07State(sub, pi)
		runC07Scalar(sub, pi)
		c.Rule("R7", "PROV+WHO", "clone independence preconditions (same rules as C07.R4/R6): every view derived from a payload carries that payload's state, and the scalar one-of wrappers that Value.CopyTo shares between a payload and its clone are never modified in place", 2)
		for _, o := range sub.Obs {
			if strings.HasPrefix(o.Construct, "floor:") {
				continue
			}
			c.add(o.Verdict, o.Construct, o.Pos, o.Detail)
		}
	}

	// R8 undeclared mutation of shared data panics (C07.R1)
	if len(pi.pkgs) >= 9 {
		sub := NewCtx(p, "C07", c.Tier, c.Config)
		runC07(sub)
		c.Rule("R8", "EFF", "an undeclared mutation of shared read-only data panics instead of corrupting a sibling (same rule as C07.R1): every exported pdata operation that writes a payload asserts mutability before its first write, also when the write goes through a value obtained from the receiver", 400)
		for _, o := range sub.Obs {
			if o.Rule == "C07.R1" && !strings.HasPrefix(o.Construct, "floor:") {
				c.add(o.Verdict, o.Construct, o.Pos, o.Detail)
			}
		}
	}

	// R9 receivers always emit into a fan-out consumer
	c.Rule("R9", "PROV", "a receiver node hands its receiver the fan-out consumer built over all next consumers on every path (also for a single next consumer): the fan-out is what clones a read-only payload for a mutating pipeline", 4)
	if gpk := p.ByPath[pkgGraph]; gpk != nil {
		n := 0
		for _, fn := range p.AllSrcFuncs(gpk) {
			T := recvNamedOfFn(rootFn(fn))
			if T == nil || T.Obj().Name() != "receiverNode" {
				continue
			}
			for _, ci := range calls(fn, func(ci ssa.CallInstruction) bool {
				f := calleeOf(ci)
				return f != nil && strings.HasPrefix(f.Name(), "Create") && len(ci.Common().Args) >= 3
			}) {
				args := ci.Common().Args
				next := args[len(args)-1]
				if _, isIface := next.Type().Underlying().(*types.Interface); !isIface {
					continue
				}
				n++
				call, isCall := strip(next).(*ssa.Call)
				isFan := func(cl *ssa.Call) bool {
					return calleeOf(cl) != nil && calleeOf(cl).Pkg() != nil && calleeOf(cl).Pkg().Path() == modPrefix+"/internal/fanoutconsumer"
				}
				okF := isCall && isFan(call)
				if isCall && !okF {
					// a local helper all of whose returns are fan-out constructor results
					if cf := staticCalleeFn(call); cf != nil && cf.Pkg == fn.Pkg && len(cf.Blocks) > 0 {
						all := true
						for _, r := range returnsOf(cf) {
							rc, ok := strip(resultsOf(r)[0]).(*ssa.Call)
							if !ok || !isFan(rc) {
								all = false
							}
						}
						okF = all
					}
				}
				c.Check(okF, fmt.Sprintf("receiver node: %s receives the fan-out consumer", calleeOf(ci).Name()), p.Pos(ci.Pos()), "argument is fanoutconsumer.New*(all next consumers)", "on some path the receiver is given a next consumer directly instead of the fan-out wrapper: a read-only payload (e.g. from a shared receiver) reaches a mutating pipeline without being cloned, the processor panics or corrupts shared data")
			}
		}
		if n == 0 {
			c.Undecided("receiver node Create* calls", "-", "none found")
		}
	} else {
		c.Anchor("service/internal/graph")
	}

	// R6 capability aggregation
	c.Rule("R6", "DEP", "pipeline capability = fan-out consumer's ∨ every processor's MutatesData; connector aggregate = own ∨ every next consumer's; exporter helper declares MutatesData when either batching configuration is enabled", 4)
	runC06Caps(c)
	runC06SingleConsumer(c)
	runRouterReadOnly(c, "R11")
	runC06Shares5(c)
}

func isLenOfField(v ssa.Value, T *types.Named, field string) bool {
	call, ok := strip(v).(*ssa.Call)
	if !ok || builtinName(call) != "len" {
		return false
	}
	return isFieldAccess(call.Call.Args[0], T, field)
}

func runC06Caps(c *Ctx) {
	p := c.P
	gpk := p.ByPath[pkgGraph]
	if gpk == nil {
		c.Anchor("service/internal/graph")
		return
	}
	// capabilities node: calls to capabilityconsumer.New*(next, capability)
	n := 0
	for _, fn := range p.AllSrcFuncs(gpk) {
		for _, ci := range callsNamed(fn, func(f *types.Func) bool {
			return f.Pkg() != nil && f.Pkg().Path() == pkgCapCons && strings.HasPrefix(f.Name(), "New")
		}) {
			capArg := ci.Common().Args[1]
			n++
			site := fmt.Sprintf("%s in %s", calleeOf(ci).Name(), fnName(fn))
			// what the capability depends on, followed into a same-package helper that computes it (aggregateCap for the
			// connectors; the pipeline's aggregate may equally be computed in place or by a helper)
			src := capabilitySourcesA3(fn, capArg, ci.Common().Args[0])
			isConnector := !src.fan && !src.procs && (src.own || src.elems)
			if !src.fan && !src.procs && !src.own && !src.elems {
				_, isCall := strip(capArg).(*ssa.Call)
				isConnector = isCall
			}
			if isConnector {
				base, nexts := src.own, src.elems
				// loop over nexts has no early exit
				c.Check(base && nexts, "connector capability aggregates itself and all next consumers: "+site, p.Pos(ci.Pos()), "depends on base.Capabilities() and every next.Capabilities()", fmt.Sprintf("depends on own capabilities=%v, on next consumers=%v", base, nexts))
				continue
			}
			// graph capabilities node
			fan, procs := src.fan, src.procs
			// the fan-out's own capability enters unconditionally: some store to MutatesData in this function (or in the
			// helper) takes the field straight out of a Capabilities() result of the fan-out node's consumer (no `&&`,
			// no length test)
			direct := src.direct
			if strings.Contains(fnName(fn), "buildComponents") || fan {
				c.Check(direct, "pipeline capability takes the fan-out node's capability as it is: "+site, p.Pos(ci.Pos()), "MutatesData = fanOutNode.consumer.Capabilities().MutatesData", "the exporter stage's share of the pipeline capability is not the fan-out consumer's own capability but something derived under extra conditions (e.g. only for a single exporter): a pipeline whose exporters all mutate advertises read-only although one of them still receives the original payload")
			}
			c.Check(fan && procs, "pipeline capability aggregates fan-out and all processors: "+site, p.Pos(ci.Pos()), "depends on fanOutNode consumer and every processor", fmt.Sprintf("depends on fan-out=%v, on processors=%v: a receiver feeding several pipelines would share data with a mutating pipeline", fan, procs))
		}
	}
	if n < 8 {
		c.Undecided("capability consumer construction sites", "-", fmt.Sprintf("expected ≥ 8 (4 graph + 4 connector), found %d", n))
	}
	// exporter helper
	if f := p.LookupFunc(relPkg(pkgEHI), "NewBaseExporter"); f != nil {
		fn := p.SSAFunc(f)
		found := false
		for _, ci := range callsNamed(fn, func(g *types.Func) bool { return isFunc(g, pkgConsumer, "WithCapabilities") }) {
			found = true
			// the guard condition(s) must depend on batcherCfg.Enabled and queueCfg.Batch
			depB, depQ := false, false
			b := ci.Block()
			conds := controllingConds(b)
			for _, cv := range conds {
				for v := range backSlice(cv) {
					if fa, ok := v.(*ssa.FieldAddr); ok {
						name := derefStruct(fa.X.Type()).Field(fa.Field).Name()
						if os.Getenv("VERIF_DEBUG") != "" {
							fmt.Println("DEBUG cond", cv, "field", name, p.Pos(fa.Pos()))
						}
						if name == "batcherCfg" {
							depB = true
						}
						if name == "Batch" {
							depQ = true
						}
					}
				}
			}
			// the option must come last (it overrides an exporter's own WithCapabilities): x = append(x, opt), never append([]{opt}, x...)
			last := false
			if cv, ok := ci.(ssa.Value); ok {
				for _, f := range withAnon(fn) {
					allInstrs(f, func(in ssa.Instruction) {
						ap, ok := in.(*ssa.Call)
						if !ok || builtinName(ap) != "append" || len(ap.Call.Args) != 2 {
							return
						}
						els, _ := variadicElems(ap.Call.Args[1])
						inTail := false
						for _, e := range els {
							if strip(e) == cv {
								inTail = true
							}
						}
						inHead := false
						hels, _ := variadicElems(ap.Call.Args[0])
						for _, e := range hels {
							if strip(e) == cv {
								inHead = true
							}
						}
						if inTail && !inHead {
							last = true
						}
					})
				}
			}
			c.Check(last, "exporter helper's MutatesData option is appended behind the exporter's own options", p.Pos(ci.Pos()), "append(options, WithCapabilities(MutatesData: true))", "the option is not appended last: an exporter that passes WithCapabilities(MutatesData:false) itself (as the OTLP exporters do) keeps advertising read-only although its batcher merges and splits the payload – behind a fan-out it is handed shared read-only data and MergeSplit panics with `invalid access to shared data`")
			c.Check(depB && depQ, "exporter helper declares MutatesData when batching is enabled either way", p.Pos(ci.Pos()), "condition depends on batcherCfg.Enabled and queueCfg.Batch", fmt.Sprintf("depends on legacy batcher config=%v, on queue batch config=%v: a batching exporter would merge/split shared read-only data", depB, depQ))
		}
		if !found {
			c.Bad("exporter helper declares MutatesData when batching", p.Pos(fn.Pos()), "NewBaseExporter never adds the MutatesData capability")
		}
	} else {
		c.Anchor("NewBaseExporter")
	}
}
