package main

import (
	"fmt"
	"go/token"
	"go/types"
	"strings"

	"golang.org/x/tools/go/ssa"
)

func init() {
	register(&Property{
		ID:         "C05",
		Run:        runC05,
		Explain:    "Static structural necessary conditions of the retry sender: (R1) no attempt after a verdict – every cycle from the attempt back to itself passes the err!=nil test, the not-permanent test, the back-off-not-stopped test, the max-elapsed test and the deadline test, and the verdict side of each (and the ctx.Done / stop cases of the wait) cannot reach another attempt; the retry sender exists only when retry is enabled; (R2) the waited duration is the one the limit tests were made with, and it depends on both the exponential back-off and the throttle error's delay; (R3) the request used for later attempts is the remainder returned by OnError of the *current* request, and each OnError narrows to the error's Data() under errors.As, else keeps the request; (R4) a wait interrupted by shutdown returns a shutdown-classified error (shared with C01.R5); (R5) each attempt runs under a context derived with the configured timeout whose cancel is deferred; (R6) the sender chain is pusher → timeout → retry → obs-report → queue.",
		NotDecided: "The numeric back-off envelope, `at least the requested delay` as an inequality over durations, clock behaviour.",
		Assumes:    []string{"backoff.ExponentialBackOff and time package semantics", "consumererror.IsPermanent classifies by error chain"},
	})
}

// findRetrySend: the Send method of the struct in exporterhelper/internal that has a BackOffConfig and a channel
// field (the retry sender), and its attempt call.
func findRetrySend(p *Prog) (*ssa.Function, *types.Named, ssa.CallInstruction) {
	ipk := p.ByPath[pkgEHI]
	if ipk == nil {
		return nil, nil, nil
	}
	var send *ssa.Function
	var retryT *types.Named
	for _, fn := range p.AllSrcFuncs(ipk) {
		if fn.Parent() != nil || fn.Name() != "Send" {
			continue
		}
		T := recvNamedOfFn(fn)
		if T == nil {
			continue
		}
		st, ok := T.Underlying().(*types.Struct)
		if !ok {
			continue
		}
		hasCfg, hasCh := false, false
		for i := 0; i < st.NumFields(); i++ {
			if typeIs(st.Field(i).Type(), modPrefix+"/config/configretry", "BackOffConfig") {
				hasCfg = true
			}
			if _, ok := st.Field(i).Type().Underlying().(*types.Chan); ok {
				hasCh = true
			}
		}
		if hasCfg && hasCh {
			send, retryT = fn, T
		}
	}
	if send == nil {
		return nil, nil, nil
	}
	var attempt ssa.CallInstruction
	for _, ci := range calls(send, isSendLike) {
		attempt = ci
	}
	return send, retryT, attempt
}

func runC05(c *Ctx) {
	p := c.P
	ipk := p.ByPath[pkgEHI]
	c.Rule("R1", "GATE", "every cycle attempt→attempt passes each verdict test on its continuing side; no verdict side reaches another attempt; only the timer case of the wait continues", 8)
	if ipk == nil {
		c.Anchor("exporterhelper/internal")
		return
	}
	send, retryT, attempt := findRetrySend(p)
	if send == nil {
		c.Anchor("retry sender Send")
		return
	}
	if attempt == nil {
		c.Anchor("attempt call (next.Send) in retry Send")
		return
	}
	att := attempt.(ssa.Instruction)
	// generic check for a verdict If: verdictSucc cannot reach attempt; every cycle passes through the If
	knownVerdict := map[*ssa.If]bool{} // If → polarity of its verdict side
	checkVerdict := func(name string, iff *ssa.If, verdictTrue bool) {
		if iff != nil {
			knownVerdict[iff] = verdictTrue
		}
		if iff == nil {
			c.Bad("retry loop tests "+name, p.Pos(send.Pos()), "the test is missing: the loop would retry after this verdict")
			return
		}
		succ := iff.Block().Succs[1]
		if verdictTrue {
			succ = iff.Block().Succs[0]
		}
		reaches := false
		if len(succ.Instrs) > 0 {
			first := succ.Instrs[0]
			reaches = first == att || canReach(first, att, nil)
		}
		c.Check(!reaches, "verdict side of `"+name+"` makes no further attempt", p.Pos(iff.Pos()), "cannot reach the attempt", "after this verdict the loop can still reach another attempt")
		cyc := canReach(att, att, map[ssa.Instruction]bool{iff: true})
		c.Check(!cyc, "every retry cycle passes the `"+name+"` test", p.Pos(iff.Pos()), "test is on every cycle", "there is a cycle attempt→attempt that bypasses this test")
	}
	findIf := func(pred func(cond ssa.Value) (bool, bool)) (*ssa.If, bool) {
		var found *ssa.If
		var vt bool
		allInstrs(send, func(in ssa.Instruction) {
			if iff, ok := in.(*ssa.If); ok {
				if m, verdictTrue := pred(iff.Cond); m {
					found, vt = iff, verdictTrue
				}
			}
		})
		return found, vt
	}
	// err == nil
	iff, vt := findIf(func(cond ssa.Value) (bool, bool) {
		bo, ok := cond.(*ssa.BinOp)
		if !ok || !(isNilConst(bo.Y) || isNilConst(bo.X)) {
			return false, false
		}
		o := bo.X
		if isNilConst(bo.X) {
			o = bo.Y
		}
		if !valueIsResultOf(o, attempt) {
			return false, false
		}
		return true, bo.Op == token.EQL
	})
	checkVerdict("err == nil (success)", iff, vt)
	if iff != nil {
		// the success side returns nil
		succ := iff.Block().Succs[1]
		if vt {
			succ = iff.Block().Succs[0]
		}
		r, ok := succ.Instrs[len(succ.Instrs)-1].(*ssa.Return)
		c.Check(ok && isNilConst(resultsOf(r)[0]), "success returns nil immediately", p.Pos(iff.Pos()), "return nil", "the success side does not return nil")
	}
	// IsPermanent
	iff, vt = findIf(func(cond ssa.Value) (bool, bool) {
		v, br := boolOf(Guard{Cond: cond, Branch: true})
		call, ok := v.(*ssa.Call)
		if !ok || !isFunc(calleeOf(call), pkgConsErr, "IsPermanent") {
			return false, false
		}
		if !valueIsResultOf(call.Call.Args[0], attempt) {
			return false, false
		}
		return true, br
	})
	checkVerdict("consumererror.IsPermanent(err)", iff, vt)
	// backoff == Stop
	iff, vt = findIf(func(cond ssa.Value) (bool, bool) {
		bo, ok := cond.(*ssa.BinOp)
		if !ok || (bo.Op != token.EQL && bo.Op != token.NEQ) {
			return false, false
		}
		k, isC := constInt(bo.Y)
		call, isCall := bo.X.(*ssa.Call)
		if !isC {
			// mirrored: backoff.Stop == delay
			k, isC = constInt(bo.X)
			call, isCall = bo.Y.(*ssa.Call)
		}
		if !isC || k != -1 || !isCall || calleeOf(call) == nil || calleeOf(call).Name() != "NextBackOff" {
			return false, false
		}
		return true, bo.Op == token.EQL
	})
	checkVerdict("backoff == backoff.Stop", iff, vt)
	// limit tests: maxElapsed and deadline. An ordering test on time.Time (`limit.Before(next)` or its mirror image
	// `next.After(limit)`, possibly negated) one of whose operands is derived from a clock reading taken inside the
	// loop (the time of the next attempt); the other operand is the limit.
	type limitTest struct {
		iff         *ssa.If
		call        *ssa.Call
		limit, next ssa.Value
		verdictTrue bool
	}
	inLoopClock := func(v ssa.Value) bool {
		for x := range backSlice(v) {
			if cc, ok := x.(*ssa.Call); ok && isFunc(calleeOf(cc), "time", "Now") && canReach(att, cc, nil) {
				return true
			}
		}
		return false
	}
	var befores []limitTest
	allInstrs(send, func(in ssa.Instruction) {
		iff, ok := in.(*ssa.If)
		if !ok {
			return
		}
		lesser, greater, holdsOn, ok := timeOrderTestA3(iff.Cond)
		if !ok {
			return
		}
		v, _ := boolOf(Guard{Cond: iff.Cond, Branch: true})
		lt := limitTest{iff: iff, call: v.(*ssa.Call), limit: lesser, next: greater, verdictTrue: holdsOn}
		if inLoopClock(lesser) && !inLoopClock(greater) {
			// `next < limit` is the continuing side
			lt.limit, lt.next, lt.verdictTrue = greater, lesser, !holdsOn
		}
		befores = append(befores, lt)
	})
	var nextRetry ssa.Value
	gotMax, gotDeadline := false, false
	for _, lt := range befores {
		b, call, recv := lt.iff, lt.call, lt.limit
		name := "limit.Before(nextRetryTime)"
		isDeadline := false
		for v := range backSlice(recv) {
			if cc, ok := v.(*ssa.Call); ok && cc.Call.IsInvoke() && cc.Call.Method.Name() == "Deadline" {
				isDeadline = true
			}
		}
		if isDeadline {
			name = "deadline.Before(nextRetryTime)"
			gotDeadline = true
		} else {
			name = "maxElapsedTime.Before(nextRetryTime)"
			gotMax = true
			// the budget runs from before the first attempt: its end is now()+MaxElapsedTime with a clock
			// reading that cannot be reached from the attempt (taken once, before the loop)
			okStart := false
			nNow := 0
			for v := range backSlice(recv) {
				if cc, ok := v.(*ssa.Call); ok && isFunc(calleeOf(cc), "time", "Now") {
					nNow++
					if !canReach(att, cc, nil) && canReach(cc, att, nil) {
						okStart = true
					} else {
						okStart = false
						break
					}
				}
			}
			c.Check(okStart && nNow > 0, "the elapsed-time budget starts before the first attempt", p.Pos(call.Pos()), "end of budget = time.Now() read before the loop + MaxElapsedTime", "the end of the elapsed-time budget is derived from a clock reading taken after an attempt: the time spent in the (slow) first attempt is not counted and attempts are made after the configured budget has elapsed")
		}
		// "the limit is earlier than the next attempt" is the verdict; the cycle may bypass this If only through the
		// "limit not set" side
		succ := b.Block().Succs[0]
		if !lt.verdictTrue {
			succ = b.Block().Succs[1]
		}
		reaches := len(succ.Instrs) > 0 && (succ.Instrs[0] == att || canReach(succ.Instrs[0], att, nil))
		c.Check(!reaches, "verdict side of `"+name+"` makes no further attempt", p.Pos(b.Pos()), "cannot reach the attempt", "the loop retries although the next attempt does not fit the limit")
		// the If must be evaluated on every cycle unless guarded off by IsZero / !has
		bypassOK := true
		if canReach(att, att, map[ssa.Instruction]bool{b: true}) {
			// allowed only via a guard of the test that asks whether the limit is set: !limit.IsZero() or the
			// `ok` result of Deadline() (written as `a && b` or as nested ifs)
			okGuard := false
			for _, g := range guardsOf(b.Block()) {
				gi := g.If
				v, br := boolOf(g)
				isSet := false
				if cc, ok := v.(*ssa.Call); ok && isMethod(calleeOf(cc), "time", "Time", "IsZero") && !br {
					isSet = true
				}
				if ex, ok := v.(*ssa.Extract); ok && br {
					if cc, ok := ex.Tuple.(*ssa.Call); ok && cc.Call.IsInvoke() && cc.Call.Method.Name() == "Deadline" {
						isSet = true
					}
				}
				if isSet && !canReach(att, att, map[ssa.Instruction]bool{b: true, gi: true}) {
					okGuard = true
				}
			}
			bypassOK = okGuard
		}
		knownVerdict[b] = lt.verdictTrue
		c.Check(bypassOK, "every retry cycle passes the `"+name+"` test (unless no limit is set)", p.Pos(b.Pos()), "on every cycle modulo limit-not-set", "a cycle bypasses the limit test")
		if nextRetry == nil {
			nextRetry = lt.next
		} else if !sameValue(nextRetry, lt.next) {
			nextRetry = nil
		}
	}
	c.Check(gotMax, "retry loop tests max elapsed time", p.Pos(send.Pos()), "present", "no max-elapsed-time test: retries continue beyond the configured budget")
	c.Check(gotDeadline, "retry loop tests the request deadline", p.Pos(send.Pos()), "present", "no deadline test")
	// select cases. The wait may live in Send itself or in a helper of the same package that Send calls (and that
	// waits on every one of its paths): the cases are then followed through the helper's returns and the tests Send
	// makes on the helper's result.
	ws := findWaitSiteA3(send)
	var sel *ssa.Select
	var waitInstr ssa.Instruction
	if ws != nil {
		sel, waitInstr = ws.sel, ws.instr()
	}
	var waitDur ssa.Value
	if sel != nil {
		// "retried if and only if": between an attempt and the wait, Send gives up only on the verdicts the
		// property names (success, permanent error, back-off exhausted, budget, deadline) – no other early return
		for _, r := range returnsOf(send) {
			if !canReach(att, r, map[ssa.Instruction]bool{waitInstr: true}) {
				continue
			}
			okV := false
			for _, g := range guardsOf(r.Block()) {
				if pol, ok := knownVerdict[g.If]; ok && pol == g.Branch {
					okV = true
				}
			}
			c.Check(okV, fmt.Sprintf("return at %s (before the wait) is one of the named verdicts", p.Pos(r.Pos())), p.Pos(r.Pos()), "guarded by success / permanent / back-off stop / budget / deadline", "after a failed attempt Send gives up under a condition that is none of the verdicts of the property (success, permanent error, back-off exhausted, elapsed-time budget, request deadline): e.g. an attempt that ended with a context error – the per-attempt timeout of a hung backend – is not retried although the request itself is still alive")
		}
	}
	if sel == nil {
		c.Bad("retry wait select", p.Pos(send.Pos()), "no select")
	} else {
		c.Check(!canReach(att, att, map[ssa.Instruction]bool{waitInstr: true}) && ws.alwaysWaits(), "every retry cycle waits in the select", p.Pos(sel.Pos()), "select on every cycle", "a cycle retries without waiting")
		for i, stt := range sel.States {
			kind := "other"
			for v := range backSlice(stt.Chan) {
				if cc, ok := v.(*ssa.Call); ok {
					if cc.Call.IsInvoke() && cc.Call.Method.Name() == "Done" {
						kind = "ctx.Done"
					}
					if f := calleeOf(cc); f != nil && (f.FullName() == "time.After" || f.FullName() == "time.NewTimer") {
						// time.After(d), or the channel of a timer made with time.NewTimer(d)
						kind = "timer"
						waitDur = ws.toOuter(cc.Call.Args[0])
					}
				}
			}
			if kind == "other" {
				// a channel handed to the helper: classify the argument of the call
				for v := range backSlice(ws.toOuter(stt.Chan)) {
					if cc, ok := v.(*ssa.Call); ok {
						if cc.Call.IsInvoke() && cc.Call.Method.Name() == "Done" {
							kind = "ctx.Done"
						}
						if f := calleeOf(cc); f != nil && (f.FullName() == "time.After" || f.FullName() == "time.NewTimer") {
							kind = "timer"
							waitDur = cc.Call.Args[0]
						}
					}
				}
			}
			if isFieldAccess(stt.Chan, retryT, "stopCh") || (kind == "other" && (len(sliceLoadsFieldAny(stt.Chan, retryT)) > 0 || len(sliceLoadsFieldAny(ws.toOuter(stt.Chan), retryT)) > 0)) {
				kind = "stop"
			}
			// blocks under index==i
			for _, rb := range ws.caseBlocks(i) {
				reaches := ws.caseReaches(rb, att)
				switch kind {
				case "ctx.Done", "stop":
					c.Check(!reaches, "wait case "+kind+" ends the retries", p.Pos(sel.Pos()), "returns", "the "+kind+" case continues to another attempt")
				case "timer":
					c.Check(reaches, "wait case timer continues", p.Pos(sel.Pos()), "loops", "the timer case does not retry")
				}
			}
		}
	}
	// retry sender only when enabled
	if f := p.LookupFunc(relPkg(pkgEHI), "NewBaseExporter"); f != nil {
		fn := p.SSAFunc(f)
		n := 0
		for _, ci := range calls(fn, func(ci ssa.CallInstruction) bool {
			g := calleeOf(ci)
			if g == nil || g.Pkg() == nil || g.Pkg().Path() != pkgEHI {
				return false
			}
			sig := g.Type().(*types.Signature)
			if sig.Results().Len() != 1 {
				return false
			}
			pt, ok := sig.Results().At(0).Type().(*types.Pointer)
			return ok && namedOf(pt.Elem()) == retryT
		}) {
			n++
			okG := false
			for _, g := range guardsOf(ci.Block()) {
				v, br := boolOf(g)
				if _, path := fieldChain(v); len(path) >= 2 && path[len(path)-1] == "Enabled" && path[len(path)-2] == "retryCfg" && br {
					okG = true
				}
				if isBackOffEnabledA3(v) && br { // the Enabled flag of a BackOffConfig, whatever the field holding it is called
					okG = true
				}
			}
			c.Check(okG, "retry sender is installed only when retry is enabled", p.Pos(ci.Pos()), "guarded by retryCfg.Enabled", "retry sender constructed regardless of (or against) the Enabled flag")
		}
		if n == 0 {
			c.Bad("retry sender is installed when retry is enabled", p.Pos(fn.Pos()), "NewBaseExporter never constructs the retry sender")
		}
	}

	// ---------- R2
	c.Rule("R2", "DEP", "the duration waited is the same value the limit tests used (nextRetryTime = now + that duration) and depends on both ExponentialBackOff.NextBackOff() and the throttle error's delay", 3)
	if waitDur == nil {
		c.Bad("retry wait duration", p.Pos(send.Pos()), "no time.After(duration) case found")
	} else {
		hasBackoff := sliceHasCall(waitDur, func(f *types.Func) bool { return f.Name() == "NextBackOff" })
		hasThrottle := false
		for v := range backSlice(waitDur) {
			// the delay field of the throttling error type, identified by type (a time.Duration field of an error struct
			// of this package), not by name
			if isThrottleDelayAccessA3(v) {
				hasThrottle = true
			}
		}
		c.Check(hasBackoff, "wait duration depends on the exponential back-off", p.Pos(sel.Pos()), "NextBackOff in slice", "the waited duration does not depend on NextBackOff()")
		c.Check(hasThrottle, "wait duration depends on the backend's throttle delay", p.Pos(sel.Pos()), "throttleRetry.delay in slice", "the waited duration ignores the delay the backend asked for")
		// the limit checks use now+waitDur
		okSame := false
		if nextRetry != nil {
			if call, ok := strip(nextRetry).(*ssa.Call); ok && isMethod(calleeOf(call), "time", "Time", "Add") {
				okSame = sameValue(call.Call.Args[1], waitDur)
			}
		}
		c.Check(okSame, "limit tests use the duration that is actually waited", p.Pos(sel.Pos()), "nextRetryTime = now.Add(waited duration)", "the max-elapsed/deadline tests are evaluated with a different duration than the one waited (e.g. before the throttle override): an attempt can happen after the budget/deadline")
	}

	// ---------- R3
	c.Rule("R3", "DEP+TAB", "later attempts send phi(original, OnError(err) of the request just attempted); each request type's OnError returns a request built from the signal error's Data() on the errors.As side and the receiver otherwise", 5)
	{
		reqArg := attempt.Common().Args[len(attempt.Common().Args)-1]
		phi, isPhi := reqArg.(*ssa.Phi)
		var onErr ssa.CallInstruction
		for _, ci := range calls(send, func(ci ssa.CallInstruction) bool {
			return ci.Common().IsInvoke() && ci.Common().Method.Name() == "OnError"
		}) {
			onErr = ci
		}
		if !isPhi || onErr == nil {
			c.Bad("retry narrows the request to the undelivered remainder", p.Pos(att.Pos()), "the request passed to the attempt is not a loop-carried value fed by OnError")
		} else {
			feeds := false
			for _, e := range phi.Edges {
				for v := range backSlice(e) {
					if v == onErr.(ssa.Value) {
						feeds = true
					}
				}
			}
			c.Check(feeds, "OnError's result feeds the next attempt", p.Pos(onErr.Pos()), "phi edge from OnError", "the remainder returned by OnError is not what later attempts send")
			// receiver of OnError derives from the current request (the phi), not the original parameter
			recvFromPhi := false
			for v := range backSlice(onErr.Common().Value) {
				if v == ssa.Value(phi) {
					recvFromPhi = true
				}
			}
			c.Check(recvFromPhi, "OnError is asked of the request just attempted", p.Pos(onErr.Pos()), "receiver derives from the loop-carried request", "OnError is invoked on the original request (handler bound outside the loop): a later failure without data resends already delivered items")
			c.Check(valueIsResultOf(onErr.Common().Args[0], attempt), "OnError receives the attempt's error", p.Pos(onErr.Pos()), "same error", "OnError is not given the error of the attempt")
		}
		// each OnError implementation
		n := 0
		for _, path := range []string{pkgEH, pkgEH + "/xexporterhelper"} {
			pk := p.ByPath[path]
			if pk == nil {
				continue
			}
			for _, fn := range p.AllSrcFuncs(pk) {
				if fn.Parent() != nil || fn.Name() != "OnError" || len(fn.Params) != 2 {
					continue
				}
				n++
				as := callsNamed(fn, func(f *types.Func) bool { return f.FullName() == "errors.As" })
				if len(as) != 1 {
					c.Bad("OnError narrows under errors.As: "+fnName(fn), p.Pos(fn.Pos()), "no errors.As on the error")
					continue
				}
				target := strip(as[0].Common().Args[1])
				okT := false
				var tn *types.Named
				if a, ok := target.(*ssa.Alloc); ok {
					tn = namedOf(a.Type())
					if tn != nil && tn.Obj().Pkg() != nil && (tn.Obj().Pkg().Path() == pkgConsErr || tn.Obj().Pkg().Path() == pkgConsErr+"/xconsumererror") {
						okT = true
					}
				}
				good := okT
				for _, r := range returnsOf(fn) {
					res := resultsOf(r)[0]
					onAs := false
					for _, g := range guardsOf(r.Block()) {
						v, br := boolOf(g)
						if v == as[0].(ssa.Value) && br {
							onAs = true
						}
					}
					if onAs {
						hasData := false
						for v := range backSlice(res) {
							if dc, ok := v.(*ssa.Call); ok && calleeOf(dc) != nil && calleeOf(dc).Name() == "Data" && len(dc.Call.Args) == 1 {
								if backSlice(dc.Call.Args[0])[target] {
									hasData = true
								}
							}
						}
						if !hasData {
							good = false
						}
					} else {
						if _, isP := strip(res).(*ssa.Parameter); !isP {
							good = false
						}
					}
				}
				c.Check(good, "OnError narrows under errors.As: "+fnName(fn), p.Pos(fn.Pos()), "Data() of the signal error on the As side, receiver otherwise", "OnError does not return exactly the undelivered remainder")
			}
		}
		if n < 4 {
			c.Undecided("OnError implementations", "-", fmt.Sprintf("expected 4 request types with OnError, found %d", n))
		}
	}

	// ---------- R4 shared with C01.R5
	{
		sub := NewCtx(p, "C01", c.Tier, c.Config)
		if a := findPQ(p); a != nil {
			runC01Chain(sub, a)
		}
		c.Rule("R4", "TAB+CHAIN", "a retry wait interrupted by shutdown ends with a shutdown-classified error that survives the sender chain up to the queue's completion callback (same rule as C01.R5)", 10)
		for _, o := range sub.Obs {
			if o.Rule == "C01.R5" && !strings.HasPrefix(o.Construct, "floor:") {
				c.add(o.Verdict, o.Construct, o.Pos, o.Detail)
			}
		}
	}

	// ---------- R5 timeout sender
	c.Rule("R5", "DEP", "the timeout sender passes to the next sender the context derived by context.WithTimeout(ctx, cfg.Timeout) and defers its cancel", 2)
	{
		found := false
		for _, fn := range p.AllSrcFuncs(ipk) {
			if fn.Parent() != nil || fn.Name() != "Send" {
				continue
			}
			wt := callsNamed(fn, func(f *types.Func) bool { return f.FullName() == "context.WithTimeout" })
			if len(wt) == 0 {
				continue
			}
			found = true
			w := wt[0]
			_, path := fieldChain(w.Common().Args[1])
			c.Check(len(path) > 0 && path[len(path)-1] == "Timeout", "per-attempt timeout is the configured one", p.Pos(w.Pos()), "cfg.Timeout", "WithTimeout uses a duration other than the configured timeout")
			okCtx, okCancel := false, false
			for _, ci := range calls(fn, isSendLike) {
				if ex, ok := ci.Common().Args[0].(*ssa.Extract); ok && ex.Tuple == w.(ssa.Value) && ex.Index == 0 {
					okCtx = true
				}
			}
			// the cancel function is deferred, or called explicitly on every path from the derivation to a return
			explicit := map[ssa.Instruction]bool{}
			allInstrs(fn, func(in ssa.Instruction) {
				if d, ok := in.(*ssa.Defer); ok {
					if ex, ok := strip(d.Call.Value).(*ssa.Extract); ok && ex.Tuple == w.(ssa.Value) && ex.Index == 1 {
						okCancel = true
					}
				}
				if cl, ok := in.(*ssa.Call); ok {
					if ex, ok := strip(cl.Call.Value).(*ssa.Extract); ok && ex.Tuple == w.(ssa.Value) && ex.Index == 1 {
						explicit[in] = true
					}
				}
			})
			if !okCancel && len(explicit) > 0 {
				var to []ssa.Instruction
				for _, r := range returnsOf(fn) {
					to = append(to, r)
				}
				okCancel, _ = mustPassThrough(fn, w.(ssa.Instruction), explicit, to)
			}
			c.Check(okCtx && okCancel, "attempt runs under the timeout context; cancel deferred", p.Pos(w.Pos()), "derived ctx forwarded, cancel deferred", fmt.Sprintf("derived context forwarded=%v, cancel deferred=%v", okCtx, okCancel))
		}
		if !found {
			c.Bad("timeout sender", "-", "no Send derives a context with WithTimeout")
		}
	}

	// ---------- R6 chain order
	c.Rule("R6", "ORD", "sender chain construction order in NewBaseExporter: pusher sender → timeout → retry → obs-report → queue (each wraps the previous firstSender)", 4)
	if f := p.LookupFunc(relPkg(pkgEHI), "NewBaseExporter"); f != nil {
		fn := p.SSAFunc(f)
		order := map[string]ssa.Instruction{}
		allInstrs(fn, func(in ssa.Instruction) {
			ci, ok := in.(*ssa.Call)
			if !ok {
				return
			}
			g := calleeOf(ci)
			if g == nil {
				return
			}
			switch g.Name() {
			case "NewSender":
				order["pusher"] = in
			case "newTimeoutSender":
				order["timeout"] = in
			case "newRetrySender":
				order["retry"] = in
			case "newObsReportSender":
				order["obs"] = in
			case "NewQueueSender":
				order["queue"] = in
			default:
				// renamed constructors of the two senders this property identifies structurally: by result type
				if sig, ok := g.Type().(*types.Signature); ok && sig.Recv() == nil && sig.Results().Len() >= 1 && g.Pkg() != nil && g.Pkg().Path() == pkgEHI {
					switch rt := constructedTypeA3(p, g); {
					case rt != nil && rt == retryT:
						order["retry"] = in
					case rt != nil && rt == timeoutSenderTypeA3(p):
						order["timeout"] = in
					}
				}
			}
		})
		seq := []string{"pusher", "timeout", "retry", "obs", "queue"}
		for i := 0; i+1 < len(seq); i++ {
			a, b := order[seq[i]], order[seq[i+1]]
			if a == nil || b == nil {
				c.Bad("sender chain: "+seq[i]+" before "+seq[i+1], p.Pos(fn.Pos()), "constructor call not found")
				continue
			}
			okO := canReach(a, b, nil) && !canReach(b, a, nil)
			// b wraps the current firstSender: its `next` argument is a load of firstSender
			ci := b.(*ssa.Call)
			wraps := false
			for _, arg := range ci.Call.Args {
				if _, path := fieldChain(arg); len(path) > 0 && path[len(path)-1] == "firstSender" {
					wraps = true
				}
			}
			c.Check(okO && wraps, "sender chain: "+seq[i]+" before "+seq[i+1], p.Pos(b.Pos()), "constructed later and wraps firstSender", fmt.Sprintf("order ok=%v, wraps firstSender=%v", okO, wraps))
		}
	} else {
		c.Anchor("NewBaseExporter")
	}
	runC05More(c)
	runC05NoErrAssert(c)
	runC05Round3(c)
	runC05ThrottleFloor(c)
	runC05Shares5(c)
	runC05OptionOrder(c)
	if a := findPQ(p); a != nil {
		sub := NewCtx(p, "C01", c.Tier, c.Config)
		runC01Round3(sub, a)
		c.Rule("R13", "GATE", "a request interrupted by shutdown stays listed as dispatched in memory (same rule as C01.R13), so that the persistent queue really keeps it", 1)
		for _, o := range sub.Obs {
			if o.Rule == "C01.R13" && !strings.HasPrefix(o.Construct, "floor:") {
				c.add(o.Verdict, o.Construct, o.Pos, o.Detail)
			}
		}
	}
	shareRule(c, "C03", runC03, []string{"C03.R6"}, "R12", "PAIR", "a shutdown-classified error of one part of a split request survives the completion aggregation (same rule as C03.R6), so the persistent queue keeps the request", 3)
}

// runC05More: R7 the retry sender is stopped by every shutdown (shared with C03.R1), R8 error classifiers search
// the whole error tree.
func runC05More(c *Ctx) {
	p := c.P
	{
		sub := NewCtx(p, "C03", c.Tier, c.Config)
		runC03(sub)
		c.Rule("R7", "ORD", "BaseExporter.Shutdown stops the retry sender on every path, guarded only by the retry sender's own nil test (same obligations as C03.R1): a request waiting in back-off is not retried while the exporter shuts down, whether or not a queue is configured", 3)
		for _, o := range sub.Obs {
			if o.Rule == "C03.R1" && !strings.HasPrefix(o.Construct, "floor:") {
				c.add(o.Verdict, o.Construct, o.Pos, o.Detail)
			}
		}
	}
	c.Rule("R8", "TAB", "the error classifiers the retry decision relies on (func(error) bool in consumererror and experr) return the verdict of errors.As / errors.Is over the whole error tree and never type-assert or unwrap the error by hand: a permanent or shutdown error joined with other errors is still recognised", 2)
	n := 0
	for _, rel := range []string{"consumer/consumererror", relPkg(pkgExperr)} {
		pk := p.Pkg(rel)
		if pk == nil {
			c.Anchor("package " + rel)
			continue
		}
		for _, fn := range p.AllSrcFuncs(pk) {
			if fn.Parent() != nil || fn.Signature.Recv() != nil || len(fn.Params) != 1 || fn.Signature.Results().Len() != 1 || fn.Object() == nil || !fn.Object().Exported() {
				continue
			}
			if !isErrorType(fn.Params[0].Type()) {
				continue
			}
			if b, ok := fn.Signature.Results().At(0).Type().(*types.Basic); !ok || b.Kind() != types.Bool {
				continue
			}
			n++
			usesAs := len(callsNamed(fn, func(g *types.Func) bool { return g.FullName() == "errors.As" || g.FullName() == "errors.Is" })) > 0
			byHand := false
			allInstrs(fn, func(in ssa.Instruction) {
				if ta, ok := in.(*ssa.TypeAssert); ok && isErrorType(ta.X.Type()) {
					byHand = true
				}
				if call, ok := in.(*ssa.Call); ok && calleeOf(call) != nil && calleeOf(call).FullName() == "errors.Unwrap" {
					byHand = true
				}
			})
			// every true result comes from the As/Is call
			okRes := true
			for _, r := range returnsOf(fn) {
				v := resultsOf(r)[0]
				if k, ok := constBool(v); ok && k {
					okRes = false
				}
			}
			c.Check(usesAs && !byHand && okRes, fnName(fn)+" searches the whole error tree", p.Pos(fn.Pos()), "verdict of errors.As/Is", "the classifier walks the chain by hand (type assertion / errors.Unwrap) or does not use errors.As: an error joined with others (errors.Join, multierr, several %w) is not recognised – a permanent error is retried, a shutdown error deletes the stored request")
		}
	}
	if n < 2 {
		c.Undecided("error classifiers found", "-", fmt.Sprintf("%d (expected IsPermanent and IsShutdownErr)", n))
	}
}

func sliceLoadsFieldAny(v ssa.Value, T *types.Named) []ssa.Value {
	var out []ssa.Value
	for x := range backSlice(v) {
		if fa, ok := x.(*ssa.FieldAddr); ok && namedOf(fa.X.Type()) == T {
			if _, isChan := derefStruct(fa.X.Type()).Field(fa.Field).Type().Underlying().(*types.Chan); isChan {
				out = append(out, x)
			}
		}
	}
	return out
}
