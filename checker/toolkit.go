package main

import (
	"go/ast"
	"go/constant"
	"go/token"
	"go/types"
	"sort"
	"strings"

	"golang.org/x/tools/go/packages"
	"golang.org/x/tools/go/ssa"
)

// ---------- callee resolution ----------

// calleeOf returns the *types.Func called (static callee or interface method); for
// generic instantiations the origin object. nil for dynamic closure calls and builtins.
func calleeOf(call ssa.CallInstruction) *types.Func {
	cc := call.Common()
	if cc.IsInvoke() {
		return cc.Method
	}
	switch v := cc.Value.(type) {
	case *ssa.Function:
		return funcObj(v)
	case *ssa.MakeClosure:
		if f, ok := v.Fn.(*ssa.Function); ok {
			return funcObj(f)
		}
	}
	return nil
}

func funcObj(f *ssa.Function) *types.Func {
	if f == nil {
		return nil
	}
	if o := f.Origin(); o != nil {
		f = o
	}
	if obj, ok := f.Object().(*types.Func); ok {
		return obj.Origin()
	}
	return nil
}

// staticCalleeFn returns the SSA function statically called (generic origin), or nil.
func staticCalleeFn(call ssa.CallInstruction) *ssa.Function {
	cc := call.Common()
	if cc.IsInvoke() {
		return nil
	}
	switch v := cc.Value.(type) {
	case *ssa.Function:
		if o := v.Origin(); o != nil {
			return o
		}
		return v
	case *ssa.MakeClosure:
		if f, ok := v.Fn.(*ssa.Function); ok {
			return f
		}
	}
	return nil
}

func builtinName(call ssa.CallInstruction) string {
	if b, ok := call.Common().Value.(*ssa.Builtin); ok {
		return b.Name()
	}
	return ""
}

// fnFullName: pkgpath.(Recv).Name or pkgpath.Name
func objFullName(f *types.Func) string {
	if f == nil {
		return ""
	}
	return f.FullName()
}

// isFunc tests whether f is the package-level function pkgPath.name.
func isFunc(f *types.Func, pkgPath, name string) bool {
	if f == nil || f.Pkg() == nil {
		return false
	}
	if f.Name() != name || f.Pkg().Path() != pkgPath {
		return false
	}
	sig := f.Type().(*types.Signature)
	return sig.Recv() == nil
}

// recvNamed returns the named type of the receiver of method f (nil if none).
func recvNamed(f *types.Func) *types.Named {
	if f == nil {
		return nil
	}
	sig, ok := f.Type().(*types.Signature)
	if !ok || sig.Recv() == nil {
		return nil
	}
	return namedOf(sig.Recv().Type())
}

func namedOf(t types.Type) *types.Named {
	for {
		switch tt := t.(type) {
		case *types.Pointer:
			t = tt.Elem()
			continue
		case *types.Named:
			return tt.Origin()
		case *types.Alias:
			t = types.Unalias(tt)
			continue
		}
		return nil
	}
}

// isMethod tests f is method `name` on named type pkgPath.typ.
func isMethod(f *types.Func, pkgPath, typ, name string) bool {
	if f == nil || f.Name() != name {
		return false
	}
	n := recvNamed(f)
	if n == nil {
		// interface method
		if f.Pkg() != nil && f.Pkg().Path() == pkgPath {
			sig := f.Type().(*types.Signature)
			if sig.Recv() != nil {
				if nn := namedOf(sig.Recv().Type()); nn != nil && nn.Obj().Name() == typ {
					return true
				}
			}
		}
		return false
	}
	return n.Obj().Name() == typ && n.Obj().Pkg() != nil && n.Obj().Pkg().Path() == pkgPath
}

func typeIs(t types.Type, pkgPath, name string) bool {
	n := namedOf(t)
	return n != nil && n.Obj().Name() == name && n.Obj().Pkg() != nil && n.Obj().Pkg().Path() == pkgPath
}

// ---------- instruction enumeration ----------

// allInstrs visits every instruction in fn (not in anon funcs).
func allInstrs(fn *ssa.Function, f func(ssa.Instruction)) {
	for _, b := range fn.Blocks {
		for _, in := range b.Instrs {
			f(in)
		}
	}
}

// withAnon returns fn and, recursively, its anonymous functions.
func withAnon(fn *ssa.Function) []*ssa.Function {
	out := []*ssa.Function{fn}
	for _, a := range fn.AnonFuncs {
		out = append(out, withAnon(a)...)
	}
	return out
}

// calls returns all call instructions (call/go/defer) in fn matching pred.
func calls(fn *ssa.Function, pred func(ssa.CallInstruction) bool) []ssa.CallInstruction {
	var out []ssa.CallInstruction
	allInstrs(fn, func(in ssa.Instruction) {
		if c, ok := in.(ssa.CallInstruction); ok && pred(c) {
			out = append(out, c)
		}
	})
	return out
}

func callsTo(fn *ssa.Function, target *types.Func) []ssa.CallInstruction {
	return calls(fn, func(c ssa.CallInstruction) bool { return target != nil && calleeOf(c) == target.Origin() })
}

func callsNamed(fn *ssa.Function, pred func(*types.Func) bool) []ssa.CallInstruction {
	return calls(fn, func(c ssa.CallInstruction) bool { f := calleeOf(c); return f != nil && pred(f) })
}

// ---------- positions within a function ----------

func instrIndex(in ssa.Instruction) int {
	b := in.Block()
	for i, x := range b.Instrs {
		if x == in {
			return i
		}
	}
	return -1
}

// instrDominates: a executes before b on every path reaching b.
func instrDominates(a, b ssa.Instruction) bool {
	if a.Block() == b.Block() {
		return instrIndex(a) < instrIndex(b)
	}
	return a.Block().Dominates(b.Block())
}

// reachable blocks from b following successors, not entering blocks in `cut`.
func reachFrom(start []*ssa.BasicBlock, cut map[*ssa.BasicBlock]bool) map[*ssa.BasicBlock]bool {
	seen := map[*ssa.BasicBlock]bool{}
	var st []*ssa.BasicBlock
	for _, s := range start {
		if !cut[s] && !seen[s] {
			seen[s] = true
			st = append(st, s)
		}
	}
	for len(st) > 0 {
		b := st[len(st)-1]
		st = st[:len(st)-1]
		for _, s := range b.Succs {
			if !seen[s] && !cut[s] {
				seen[s] = true
				st = append(st, s)
			}
		}
	}
	return seen
}

// canReach reports whether there is a CFG path from just after instruction a to instruction b
// that does not pass through any instruction in avoid. Instruction-level precision.
func canReach(a, b ssa.Instruction, avoid map[ssa.Instruction]bool) bool {
	// within-block forward scan from a
	ab := a.Block()
	ai := instrIndex(a)
	for i := ai + 1; i < len(ab.Instrs); i++ {
		in := ab.Instrs[i]
		if in == b {
			return true
		}
		if avoid[in] {
			return false
		}
	}
	// BFS over blocks; a block "passes" if no avoid instr before (target or end)
	seen := map[*ssa.BasicBlock]bool{}
	var st []*ssa.BasicBlock
	for _, s := range ab.Succs {
		if !seen[s] {
			seen[s] = true
			st = append(st, s)
		}
	}
	for len(st) > 0 {
		blk := st[len(st)-1]
		st = st[:len(st)-1]
		blocked := false
		for _, in := range blk.Instrs {
			if in == b {
				return true
			}
			if avoid[in] {
				blocked = true
				break
			}
		}
		if blocked {
			continue
		}
		for _, s := range blk.Succs {
			if !seen[s] {
				seen[s] = true
				st = append(st, s)
			}
		}
	}
	return false
}

// exits of a function: Return instructions (panics excluded).
func returnsOf(fn *ssa.Function) []*ssa.Return {
	var out []*ssa.Return
	if len(fn.Blocks) == 0 {
		return nil
	}
	// the Recover block (only entered after a recovered panic) is not reachable from entry
	reach := reachFrom([]*ssa.BasicBlock{fn.Blocks[0]}, nil)
	for _, b := range fn.Blocks {
		if !reach[b] {
			continue
		}
		for _, in := range b.Instrs {
			if r, ok := in.(*ssa.Return); ok {
				out = append(out, r)
			}
		}
	}
	return out
}

// entryInstr: first instruction of the function.
func entryInstr(fn *ssa.Function) ssa.Instruction {
	if len(fn.Blocks) == 0 || len(fn.Blocks[0].Instrs) == 0 {
		return nil
	}
	return fn.Blocks[0].Instrs[0]
}

// mustPassThrough: every path from `from` (exclusive) to any instruction in `to` passes through
// an instruction in via. If from is nil, from function entry (inclusive).
func mustPassThrough(fn *ssa.Function, from ssa.Instruction, via map[ssa.Instruction]bool, to []ssa.Instruction) (bool, ssa.Instruction) {
	for _, t := range to {
		if via[t] {
			continue
		}
		if from == nil {
			e := entryInstr(fn)
			if e == nil {
				continue
			}
			if e == t || via[e] {
				if e == t {
					return false, t
				}
				continue
			}
			if canReach(e, t, via) {
				return false, t
			}
		} else if canReach(from, t, via) {
			return false, t
		}
	}
	return true, nil
}

// reachesExitWithout: there is a path from `from` to a return without passing via.
func reachesReturnWithout(fn *ssa.Function, from ssa.Instruction, via map[ssa.Instruction]bool) (bool, *ssa.Return) {
	for _, r := range returnsOf(fn) {
		if from == nil {
			e := entryInstr(fn)
			if e == ssa.Instruction(r) || (!via[e] && canReach(e, r, via)) {
				return true, r
			}
		} else if canReach(from, r, via) {
			return true, r
		}
	}
	return false, nil
}

// ---------- guards ----------

// Guard: the block is only reachable through the Branch side of If condition Cond.
type Guard struct {
	Cond   ssa.Value
	Branch bool
	If     *ssa.If
}

// guardsOf returns the conditions that must have held for block b to execute, from the
// dominator chain. A guard from dominator d (ending in If) is recorded when exactly one of
// d's successor edges can lead to b without passing through d again... conservatively:
// successor s dominates b and s has d as its only predecessor.
func guardsOf(b *ssa.BasicBlock) []Guard {
	var out []Guard
	for d := b.Idom(); d != nil; d = d.Idom() {
		if len(d.Instrs) == 0 {
			continue
		}
		iff, ok := d.Instrs[len(d.Instrs)-1].(*ssa.If)
		if !ok {
			continue
		}
		t, f := d.Succs[0], d.Succs[1]
		if t == f {
			continue
		}
		td := (t == b || t.Dominates(b)) && len(t.Preds) == 1
		fd := (f == b || f.Dominates(b)) && len(f.Preds) == 1
		if td && !fd {
			out = append(out, Guard{Cond: iff.Cond, Branch: true, If: iff})
		} else if fd && !td {
			out = append(out, Guard{Cond: iff.Cond, Branch: false, If: iff})
		} else if !td && !fd {
			// edge-sensitive fallback: b reachable from only one side when d is cut
			cut := map[*ssa.BasicBlock]bool{d: true}
			rt := reachFrom([]*ssa.BasicBlock{t}, cut)[b]
			rf := reachFrom([]*ssa.BasicBlock{f}, cut)[b]
			if rt && !rf {
				out = append(out, Guard{Cond: iff.Cond, Branch: true, If: iff})
			} else if rf && !rt {
				out = append(out, Guard{Cond: iff.Cond, Branch: false, If: iff})
			}
		}
	}
	return out
}

// normalised comparison: returns (op, x, y, ok) for a BinOp condition with the requested
// polarity applied: cond==branch.
func cmpOf(g Guard) (token.Token, ssa.Value, ssa.Value, bool) {
	v := g.Cond
	br := g.Branch
	for {
		if u, ok := v.(*ssa.UnOp); ok && u.Op == token.NOT {
			v = u.X
			br = !br
			continue
		}
		break
	}
	bo, ok := v.(*ssa.BinOp)
	if !ok {
		return 0, nil, nil, false
	}
	op := bo.Op
	if !br {
		switch op {
		case token.EQL:
			op = token.NEQ
		case token.NEQ:
			op = token.EQL
		case token.LSS:
			op = token.GEQ
		case token.GEQ:
			op = token.LSS
		case token.GTR:
			op = token.LEQ
		case token.LEQ:
			op = token.GTR
		default:
			return 0, nil, nil, false
		}
	}
	return op, bo.X, bo.Y, true
}

// boolGuard: if the guard condition (after stripping negations) is a call or value (not a
// comparison), return the value and the effective polarity.
func boolOf(g Guard) (ssa.Value, bool) {
	v := g.Cond
	br := g.Branch
	for {
		if u, ok := v.(*ssa.UnOp); ok && u.Op == token.NOT {
			v = u.X
			br = !br
			continue
		}
		break
	}
	return v, br
}

func isNilConst(v ssa.Value) bool {
	c, ok := v.(*ssa.Const)
	return ok && c.Value == nil
}

func constInt(v ssa.Value) (int64, bool) {
	c, ok := v.(*ssa.Const)
	if !ok || c.Value == nil {
		return 0, false
	}
	if c.Value.Kind() == constant.Int {
		return c.Int64(), true
	}
	return 0, false
}

func constBool(v ssa.Value) (bool, bool) {
	c, ok := v.(*ssa.Const)
	if !ok || c.Value == nil || c.Value.Kind() != constant.Bool {
		return false, false
	}
	return constant.BoolVal(c.Value), true
}

func constString(v ssa.Value) (string, bool) {
	c, ok := v.(*ssa.Const)
	if !ok || c.Value == nil || c.Value.Kind() != constant.String {
		return "", false
	}
	return constant.StringVal(c.Value), true
}

// errNilGuard reports whether g states "v == nil" (wantNil) or "v != nil" for value v
// (compared through strip()).
func guardIsNilTest(g Guard, v ssa.Value, wantNil bool) bool {
	op, x, y, ok := cmpOf(g)
	if !ok {
		return false
	}
	var other ssa.Value
	if isNilConst(y) {
		other = x
	} else if isNilConst(x) {
		other = y
	} else {
		return false
	}
	if !sameValue(other, v) {
		return false
	}
	if wantNil {
		return op == token.EQL
	}
	return op == token.NEQ
}

// ---------- value identity ----------

// strip looks through value-preserving wrappers.
func strip(v ssa.Value) ssa.Value {
	for {
		switch x := v.(type) {
		case *ssa.ChangeType:
			v = x.X
		case *ssa.MakeInterface:
			v = x.X
		case *ssa.ChangeInterface:
			v = x.X
		case *ssa.UnOp:
			if x.Op == token.MUL {
				// load from a single-store Alloc spill
				if a, ok := x.X.(*ssa.Alloc); ok {
					if s := singleStore(a); s != nil {
						v = s.Val
						continue
					}
				}
				// load from free variable bound to single-store Alloc in parent
				if fv, ok := x.X.(*ssa.FreeVar); ok {
					if b := freeVarBinding(fv); b != nil {
						if a, ok := b.(*ssa.Alloc); ok {
							if s := singleStore(a); s != nil {
								v = s.Val
								continue
							}
						}
					}
				}
			}
			return v
		default:
			return v
		}
	}
}

// singleStore returns the only Store to alloc a (anywhere, including closures through
// bindings is NOT considered: if the alloc escapes into a closure that stores, nil).
func singleStore(a *ssa.Alloc) *ssa.Store {
	var st *ssa.Store
	refs := a.Referrers()
	if refs == nil {
		return nil
	}
	for _, r := range *refs {
		switch x := r.(type) {
		case *ssa.Store:
			if x.Addr == a {
				if st != nil {
					return nil
				}
				st = x
			}
		case *ssa.MakeClosure:
			// check closure does not store to the bound var
			fn, _ := x.Fn.(*ssa.Function)
			for i, b := range x.Bindings {
				if b == a && fn != nil && i < len(fn.FreeVars) {
					if freeVarStored(fn.FreeVars[i]) {
						return nil
					}
				}
			}
		}
	}
	return st
}

func freeVarStored(fv *ssa.FreeVar) bool {
	refs := fv.Referrers()
	if refs == nil {
		return false
	}
	for _, r := range *refs {
		switch x := r.(type) {
		case *ssa.Store:
			if x.Addr == fv {
				return true
			}
		case *ssa.MakeClosure:
			fn, _ := x.Fn.(*ssa.Function)
			for i, b := range x.Bindings {
				if b == ssa.Value(fv) && fn != nil && i < len(fn.FreeVars) {
					if freeVarStored(fn.FreeVars[i]) {
						return true
					}
				}
			}
		}
	}
	return false
}

// freeVarBinding finds the value bound to fv in the (unique) MakeClosure of its function.
func freeVarBinding(fv *ssa.FreeVar) ssa.Value {
	fn := fv.Parent()
	par := fn.Parent()
	if par == nil {
		return nil
	}
	idx := -1
	for i, f := range fn.FreeVars {
		if f == fv {
			idx = i
		}
	}
	if idx < 0 {
		return nil
	}
	var found ssa.Value
	n := 0
	allInstrs(par, func(in ssa.Instruction) {
		if mc, ok := in.(*ssa.MakeClosure); ok && mc.Fn == fn {
			n++
			if idx < len(mc.Bindings) {
				found = mc.Bindings[idx]
			}
		}
	})
	if n != 1 {
		return nil
	}
	return found
}

func sameValue(a, b ssa.Value) bool {
	if a == b {
		return true
	}
	a, b = strip(a), strip(b)
	if a == b {
		return true
	}
	// two loads of the same address without intervening store are not equated here.
	return false
}

// fieldPath describes an address/value as root + field names, e.g. recv.items.size.
// Returns the root value and the path of field names; ok=false when not a field chain.
func fieldChain(v ssa.Value) (ssa.Value, []string) {
	var path []string
	for {
		v = strip(v)
		switch x := v.(type) {
		case *ssa.FieldAddr:
			st := derefStruct(x.X.Type())
			if st == nil {
				return v, path
			}
			path = append([]string{st.Field(x.Field).Name()}, path...)
			v = x.X
		case *ssa.Field:
			st := derefStruct(x.X.Type())
			if st == nil {
				return v, path
			}
			path = append([]string{st.Field(x.Field).Name()}, path...)
			v = x.X
		case *ssa.UnOp:
			if x.Op == token.MUL {
				v = x.X
				continue
			}
			return v, path
		case *ssa.IndexAddr:
			path = append([]string{"[]"}, path...)
			v = x.X
		default:
			return v, path
		}
	}
}

func derefStruct(t types.Type) *types.Struct {
	t = types.Unalias(t)
	if p, ok := t.Underlying().(*types.Pointer); ok {
		t = p.Elem()
	}
	st, _ := t.Underlying().(*types.Struct)
	return st
}

// fieldAddrOf: is v a FieldAddr/Field (after strip and possibly a load) of a field named
// `name` in a struct whose named type is typ (nil = any)?
func isFieldAccess(v ssa.Value, typ *types.Named, name string) bool {
	v = strip(v)
	if u, ok := v.(*ssa.UnOp); ok && u.Op == token.MUL {
		v = u.X
	}
	var x ssa.Value
	var idx int
	switch fa := v.(type) {
	case *ssa.FieldAddr:
		x, idx = fa.X, fa.Field
	case *ssa.Field:
		x, idx = fa.X, fa.Field
	default:
		return false
	}
	st := derefStruct(x.Type())
	if st == nil || st.Field(idx).Name() != name {
		return false
	}
	if typ != nil {
		n := namedOf(x.Type())
		if n == nil || n != typ.Origin() {
			return false
		}
	}
	return true
}

// backward slice: all values v transitively depends on within its function.
func backSlice(v ssa.Value) map[ssa.Value]bool {
	seen := map[ssa.Value]bool{}
	var walk func(ssa.Value)
	walk = func(x ssa.Value) {
		if x == nil || seen[x] {
			return
		}
		seen[x] = true
		if in, ok := x.(ssa.Instruction); ok {
			for _, op := range in.Operands(nil) {
				if *op == nil {
					continue
				}
				// the base object of a field/element address is not expanded into everything ever stored
				// into it: the field-sensitive load rule below handles what the selected field holds
				if a, isAlloc := (*op).(*ssa.Alloc); isAlloc {
					switch x.(type) {
					case *ssa.FieldAddr, *ssa.IndexAddr:
						seen[a] = true
						continue
					}
				}
				walk(*op)
			}
		}
		// an array/slice backing store built locally (variadic packs, slice literals): include the
		// values stored into its elements
		if a, ok := x.(*ssa.Alloc); ok {
			// a composite literal built in place: the values stored into its fields
			if _, isStruct := a.Type().Underlying().(*types.Pointer).Elem().Underlying().(*types.Struct); isStruct {
				if refs := a.Referrers(); refs != nil {
					for _, r := range *refs {
						if fa, ok := r.(*ssa.FieldAddr); ok && fa.Referrers() != nil {
							for _, rr := range *fa.Referrers() {
								if s, ok := rr.(*ssa.Store); ok && s.Addr == fa {
									walk(s.Val)
								}
							}
						}
					}
				}
			}
			if _, isArr := a.Type().Underlying().(*types.Pointer).Elem().Underlying().(*types.Array); isArr {
				if refs := a.Referrers(); refs != nil {
					for _, r := range *refs {
						if ia, ok := r.(*ssa.IndexAddr); ok && ia.Referrers() != nil {
							for _, rr := range *ia.Referrers() {
								if s, ok := rr.(*ssa.Store); ok && s.Addr == ia {
									walk(s.Val)
								}
							}
						}
					}
				}
			}
		}
		// loads from an Alloc (or a field of it): include every value stored into the Alloc or
		// into any of its fields
		if u, ok := x.(*ssa.UnOp); ok && u.Op == token.MUL {
			base := u.X
			field := -1
			if fa, ok := base.(*ssa.FieldAddr); ok {
				base = fa.X
				field = fa.Field
			}
			if a, ok := base.(*ssa.Alloc); ok {
				if refs := a.Referrers(); refs != nil {
					for _, r := range *refs {
						switch y := r.(type) {
						case *ssa.Store:
							if y.Addr == a {
								walk(y.Val)
							}
						case *ssa.FieldAddr:
							if field >= 0 && y.Field != field {
								continue
							}
							if frefs := y.Referrers(); frefs != nil {
								for _, rr := range *frefs {
									if s, ok := rr.(*ssa.Store); ok && s.Addr == y {
										walk(s.Val)
									}
								}
							}
						}
					}
				}
			}
		}
	}
	walk(v)
	return seen
}

// sliceHasCall: does the backward slice of v contain a call to a function satisfying pred?
func sliceHasCall(v ssa.Value, pred func(*types.Func) bool) bool {
	for x := range backSlice(v) {
		if c, ok := x.(*ssa.Call); ok {
			if f := calleeOf(c); f != nil && pred(f) {
				return true
			}
		}
	}
	return false
}

// ---------- AST helpers ----------

// enclosingFuncDecl finds the FuncDecl in pkg syntax for a types.Func.
func (p *Prog) FuncDecl(f *types.Func) *ast.FuncDecl {
	if f == nil || f.Pkg() == nil {
		return nil
	}
	pk := p.ByPath[f.Pkg().Path()]
	if pk == nil {
		return nil
	}
	for _, file := range pk.Syntax {
		for _, d := range file.Decls {
			if fd, ok := d.(*ast.FuncDecl); ok {
				if pk.TypesInfo.Defs[fd.Name] == f {
					return fd
				}
			}
		}
	}
	return nil
}

func sortedKeys[V any](m map[string]V) []string {
	var ks []string
	for k := range m {
		ks = append(ks, k)
	}
	sort.Strings(ks)
	return ks
}

func relPkg(path string) string {
	if path == modPrefix {
		return "."
	}
	return strings.TrimPrefix(path, modPrefix+"/")
}

// fnName: short stable name of an SSA function: pkgrel.(Recv).Name
func fnName(fn *ssa.Function) string {
	if fn == nil {
		return "<nil>"
	}
	s := fn.String()
	s = strings.ReplaceAll(s, modPrefix+"/", "")
	return s
}

// constant value of an expression, through types.Info.
func constOfExpr(info *types.Info, e ast.Expr) (constant.Value, bool) {
	tv, ok := info.Types[e]
	if !ok || tv.Value == nil {
		return nil, false
	}
	return tv.Value, true
}

// usedObj returns the object an identifier/selector expression refers to.
func usedObj(info *types.Info, e ast.Expr) types.Object {
	switch x := e.(type) {
	case *ast.Ident:
		return info.Uses[x]
	case *ast.SelectorExpr:
		return info.Uses[x.Sel]
	case *ast.ParenExpr:
		return usedObj(info, x.X)
	case *ast.IndexExpr:
		return usedObj(info, x.X)
	case *ast.IndexListExpr:
		return usedObj(info, x.X)
	}
	return nil
}

func pkgsOf(p *Prog, paths ...string) []*packages.Package {
	var out []*packages.Package
	for _, pa := range paths {
		if pk := p.ByPath[pa]; pk != nil {
			out = append(out, pk)
		}
	}
	return out
}

// resultsOf returns the values returned by r, looking through go/ssa's defer-spilled results
// (`*t1 = v; rundefers; t2 = *t1; return t2`).
func resultsOf(r *ssa.Return) []ssa.Value {
	out := make([]ssa.Value, len(r.Results))
	for i, v := range r.Results {
		out[i] = v
		u, ok := v.(*ssa.UnOp)
		if !ok || u.Op != token.MUL {
			continue
		}
		a, ok := u.X.(*ssa.Alloc)
		if !ok || u.Block() != r.Block() {
			continue
		}
		instrs := r.Block().Instrs
		for j := instrIndex(u) - 1; j >= 0; j-- {
			if s, ok := instrs[j].(*ssa.Store); ok && s.Addr == a {
				out[i] = s.Val
				break
			}
		}
	}
	return out
}

func constInt64Val(c *types.Const) (int64, bool) {
	if c == nil || c.Val() == nil {
		return 0, false
	}
	return constant.Int64Val(constant.ToInt(c.Val()))
}

// controllingConds returns the conditions of the short-circuit chain that immediately controls
// entry into block b: the Ifs ending b's predecessors, extended backwards through pure
// condition-evaluation blocks (`a || b`, `a && b`).
func controllingConds(b *ssa.BasicBlock) []ssa.Value {
	var out []ssa.Value
	seen := map[*ssa.BasicBlock]bool{}
	var walk func(pb *ssa.BasicBlock)
	walk = func(pb *ssa.BasicBlock) {
		if seen[pb] || len(pb.Instrs) == 0 {
			return
		}
		seen[pb] = true
		iff, ok := pb.Instrs[len(pb.Instrs)-1].(*ssa.If)
		if !ok {
			return
		}
		out = append(out, iff.Cond)
		pure := true
		for _, in := range pb.Instrs[:len(pb.Instrs)-1] {
			switch in.(type) {
			case *ssa.FieldAddr, *ssa.UnOp, *ssa.BinOp, *ssa.Field, *ssa.IndexAddr, *ssa.DebugRef, *ssa.Phi:
			default:
				pure = false
			}
		}
		if pure && len(pb.Preds) == 1 {
			// short-circuit chain: the predecessor's If shares a successor with this block's If
			q := pb.Preds[0]
			share := false
			for _, s1 := range q.Succs {
				for _, s2 := range pb.Succs {
					if s1 == s2 {
						share = true
					}
				}
			}
			if share {
				walk(q)
			}
		}
	}
	for _, pb := range b.Preds {
		walk(pb)
	}
	return out
}
