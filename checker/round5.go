package main

import (
	"fmt"
	"go/token"
	"go/types"
	"strings"

	"golang.org/x/tools/go/ssa"
)

// ---------- C04.R12: a request is never built around the constructor's "size not computed" marker ----------
func runC04CtorBypass(c *Ctx) {
	p := c.P
	c.Rule("R12", "COV", "every construction of a request type that memoises its size sets the memo field (the constructor stores the `not computed` marker): a request built by a bare composite literal starts with the valid-looking size 0 – it is never split, and merging it adds nothing to the recorded size of the batch", 4)
	n := 0
	for _, pk := range p.Pkgs {
		if !strings.HasPrefix(pk.PkgPath, modPrefix+"/exporter/exporterhelper") {
			continue
		}
		for _, fn := range p.AllSrcFuncs(pk) {
			allInstrs(fn, func(in ssa.Instruction) {
				al, ok := in.(*ssa.Alloc)
				if !ok {
					return
				}
				T := namedOf(al.Type().(*types.Pointer).Elem())
				st := derefStruct(al.Type())
				if T == nil || st == nil {
					return
				}
				memo := requestMemoField(st)
				if memo < 0 {
					return
				}
				n++
				set := false
				for _, r := range *al.Referrers() {
					if fa, ok := r.(*ssa.FieldAddr); ok && fa.Field == memo {
						for _, rr := range *fa.Referrers() {
							if s, ok := rr.(*ssa.Store); ok && s.Addr == ssa.Value(fa) {
								set = true
							}
						}
					}
				}
				c.Check(set, T.Obj().Name()+" built in "+fnName(fn)+" initialises its size memo", p.Pos(al.Pos()), "cachedSize stored at construction", "the request is built without the `not computed` marker, its memoised size reads 0: a request decoded from the persistent queue is never split (25 records pass a max_size of 10 in one batch) and merging it leaves the batch's recorded size unchanged")
			})
		}
	}
	if n == 0 {
		c.Undecided("constructions of size-memoising request types", "-", "none found")
	}
}

// ---------- C05.R14: the delay the backend asked for is a lower bound of the wait ----------
func runC05ThrottleFloor(c *Ctx) {
	p := c.P
	c.Rule("R14", "DEP", "the delay carried by a throttling error is a lower bound of the wait before the next attempt: it is combined with the back-off by `max` only and never passes through `min` (no clamp to max_interval or anything else)", 1)
	pk := p.Pkg("exporter/exporterhelper/internal")
	if pk == nil {
		c.Anchor("exporterhelper/internal")
		return
	}
	n := 0
	for _, fn := range p.AllSrcFuncs(pk) {
		isDelay := func(v ssa.Value) bool {
			for x := range backSlice(v) {
				var st *types.Struct
				var idx int
				switch y := x.(type) {
				case *ssa.FieldAddr:
					st, idx = derefStruct(y.X.Type()), y.Field
				case *ssa.Field:
					st, idx = derefStruct(y.X.Type()), y.Field
				}
				_ = idx
				if st != nil && isThrottleDelayAccessA3(x) { // by type, not by the field's name
					return true
				}
			}
			return false
		}
		for _, ci := range calls(fn, func(ci ssa.CallInstruction) bool { b := builtinName(ci); return b == "max" || b == "min" }) {
			uses := false
			for _, a := range ci.Common().Args {
				if isDelay(a) {
					uses = true
				}
			}
			if !uses {
				continue
			}
			n++
			c.Check(builtinName(ci) == "max", fmt.Sprintf("throttle delay use #%d in %s keeps the delay as a floor", n, fnName(fn)), p.Pos(ci.Pos()), "max(back-off, delay)", "the requested delay goes through `min`: a backend that asks for 400ms with max_interval 50ms is retried after 50ms – earlier than it asked for")
		}
	}
	if n == 0 {
		// compare-and-assign form of max: the delay is an operand of an ordering comparison
		for _, fn := range p.AllSrcFuncs(pk) {
			allInstrs(fn, func(in ssa.Instruction) {
				bo, ok := in.(*ssa.BinOp)
				if !ok {
					return
				}
				switch bo.Op {
				case token.LSS, token.GTR, token.LEQ, token.GEQ:
				default:
					return
				}
				for _, side := range []ssa.Value{bo.X, bo.Y} {
					for x := range backSlice(side) {
						var st *types.Struct
						var idx int
						switch y := x.(type) {
						case *ssa.FieldAddr:
							st, idx = derefStruct(y.X.Type()), y.Field
						case *ssa.Field:
							st, idx = derefStruct(y.X.Type()), y.Field
						}
						_ = idx
						if st != nil && isThrottleDelayAccessA3(x) { // by type, not by the field's name
							n++
							c.OK("throttle delay compared with the back-off in "+fnName(fn), p.Pos(bo.Pos()), "compare-and-assign form")
							return
						}
					}
				}
			})
		}
	}
	if n == 0 {
		c.Undecided("use of the throttle delay in the retry sender", "-", "not found")
	}
}

// ---------- C07.R11: a mutator checks every mutability precondition before it writes anything ----------
func runC07AssertFirst(c *Ctx) {
	p := c.P
	c.Rule("R11", "ORD", "a pdata mutator that must panic on a read-only operand panics without having changed anything: every AssertMutable call of a function precedes all of its writes to shared memory (stores through pointers that are not fresh locals, map updates) – no store can reach a later assertion", 40)
	n := 0
	for _, pk := range p.Pkgs {
		if !strings.HasPrefix(pk.PkgPath, modPrefix+"/pdata") || strings.Contains(pk.PkgPath, "/protogen") {
			continue
		}
		for _, fn := range p.AllSrcFuncs(pk) {
			if fn.Parent() != nil {
				continue
			}
			asserts := callsNamed(fn, func(f *types.Func) bool { return f.Name() == "AssertMutable" })
			if len(asserts) < 2 {
				continue
			}
			n++
			var bad ssa.Instruction
			allInstrs(fn, func(in ssa.Instruction) {
				st, ok := in.(*ssa.Store)
				if !ok {
					return
				}
				// writes into memory the function did not allocate itself
				local := false
				for v := range backSlice(st.Addr) {
					if al, ok := v.(*ssa.Alloc); ok && !al.Heap {
						local = true
					}
				}
				if _, isAl := st.Addr.(*ssa.Alloc); isAl {
					local = true
				}
				if local {
					return
				}
				for _, a := range asserts {
					if canReach(st, a.(ssa.Instruction), nil) {
						bad = st
					}
				}
			})
			c.Check(bad == nil, fnName(fn)+" asserts before it writes", p.Pos(fn.Pos()), "all AssertMutable calls precede the first shared write", "a store ("+posOf(p, bad)+") can be executed before one of the mutability assertions: with a read-only source and a mutable destination the call panics after the destination was already changed – and the destination now aliases the read-only payload's nested data")
		}
	}
	if n == 0 {
		c.Undecided("pdata functions with two mutability assertions", "-", "none found")
	}
}

// ---------- C07.R12: CopyTo never lets the destination share the source's memory ----------
func runC07CopyNoAlias(c *Ctx) {
	p := c.P
	c.Rule("R12", "OWN", "CopyTo gives the destination memory of its own: what a CopyTo method stores into its destination is never the source's slice (or a sub-slice of it, whatever its capacity) – also when the source is read-only, because the copy is mutable", 20)
	n := 0
	for _, pk := range p.Pkgs {
		if !strings.HasPrefix(pk.PkgPath, modPrefix+"/pdata") || strings.Contains(pk.PkgPath, "/protogen") {
			continue
		}
		for _, fn := range p.AllSrcFuncs(pk) {
			if fn.Parent() != nil || fn.Name() != "CopyTo" || fn.Signature.Recv() == nil || len(fn.Params) != 2 {
				continue
			}
			n++
			src := fn.Params[0]
			fromSrc := func(v ssa.Value) bool {
				// a load whose address chain leads back to the receiver without passing a call that could copy
				seen := map[ssa.Value]bool{}
				var walk func(x ssa.Value) bool
				walk = func(x ssa.Value) bool {
					if x == nil || seen[x] {
						return false
					}
					seen[x] = true
					if x == ssa.Value(src) {
						return true
					}
					switch y := x.(type) {
					case *ssa.Slice:
						return walk(y.X)
					case *ssa.UnOp:
						return walk(y.X)
					case *ssa.FieldAddr:
						return walk(y.X)
					case *ssa.Field:
						return walk(y.X)
					case *ssa.ChangeType:
						return walk(y.X)
					case *ssa.Phi:
						for _, e := range y.Edges {
							if walk(e) {
								return true
							}
						}
					case *ssa.Call:
						// accessor of the receiver (getOrig): the result points into the source
						if cf := y.Call.StaticCallee(); cf != nil && len(y.Call.Args) == 1 && strings.HasPrefix(cf.Name(), "get") {
							return walk(y.Call.Args[0])
						}
					case *ssa.Alloc:
						for _, r := range *y.Referrers() {
							if st, ok := r.(*ssa.Store); ok && st.Addr == ssa.Value(y) && walk(st.Val) {
								return true
							}
						}
					}
					return false
				}
				return walk(v)
			}
			var bad ssa.Instruction
			allInstrs(fn, func(in ssa.Instruction) {
				st, ok := in.(*ssa.Store)
				if !ok {
					return
				}
				switch st.Val.Type().Underlying().(type) {
				case *types.Slice, *types.Map:
				default:
					return
				}
				if _, isAl := st.Addr.(*ssa.Alloc); isAl {
					return
				}
				if fromSrc(st.Val) {
					bad = st
				}
			})
			c.Check(bad == nil, fnName(fn)+" does not hand the source's memory to the destination", p.Pos(fn.Pos()), "stored containers are copies", "the destination receives the source's own slice ("+posOf(p, bad)+"): editing the copy in place (SetAt, a FromRaw that fits, a later CopyTo over it) rewrites the source – silently, even when the source is a read-only payload shared with other consumers")
		}
	}
	if n == 0 {
		c.Undecided("CopyTo methods in pdata", "-", "none found")
	}
}

// ---------- C06.R12 (share of C08.R11) ----------
func runC06Shares5(c *Ctx) {
	shareRule(c, "C08", runC08, []string{"C08.R11"}, "R12", "COV", "a clone made for a mutating consumer encodes like the original (same rule as C08.R11): the bytes alternative copied by Value.CopyTo holds a provably non-nil slice, so a zero-length bytes value keeps its type on the wire for every consumer", 3)
}

// ---------- C08.R16: every protobuf decode entry point of a signal migrates its deprecated fields ----------
func runC08MigrateSiblings(c *Ctx) {
	p := c.P
	c.Rule("R16", "COV", "sibling agreement of the protobuf decoders: every pdata function that decodes a logs, traces or metrics payload with the generated Unmarshal also calls the migration of deprecated fields (pdata/internal/otlp.Migrate*), as the JSON decoders and the other request decoders do – otherwise the same bytes decode to different data depending on the entry point", 6)
	n := 0
	for _, pk := range p.Pkgs {
		if !strings.HasPrefix(pk.PkgPath, modPrefix+"/pdata") || strings.Contains(pk.PkgPath, "/protogen") || strings.HasSuffix(pk.PkgPath, "/internal/otlp") {
			continue
		}
		for _, fn := range p.AllSrcFuncs(pk) {
			if fn.Parent() != nil {
				continue
			}
			for _, ci := range calls(fn, func(ci ssa.CallInstruction) bool {
				f := calleeOf(ci)
				if f == nil || f.Name() != "Unmarshal" || f.Pkg() == nil || !strings.Contains(f.Pkg().Path(), "/protogen/") {
					return false
				}
				path := f.Pkg().Path()
				if !(strings.Contains(path, "/logs/") || strings.Contains(path, "/trace/") || strings.Contains(path, "/metrics/")) {
					return false
				}
				sig, _ := f.Type().(*types.Signature)
				if sig == nil || sig.Recv() == nil {
					return false
				}
				rn := namedOf(sig.Recv().Type())
				if rn == nil {
					return false
				}
				switch rn.Obj().Name() {
				case "LogsData", "TracesData", "MetricsData", "ExportLogsServiceRequest", "ExportTraceServiceRequest", "ExportMetricsServiceRequest":
					return true
				}
				return false
			}) {
				n++
				mig := callsNamed(fn, func(f *types.Func) bool {
					return f.Pkg() != nil && strings.HasSuffix(f.Pkg().Path(), "/pdata/internal/otlp") && strings.HasPrefix(f.Name(), "Migrate")
				})
				c.Check(len(mig) > 0, "payload decoded in "+fnName(fn)+" is migrated", p.Pos(ci.Pos()), "Migrate* called by the decoding function", "the function decodes the payload and hands it out without migrating the deprecated scope field: bytes of an old sender (scopes under field 1000) decode to 0 records here, while the sibling decoders return the data – and CopyTo / a JSON round trip of the result drop it")
			}
		}
	}
	if n == 0 {
		c.Undecided("protobuf payload decoders in pdata", "-", "none found")
	}
}

// ---------- C08.R17: a ByteSlice never leaves nil where a bytes value may live ----------
func runC08ByteSliceNonNil(c *Ctx) {
	p := c.P
	c.Rule("R17", "COV", "the methods of ByteSlice never store the nil slice through an origin pointer: a ByteSlice can be the content of a bytes-typed Value, whose generated encoder writes the alternative only when the slice is non-nil (same reason as C08.R11) – MoveTo resets its source to an empty, non-nil slice", 1)
	pk := p.Pkg("pdata/pcommon")
	T := p.LookupType("pdata/pcommon", "ByteSlice")
	if pk == nil || T == nil {
		c.Anchor("pcommon.ByteSlice")
		return
	}
	n := 0
	for _, fn := range p.AllSrcFuncs(pk) {
		if fn.Parent() != nil || recvNamedOfFn(fn) != T {
			continue
		}
		var bad ssa.Instruction
		stores := 0
		allInstrs(fn, func(in ssa.Instruction) {
			st, ok := in.(*ssa.Store)
			if !ok {
				return
			}
			if _, isSlice := st.Val.Type().Underlying().(*types.Slice); !isSlice {
				return
			}
			if _, isAl := st.Addr.(*ssa.Alloc); isAl {
				return
			}
			stores++
			if isNilConst(st.Val) {
				bad = st
			}
		})
		if stores == 0 {
			continue
		}
		n++
		c.Check(bad == nil, fnName(fn)+" leaves no nil slice behind", p.Pos(fn.Pos()), "no store of the nil slice", "the method stores nil through an origin pointer ("+posOf(p, bad)+"): after value.Bytes().MoveTo(other) the value still says Type()==Bytes but holds nil – protobuf encodes it as an AnyValue without content, it decodes as Empty, and a CopyTo clone (non-nil) differs from its original on the wire")
	}
	if n == 0 {
		c.Undecided("storing methods of ByteSlice", "-", "none found")
	}
}

// ---------- C15.R12: a JSON payload decoder accepts one document and nothing after it ----------
func runC15JSONExhausted(c *Ctx) {
	p := c.P
	c.Rule("R12", "ORD", "a malformed JSON request does not reach the consumer: the JSON payload decoders (UnmarshalLogs/Traces/Metrics/Profiles of the JSONUnmarshalers, which the request decoders and the OTLP/HTTP receiver delegate to) check that nothing but white space follows the document they read – a hand-driven jsoniter iterator does not do that by itself", 4)
	n := 0
	for _, pk := range p.Pkgs {
		if !strings.HasPrefix(pk.PkgPath, modPrefix+"/pdata") {
			continue
		}
		for _, fn := range p.AllSrcFuncs(pk) {
			if fn.Parent() != nil || fn.Signature.Recv() == nil {
				continue
			}
			rn := recvNamedOfFn(fn)
			if rn == nil || rn.Obj().Name() != "JSONUnmarshaler" || !strings.HasPrefix(fn.Name(), "Unmarshal") {
				continue
			}
			borrow := callsNamed(fn, func(f *types.Func) bool { return f.Name() == "BorrowIterator" })
			if len(borrow) == 0 {
				continue
			}
			n++
			eof := false
			var look func(g *ssa.Function, d int)
			look = func(g *ssa.Function, d int) {
				if g == nil || d > 1 {
					return
				}
				for _, ci := range calls(g, func(ssa.CallInstruction) bool { return true }) {
					f := calleeOf(ci)
					if f == nil {
						continue
					}
					if f.Name() == "WhatIsNext" || f.Name() == "ReadNil" && false {
						eof = true
					}
					if sf := staticCalleeFn(ci); sf != nil && sf.Pkg != nil && strings.HasSuffix(sf.Pkg.Pkg.Path(), "/pdata/internal/json") && d == 0 {
						look(sf, d+1)
					}
				}
			}
			// only a look-ahead made AFTER the document was read counts: the helper is called from the decoder itself
			for _, ci := range calls(fn, func(ssa.CallInstruction) bool { return true }) {
				if sf := staticCalleeFn(ci); sf != nil && sf.Pkg != nil && strings.HasSuffix(sf.Pkg.Pkg.Path(), "/pdata/internal/json") && len(sf.Params) == 1 {
					look(sf, 1)
				}
			}
			c.Check(eof, fnName(fn)+" checks that the input is exhausted", p.Pos(fn.Pos()), "end-of-input look-ahead after the document", "the decoder reads one value and returns the iterator's error without looking at what follows: `{…}xyz`, `{…}{…}` or `{…}}` are accepted – the OTLP/HTTP receiver answers 200, the first document reaches the consumer and the rest is silently dropped")
		}
	}
	if n == 0 {
		c.Undecided("JSON payload decoders", "-", "none found")
	}
}

// ---------- C20.R15 / R16 ----------
func runC20Round5(c *Ctx) {
	p := c.P
	c.Rule("R15", "GATE", "a shutdown request is recorded in every state: Collector.Shutdown closes the shutdown channel unconditionally (idempotently) – it is not limited to Running/Starting, so a request that arrives while a reload is shutting the old service down (state Closing) is honoured when the run loop is back in its select", 1)
	m := p.LookupMethod("otelcol", "Collector", "Shutdown")
	if m == nil {
		c.Anchor("Collector.Shutdown")
	} else {
		fn := p.SSAFunc(m)
		n := 0
		for _, g := range withAnon(fn) {
			for _, cl := range calls(g, func(ci ssa.CallInstruction) bool { return builtinName(ci) == "close" }) {
				n++
				stateDep := false
				for _, cond := range controllingCondsDeep(cl.Block()) {
					for v := range backSlice(cond) {
						if cc, ok := v.(*ssa.Call); ok {
							if f := calleeOf(cc); f != nil && (f.Name() == "GetState" || f.Name() == "Load") {
								stateDep = true
							}
						}
					}
				}
				c.Check(!stateDep, "shutdown request is signalled in every state", p.Pos(cl.Pos()), "close not conditioned on the collector state", "the close of the shutdown channel is conditioned on the collector state: Shutdown() called while reloadConfiguration is in state Closing does nothing and leaves no trace – the new service starts, Run never returns (a Windows service stop waits for ever)")
			}
		}
		if n == 0 {
			c.Undecided("close of the shutdown channel in Collector.Shutdown", p.Pos(fn.Pos()), "not found")
		}
	}

	c.Rule("R16", "TS", "shutting the configuration resolver down cannot panic a provider: the watcher callback never sends on the watch channel unconditionally – the send is an alternative of a select whose other alternative is released by Shutdown, so a provider that delivers an event while, or after, Shutdown closes the channel is not left with `send on closed channel`", 1)
	cpk := p.Pkg("confmap")
	RT := p.LookupType("confmap", "Resolver")
	if cpk == nil || RT == nil {
		c.Anchor("confmap.Resolver")
		return
	}
	st := derefStruct(RT)
	n := 0
	closesWatch := false
	for _, fn := range p.AllSrcFuncs(cpk) {
		if recvNamedOfFn(fn) != RT {
			continue
		}
		isWatch := func(v ssa.Value) bool {
			for x := range backSlice(v) {
				if fa, ok := x.(*ssa.FieldAddr); ok && namedOf(fa.X.Type()) == RT && st.Field(fa.Field).Name() == "watcher" {
					return true
				}
			}
			return false
		}
		for _, cl := range calls(fn, func(ci ssa.CallInstruction) bool { return builtinName(ci) == "close" }) {
			if isWatch(cl.Common().Args[0]) {
				closesWatch = true
			}
		}
		allInstrs(fn, func(in ssa.Instruction) {
			switch x := in.(type) {
			case *ssa.Send:
				if isWatch(x.Chan) {
					n++
					c.Bad("send on the watch channel in "+fnName(fn)+" can be abandoned", p.Pos(x.Pos()), "the callback sends unconditionally while Shutdown closes the channel before the providers' watches are closed: a provider that calls the callback in that window, or that is blocked in the send because the one-slot buffer is full, panics with `send on closed channel`")
				}
			case *ssa.Select:
				for _, s := range x.States {
					if s.Dir == types.SendOnly && isWatch(s.Chan) {
						n++
						other := false
						for _, s2 := range x.States {
							if s2.Dir == types.RecvOnly {
								other = true
							}
						}
						c.Check(other, "send on the watch channel in "+fnName(fn)+" can be abandoned", p.Pos(x.Pos()), "select with a release alternative", "the select has no alternative that Shutdown releases")
					}
				}
			}
		})
	}
	if n == 0 {
		c.Undecided("send on the resolver's watch channel", "-", "not found")
	}
	_ = closesWatch
}

// ---------- C12.R14 ----------
func runC12PtrString(c *Ctx) {
	p := c.P
	c.Rule("R14", "TAB", "a pointer-to-string field gets the original text like a string field: the kind test of the decode hook that chooses between the original text and the parsed value looks through pointers (the kind it tests is taken after Elem() on pointer types) – the hook is called with the pointer type first, and what it hands out then is what the string receives", 1)
	pk := p.Pkg("confmap")
	ev := p.LookupType("confmap", "expandedValue")
	if pk == nil || ev == nil {
		c.Anchor("confmap.expandedValue")
		return
	}
	n := 0
	for _, fn := range p.AllSrcFuncs(pk) {
		if fn.Parent() == nil {
			continue
		}
		isHook := false
		allInstrs(fn, func(in ssa.Instruction) {
			if ta, ok := in.(*ssa.TypeAssert); ok && namedOf(ta.AssertedType) == ev {
				isHook = true
			}
		})
		if !isHook {
			continue
		}
		// the flag of the representation choice: a comparison of a Kind() result with reflect.String that is passed to a call
		allInstrs(fn, func(in ssa.Instruction) {
			bo, ok := in.(*ssa.BinOp)
			if !ok || bo.Op != token.EQL {
				return
			}
			k, isK := constInt(bo.Y)
			if !isK || k != 24 { // reflect.String
				return
			}
			kc, ok := bo.X.(*ssa.Call)
			if !ok || !kc.Call.IsInvoke() || kc.Call.Method.Name() != "Kind" {
				return
			}
			usedAsArg := false
			for _, r := range *bo.Referrers() {
				if _, ok := r.(ssa.CallInstruction); ok {
					usedAsArg = true
				}
			}
			if !usedAsArg {
				return
			}
			n++
			through := false
			for v := range backSlice(kc.Call.Value) {
				if cc, ok := v.(*ssa.Call); ok && cc.Call.IsInvoke() && cc.Call.Method.Name() == "Elem" {
					through = true
				}
			}
			c.Check(through, "representation choice in "+fnName(fn)+" looks through pointers", p.Pos(bo.Pos()), "Kind() taken after Elem() on pointer targets", "the choice tests the kind of the target type itself: for a `*string` field (and `*configopaque.String`, `[]struct{Value *string}` as used for headers) the hook is called with the pointer type, hands out the parsed value, and `field: ${env:ID}` with ID=12345 fails with `expected type 'string', got unconvertible type 'int'` while a plain string field gets \"12345\"")
		})
	}
	if n == 0 {
		c.Undecided("representation choice of the decode hook", "-", "not found")
	}
}

// ---------- C02.R14 / R15 ----------
func runC02Round5(c *Ctx) {
	p := c.P
	pk := p.Pkg("exporter/exporterhelper/internal/queuebatch")
	a := findPQ(p)
	q := findQB(p)
	if pk == nil || a == nil || q == nil {
		c.Anchor("queuebatch queues")
		return
	}
	isWait := func(ci ssa.CallInstruction) bool {
		sf := staticCalleeFn(ci)
		return sf != nil && sf.Name() == "Wait" && recvNamedOfFn(sf) == q.cond
	}
	isSignal := func(ci ssa.CallInstruction) bool {
		sf := staticCalleeFn(ci)
		return sf != nil && (sf.Name() == "Signal" || sf.Name() == "Broadcast") && recvNamedOfFn(sf) == q.cond
	}
	c.Rule("R14", "PAIR", "a producer that was let through the capacity wait and then fails passes the space on: in an enqueue function that can wait for `more space`, every return of a non-nil error that lies behind the wait loop is preceded by a signal on that condition – the wake-up it consumed would otherwise be lost and the other blocked producers stay blocked, on an empty queue", 1)
	n := 0
	for _, fn := range p.AllSrcFuncs(pk) {
		if fn.Parent() != nil {
			continue
		}
		waits := calls(fn, isWait)
		if len(waits) == 0 {
			continue
		}
		via := map[ssa.Instruction]bool{}
		for _, s := range calls(fn, isSignal) {
			via[s.(ssa.Instruction)] = true
		}
		// the wait loop and the block behind it
		hdr, body := innermostLoop(waits[0].Block())
		var exit *ssa.BasicBlock
		if hdr != nil {
			for _, s := range hdr.Succs {
				if !body[s] {
					exit = s
				}
			}
		}
		if exit == nil {
			continue
		}
		for _, r := range returnsOf(fn) {
			res := resultsOf(r)
			if len(res) == 0 || isNilConst(res[len(res)-1]) || !(exit == r.Block() || exit.Dominates(r.Block())) {
				continue
			}
			// the returned error must not be the Wait's own result (that path is the condition variable's business, C02.R13)
			fromWait := false
			for v := range backSlice(res[len(res)-1]) {
				for _, w := range waits {
					if v == w.Value() {
						fromWait = true
					}
				}
			}
			if fromWait {
				continue
			}
			// a queue that is stopped releases every waiter itself (R15): nothing to pass on
			stoppedSide := false
			for _, g := range guardsOf(r.Block()) {
				// (dominating guards only: the loop test `for !stopped && full` controls every block behind the loop as well)
				gv, pol := boolOf(g)
				if u, ok := gv.(*ssa.UnOp); ok && u.Op == token.MUL && pol {
					if fa, ok := u.X.(*ssa.FieldAddr); ok && derefStruct(fa.X.Type()).Field(fa.Field).Name() == "stopped" {
						stoppedSide = true
					}
				}
			}
			if stoppedSide {
				continue
			}
			n++
			ok := true
			for _, w := range waits {
				if canReach(w.(ssa.Instruction), r, via) {
					ok = false
				}
			}
			c.Check(ok, fmt.Sprintf("failure return #%d behind the capacity wait of %s passes the wake-up on", n, fnName(fn)), p.Pos(r.Pos()), "signal before the error return", "the producer was woken by `more space`, fails (marshal or storage error) and returns without signalling: with capacity 1 and three blocked producers, two failing writes leave the third blocked for ever although the queue is empty (Size()==0)")
		}
	}
	if n == 0 {
		c.Undecided("failure returns behind a capacity wait", "-", "none found")
	}

	c.Rule("R15", "GATE", "a stopped in-memory queue accepts nothing: the enqueue reads the stopped flag under the queue mutex and refuses, and Shutdown releases the producers that wait for space – a request enqueued after the consumers drained and left is accepted, never exported and never counted", 2)
	mqT := q.mq
	var addFn, shutFn *ssa.Function
	for _, fn := range p.AllSrcFuncs(pk) {
		if fn.Parent() != nil || recvNamedOfFn(fn) == nil || recvNamedOfFn(fn).Origin() != mqT.Origin() {
			continue
		}
		if len(calls(fn, isWait)) > 0 {
			addFn = fn
		}
		if fn.Name() == "Shutdown" {
			shutFn = fn
		}
	}
	if addFn == nil || shutFn == nil {
		c.Undecided("memory queue enqueue / Shutdown", "-", "not found")
		return
	}
	// an error return on the stopped==true side of a test of the flag
	readsStopped := false
	for _, r := range returnsOf(addFn) {
		res := resultsOf(r)
		if len(res) == 0 || isNilConst(res[len(res)-1]) {
			continue
		}
		for _, g := range guardsOf(r.Block()) {
			v, br := boolOf(g)
			if u, ok := v.(*ssa.UnOp); ok && u.Op == token.MUL && br {
				if fa, ok := u.X.(*ssa.FieldAddr); ok && derefStruct(fa.X.Type()).Field(fa.Field).Name() == "stopped" {
					readsStopped = true
				}
			}
		}
	}
	c.Check(readsStopped, fnName(addFn)+" refuses when the queue is stopped", p.Pos(addFn.Pos()), "branch on the stopped flag", "the enqueue never looks at the stopped flag: ConsumeLogs after Shutdown returns nil and the data silently disappears (given=5 exported=0 enqueue_failed=0); a producer blocked by block_on_overflow at shutdown is woken later by a completion and enqueues behind the consumers' back")
	wakes := false
	for _, s := range calls(shutFn, isSignal) {
		_ = s
		wakes = true
	}
	c.Check(wakes, fnName(shutFn)+" releases the producers waiting for space", p.Pos(shutFn.Pos()), "Broadcast/Signal on the space condition", "Shutdown wakes the consumers only: a producer blocked by block_on_overflow stays blocked until a completion happens to wake it (with wait_for_result: for ever)")
}

// ---------- C07.R13: moving a container onto itself is a no-op ----------
func runC07SelfMove(c *Ctx) {
	p := c.P
	c.Rule("R13", "GATE", "moving a container onto itself changes nothing: every MoveTo / MoveAndAppendTo of the pdata API (generated and hand-written) returns early when source and destination are the same object (an identity comparison of the two origins guards the reset of the source) – `x.ResourceLogs().MoveAndAppendTo(x.ResourceLogs())` must not empty the payload", 60)
	n := 0
	for _, pk := range p.Pkgs {
		if !strings.HasPrefix(pk.PkgPath, modPrefix+"/pdata") || strings.Contains(pk.PkgPath, "/protogen") || strings.Contains(pk.PkgPath, "/cmd/") {
			continue
		}
		for _, fn := range p.AllSrcFuncs(pk) {
			if fn.Parent() != nil || fn.Signature.Recv() == nil || len(fn.Params) != 2 || (fn.Name() != "MoveTo" && fn.Name() != "MoveAndAppendTo") {
				continue
			}
			if !types.Identical(fn.Params[0].Type(), fn.Params[1].Type()) {
				continue
			}
			if fn.Object() == nil || !fn.Object().Exported() {
				continue
			}
			// a type nothing produces any more (no generator entry, not reachable from the API) is not part of the family
			n++
			guard := false
			allInstrs(fn, func(in ssa.Instruction) {
				iff, ok := in.(*ssa.If)
				if !ok {
					return
				}
				bo, ok := iff.Cond.(*ssa.BinOp)
				if !ok || (bo.Op != token.EQL && bo.Op != token.NEQ) {
					return
				}
				if _, isPtr := bo.X.Type().Underlying().(*types.Pointer); !isPtr {
					return
				}
				l, r := false, false
				for v := range backSlice(bo.X) {
					if v == ssa.Value(fn.Params[0]) || loadsParam(v, fn.Params[0]) {
						l = true
					}
					if v == ssa.Value(fn.Params[1]) || loadsParam(v, fn.Params[1]) {
						r = true
					}
				}
				for v := range backSlice(bo.Y) {
					if v == ssa.Value(fn.Params[0]) || loadsParam(v, fn.Params[0]) {
						l = true
					}
					if v == ssa.Value(fn.Params[1]) || loadsParam(v, fn.Params[1]) {
						r = true
					}
				}
				if l && r {
					guard = true
				}
			})
			c.Check(guard, fnName(fn)+" is a no-op onto itself", p.Pos(fn.Pos()), "identity test of the two origins", "the method overwrites the destination with the source and then resets the source without asking whether they are the same object: moving (or move-appending) a container onto itself – two calls of the same accessor are enough – loses all its elements")
		}
	}
	if n == 0 {
		c.Undecided("MoveTo / MoveAndAppendTo methods", "-", "none found")
	}
}

// loadsParam: v is the spill slot load of a struct parameter (value receivers are spilled).
func loadsParam(v ssa.Value, prm *ssa.Parameter) bool {
	al, ok := v.(*ssa.Alloc)
	if !ok {
		return false
	}
	for _, r := range *al.Referrers() {
		if st, ok := r.(*ssa.Store); ok && st.Addr == ssa.Value(al) && st.Val == ssa.Value(prm) {
			return true
		}
	}
	return false
}

// reachConsistent: is target reachable from `from` without entering a block of cut, when two tests of the same boolean
// field that are not separated by a call or a store to that field are taken the same way? (The plain reachability of
// the toolkit is path-insensitive; this is the one correlation the queues need: `for !q.stopped && over { wait }` followed
// by `if q.stopped { return }`.)
func reachConsistent(from, target *ssa.BasicBlock, cut map[*ssa.BasicBlock]bool) bool {
	type key struct {
		base  ssa.Value
		field int
	}
	condKey := func(v ssa.Value) (key, bool, bool) { // key, polarity (true = field must be true on the true edge), ok
		pol := true
		for {
			u, ok := v.(*ssa.UnOp)
			if !ok {
				return key{}, false, false
			}
			if u.Op == token.NOT {
				pol = !pol
				v = u.X
				continue
			}
			if u.Op == token.MUL {
				if fa, ok := u.X.(*ssa.FieldAddr); ok {
					if b, ok := u.Type().Underlying().(*types.Basic); ok && b.Kind() == types.Bool {
						return key{strip(fa.X), fa.Field}, pol, true
					}
				}
			}
			return key{}, false, false
		}
	}
	type state struct {
		b *ssa.BasicBlock
		a string
	}
	seen := map[state]bool{}
	var dfs func(b *ssa.BasicBlock, asm map[key]bool) bool
	enc := func(asm map[key]bool) string {
		var parts []string
		for k, v := range asm {
			parts = append(parts, fmt.Sprintf("%p.%d=%v", k.base, k.field, v))
		}
		sortStringsInPlace(parts)
		return strings.Join(parts, ",")
	}
	dfs = func(b *ssa.BasicBlock, asm map[key]bool) bool {
		if cut[b] {
			return false
		}
		if b == target {
			return true
		}
		st := state{b, enc(asm)}
		if seen[st] {
			return false
		}
		seen[st] = true
		cur := map[key]bool{}
		for k, v := range asm {
			cur[k] = v
		}
		for _, in := range b.Instrs {
			switch x := in.(type) {
			case ssa.CallInstruction:
				if builtinName(x) == "" {
					cur = map[key]bool{}
				}
			case *ssa.Store:
				if fa, ok := x.Addr.(*ssa.FieldAddr); ok {
					delete(cur, key{strip(fa.X), fa.Field})
				}
			}
		}
		if iff, ok := b.Instrs[len(b.Instrs)-1].(*ssa.If); ok {
			if k, pol, ok := condKey(iff.Cond); ok {
				if v, known := cur[k]; known {
					idx := 1
					if v == pol {
						idx = 0
					}
					return dfs(b.Succs[idx], cur)
				}
				t := map[key]bool{}
				f := map[key]bool{}
				for kk, vv := range cur {
					t[kk], f[kk] = vv, vv
				}
				t[k], f[k] = pol, !pol
				return dfs(b.Succs[0], t) || dfs(b.Succs[1], f)
			}
		}
		for _, s := range b.Succs {
			if dfs(s, cur) {
				return true
			}
		}
		return false
	}
	return dfs(from, map[key]bool{})
}

func sortStringsInPlace(s []string) {
	for i := 1; i < len(s); i++ {
		for j := i; j > 0 && s[j] < s[j-1]; j-- {
			s[j], s[j-1] = s[j-1], s[j]
		}
	}
}

// isEmptySliceLit: `[]T{}` – a slice of a fresh zero-length array.
func isEmptySliceLit(v ssa.Value) bool {
	sl, ok := v.(*ssa.Slice)
	if !ok {
		return false
	}
	al, ok := sl.X.(*ssa.Alloc)
	if !ok {
		return false
	}
	arr, ok := al.Type().(*types.Pointer).Elem().Underlying().(*types.Array)
	return ok && arr.Len() == 0
}

// selfGuardExit: first instruction of the side of an identity test `src.orig == dest.orig` on which the two operands of a
// CopyTo/MoveTo are the same object (nothing to copy or move there).
func selfGuardExit(fn *ssa.Function) ssa.Instruction {
	if len(fn.Params) != 2 {
		return nil
	}
	var out ssa.Instruction
	allInstrs(fn, func(in ssa.Instruction) {
		iff, ok := in.(*ssa.If)
		if !ok {
			return
		}
		bo, ok := iff.Cond.(*ssa.BinOp)
		if !ok || (bo.Op != token.EQL && bo.Op != token.NEQ) {
			return
		}
		if _, isPtr := bo.X.Type().Underlying().(*types.Pointer); !isPtr {
			return
		}
		l, r := false, false
		for _, side := range []ssa.Value{bo.X, bo.Y} {
			for v := range backSlice(side) {
				if v == ssa.Value(fn.Params[0]) || loadsParam(v, fn.Params[0]) {
					l = true
				}
				if v == ssa.Value(fn.Params[1]) || loadsParam(v, fn.Params[1]) {
					r = true
				}
			}
		}
		if !(l && r) {
			return
		}
		idx := 0
		if bo.Op == token.NEQ {
			idx = 1
		}
		if s := iff.Block().Succs[idx]; len(s.Instrs) > 0 {
			out = s.Instrs[0]
		}
	})
	return out
}

// ---------- C08.R18–R20 ----------
func protoTag(tag string) (wire string, num int, ok bool) {
	i := strings.Index(tag, `protobuf:"`)
	if i < 0 {
		return "", 0, false
	}
	s := tag[i+len(`protobuf:"`):]
	if j := strings.Index(s, `"`); j >= 0 {
		s = s[:j]
	}
	parts := strings.Split(s, ",")
	if len(parts) < 2 {
		return "", 0, false
	}
	n := 0
	for _, ch := range parts[1] {
		if ch < '0' || ch > '9' {
			return "", 0, false
		}
		n = n*10 + int(ch-'0')
	}
	return parts[0], n, true
}

func tagLen(num int) int {
	// key = num<<3 | wiretype, varint encoded
	k := uint64(num) << 3
	n := 1
	for k >= 0x80 {
		k >>= 7
		n++
	}
	return n
}

func runC08Round5(c *Ctx) {
	p := c.P
	c.Rule("R18", "TAB", "every double of an OTLP/JSON payload is read with the reader that accepts what the writer produces: the pdata JSON decoders never call the iterator's own ReadFloat64/ReadFloat32 (which rejects the strings \"NaN\", \"Infinity\", \"-Infinity\" the encoder writes for non-finite values) – all of them go through the shared lenient helper", 10)
	n, bad := 0, 0
	for _, pk := range p.Pkgs {
		if !strings.HasPrefix(pk.PkgPath, modPrefix+"/pdata") || strings.HasSuffix(pk.PkgPath, "/pdata/internal/json") {
			continue
		}
		for _, fn := range p.AllSrcFuncs(pk) {
			for _, ci := range calls(fn, func(ci ssa.CallInstruction) bool {
				f := calleeOf(ci)
				return f != nil && (f.Name() == "ReadFloat64" || f.Name() == "ReadFloat32")
			}) {
				f := calleeOf(ci)
				n++
				if f.Pkg() != nil && strings.HasSuffix(f.Pkg().Path(), "/pdata/internal/json") {
					continue
				}
				bad++
				c.Bad("double read in "+fnName(fn)+" accepts non-finite values", p.Pos(ci.Pos()), "the field is read with the iterator's strict "+f.Name()+": a value the encoder wrote as \"Infinity\" / \"NaN\" (a histogram with a +Inf explicit bound) is rejected – the decoder refuses the encoder's own output")
			}
		}
	}
	if n == 0 {
		c.Undecided("double reads of the JSON decoders", "-", "none found")
	} else if bad == 0 {
		c.OK("all double reads go through the lenient helper", "-", fmt.Sprintf("%d reads", n))
		c.Rules[c.cur].Instances += n - 1
	}

	c.Rule("R19", "TAB", "in the generated protobuf code the size computed for a field agrees with what the encoder writes for it: the constant part that Size() adds for a field is the length of the field's tag (1 byte up to field number 15, 2 bytes above) plus the fixed width of its wire type (8 for fixed64, 4 for fixed32, 1 for bool) – a mismatch makes Marshal return a misaligned buffer or panic with an index out of range", 150)
	c.Rule("R20", "TAB", "the generated decoders read a fixed-width value when exactly its width is left: the bound test before a fixed64/fixed32 read is `(index + width) > length` (strict) – `>=` rejects a valid message whose last field is that value", 40)
	nSize, nFix := 0, 0
	for _, pk := range p.Pkgs {
		if !strings.Contains(pk.PkgPath, "/pdata/internal/data/protogen") {
			continue
		}
		for _, fn := range p.AllSrcFuncs(pk) {
			if fn.Parent() != nil || fn.Signature.Recv() == nil {
				continue
			}
			if fn.Name() == "Unmarshal" {
				c.Rule("R20", "", "", 0)
				allInstrs(fn, func(in ssa.Instruction) {
					iff, ok := in.(*ssa.If)
					if !ok {
						return
					}
					bo, ok := iff.Cond.(*ssa.BinOp)
					if !ok {
						return
					}
					add, ok := bo.X.(*ssa.BinOp)
					if !ok || add.Op != token.ADD {
						return
					}
					k, isK := constInt(add.Y)
					if !isK || (k != 8 && k != 4) {
						return
					}
					// compared with the input length, true side returns io.ErrUnexpectedEOF
					if call, ok := bo.Y.(*ssa.Call); !ok || builtinName(call) != "len" {
						return
					}
					nFix++
					if bo.Op != token.GTR {
						c.Bad(fmt.Sprintf("fixed-width bound test in %s (%s)", fnName(fn), p.Pos(iff.Cond.Pos())), p.Pos(iff.Cond.Pos()), "the test is `"+bo.Op.String()+"`: a message that ends with this fixed-width field (a span event that has only a timestamp) is refused with `unexpected EOF` although it is valid")
					}
				})
				continue
			}
			if fn.Name() != "Size" || len(fn.Params) != 1 {
				continue
			}
			st := derefStruct(fn.Params[0].Type())
			if st == nil {
				continue
			}
			c.Rule("R19", "", "", 0)
			recv := fn.Params[0]
			fieldsOf := func(v ssa.Value) map[int]bool {
				out := map[int]bool{}
				for x := range backSlice(v) {
					if fa, ok := x.(*ssa.FieldAddr); ok && strip(fa.X) == ssa.Value(recv) {
						out[fa.Field] = true
					}
				}
				return out
			}
			var constSum func(v ssa.Value) (int64, bool)
			constSum = func(v ssa.Value) (int64, bool) {
				if k, ok := constInt(v); ok {
					return k, true
				}
				if b, ok := v.(*ssa.BinOp); ok && b.Op == token.ADD {
					l, _ := constSum(b.X)
					r, _ := constSum(b.Y)
					return l + r, true
				}
				return 0, false
			}
			// the running total n: everything that flows into the returned value through phis and the left operand of additions
			total := map[ssa.Value]bool{}
			var mark func(v ssa.Value)
			mark = func(v ssa.Value) {
				if v == nil || total[v] {
					return
				}
				total[v] = true
				switch x := v.(type) {
				case *ssa.Phi:
					for _, e := range x.Edges {
						mark(e)
					}
				case *ssa.BinOp:
					if x.Op == token.ADD {
						mark(x.X)
					}
				case *ssa.UnOp:
					// named result spilled by defer/recover: not in generated code
				}
			}
			for _, r := range returnsOf(fn) {
				for _, rv := range resultsOf(r) {
					mark(rv)
				}
			}
			allInstrs(fn, func(in ssa.Instruction) {
				b, ok := in.(*ssa.BinOp)
				if !ok || b.Op != token.ADD || !total[b] || !total[b.X] {
					return
				}
				k, has := constSum(b.Y)
				if !has || k == 0 {
					return
				}
				fs := fieldsOf(b.Y)
				if len(fs) == 0 {
					for _, g := range guardsOf(b.Block()) {
						for f := range fieldsOf(g.Cond) {
							fs[f] = true
						}
					}
				}
				if len(fs) != 1 {
					return
				}
				var fi int
				for f := range fs {
					fi = f
				}
				wire, num, ok := protoTag(st.Tag(fi))
				if !ok {
					return
				}
				want := int64(tagLen(num))
				ft := st.Field(fi).Type()
				_, isSlice := ft.Underlying().(*types.Slice)
				switch wire {
				case "fixed64":
					if !isSlice {
						want += 8
					}
				case "fixed32":
					if !isSlice {
						want += 4
					}
				case "varint":
					if bt, ok := ft.Underlying().(*types.Basic); ok && bt.Kind() == types.Bool {
						want++
					}
				}
				nSize++
				if k != want {
					c.Bad(fmt.Sprintf("size of field %s.%s in %s", derefNamedName(recv.Type()), st.Field(fi).Name(), fnName(fn)), p.Pos(b.Pos()), fmt.Sprintf("Size() adds the constant %d for field number %d (wire type %s), the encoder writes %d: a payload that uses this field is sized wrongly – TracesSize is off and MarshalTraces panics with `index out of range` or returns a shifted buffer", k, num, wire, want))
				}
			})
		}
	}
	c.Rule("R19", "", "", 0)
	if nSize == 0 {
		c.Undecided("constant parts of generated Size methods", "-", "none recognised")
	} else {
		c.OK("constant parts of the generated Size methods agree with the tag tables", "-", fmt.Sprintf("%d field terms checked", nSize))
		c.Rules[c.cur].Instances += nSize - 1
	}
	c.Rule("R20", "", "", 0)
	if nFix == 0 {
		c.Undecided("fixed-width bound tests of the generated decoders", "-", "none recognised")
	} else {
		c.OK("fixed-width bound tests are strict", "-", fmt.Sprintf("%d tests", nFix))
		c.Rules[c.cur].Instances += nFix - 1
	}
}

func derefNamedName(t types.Type) string {
	if n := namedOf(t); n != nil {
		return n.Obj().Name()
	}
	return "?"
}

// ---------- C11.R11 / R12 ----------
func runC11Round5(c *Ctx) {
	p := c.P
	c.Rule("R11", "DEP", "an instance id that gains pipelines is stored back: InstanceID.WithPipelines returns a new value, so every call site uses its result (stores it into the graph's id table) – a shared component's status then reaches every pipeline it belongs to", 3)
	gpk := p.Pkg("service/internal/graph")
	if gpk == nil {
		c.Anchor("service/internal/graph")
	} else {
		n := 0
		for _, fn := range p.AllSrcFuncs(gpk) {
			for _, ci := range callsNamed(fn, func(f *types.Func) bool { return f.Name() == "WithPipelines" }) {
				n++
				used := false
				if v := ci.Value(); v != nil && v.Referrers() != nil {
					for _, r := range *v.Referrers() {
						switch r.(type) {
						case *ssa.Store, *ssa.MapUpdate, *ssa.Return, *ssa.Phi, ssa.CallInstruction, *ssa.MakeInterface:
							used = true
						}
					}
				}
				c.Check(used, fmt.Sprintf("result of WithPipelines #%d in %s is kept", n, fnName(fn)), p.Pos(ci.Pos()), "stored back", "the merged instance id is computed and thrown away: a connector that joins three pipelines keeps the id of its first pair, its status events never name the other pipelines")
			}
		}
		if n == 0 {
			c.Undecided("calls of InstanceID.WithPipelines", "-", "none found")
		}
	}

	c.Rule("R12", "ORD", "the status state machine commits a transition before it tells anybody: in the transition function the store of the new current event precedes the notification callback on every path – a watcher that panics (and is recovered above) must not leave the machine behind the events it already delivered", 1)
	spk := p.Pkg("service/internal/status")
	if spk == nil {
		c.Anchor("service/internal/status")
		return
	}
	n := 0
	for _, fn := range p.AllSrcFuncs(spk) {
		if fn.Parent() != nil || fn.Signature.Recv() == nil {
			continue
		}
		var cur []*ssa.Store
		allInstrs(fn, func(in ssa.Instruction) {
			if st, ok := in.(*ssa.Store); ok {
				if fa, ok := st.Addr.(*ssa.FieldAddr); ok && derefStruct(fa.X.Type()).Field(fa.Field).Name() == "current" {
					cur = append(cur, st)
				}
			}
		})
		if len(cur) == 0 {
			continue
		}
		// dynamic calls through a field of the receiver: the notification callback
		for _, ci := range calls(fn, func(ci ssa.CallInstruction) bool {
			if ci.Common().IsInvoke() || staticCalleeFn(ci) != nil || builtinName(ci) != "" {
				return false
			}
			for v := range backSlice(ci.Common().Value) {
				if _, ok := v.(*ssa.FieldAddr); ok {
					return true
				}
			}
			return false
		}) {
			n++
			dom := false
			for _, s := range cur {
				if instrDominates(s, ci.(ssa.Instruction)) {
					dom = true
				}
			}
			c.Check(dom, "transition in "+fnName(fn)+" is committed before it is announced", p.Pos(ci.Pos()), "store of current dominates the callback", "the callback runs before the new state is stored: when one of several watchers panics while the event is fanned out (and the panic is absorbed above ReportStatus) the earlier watchers have seen the event but the machine has not moved – it then accepts PermanentError → RecoverableError → OK and delivers PermanentError twice")
		}
	}
	if n == 0 {
		c.Undecided("notification callback of the status state machine", "-", "not found")
	}
}

// ---------- C09.R16, C11.R13, C12.R15, C13.R16/R17 ----------
func runC09EntryForwards(c *Ctx) {
	p := c.P
	c.Rule("R16", "ORD", "the nodes the graph builder puts in front of a pipeline forward unconditionally: a Consume* method declared in service/internal/graph has no path to a return that bypasses the call of the next consumer (no verdict on the context, the payload or anything else stands between a receiver and the pipeline it feeds)", 0)
	gpk := p.Pkg("service/internal/graph")
	if gpk == nil {
		c.Anchor("service/internal/graph")
		return
	}
	n := 0
	for _, fn := range p.AllSrcFuncs(gpk) {
		if fn.Parent() != nil || fn.Signature.Recv() == nil || !strings.HasPrefix(fn.Name(), "Consume") || len(fn.Params) != 3 {
			continue
		}
		n++
		via := map[ssa.Instruction]bool{}
		for _, ci := range calls(fn, func(ci ssa.CallInstruction) bool {
			if ci.Common().IsInvoke() {
				return strings.HasPrefix(ci.Common().Method.Name(), "Consume")
			}
			if f := calleeOf(ci); f != nil {
				return strings.HasPrefix(f.Name(), "Consume")
			}
			// func-typed field / value
			return staticCalleeFn(ci) == nil && builtinName(ci) == ""
		}) {
			via[ci.(ssa.Instruction)] = true
		}
		esc, r := reachesReturnWithout(fn, nil, via)
		c.Check(!esc, fnName(fn)+" always forwards", p.Pos(fn.Pos()), "every return is behind the call of the next consumer", "a path returns without handing the payload on ("+posOf(p, r)+"): a batch whose receiver context ended while it was inside an earlier pipeline is delivered to that pipeline's exporter but not to the pipeline behind the connector")
	}
	if n == 0 {
		c.OK("package graph declares no Consume* method of its own (the entry nodes embed the consumer function types)", "-", "nothing stands between a receiver and its pipeline")
	}
}

func runC11HistoryComplete(c *Ctx) {
	p := c.P
	c.Rule("R13", "GATE", "the shared component's replay history records every event it emits: whether an event is remembered depends on the presence of attached sources only, never on the event itself (its status, what was remembered before) – an instance attached later is replayed the true sequence, ending in the current status", 1)
	pk := p.Pkg("internal/sharedcomponent")
	if pk == nil {
		c.Anchor("internal/sharedcomponent")
		return
	}
	n := 0
	for _, fn := range p.AllSrcFuncs(pk) {
		if fn.Parent() != nil || len(fn.Params) != 2 {
			continue
		}
		ev := fn.Params[1]
		allInstrs(fn, func(in ssa.Instruction) {
			st, ok := in.(*ssa.Store)
			if !ok {
				return
			}
			fa, ok := st.Addr.(*ssa.FieldAddr)
			if !ok || !typeIs(fa.X.Type(), "container/ring", "Ring") || derefStruct(fa.X.Type()).Field(fa.Field).Name() != "Value" {
				return
			}
			n++
			dep := false
			for _, cond := range controllingCondsDeep(st.Block()) {
				for v := range backSlice(cond) {
					if v == ssa.Value(ev) {
						dep = true
					}
				}
			}
			c.Check(!dep, "event remembered in "+fnName(fn)+" whatever it is", p.Pos(st.Pos()), "guard independent of the event", "whether the event enters the replay history depends on the event (e.g. `no event of this status is remembered yet`): after RecoverableError → OK → RecoverableError the history ends with OK, a signal attached afterwards is replayed an outdated status and the instances of one component disagree for good")
		})
	}
	if n == 0 {
		c.Undecided("store into the replay ring", "-", "not found")
	}
}

func runC12Shares5(c *Ctx) {
	shareRule(c, "C13", runC13, []string{"C13.R11"}, "R15", "ORD", "the expanded-value hook is the first decode hook (same rule as C13.R11): every other hook – the one that replaces nil map entries by zero structs included – sees the value a whole-value reference stands for, so `${file:m.yaml}` with a null entry decodes like the same map written in place", 1)
}

func runC13Round5(c *Ctx) {
	p := c.P
	c.Rule("R16", "COV", "every way of loading a configuration validates it with the recursive validator: each function of the collector that obtains the configuration from the provider calls xconfmap.Validate on it, and nothing in the collector calls the root Config.Validate directly (that runs the root rules only – component, nested, telemetry and per-pipeline rules are skipped)", 2)
	opk := p.Pkg("otelcol")
	if opk == nil {
		c.Anchor("otelcol")
		return
	}
	n := 0
	for _, fn := range p.AllSrcFuncs(opk) {
		if fn.Parent() != nil {
			continue
		}
		gets := callsNamed(fn, func(f *types.Func) bool {
			return f.Name() == "Get" && f.Pkg() != nil && f.Pkg().Path() == pkgOtelcol && strings.Contains(f.FullName(), "ConfigProvider")
		})
		if len(gets) > 0 {
			n++
			val := callsNamed(fn, func(f *types.Func) bool {
				return f.Name() == "Validate" && f.Pkg() != nil && strings.HasSuffix(f.Pkg().Path(), "/confmap/xconfmap")
			})
			c.Check(len(val) > 0, "configuration obtained in "+fnName(fn)+" is validated recursively", p.Pos(gets[0].Pos()), "xconfmap.Validate", "the loaded configuration is not passed to xconfmap.Validate: on this load path (dry run / `validate`) an invalid extension setting, an invalid nested setting and an invalid service::telemetry view are accepted, a processor listed twice makes the graph builder panic instead of returning an error")
		}
		for _, ci := range callsNamed(fn, func(f *types.Func) bool {
			return f.Name() == "Validate" && f.FullName() == "(*"+pkgOtelcol+".Config).Validate"
		}) {
			n++
			c.Bad("root Config.Validate called directly in "+fnName(fn), p.Pos(ci.Pos()), "only the root rules run: nested validators are skipped")
		}
	}
	if n == 0 {
		c.Undecided("functions that obtain the configuration", "-", "none found")
	}

	c.Rule("R17", "GATE", "a written null stays null except where a struct is expected: the decode hook that replaces nil map entries by pointers to zero values is limited to pointers to structs (its guard tests the pointed-to kind for Struct) – `attribute: null` under a map of *string means `suppress`, not the empty string", 1)
	cpk := p.Pkg("confmap")
	if cpk == nil {
		c.Anchor("confmap")
		return
	}
	n = 0
	for _, fn := range p.AllSrcFuncs(cpk) {
		if fn.Parent() == nil {
			continue
		}
		sets := callsNamed(fn, func(f *types.Func) bool { return f.FullName() == "(reflect.Value).SetMapIndex" })
		news := callsNamed(fn, func(f *types.Func) bool { return f.FullName() == "reflect.New" })
		nils := callsNamed(fn, func(f *types.Func) bool { return f.FullName() == "(reflect.Value).IsNil" })
		if len(sets) == 0 || len(news) == 0 || len(nils) == 0 {
			continue
		}
		n++
		structTest := false
		for _, s := range sets {
			for _, cond := range controllingCondsDeep(s.Block()) {
				if bo, ok := cond.(*ssa.BinOp); ok && bo.Op == token.EQL {
					if k, isK := constInt(bo.Y); isK && k == 25 { // reflect.Struct
						structTest = true
					}
				}
			}
		}
		c.Check(structTest, "nil-entry expansion in "+fnName(fn)+" is limited to struct pointers", p.Pos(fn.Pos()), "guard tests Elem().Kind() == reflect.Struct", "every nil entry of a map of pointers is replaced by a pointer to the zero value: `service::telemetry::resource: {service.name: null}` (documented as `suppress this attribute`) loads as &\"\" and is emitted as an empty string")
	}
	if n == 0 {
		c.Undecided("nil-entry expansion hook", "-", "not found")
	}
}

// ---------- shared mutable defaults (C14.R12, C16.R13) ----------
func hasMapField(t types.Type, depth int) bool {
	st, ok := t.Underlying().(*types.Struct)
	if !ok || depth > 2 {
		return false
	}
	for i := 0; i < st.NumFields(); i++ {
		ft := st.Field(i).Type()
		switch u := ft.Underlying().(type) {
		case *types.Map:
			return true
		case *types.Struct:
			_ = u
			if hasMapField(ft, depth+1) {
				return true
			}
		}
	}
	return false
}

// sharedDefaults reports, for the packages below config/, every place where a package-level struct value that holds a map is
// copied out as a whole (the copy shares the map), or a package-level map is stored somewhere instead of being read.
func runSharedDefaults(c *Ctx, ruleID, text, detail string, pkgRels []string) {
	p := c.P
	c.Rule(ruleID, "OWN", text, 1)
	n, bad := 0, 0
	for _, rel := range pkgRels {
		pk := p.Pkg(rel)
		if pk == nil {
			continue
		}
		for _, fn := range p.AllSrcFuncs(pk) {
			if fn.Name() == "init" || strings.HasPrefix(fn.Name(), "init#") {
				continue
			}
			allInstrs(fn, func(in ssa.Instruction) {
				u, ok := in.(*ssa.UnOp)
				if !ok || u.Op != token.MUL {
					return
				}
				g, ok := u.X.(*ssa.Global)
				if !ok || g.Pkg == nil || g.Pkg.Pkg != pk.Types {
					return
				}
				n++
				elem := g.Type().(*types.Pointer).Elem()
				if hasMapField(elem, 0) {
					bad++
					c.Bad("default built in "+fnName(fn)+" is a value of its own", p.Pos(u.Pos()), "the function copies the package-level value "+g.Name()+" as a whole; the copy shares the map inside it with every other copy: "+detail)
					return
				}
				if _, isMap := elem.Underlying().(*types.Map); isMap {
					// a package-level table may be read (lookup, range); it must not be handed out
					for _, r := range *u.Referrers() {
						switch x := r.(type) {
						case *ssa.Store:
							if x.Val == ssa.Value(u) {
								if _, local := x.Addr.(*ssa.Alloc); !local {
									bad++
									c.Bad("table "+g.Name()+" used in "+fnName(fn)+" stays private", p.Pos(x.Pos()), "the package-level map is stored into an object that is handed out: every holder shares (and can write) the same table")
								}
							}
						case *ssa.Return:
							bad++
							c.Bad("table "+g.Name()+" used in "+fnName(fn)+" stays private", p.Pos(x.Pos()), "the package-level map itself is returned")
						}
					}
				}
			})
		}
	}
	if n == 0 {
		c.Undecided("reads of package-level values in "+strings.Join(pkgRels, ", "), "-", "none found")
	} else if bad == 0 {
		c.OK("no package-level value holding a map is copied out or handed out", "-", fmt.Sprintf("%d reads of package-level values examined", n))
	}
}

// startCtxCaptured: Start methods among funcs whose goroutines capture the context given to Start.
func checkStartCtxGoroutines(c *Ctx, funcs []*ssa.Function, detail string) int {
	p := c.P
	total := 0
	for _, fn := range funcs {
		if fn.Parent() != nil || fn.Name() != "Start" || fn.Signature.Recv() == nil || len(fn.Params) < 2 {
			continue
		}
		ctxParam := fn.Params[1]
		if !typeIs(ctxParam.Type(), "context", "Context") {
			continue
		}
		n := 0
		for _, f := range withAnon(fn) {
			allInstrs(f, func(in ssa.Instruction) {
				g, ok := in.(*ssa.Go)
				if !ok {
					return
				}
				n++
				total++
				captured := false
				var vals []ssa.Value
				vals = append(vals, g.Call.Args...)
				if mc, ok := g.Call.Value.(*ssa.MakeClosure); ok {
					vals = append(vals, mc.Bindings...)
				}
				for _, v := range vals {
					for s := range backSlice(v) {
						if s == ssa.Value(ctxParam) {
							captured = true
						}
						if al, ok := s.(*ssa.Alloc); ok {
							if st := singleStore(al); st != nil && st.Val == ssa.Value(ctxParam) {
								captured = true
							}
						}
					}
				}
				c.Check(!captured, fmt.Sprintf("goroutine #%d started by %s does not capture the Start context", n, fnName(fn)), p.Pos(g.Pos()), "no binding or argument derives from Start's ctx", detail)
			})
		}
	}
	return total
}

// ---------- C17.R9 / R10 ----------
func runC17Round5(c *Ctx) {
	p := c.P
	pk := p.Pkg("processor/batchprocessor")
	if pk == nil {
		c.Anchor("processor/batchprocessor")
		return
	}
	c.Rule("R9", "PAIR", "a shard that is put into the shard table is started: on the side of LoadOrStore where this call stored the new shard, every path to a return passes the shard's start – a stored but never started shard accepts data through the fast path and never emits it, not even at shutdown", 1)
	n := 0
	for _, fn := range p.AllSrcFuncs(pk) {
		if fn.Parent() != nil {
			continue
		}
		for _, ci := range callsNamed(fn, func(f *types.Func) bool { return f.FullName() == "(*sync.Map).LoadOrStore" }) {
			v := ci.Value()
			if v == nil {
				continue
			}
			// the If on the `loaded` result
			var loadedIf *ssa.If
			for _, r := range *v.Referrers() {
				if ex, ok := r.(*ssa.Extract); ok && ex.Index == 1 {
					for _, rr := range *ex.Referrers() {
						if iff, ok := rr.(*ssa.If); ok {
							loadedIf = iff
						}
					}
				}
			}
			if loadedIf == nil {
				continue
			}
			n++
			stored := loadedIf.Block().Succs[1] // loaded == false
			via := map[ssa.Instruction]bool{}
			for _, s := range calls(fn, func(x ssa.CallInstruction) bool { return c17IsShardStart(p, x) }) {
				via[s.(ssa.Instruction)] = true
			}
			ok := len(via) > 0
			if len(stored.Instrs) > 0 {
				first := stored.Instrs[0]
				for _, r := range returnsOf(fn) {
					if !(stored == r.Block() || stored.Dominates(r.Block())) {
						continue
					}
					if !via[first] && canReach(first, r, via) {
						ok = false
					}
				}
			}
			c.Check(ok, "shard stored by "+fnName(fn)+" is started on every path", p.Pos(ci.Pos()), "start() before every return of the stored side", "a return on the side where the new shard was stored bypasses its start (and leaves it in the table): with the cardinality limit reached, the second arrival with the same new metadata finds the shard through the fast path, gets nil back and its data sits in a shard without a goroutine – never emitted, not even at Shutdown")
		}
	}
	if n == 0 {
		// the shard is published with Store after it was started (decided by R13): nothing stored can be left unstarted
		stores := 0
		for _, fn := range p.AllSrcFuncs(pk) {
			stores += len(callsNamed(fn, func(f *types.Func) bool { return f.FullName() == "(*sync.Map).Store" }))
		}
		if stores > 0 {
			c.OK("shards are published with Store, after their start (see R13)", "-", "no store-then-start window")
		} else {
			c.Undecided("publication of the shard table", "-", "not found")
		}
	}

	c.Rule("R10", "PROV", "incoming data is appended behind what is pending: in the add methods of the pending batches every MoveAndAppendTo moves FROM the incoming payload INTO the batch's own container – never the other way round, which would put older pending items behind newer ones (the timer restart after a size-triggered send relies on arrival order)", 3)
	n = 0
	for _, fn := range p.AllSrcFuncs(pk) {
		if fn.Parent() != nil || fn.Signature.Recv() == nil || len(fn.Params) != 2 || funcObj(fn) == nil || batchMethodKind(funcObj(fn)) != "add" {
			continue
		}
		for _, ci := range callsNamed(fn, func(f *types.Func) bool { return f.Name() == "MoveAndAppendTo" }) {
			n++
			args := ci.Common().Args
			fromParam := func(v ssa.Value) bool {
				for x := range backSlice(v) {
					if x == ssa.Value(fn.Params[1]) || loadsParam(x, fn.Params[1]) {
						return true
					}
				}
				return false
			}
			fromRecv := func(v ssa.Value) bool {
				for x := range backSlice(v) {
					if fa, ok := x.(*ssa.FieldAddr); ok && strip(fa.X) == ssa.Value(fn.Params[0]) {
						return true
					}
				}
				return false
			}
			okDir := len(args) == 2 && fromParam(args[0]) && !fromRecv(args[0]) && fromRecv(args[1])
			c.Check(okDir, fmt.Sprintf("move #%d in %s goes from the incoming payload into the pending batch", n, fnName(fn)), p.Pos(ci.Pos()), "source = parameter, destination = receiver's container", "the pending data is moved into the incoming payload (which then becomes the batch): older pending items end up behind newer ones; after a size-triggered send the timer is restarted although an old item is still pending – it waits longer than the timeout (still pending after 1s with a 200ms timeout)")
		}
	}
	if n == 0 {
		c.Undecided("MoveAndAppendTo in the add methods", "-", "none found")
	}
}

// ---------- C18.R14 / R15 ----------
func runC18Round5(c *Ctx) {
	p := c.P
	pk := p.Pkg("internal/memorylimiter")
	if pk == nil {
		c.Anchor("internal/memorylimiter")
		return
	}
	c.Rule("R14", "GO", "the shared checker runs until the last user shuts it down, not until the first user's start-up context ends: the goroutine started by the limiter's Start does not capture the context given to Start", 1)
	if checkStartCtxGoroutines(c, p.AllSrcFuncs(pk), "the checker goroutine selects on the context of the first Start: when that context is cancelled or times out after start-up (WithTimeout + defer cancel around the start) the checker exits while users are still started – no memory check ever runs again") == 0 {
		c.Undecided("goroutine started by the limiter's Start", "-", "not found")
	}
	c.Rule("R15", "GATE", "validation and construction agree on which mode is in effect: the constructor prefers limit_mib whenever it is set, so the consistency rule of the MiB pair (limit_mib > spike_limit_mib) is evaluated whenever limit_mib is set – it is not switched off by the percentage settings; a configuration that validation accepts never makes `limit - spike` wrap around", 1)
	n := 0
	for _, fn := range p.AllSrcFuncs(pk) {
		if fn.Parent() != nil || fn.Name() != "Validate" {
			continue
		}
		fieldsIn := func(v ssa.Value) map[string]bool {
			out := map[string]bool{}
			for x := range backSlice(v) {
				if fa, ok := x.(*ssa.FieldAddr); ok {
					out[derefStruct(fa.X.Type()).Field(fa.Field).Name()] = true
				}
			}
			return out
		}
		allInstrs(fn, func(in ssa.Instruction) {
			iff, ok := in.(*ssa.If)
			if !ok {
				return
			}
			fs := fieldsIn(iff.Cond)
			if !(fs["MemoryLimitMiB"] && fs["MemorySpikeLimitMiB"]) {
				return
			}
			n++
			pct := ""
			R := iff.Block()
			cut := map[*ssa.BasicBlock]bool{R: true}
			var nilRets []*ssa.BasicBlock
			for _, r := range returnsOf(fn) {
				if rs := resultsOf(r); len(rs) == 1 && isNilConst(rs[0]) {
					nilRets = append(nilRets, r.Block())
				}
			}
			for _, b := range fn.Blocks {
				pif, ok := b.Instrs[len(b.Instrs)-1].(*ssa.If)
				if !ok || b == R {
					continue
				}
				which := ""
				for f := range fieldsIn(pif.Cond) {
					if strings.Contains(f, "Percentage") {
						which = f
					}
				}
				if which == "" {
					continue
				}
				// one side leads to the rule, the other side accepts (returns nil) without ever evaluating it
				for k := 0; k < 2; k++ {
					toRule := reachFrom([]*ssa.BasicBlock{b.Succs[k]}, nil)[R]
					otherReach := reachFrom([]*ssa.BasicBlock{b.Succs[1-k]}, cut)
					otherRule := reachFrom([]*ssa.BasicBlock{b.Succs[1-k]}, nil)[R]
					accepts := false
					for _, nr := range nilRets {
						if otherReach[nr] {
							accepts = true
						}
					}
					if toRule && !otherRule && accepts {
						pct = which
					}
				}
			}
			c.Check(pct == "", "MiB spike rule in "+fnName(fn)+" is evaluated whenever limit_mib is in effect", p.Pos(iff.Cond.Pos()), "not gated on a percentage setting", "the rule is evaluated only on one side of a test of "+pct+": `limit_mib: 100, spike_limit_mib: 200, limit_percentage: 50, spike_limit_percentage: 10` is accepted, the constructor takes the MiB pair, limit - spike wraps around in uint64 and the limiter never refuses or collects, even at twice the hard limit")
		})
	}
	if n == 0 {
		c.Undecided("MiB spike rule in the limiter's Validate", "-", "not found")
	}
}

// ---------- C19.R14–R16, C20.R17, C15.R13/R14, C16.R14 ----------
func runC19Round5(c *Ctx) {
	p := c.P
	shareRule(c, "C04", runC04, []string{"C04.R6"}, "R14", "TS", "nothing that was handed to the batcher disappears uncounted (same rule as C04.R6, the pending-slot typestate): a pending batch is never overwritten before it was flushed with its own completion callbacks", batcherFloor)
	c.Rule("R15", "OWN", "the attribute sets of the two outcomes are slices of their own: in the telemetry wrappers an append whose base is a slice held by a struct field is stored back into that field – two appends to the same field-held base whose results are both kept share its backing array when it has spare capacity, and the second outcome overwrites the first", 2)
	n := 0
	for _, rel := range []string{"service/internal/obsconsumer", "exporter/exporterhelper/internal", "receiver/receiverhelper", "processor/processorhelper", "scraper/scraperhelper"} {
		pk := p.Pkg(rel)
		if pk == nil {
			continue
		}
		for _, fn := range p.AllSrcFuncs(pk) {
			for _, ci := range calls(fn, func(ci ssa.CallInstruction) bool { return builtinName(ci) == "append" }) {
				base := ci.Common().Args[0]
				u, ok := base.(*ssa.UnOp)
				if !ok || u.Op != token.MUL {
					n++
					continue
				}
				fa, ok := u.X.(*ssa.FieldAddr)
				if !ok {
					n++
					continue
				}
				n++
				back := false
				if v := ci.Value(); v != nil {
					for _, r := range *v.Referrers() {
						if st, ok := r.(*ssa.Store); ok {
							if fa2, ok := st.Addr.(*ssa.FieldAddr); ok && fa2.Field == fa.Field && strip(fa2.X) == strip(fa.X) {
								back = true
							}
						}
					}
				}
				c.Check(back, fmt.Sprintf("append on the field-held slice %s in %s grows that field", derefStruct(fa.X.Type()).Field(fa.Field).Name(), fnName(fn)), p.Pos(ci.Pos()), "result stored back into the same field", "the result of appending to a field-held slice is kept elsewhere: with 3, 5–7 or 9–15 static attributes (spare capacity) the success and the failure attribute sets share one backing array and every data point is recorded as outcome=failure")
			}
		}
	}
	if n == 0 {
		c.Undecided("appends in the telemetry wrappers", "-", "none found")
	}

	c.Rule("R16", "TYP", "the persistent queue recognises the requests sizer by type (it then takes its size from the indices instead of a stale snapshot): every function of the exporter helper that hands out `the requests sizer` returns that very type", 1)
	var target *types.Named
	if qpk := p.Pkg("exporter/exporterhelper/internal/queuebatch"); qpk != nil {
		for _, fn := range p.AllSrcFuncs(qpk) {
			allInstrs(fn, func(in ssa.Instruction) {
				if ta, ok := in.(*ssa.TypeAssert); ok && ta.CommaOk {
					if nt := namedOf(ta.AssertedType); nt != nil && strings.Contains(nt.Obj().Name(), "RequestsSizer") {
						target = nt.Origin()
					}
				}
			})
		}
	}
	if target == nil {
		c.Undecided("type test for the requests sizer in the persistent queue", "-", "not found")
	} else {
		n := 0
		for _, pk := range p.Pkgs {
			if !strings.HasPrefix(pk.PkgPath, modPrefix+"/exporter/exporterhelper") {
				continue
			}
			for _, fn := range p.AllSrcFuncs(pk) {
				if fn.Parent() != nil || fn.Signature.Recv() != nil || !strings.Contains(fn.Name(), "RequestsSizer") || fn.Signature.Results().Len() != 1 {
					continue
				}
				for _, r := range returnsOf(fn) {
					n++
					ok := false
					if mi, isMI := resultsOf(r)[0].(*ssa.MakeInterface); isMI {
						if nt := namedOf(mi.X.Type()); nt != nil && nt.Origin() == target {
							ok = true
						}
					}
					c.Check(ok, fnName(fn)+" returns the type the persistent queue tests for", p.Pos(r.Pos()), target.Obj().Name(), "the constructor returns another implementation that also answers 1: the queue's type test fails silently, the queue treats itself as not request-sized and, after a kill, restores its size from the last periodic snapshot instead of the indices – the size gauge reads 6 for 9 undelivered requests and the same number feeds the capacity check")
				}
			}
		}
		if n == 0 {
			c.Undecided("constructors of the requests sizer", "-", "none found")
		}
	}
}

func runC20Signals(c *Ctx) {
	p := c.P
	c.Rule("R17", "GATE", "the reload signal is always handled: the signal.Notify call that subscribes SIGHUP is unconditional in Run – DisableGracefulShutdown only decides about SIGINT/SIGTERM; with an unhandled SIGHUP the reload signal kills the process", 1)
	m := p.LookupMethod("otelcol", "Collector", "Run")
	if m == nil {
		c.Anchor("Collector.Run")
		return
	}
	fn := p.SSAFunc(m)
	n := 0
	for _, ci := range callsNamed(fn, func(f *types.Func) bool { return f.FullName() == "os/signal.Notify" }) {
		hasHUP := false
		elems, _ := variadicElems(ci.Common().Args[len(ci.Common().Args)-1])
		for _, e := range elems {
			for v := range backSlice(e) {
				if k, ok := constInt(v); ok && k == 1 {
					hasHUP = true
				}
			}
		}
		if !hasHUP {
			continue
		}
		n++
		cond := ""
		for _, cv := range controllingCondsDeep(ci.Block()) {
			for v := range backSlice(cv) {
				if fa, ok := v.(*ssa.FieldAddr); ok {
					cond = derefStruct(fa.X.Type()).Field(fa.Field).Name()
				}
			}
		}
		c.Check(cond == "", "SIGHUP subscription in Run is unconditional", p.Pos(ci.Pos()), "not under a settings test", "SIGHUP is only subscribed under a test of "+cond+": with that option set the signal keeps its default action and `kill -HUP` terminates the collector instead of reloading the configuration")
	}
	if n == 0 {
		c.Undecided("signal.Notify call that subscribes SIGHUP", p.Pos(fn.Pos()), "not found")
	}
}

func runC15Round5b(c *Ctx) {
	p := c.P
	c.Rule("R13", "TAB", "the receiver decides about a request's media type on the parsed type: a Content-Type header value is never compared with the OTLP media types as it is (parameters such as `; charset=utf-8` and case are legal) – the comparison operand comes from the media-type parser", 2)
	rpk := p.Pkg("receiver/otlpreceiver")
	if rpk == nil {
		c.Anchor("receiver/otlpreceiver")
		return
	}
	n := 0
	for _, fn := range p.AllSrcFuncs(rpk) {
		allInstrs(fn, func(in ssa.Instruction) {
			bo, ok := in.(*ssa.BinOp)
			if !ok || bo.Op != token.EQL {
				return
			}
			for _, pair := range [][2]ssa.Value{{bo.X, bo.Y}, {bo.Y, bo.X}} {
				s, isStr := constString(pair[1])
				if !isStr || !(s == "application/x-protobuf" || s == "application/json") {
					continue
				}
				n++
				raw := false
				if call, ok := pair[0].(*ssa.Call); ok {
					if f := calleeOf(call); f != nil && f.FullName() == "(net/http.Header).Get" {
						raw = true
					}
				}
				c.Check(!raw, fmt.Sprintf("media type comparison #%d in %s uses the parsed type", n, fnName(fn)), p.Pos(bo.Pos()), "operand from the media-type parser", "the raw header value is compared: a request with `Content-Type: application/json; charset=utf-8` that fails authentication or decompression is answered 500 with the fallback encoding instead of 401/400 in its own encoding")
			}
		})
	}
	if n == 0 {
		c.Undecided("media type comparisons in the OTLP receiver", "-", "none found")
	}

	c.Rule("R14", "COV", "the throttling information of a status is found wherever it stands among the details: the search returns from inside its loop only with the RetryInfo it found – a detail it cannot interpret (a vendor type that is not linked in) is skipped, not taken as `no RetryInfo`", 1)
	spk := p.Pkg("internal/statusutil")
	if spk == nil {
		c.Anchor("internal/statusutil")
		return
	}
	n = 0
	for _, fn := range p.AllSrcFuncs(spk) {
		if fn.Parent() != nil || fn.Signature.Results().Len() != 1 {
			continue
		}
		loops := allLoops(fn)
		if len(loops) == 0 {
			continue
		}
		if rn := namedOf(fn.Signature.Results().At(0).Type()); rn == nil || rn.Obj().Name() != "RetryInfo" {
			continue
		}
		n++
		var bad *ssa.Return
		for _, r := range returnsOf(fn) {
			if !isNilConst(resultsOf(r)[0]) {
				continue
			}
			// a `nothing found` verdict taken on something examined inside the loop (a type test of the current detail)
			for _, g := range guardsOf(r.Block()) {
				for v := range backSlice(g.Cond) {
					if ta, ok := v.(*ssa.TypeAssert); ok {
						for _, body := range loops {
							if body[ta.Block()] {
								bad = r
							}
						}
					}
				}
			}
		}
		c.Check(bad == nil, fnName(fn)+" examines every detail", p.Pos(fn.Pos()), "no `nothing found` verdict inside the loop", "the search gives up at a detail it cannot use ("+posOf(p, bad)+"): a status whose details hold a vendor-specific detail before the RetryInfo is treated as not throttled – the gRPC exporter classifies RESOURCE_EXHAUSTED as permanent and drops the data, the HTTP receiver omits Retry-After")
	}
	if n == 0 {
		c.Undecided("RetryInfo search", "-", "not found")
	}
}

// isLoopCounterTest: `i < len(x)`-style exit test of a range/for loop.
func isLoopCounterTest(v ssa.Value) bool {
	bo, ok := v.(*ssa.BinOp)
	if !ok || bo.Op != token.LSS {
		return false
	}
	_, isPhiOrAdd := bo.X.(*ssa.BinOp)
	_, isPhi := bo.X.(*ssa.Phi)
	return isPhiOrAdd || isPhi
}

func runC16CopyLoop(c *Ctx) {
	p := c.P
	c.Rule("R14", "ORD", "what a Read returned is written before its error is looked at: in a hand-written copy loop of the HTTP compression code the Write of the n bytes just read is not on the `no error yet` side of the end-of-input test – io.Reader may return the last chunk together with io.EOF (io.Copy handles that; the rule is vacuous while the code uses io.Copy)", 0)
	pk := p.Pkg("config/confighttp")
	if pk == nil {
		c.Anchor("config/confighttp")
		return
	}
	n := 0
	for _, fn := range p.AllSrcFuncs(pk) {
		reads := calls(fn, func(ci ssa.CallInstruction) bool {
			return ci.Common().IsInvoke() && ci.Common().Method.Name() == "Read" && len(ci.Common().Args) == 1
		})
		writes := calls(fn, func(ci ssa.CallInstruction) bool {
			return ci.Common().IsInvoke() && ci.Common().Method.Name() == "Write" && len(ci.Common().Args) == 1
		})
		if len(reads) == 0 || len(writes) == 0 {
			continue
		}
		if _, body := innermostLoop(reads[0].Block()); body == nil {
			continue
		}
		n++
		bad := false
		for _, w := range writes {
			for _, g := range guardsOf(w.Block()) {
				// a guard on the Read's error result
				for v := range backSlice(g.Cond) {
					if ex, ok := v.(*ssa.Extract); ok && ex.Index == 1 {
						for _, r := range reads {
							if ex.Tuple == r.Value() {
								bad = true
							}
						}
					}
				}
			}
		}
		c.Check(!bad, "copy loop in "+fnName(fn)+" writes what was read before it looks at the error", p.Pos(fn.Pos()), "Write not guarded by the Read's error", "the loop returns on io.EOF (or an error) before writing the bytes that came with it: a body whose last Read returns data together with io.EOF (a forwarded response body, a flate/gzip reader) is sent truncated – the server answers 200 and the handler reads 99328 of 100000 bytes")
	}
	if n == 0 {
		c.OK("no hand-written copy loop in the HTTP compression code (bodies are fed through io.Copy)", "-", "nothing to order")
	}
}

func runC02Shares5(c *Ctx) {
	shareRule(c, "C03", runC03, []string{"C03.R6"}, "R16", "PAIR", "a wait_for_result producer whose request was split receives the outcome of all its parts (same rule as C03.R6, the completion fan-in): the ref-counted done merges every partial outcome and hands the aggregate to the queue's done", 3)
}

func runC05Shares5(c *Ctx) {
	shareRule(c, "C03", runC03, []string{"C03.R5"}, "R15", "TS", "the stop signal of the retry sender is a broadcast (same rule as C03.R5): Shutdown closes the channel, so every request that is waiting for its next attempt – and every one that arrives later – stops retrying", 1)
}

// ---------- C02.R16 (explicit part) / R17 ----------
func runC02Round5b(c *Ctx) {
	p := c.P
	pk := p.Pkg("exporter/exporterhelper/internal/queuebatch")
	q := findQB(p)
	if pk == nil || q == nil {
		c.Anchor("queuebatch")
		return
	}
	c.Rule("R16", "", "", 0)
	n := 0
	for _, fn := range p.AllSrcFuncs(pk) {
		if fn.Parent() != nil || fn.Name() != "OnDone" || fn.Signature.Recv() == nil || len(fn.Params) != 2 {
			continue
		}
		st := derefStruct(fn.Params[0].Type())
		if st == nil {
			continue
		}
		counted := false
		for i := 0; i < st.NumFields(); i++ {
			if strings.Contains(strings.ToLower(st.Field(i).Name()), "refcount") {
				counted = true
			}
		}
		if !counted {
			continue
		}
		for _, ci := range calls(fn, func(ci ssa.CallInstruction) bool {
			return ci.Common().IsInvoke() && ci.Common().Method.Name() == "OnDone"
		}) {
			n++
			acc := false
			for v := range backSlice(ci.Common().Args[0]) {
				if fa, ok := v.(*ssa.FieldAddr); ok && strip(fa.X) == ssa.Value(fn.Params[0]) {
					acc = true
				}
			}
			c.Check(acc, "outcome handed on by "+fnName(fn)+" is the accumulated one", p.Pos(ci.Pos()), "argument read from the receiver's accumulator", "the ref-counted completion hands on the outcome of the part that happened to finish last: a wait_for_result producer whose request was split is told `success` although an earlier part of its own request failed")
		}
	}
	if n == 0 {
		c.Undecided("ref-counted completion", "-", "not found")
	}

	c.Rule("R17", "DEP", "a producer waits for space with its own context: the context handed to the condition variable's Wait is the Offer caller's, it has not passed through context.WithoutCancel / Background on the way (the detached context is for what is stored with the request, after the wait) – a blocked producer returns with its context's error when the context ends first", 2)
	n = 0
	detached := func(v ssa.Value) string {
		for x := range backSlice(v) {
			if call, ok := x.(*ssa.Call); ok {
				if f := calleeOf(call); f != nil && f.Pkg() != nil && f.Pkg().Path() == "context" && (f.Name() == "WithoutCancel" || f.Name() == "Background" || f.Name() == "TODO") {
					return "context." + f.Name()
				}
			}
		}
		return ""
	}
	for _, fn := range p.AllSrcFuncs(pk) {
		if fn.Parent() != nil {
			continue
		}
		for _, w := range calls(fn, func(ci ssa.CallInstruction) bool {
			sf := staticCalleeFn(ci)
			return sf != nil && sf.Name() == "Wait" && recvNamedOfFn(sf) == q.cond
		}) {
			n++
			arg := w.Common().Args[len(w.Common().Args)-1]
			why := detached(arg)
			// one level up: the callers that pass the context in
			var prm *ssa.Parameter
			for v := range backSlice(arg) {
				if pp, ok := v.(*ssa.Parameter); ok && typeIs(pp.Type(), "context", "Context") {
					prm = pp
				}
			}
			if why == "" && prm != nil {
				idx := -1
				for i, pp := range fn.Params {
					if pp == prm {
						idx = i
					}
				}
				for _, caller := range p.AllSrcFuncs(pk) {
					for _, cc := range calls(caller, func(ci ssa.CallInstruction) bool {
						sf := staticCalleeFn(ci)
						return sf != nil && (sf == fn || sf.Origin() == fn)
					}) {
						if idx >= 0 && idx < len(cc.Common().Args) {
							if d := detached(cc.Common().Args[idx]); d != "" && caller.Object() != nil && caller.Object().Exported() {
								why = d + " in " + fnName(caller)
							}
						}
					}
				}
			}
			c.Check(why == "", "space wait in "+fnName(fn)+" runs on the producer's context", p.Pos(w.Pos()), "context not detached before the wait", "the context is detached ("+why+") before the block-on-overflow wait: a producer blocked on a full queue ignores its cancellation and deadline, and its request is enqueued long after the caller gave up")
		}
	}
	if n == 0 {
		c.Undecided("space waits of the queues", "-", "none found")
	}
}

// ---------- C19.R17: the scraper counters count data points ----------
func runC19ScraperUnit(c *Ctx) {
	p := c.P
	c.Rule("R17", "TAB", "the scraper-level item counters use the unit of their name and of the receiver-level counters of the same scrape – metric data points: what the scraper helper books under *_metric_points is taken from DataPointCount(), never from MetricCount()", 1)
	pk := p.Pkg("scraper/scraperhelper")
	if pk == nil {
		c.Anchor("scraper/scraperhelper")
		return
	}
	n := 0
	for _, fn := range p.AllSrcFuncs(pk) {
		for _, ci := range callsNamed(fn, func(f *types.Func) bool {
			return (f.Name() == "MetricCount" || f.Name() == "DataPointCount") && f.Pkg() != nil && strings.HasSuffix(f.Pkg().Path(), "/pdata/pmetric")
		}) {
			n++
			c.Check(calleeOf(ci).Name() == "DataPointCount", fmt.Sprintf("metrics counted in %s (#%d) are data points", fnName(fn), n), p.Pos(ci.Pos()), "DataPointCount()", "the number of METRICS is booked under otelcol_scraper_scraped_metric_points (unit {datapoints}) and the span attribute scraped_metric_points: one gauge with four points reads 1 at the scraper level and 4 in otelcol_receiver_accepted_metric_points of the same scrape")
		}
	}
	if n == 0 {
		c.Undecided("metric counts in the scraper helper", "-", "none found")
	}
}

// ---------- C17.R11 ----------
func runC17LimitRecheck(c *Ctx) {
	p := c.P
	c.Rule("R11", "GATE", "the cardinality limit refuses only combinations that have no shard: the refusal of the sharded batcher depends on a lookup of the shard table made while the lock is held (the lock-free lookup in front can be stale: a concurrent request may just have created the shard and filled the last slot)", 1)
	pk := p.Pkg("processor/batchprocessor")
	if pk == nil {
		c.Anchor("processor/batchprocessor")
		return
	}
	n := 0
	// the refusals: error returns on the limit-reached side of a comparison of the shard counter with the configured
	// limit (found by field type / configuration tag and in every spelling of the comparison, see c17r4_A8.go)
	anc := c17AnchorsOf(p)
	funcs := p.AllSrcFuncs(pk)
	for _, t := range c17LimitTests(anc, funcs) {
		fn := t.Fn
		locks := callsNamed(fn, func(f *types.Func) bool { return f.FullName() == "(*sync.Mutex).Lock" })
		for _, r := range returnsOf(fn) {
			if !(t.Over == r.Block() || t.Over.Dominates(r.Block())) {
				continue
			}
			isLimitErr := false
			for i, res := range resultsOf(r) {
				if isErrorType(fn.Signature.Results().At(i).Type()) && !isNilConst(res) {
					isLimitErr = true
				}
			}
			if !isLimitErr {
				continue
			}
			n++
			rechecked := false
			for _, cond := range controllingCondsDeep(r.Block()) {
				for v := range backSlice(cond) {
					call, ok := v.(*ssa.Call)
					if !ok {
						continue
					}
					if f := calleeOf(call); f != nil && (f.FullName() == "(*sync.Map).Load" || f.FullName() == "(*sync.Map).LoadOrStore") {
						for _, l := range locks {
							if instrDominates(l.(ssa.Instruction), call) {
								rechecked = true
							}
						}
						// the lock is taken by the caller of this helper: every call of the helper is made with the lock held
						if len(locks) == 0 && c17HelperCalledLocked(p, fn) {
							rechecked = true
						}
					}
				}
			}
			c.Check(rechecked, "limit refusal in "+fnName(fn)+" follows a lookup under the lock", p.Pos(r.Pos()), "depends on a Load made after Lock", "the refusal is decided on the lock-free lookup alone: when two first requests for the same new metadata combination race for the last free slot, the loser is refused with the permanent `too many batchers` error although its shard exists – its data is dropped")
		}
	}
	if n == 0 {
		c.Undecided("limit refusal of the sharded batcher", "-", "not found")
	}
}

// ---------- C08.R21 (known finding): recursive decoding without a depth bound ----------
func runC08Recursion(c *Ctx) {
	p := c.P
	c.Rule("R21", "TERM", "decoding is total: a cycle of generated protobuf Unmarshal methods (a value that can contain itself: AnyValue → ArrayValue / KeyValueList → AnyValue) carries a depth bound – otherwise the nesting depth of the INPUT decides the stack depth and a deeply nested payload ends the process with a stack overflow, which cannot be recovered", 1)
	var fns []*ssa.Function
	idx := map[*ssa.Function]int{}
	for _, pk := range p.Pkgs {
		if !strings.Contains(pk.PkgPath, "/pdata/internal/data/protogen") {
			continue
		}
		for _, fn := range p.AllSrcFuncs(pk) {
			if fn.Parent() == nil && fn.Name() == "Unmarshal" && fn.Signature.Recv() != nil {
				idx[fn] = len(fns)
				fns = append(fns, fn)
			}
		}
	}
	if len(fns) == 0 {
		c.Undecided("generated Unmarshal methods", "-", "none found")
		return
	}
	adj := make([][]int, len(fns))
	for i, fn := range fns {
		for _, ci := range calls(fn, func(ssa.CallInstruction) bool { return true }) {
			if sf := staticCalleeFn(ci); sf != nil {
				if j, ok := idx[sf]; ok {
					adj[i] = append(adj[i], j)
				}
			}
		}
	}
	// functions on a cycle: reachable from themselves
	n := 0
	for i, fn := range fns {
		seen := map[int]bool{}
		st := append([]int(nil), adj[i]...)
		onCycle := false
		for len(st) > 0 {
			x := st[len(st)-1]
			st = st[:len(st)-1]
			if x == i {
				onCycle = true
				break
			}
			if seen[x] {
				continue
			}
			seen[x] = true
			st = append(st, adj[x]...)
		}
		if !onCycle {
			continue
		}
		n++
		bounded := false
		for _, prm := range fn.Params[1:] {
			if b, ok := prm.Type().Underlying().(*types.Basic); ok && b.Info()&types.IsInteger != 0 {
				bounded = true // a depth parameter
			}
		}
		c.Check(bounded, "recursive decoder "+fnName(fn)+" bounds its depth", p.Pos(fn.Pos()), "depth parameter / counter", "the method is part of a recursion cycle of the generated decoders and nothing limits the depth: a 13.5 MB payload of 1.4 million nested AnyValue arrays (below the OTLP/HTTP receiver's default 20 MiB body limit) ends the process with `fatal error: stack overflow`")
	}
	if n == 0 {
		c.OK("no recursion cycle among the generated Unmarshal methods", "-", fmt.Sprintf("%d methods", len(fns)))
	}
}

// ---------- C10.R11 (known finding): a shared component is started with its first graph node ----------
func runC10SharedStart(c *Ctx) {
	p := c.P
	c.Rule("R11", "ORD", "a component shared by several graph nodes is started only when every component it sends data to has started, i.e. not before the LAST of its nodes is reached (and stopped with the first): the shared wrapper does not delegate Start to the wrapped component from whichever node happens to come first", 1)
	pk := p.Pkg("internal/sharedcomponent")
	if pk == nil {
		c.Anchor("internal/sharedcomponent")
		return
	}
	n := 0
	for _, fn := range p.AllSrcFuncs(pk) {
		if fn.Parent() != nil || fn.Name() != "Start" || fn.Signature.Recv() == nil {
			continue
		}
		for _, cl := range withAnon(fn) {
			if cl == fn || !passedToOnce(cl) {
				continue
			}
			for _, ci := range calls(cl, func(ci ssa.CallInstruction) bool {
				return ci.Common().IsInvoke() && ci.Common().Method.Name() == "Start"
			}) {
				n++
				c.Bad("shared component is started when its last node is reached", p.Pos(ci.Pos()), "the wrapped component is started inside a sync.Once by the FIRST graph node that reaches it (and shut down by the first Shutdown): an OTLP receiver shared by traces and metrics starts serving both signals when its traces node is started, possibly before the processors and exporters of the metrics pipeline – 20 of 40 randomised builds started the shared receiver before a downstream component, 14 shut a shared exporter down before an upstream one")
			}
		}
	}
	if n == 0 {
		c.OK("the shared wrapper does not start the wrapped component from its first node", "-", "no Start inside a Once")
	}
}

// ---------- rules for the second batch of repaired defects ----------
func runC13Batch2(c *Ctx) {
	p := c.P
	ev := p.LookupType("confmap", "expandedValue")
	cpk := p.Pkg("confmap")
	c.Rule("R18", "TAB", "a null that arrives through a reference is a null: the decode hook that replaces nil map entries by pointers to zero structs also recognises an entry that is an expanded value holding nil – `pipelines::metrics: ${env:EMPTY}` is treated like `pipelines::metrics:` (an ordinary validation error), it does not become a typed nil pointer that validation dereferences", 1)
	if cpk == nil || ev == nil {
		c.Anchor("confmap.expandedValue")
	} else {
		n := 0
		for _, fn := range p.AllSrcFuncs(cpk) {
			if fn.Parent() == nil {
				continue
			}
			sets := callsNamed(fn, func(f *types.Func) bool { return f.FullName() == "(reflect.Value).SetMapIndex" })
			news := callsNamed(fn, func(f *types.Func) bool { return f.FullName() == "reflect.New" })
			nils := callsNamed(fn, func(f *types.Func) bool { return f.FullName() == "(reflect.Value).IsNil" })
			if len(sets) == 0 || len(news) == 0 || len(nils) == 0 {
				continue
			}
			n++
			knows := false
			allInstrs(fn, func(in ssa.Instruction) {
				if ta, ok := in.(*ssa.TypeAssert); ok && namedOf(ta.AssertedType) == ev {
					knows = true
				}
			})
			c.Check(knows, "nil-entry expansion in "+fnName(fn)+" recognises a referenced null", p.Pos(fn.Pos()), "type test for the expanded value", "the hook only looks at IsNil(): a null obtained from a provider is wrapped in an expanded value, is skipped, and decodes to a typed nil *PipelineConfig – `service::pipelines::metrics: ${env:EMPTY}` makes Config.Validate panic with a nil pointer dereference instead of reporting `must have at least one receiver`")
		}
		if n == 0 {
			c.Undecided("nil-entry expansion hook", "-", "not found")
		}
	}

	c.Rule("R19", "COV", "the list of service extensions is validated like the lists of a pipeline: its configuration type has a Validate method (found by the recursive validator) that rejects an id that is listed twice – otherwise the extension is created twice and one instance is never started and never shut down", 1)
	if T := p.LookupType("service/extensions", "Config"); T == nil {
		c.Anchor("service/extensions.Config")
	} else {
		has := false
		for _, t := range []types.Type{T, types.NewPointer(T)} {
			ms := types.NewMethodSet(t)
			for i := 0; i < ms.Len(); i++ {
				if ms.At(i).Obj().Name() == "Validate" {
					has = true
				}
			}
		}
		c.Check(has, "service::extensions has a validator", p.Pos(T.Obj().Pos()), "Validate method", "the type has no Validate method: `service::extensions: [zpages, zpages]` is accepted, the factory is called twice, the first instance gets starts=0 shutdowns=0")
	}

	c.Rule("R20", "GATE", "a configuration mistake is an error, never a panic: in the telemetry configuration migration every dereference of the optional `endpoint` pointer is guarded by a nil test of that pointer", 2)
	mpk := p.Pkg("service/telemetry/internal/migration")
	if mpk == nil {
		c.Anchor("service/telemetry/internal/migration")
		return
	}
	n := 0
	for _, fn := range p.AllSrcFuncs(mpk) {
		allInstrs(fn, func(in ssa.Instruction) {
			u, ok := in.(*ssa.UnOp)
			if !ok || u.Op != token.MUL {
				return
			}
			inner, ok := u.X.(*ssa.UnOp)
			if !ok || inner.Op != token.MUL {
				return
			}
			fa, ok := inner.X.(*ssa.FieldAddr)
			if !ok || derefStruct(fa.X.Type()).Field(fa.Field).Name() != "Endpoint" {
				return
			}
			n++
			guarded := false
			_, want := fieldChain(inner.X)
			for _, g := range guardsOf(u.Block()) {
				bo, ok := g.Cond.(*ssa.BinOp)
				if !ok || bo.Op != token.NEQ || !g.Branch || !(isNilConst(bo.X) || isNilConst(bo.Y)) {
					continue
				}
				o := bo.X
				if isNilConst(o) {
					o = bo.Y
				}
				if lu, ok := o.(*ssa.UnOp); ok && lu.Op == token.MUL {
					if fa2, ok := lu.X.(*ssa.FieldAddr); ok && derefStruct(fa2.X.Type()).Field(fa2.Field).Name() == "Endpoint" {
						if _, got := fieldChain(lu.X); strings.Join(got, ".") == strings.Join(want, ".") {
							guarded = true
						}
					}
				}
			}
			c.Check(guarded, fmt.Sprintf("endpoint dereference #%d in %s is guarded", n, fnName(fn)), p.Pos(u.Pos()), "Endpoint != nil", "the optional endpoint is dereferenced without a nil test: `service::telemetry::traces: {processors: [{batch: {exporter: {otlp: {protocol: http/protobuf}}}}]}` (no endpoint: use the SDK default) panics with a nil pointer dereference while the configuration is loaded")
		})
	}
	if n == 0 {
		c.Undecided("endpoint dereferences in the telemetry migration", "-", "none found")
	}
}

func runC15ErrorHandler(c *Ctx) {
	p := c.P
	c.Rule("R15", "COV", "a request that is refused before its media type is known keeps its client-error status: the receiver's error handler (called for authentication failures and undecodable or unsupported encodings) answers with the status code it was given on every path – it never falls through to the internal-error fallback because of the request's Content-Type", 1)
	rpk := p.Pkg("receiver/otlpreceiver")
	if rpk == nil {
		c.Anchor("receiver/otlpreceiver")
		return
	}
	n := 0
	for _, fn := range p.AllSrcFuncs(rpk) {
		if fn.Parent() != nil || fn.Name() != "errorHandler" {
			continue
		}
		n++
		var bad ssa.Instruction
		for _, ci := range calls(fn, func(ci ssa.CallInstruction) bool {
			sf := staticCalleeFn(ci)
			return sf != nil && sf.Name() == "writeResponse"
		}) {
			for _, a := range ci.Common().Args {
				if k, ok := constInt(a); ok && k == 500 {
					bad = ci.(ssa.Instruction)
				}
			}
		}
		c.Check(bad == nil, fnName(fn)+" answers with the status it was given", p.Pos(fn.Pos()), "no constant 500 answer", "for a Content-Type other than the two OTLP media types (missing, text/plain, application/octet-stream) the handler discards the given code and writes the 500 fallback ("+posOf(p, bad)+"): an unauthenticated request or one with an unsupported Content-Encoding is answered 500 instead of 401/400")
	}
	if n == 0 {
		c.Undecided("error handler of the OTLP/HTTP receiver", "-", "not found")
	}
}

func runC11SharedStopErr(c *Ctx) {
	p := c.P
	c.Rule("R14", "DEP", "a failed shutdown of a shared component is remembered for the instances that are shut down later: the error of the wrapped Shutdown is stored in the shared wrapper (not only in a local of the once-closure), so that the later calls can report the same final status – every instance of the component ends in PermanentError, none in Stopped", 1)
	pk := p.Pkg("internal/sharedcomponent")
	if pk == nil {
		c.Anchor("internal/sharedcomponent")
		return
	}
	n := 0
	for _, fn := range p.AllSrcFuncs(pk) {
		if fn.Parent() != nil || fn.Name() != "Shutdown" || fn.Signature.Recv() == nil {
			continue
		}
		for _, g := range withAnon(fn) {
			// the wrapped call may live in a same-package helper of the method / of its once-closure; a helper
			// that returns the error hands it to its caller, where the search for the field store goes on (robust_A6.go)
			for _, dc := range deepCallsA6(g, 2, func(h *ssa.Function) []ssa.CallInstruction {
				return calls(h, func(ci ssa.CallInstruction) bool {
					return ci.Common().IsInvoke() && ci.Common().Method.Name() == "Shutdown"
				})
			}) {
				ci := dc.call
				n++
				kept := false
				seen := map[ssa.Value]bool{}
				work := []ssa.Value{ci.Value()}
				upTo := map[*ssa.Function]ssa.CallInstruction{}
				for _, l := range dc.chain {
					if !l.yield {
						upTo[l.next] = l.at
					}
				}
				for len(work) > 0 {
					x := work[len(work)-1]
					work = work[:len(work)-1]
					if x == nil || seen[x] || x.Referrers() == nil {
						continue
					}
					seen[x] = true
					for _, r := range *x.Referrers() {
						switch y := r.(type) {
						case *ssa.Store:
							if fa, ok := y.Addr.(*ssa.FieldAddr); ok && y.Val == x {
								if nt := namedOf(fa.X.Type()); nt != nil && nt.Obj().Pkg() == pk.Types {
									kept = true
								}
							}
							if y.Val == x {
								// a captured / local variable: follow its loads
								if rr := y.Addr.Referrers(); rr != nil {
									for _, ld := range *rr {
										if u, ok := ld.(*ssa.UnOp); ok && u.Op == token.MUL {
											work = append(work, u)
										}
									}
								}
								// a variable of the enclosing function captured by the closure: its loads there too
								if fv, ok := y.Addr.(*ssa.FreeVar); ok {
									if b := freeVarBinding(fv); b != nil && b.Referrers() != nil {
										for _, ld := range *b.Referrers() {
											if u, ok := ld.(*ssa.UnOp); ok && u.Op == token.MUL {
												work = append(work, u)
											}
										}
									}
								}
							}
						case *ssa.Phi:
							work = append(work, y)
						case *ssa.Extract:
							work = append(work, y)
						case *ssa.Return:
							if at := upTo[y.Parent()]; at != nil && at.Value() != nil {
								work = append(work, at.Value())
							}
						}
					}
				}
				c.Check(kept, "error of the wrapped Shutdown in "+fnName(fn)+" is kept in the wrapper", p.Pos(ci.Pos()), "stored into a field of the shared component", "the error lives only in a local of the once-closure: the first instance ends Stopping, PermanentError; for the others Shutdown returns nil, the graph reports Stopping and Stopped – instances of one component end in different statuses")
			}
		}
	}
	if n == 0 {
		c.Undecided("wrapped Shutdown call of the shared component", "-", "not found")
	}
}

func runC01RecoveryReadError(c *Ctx, a *pqAnchors) {
	p := c.P
	c.Rule("R20", "GATE", "a failed read of the requests that were in flight deletes nothing: in the start-up recovery no storage call that carries Delete operations (and no Delete) is made on the error side of the read of those items – they stay stored and listed as dispatched for the next start (same treatment as an item that cannot be moved)", 1)
	if a == nil || a.recovery == nil {
		c.Anchor("persistent queue recovery")
		return
	}
	fn := a.recovery
	n := 0
	isStorage := func(ci ssa.CallInstruction) bool {
		cc := ci.Common()
		return cc.IsInvoke() && cc.Method.Pkg() != nil && cc.Method.Pkg().Path() == pkgStorage && (cc.Method.Name() == "Batch" || cc.Method.Name() == "Delete" || cc.Method.Name() == "Set")
	}
	for _, sc := range calls(fn, func(ci ssa.CallInstruction) bool {
		cc := ci.Common()
		return cc.IsInvoke() && cc.Method.Pkg() != nil && cc.Method.Pkg().Path() == pkgStorage
	}) {
		v := sc.Value()
		if v == nil {
			continue
		}
		// the error test of this storage call
		var errVals []ssa.Value
		errVals = append(errVals, v)
		for _, r := range *v.Referrers() {
			if ex, ok := r.(*ssa.Extract); ok {
				errVals = append(errVals, ex)
			}
		}
		for _, ev := range errVals {
			if ev.Referrers() == nil {
				continue
			}
			for _, r := range *ev.Referrers() {
				bo, ok := r.(*ssa.BinOp)
				if !ok || bo.Op != token.NEQ || !(isNilConst(bo.X) || isNilConst(bo.Y)) {
					continue
				}
				for _, rr := range *bo.Referrers() {
					iff, ok := rr.(*ssa.If)
					if !ok {
						continue
					}
					n++
					errSide := iff.Block().Succs[0]
					var bad ssa.Instruction
					for _, w := range calls(fn, isStorage) {
						if w.Block() == errSide || (errSide.Dominates(w.Block()) && len(errSide.Preds) == 1) {
							bad = w.(ssa.Instruction)
						}
					}
					c.Check(bad == nil, fmt.Sprintf("failed storage call #%d in %s is not answered with a write", n, fnName(fn)), p.Pos(iff.Cond.Pos()), "no storage write/delete on the error side", "on the error side of a storage call the recovery issues another storage write ("+posOf(p, bad)+"): when the read of the in-flight items fails it deletes every one of them – one transient storage error at start-up loses all requests that were kept for this start (start #3 delivers nothing)")
				}
			}
		}
	}
	if n == 0 {
		c.Undecided("read of the in-flight items in the recovery", "-", "not found")
	}
}

// ---------- C14.R13 ----------
func runC14NoMarshalInDecode(c *Ctx) {
	p := c.P
	c.Rule("R13", "WHO", "nothing that was rendered is decoded again: no decode hook of confmap calls Conf.Marshal – marshalling redacts opaque values (that is its job for the effective configuration), so a rendering fed back into the decode stores the marker `[REDACTED]` in place of the secret", 4)
	pk := p.Pkg("confmap")
	if pk == nil {
		c.Anchor("confmap")
		return
	}
	n := 0
	for _, fn := range p.AllSrcFuncs(pk) {
		// decode hooks: closures returned by functions whose name ends in HookFunc / the expanded-value hook
		if fn.Parent() == nil || !(strings.Contains(fn.Parent().Name(), "Hook") || strings.Contains(fn.Parent().Name(), "useExpandValue")) {
			continue
		}
		n++
		var bad ssa.Instruction
		for _, ci := range callsNamed(fn, func(f *types.Func) bool { return f.FullName() == "(*"+modPrefix+"/confmap.Conf).Marshal" }) {
			bad = ci.(ssa.Instruction)
		}
		c.Check(bad == nil, "decode hook "+fnName(fn)+" does not decode a rendering", p.Pos(fn.Pos()), "no Conf.Marshal", "the hook marshals the partially decoded struct ("+posOf(p, bad)+") and merges that rendering into the input of the decode: a configuration struct that squashes a struct implementing confmap.Unmarshaler gets its configopaque.String fields (also in maps) stored as \"[REDACTED]\" – the component later sends the marker instead of its secret")
	}
	if n == 0 {
		c.Undecided("decode hooks of confmap", "-", "none found")
	}
}

// ---------- C20.R18: every way out of the run loop shuts the configuration providers down ----------
func runC20ProviderShutdown(c *Ctx) {
	p := c.P
	c.Rule("R18", "PAIR", "a run that reached its control loop ends Closed with the configuration providers shut down, however it ends: every return of Run that lies inside or behind the loop passes a call that (directly or through a helper of the collector) shuts the configuration provider down – also the returns taken when a reload fails", 3)
	m := p.LookupMethod("otelcol", "Collector", "Run")
	opk := p.Pkg("otelcol")
	if m == nil || opk == nil {
		c.Anchor("Collector.Run")
		return
	}
	fn := p.SSAFunc(m)
	// helpers that shut the provider down on every path
	shuts := map[*ssa.Function]bool{}
	isProvShut := func(ci ssa.CallInstruction) bool {
		f := calleeOf(ci)
		return f != nil && f.Name() == "Shutdown" && strings.Contains(f.FullName(), "ConfigProvider")
	}
	// (to a fixed point: a helper may itself reach the provider's Shutdown through a helper that does so on every path)
	for changed := true; changed; {
		changed = false
		for _, g := range p.AllSrcFuncs(opk) {
			if g.Parent() != nil || shuts[g] {
				continue
			}
			ps := calls(g, func(ci ssa.CallInstruction) bool {
				if _, isGo := ci.(*ssa.Go); isGo {
					return false
				}
				sf := staticCalleeFn(ci)
				return isProvShut(ci) || (sf != nil && shuts[sf])
			})
			if len(ps) == 0 {
				continue
			}
			via := map[ssa.Instruction]bool{}
			for _, x := range ps {
				via[x.(ssa.Instruction)] = true
			}
			if esc, _ := reachesReturnWithout(g, nil, via); !esc {
				shuts[g] = true
				changed = true
			}
		}
	}
	via := map[ssa.Instruction]bool{}
	for _, ci := range calls(fn, func(ci ssa.CallInstruction) bool {
		if isProvShut(ci) {
			return true
		}
		sf := staticCalleeFn(ci)
		return sf != nil && shuts[sf]
	}) {
		via[ci.(ssa.Instruction)] = true
	}
	// the loop: the select
	var sel *ssa.Select
	allInstrs(fn, func(in ssa.Instruction) {
		if s, ok := in.(*ssa.Select); ok && s.Blocking {
			sel = s
		}
	})
	if sel == nil {
		c.Undecided("control loop of Run", p.Pos(fn.Pos()), "select not found")
		return
	}
	n := 0
	for _, r := range returnsOf(fn) {
		if !canReach(sel, r, nil) {
			continue
		}
		n++
		ok := !canReach(sel, r, via)
		c.Check(ok, fmt.Sprintf("return #%d of Run behind the control loop shuts the providers down", n), p.Pos(r.Pos()), "passes the provider shutdown", "this way out of the loop returns without shutting the configuration provider down and without reaching Closed: after a reload to a configuration that cannot be brought up, GetState() stays Starting for ever, the providers and the last Retrieved value are never closed")
	}
	if n == 0 {
		c.Undecided("returns of Run behind the control loop", "-", "none found")
	}
}

// ---------- C01.R21 (known finding): a failed dispatch transaction deletes the item ----------
func runC01DispatchError(c *Ctx, a *pqAnchors) {
	p := c.P
	c.Rule("R21", "GATE", "a request disappears from storage only after a completed hand-off: when the storage transaction that dispatches an item fails (the item was not even read), the dequeue does not delete the item – only an item that was read and cannot be decoded may be dropped", 1)
	if a == nil || a.dequeue == nil {
		c.Anchor("persistent queue dequeue")
		return
	}
	fn := a.dequeue
	writes := func(g *ssa.Function) bool {
		hit := false
		for _, ci := range calls(g, func(ci ssa.CallInstruction) bool {
			cc := ci.Common()
			return cc.IsInvoke() && cc.Method.Pkg() != nil && cc.Method.Pkg().Path() == pkgStorage && (cc.Method.Name() == "Batch" || cc.Method.Name() == "Delete")
		}) {
			_ = ci
			hit = true
		}
		return hit
	}
	n := 0
	for _, sc := range calls(fn, func(ci ssa.CallInstruction) bool {
		cc := ci.Common()
		return cc.IsInvoke() && cc.Method.Pkg() != nil && cc.Method.Pkg().Path() == pkgStorage && cc.Method.Name() == "Batch"
	}) {
		n++
		// paths from the failed transaction (err != nil directly from the call) to a deleting helper without passing the decode
		var decode []ssa.Instruction
		for _, d := range calls(fn, func(ci ssa.CallInstruction) bool {
			return ci.Common().IsInvoke() && ci.Common().Method.Name() == "Unmarshal"
		}) {
			decode = append(decode, d.(ssa.Instruction))
		}
		avoid := map[ssa.Instruction]bool{}
		for _, d := range decode {
			avoid[d] = true
		}
		var bad ssa.Instruction
		for _, w := range calls(fn, func(ci ssa.CallInstruction) bool {
			sf := staticCalleeFn(ci)
			return sf != nil && sf != fn && recvNamedOfFn(sf) != nil && recvNamedOfFn(sf).Origin() == a.T.Origin() && writes(sf)
		}) {
			if canReach(sc.(ssa.Instruction), w.(ssa.Instruction), avoid) {
				bad = w.(ssa.Instruction)
			}
		}
		c.Check(bad == nil, fmt.Sprintf("failed dispatch transaction #%d in %s keeps the item", n, fnName(fn)), p.Pos(sc.Pos()), "no deleting call reachable without the decode", "the error of the dispatch transaction and the error of decoding the item share one error path that deletes the item ("+posOf(p, bad)+"): after Offer(11), Offer(22) and ONE transient storage error on the dispatch of 11, only 22 is ever delivered and the key of 11 is gone, also after a restart")
	}
	if n == 0 {
		c.Undecided("dispatch transaction of the dequeue", "-", "not found")
	}
}

// ---------- third batch: C11.R15, C17.R12/R13, C05.R16 ----------
func runC11ExtensionHost(c *Ctx) {
	p := c.P
	c.Rule("R15", "PROV", "an extension's own status reports are attributed to it like a pipeline component's: the host an extension is started with is obtained from the service's host for that extension instance (a call that takes the instance id), not the bare host that does not implement the status Reporter – otherwise every status an extension reports (a FatalError of its server goroutine) is silently dropped", 1)
	pk := p.Pkg("service/extensions")
	if pk == nil {
		c.Anchor("service/extensions")
		return
	}
	n := 0
	for _, fn := range p.AllSrcFuncs(pk) {
		if fn.Parent() != nil || fn.Name() != "Start" || fn.Signature.Recv() == nil {
			continue
		}
		for _, ci := range calls(fn, func(ci ssa.CallInstruction) bool {
			return ci.Common().IsInvoke() && ci.Common().Method.Name() == "Start" && len(ci.Common().Args) == 2
		}) {
			n++
			wrapped := false
			for v := range backSlice(ci.Common().Args[1]) {
				if cc, ok := v.(*ssa.Call); ok {
					for _, a := range cc.Call.Args {
						if nt := namedOf(a.Type()); nt != nil && nt.Obj().Name() == "InstanceID" {
							wrapped = true
						}
					}
				}
			}
			c.Check(wrapped, "host handed to the extension in "+fnName(fn)+" is the instance's", p.Pos(ci.Pos()), "derived from a call that takes the instance id", "the extension is started with the bare service host, which is not a status Reporter: componentstatus.ReportStatus(host, …) fails its type assertion – the zpages extension's FatalError (its server died) changes nothing, the watchers see only Starting and OK and nothing reaches the async error channel")
		}
	}
	if n == 0 {
		c.Undecided("extension Start call", "-", "not found")
	}
}

func runC17Batch3(c *Ctx) {
	p := c.P
	pk := p.Pkg("processor/batchprocessor")
	if pk == nil {
		c.Anchor("processor/batchprocessor")
		return
	}
	c.Rule("R12", "GATE", "a batch processor that was shut down refuses: on the way from Consume* to the hand-over to a shard there is a test of the shutdown signal whose `shut down` side returns an error – data accepted after the shards have drained would be acknowledged and never emitted", 1)
	n := 0
	ok := false
	for _, fn := range p.AllSrcFuncs(pk) {
		if fn.Parent() != nil {
			continue
		}
		// a non-blocking select (or receive) on the shutdown channel with an error return on that side, in a function that forwards to a consume
		forwards := len(calls(fn, func(ci ssa.CallInstruction) bool { return c17IsBatcherConsume(ci, fn) })) > 0
		if !forwards {
			continue
		}
		n++
		allInstrs(fn, func(in ssa.Instruction) {
			sel, isSel := in.(*ssa.Select)
			if !isSel {
				return
			}
			for i, st := range sel.States {
				if st.Dir != types.RecvOnly {
					continue
				}
				isShut := false
				anc := c17AnchorsOf(p)
				for v := range backSlice(st.Chan) {
					if fa, isFA := v.(*ssa.FieldAddr); isFA && anc.procT != nil && namedOf(fa.X.Type()) == anc.procT && fa.Field == anc.pShutdown {
						isShut = true
					}
				}
				if !isShut {
					continue
				}
				for _, rb := range selectCaseBlocks(fn, sel, i) {
					for _, r := range returnsOf(fn) {
						if (rb == r.Block() || rb.Dominates(r.Block())) && len(resultsOf(r)) == 1 && !isNilConst(resultsOf(r)[0]) {
							ok = true
						}
					}
				}
			}
		})
	}
	if n == 0 {
		c.Undecided("functions that forward to a batcher's consume", "-", "none found")
	} else {
		c.Check(ok, "Consume* of the batch processor refuses after shutdown", "-", "shutdown test with an error return in front of the hand-over", "nothing between Consume* and `shard.newItem <- data` looks at the shutdown signal: after Shutdown up to NumCPU requests per shard are acknowledged with nil and never emitted, later callers block for ever")
	}

	c.Rule("R13", "ORD", "a shard is running before anybody else can find it: in the sharded batcher the call that publishes a new shard in the table (Store / LoadOrStore) is dominated by the start of that shard (goroutine started, counted in the WaitGroup) – a concurrent request that finds an unstarted shard enqueues into it, and Shutdown, which waits only for the goroutines it knows, can return before that data is emitted", 1)
	n = 0
	for _, fn := range p.AllSrcFuncs(pk) {
		if fn.Parent() != nil {
			continue
		}
		starts := calls(fn, func(x ssa.CallInstruction) bool { return c17IsShardStart(p, x) })
		for _, ci := range callsNamed(fn, func(f *types.Func) bool {
			return f.FullName() == "(*sync.Map).Store" || f.FullName() == "(*sync.Map).LoadOrStore"
		}) {
			n++
			dom := false
			for _, s := range starts {
				if instrDominates(s.(ssa.Instruction), ci.(ssa.Instruction)) {
					dom = true
				}
			}
			c.Check(dom, "shard published by "+fnName(fn)+" is already started", p.Pos(ci.Pos()), "start() dominates the publication", "the shard is put into the table before its goroutine is started and counted: a second request for the same combination can enqueue into the uncounted shard and Shutdown returns before that data is emitted (7 of 7 stress runs)")
		}
	}
	if n == 0 {
		c.Undecided("publication of a shard", "-", "not found")
	}
}

func runC05OptionOrder(c *Ctx) {
	p := c.P
	c.Rule("R16", "ORD", "the later option wins: WithRetry stores the configuration it is given on every path – a disabled configuration passed after an enabled one switches retrying off, it does not return before the store", 1)
	pk := p.Pkg("exporter/exporterhelper/internal")
	if pk == nil {
		c.Anchor("exporterhelper/internal")
		return
	}
	n := 0
	for _, fn := range p.AllSrcFuncs(pk) {
		if fn.Parent() == nil || fn.Parent().Name() != "WithRetry" {
			continue
		}
		n++
		via := map[ssa.Instruction]bool{}
		allInstrs(fn, func(in ssa.Instruction) {
			if st, ok := in.(*ssa.Store); ok {
				if fa, ok := st.Addr.(*ssa.FieldAddr); ok && strings.Contains(strings.ToLower(derefStruct(fa.X.Type()).Field(fa.Field).Name()), "retrycfg") {
					via[st] = true
				}
			}
		})
		esc, r := reachesReturnWithout(fn, nil, via)
		c.Check(len(via) > 0 && !esc, "WithRetry stores its configuration on every path", p.Pos(fn.Pos()), "store of retryCfg before every return", "the option returns before the store when the configuration is disabled ("+posOf(p, r)+"): WithRetry(disabled) after WithRetry(enabled) leaves retrying enabled – 11 attempts instead of 1")
	}
	if n == 0 {
		c.Undecided("WithRetry option", "-", "not found")
	}
}

// ---------- C12.R16 ----------
func runC12DeterministicUnflatten(c *Ctx) {
	p := c.P
	c.Rule("R16", "ORD", "one path has one spelling inside a Conf, whatever the source wrote: the constructor that turns a string map into a Conf splits `::` keys itself, at every level and in sorted key order (a merge function of its own handed to the loader, which sorts before it ranges) – the loader's own unflattening only splits top-level keys and does so in map iteration order, so `a::b` next to `a: {…}` would win or lose at random", 1)
	pk := p.Pkg("confmap")
	if pk == nil {
		c.Anchor("confmap")
		return
	}
	var ctor *ssa.Function
	for _, fn := range p.AllSrcFuncs(pk) {
		if fn.Parent() == nil && fn.Name() == "NewFromStringMap" {
			ctor = fn
		}
	}
	if ctor == nil {
		c.Anchor("confmap.NewFromStringMap")
		return
	}
	var own *ssa.Function
	for _, ci := range calls(ctor, func(ci ssa.CallInstruction) bool {
		f := calleeOf(ci)
		return f != nil && f.Name() == "WithMergeFunc"
	}) {
		for _, a := range ci.Common().Args {
			switch v := a.(type) {
			case *ssa.Function:
				own = v
			case *ssa.MakeClosure:
				own, _ = v.Fn.(*ssa.Function)
			}
		}
	}
	sorted := false
	if own != nil {
		sorted = len(callsNamed(own, func(f *types.Func) bool {
			return f.Pkg() != nil && (f.Pkg().Path() == "slices" || f.Pkg().Path() == "sort") && (strings.HasPrefix(f.Name(), "Sort") || f.Name() == "Strings")
		})) > 0
	}
	c.Check(own != nil && sorted, "NewFromStringMap unflattens deterministically", p.Pos(ctor.Pos()), "own merge function that sorts the keys", "the map is loaded with the loader's default unflattening: over 200 runs `Conf.Merge` of {processors: {\"batch::timeout\": 2s}} over {processors: {batch: {timeout: 1s}}} returned 2s 170 times and 1s 30 times; a single source {\"a::b\": 2, a: {c: 3}} lost a::b in 146 of 200 runs")
}

// ---------- C03.R14 ----------
func runC03MergedContext(c *Ctx) {
	p := c.P
	c.Rule("R14", "PROV", "a merged batch does not live on one caller's context: the function that builds the context of a batch merged from several requests returns a context derived from a fresh root on every path, never one of the contexts it was given – the final flush of Shutdown would otherwise hand the other callers' data to the export function under a context that the first caller has cancelled", 1)
	pk := p.Pkg("exporter/exporterhelper/internal/queuebatch")
	if pk == nil {
		c.Anchor("queuebatch")
		return
	}
	n := 0
	for _, fn := range p.AllSrcFuncs(pk) {
		if fn.Parent() != nil || fn.Signature.Recv() != nil || len(fn.Params) != 2 || fn.Signature.Results().Len() != 1 {
			continue
		}
		if !typeIs(fn.Params[0].Type(), "context", "Context") || !typeIs(fn.Params[1].Type(), "context", "Context") || !typeIs(fn.Signature.Results().At(0).Type(), "context", "Context") {
			continue
		}
		n++
		var bad *ssa.Return
		for _, r := range returnsOf(fn) {
			v := strip(resultsOf(r)[0])
			var walk func(x ssa.Value, d int) bool
			walk = func(x ssa.Value, d int) bool { // true = can be a parameter
				if d > 6 {
					return false
				}
				switch y := x.(type) {
				case *ssa.Parameter:
					return true
				case *ssa.Phi:
					for _, e := range y.Edges {
						if walk(e, d+1) {
							return true
						}
					}
				case *ssa.Call:
					// context.WithValue(parent, …) / WithCancel(parent): follows the parent
					if f := calleeOf(y); f != nil && f.Pkg() != nil && f.Pkg().Path() == "context" && len(y.Call.Args) > 0 && strings.HasPrefix(f.Name(), "With") {
						return walk(y.Call.Args[0], d+1)
					}
				case *ssa.Extract:
					return walk(y.Tuple, d+1)
				case *ssa.MakeInterface:
					return walk(y.X, d+1)
				case *ssa.ChangeInterface:
					return walk(y.X, d+1)
				}
				return false
			}
			if walk(v, 0) {
				bad = r
			}
		}
		c.Check(bad == nil, fnName(fn)+" returns a context of its own", p.Pos(fn.Pos()), "rooted in a fresh context on every path", "one path hands back (a child of) a caller's context ("+posOf(p, bad)+"): with wait_for_result the caller that opened the partial batch gives up, and the final flush of Shutdown exports the merged batch – the other callers' data – under that cancelled context")
	}
	if n == 0 {
		c.Undecided("merged-context builder", "-", "not found")
	}
}

// ---------- fourth batch: C17.R14, C09.R17, C12.R17 ----------
func runC17NoUseAfterHandOver(c *Ctx) {
	p := c.P
	c.Rule("R14", "OWN", "a request that was handed to the next consumer is not touched again: in the batch processor's send path nothing reads the exported request after the export call returned (the consumer owns it and may keep or change it – an asynchronous downstream makes a later read a data race); what the telemetry needs is measured before the hand-over", 1)
	pk := p.Pkg("processor/batchprocessor")
	if pk == nil {
		c.Anchor("processor/batchprocessor")
		return
	}
	n := 0
	for _, fn := range p.AllSrcFuncs(pk) {
		if fn.Parent() != nil {
			continue
		}
		for _, ci := range calls(fn, func(ci ssa.CallInstruction) bool {
			return ci.Common().IsInvoke() && ci.Common().Method.Name() == "export" && len(ci.Common().Args) == 2
		}) {
			n++
			req := ci.Common().Args[1]
			var bad ssa.Instruction
			if req.Referrers() != nil {
				for _, r := range *req.Referrers() {
					if r == ci.(ssa.Instruction) {
						continue
					}
					if _, isDbg := r.(*ssa.DebugRef); isDbg {
						continue
					}
					if canReach(ci.(ssa.Instruction), r, nil) {
						bad = r
					}
				}
			}
			c.Check(bad == nil, "request exported in "+fnName(fn)+" is not used afterwards", p.Pos(ci.Pos()), "no use of the request behind the export call", "the request is read again after it was handed on ("+posOf(p, bad)+"): at detailed telemetry level its size is measured behind the export – with a second batch processor or an exporter queue downstream `go test -race` reports the race, and the measured size can be that of a payload the consumer has already changed")
		}
	}
	if n == 0 {
		c.Undecided("export call of the batch processor", "-", "not found")
	}
}

func runC09CycleTime(c *Ctx) {
	p := c.P
	c.Rule("R17", "TERM", "a cyclic configuration is rejected in time polynomial in its size: the graph builder does not enumerate all elementary cycles (their number is exponential in a densely connected configuration) to report one – no call of topo.DirectedCyclesIn", 0)
	pk := p.Pkg("service/internal/graph")
	if pk == nil {
		c.Anchor("service/internal/graph")
		return
	}
	n := 0
	for _, fn := range p.AllSrcFuncs(pk) {
		for _, ci := range callsNamed(fn, func(f *types.Func) bool {
			return f.Name() == "DirectedCyclesIn" && f.Pkg() != nil && strings.HasSuffix(f.Pkg().Path(), "/graph/topo")
		}) {
			n++
			c.Bad("cycle report in "+fnName(fn)+" does not enumerate every cycle", p.Pos(ci.Pos()), "all elementary cycles are enumerated (Johnson's algorithm) to print the first: with n pipelines fully connected by n connectors the rejection takes 8 s for n=7 and ~35 times longer for every further pipeline – the collector appears to hang on a wrong configuration instead of reporting it")
		}
	}
	if n == 0 {
		c.OK("the graph builder does not enumerate all cycles", "-", "no DirectedCyclesIn")
	}
}

func runC12NoInterfaceEq(c *Ctx) {
	p := c.P
	c.Rule("R17", "TYP", "merging never compares two arbitrary configuration values with ==: in confmap's merge code no equality operator has operands of interface type (`any`) – the dynamic value of a configuration entry can be a map or a list, and == on those panics at run time (`comparing uncomparable type map[string]interface {}`)", 0)
	pk := p.Pkg("confmap")
	if pk == nil {
		c.Anchor("confmap")
		return
	}
	n := 0
	for _, fn := range p.AllSrcFuncs(pk) {
		pos := p.Pos(fn.Pos())
		if !strings.Contains(pos, "confmap/merge.go") {
			continue
		}
		allInstrs(fn, func(in ssa.Instruction) {
			bo, ok := in.(*ssa.BinOp)
			if !ok || (bo.Op != token.EQL && bo.Op != token.NEQ) {
				return
			}
			_, xi := bo.X.Type().Underlying().(*types.Interface)
			_, yi := bo.Y.Type().Underlying().(*types.Interface)
			if !(xi && yi) || isNilConst(bo.X) || isNilConst(bo.Y) {
				return
			}
			// error comparisons are fine
			if isErrorType(bo.X.Type()) {
				return
			}
			n++
			c.Bad("comparison in "+fnName(fn)+" is a deep comparison", p.Pos(bo.Pos()), "two `any` values are compared with ==: with the merge-append gate on, two sources that both define a list of maps under the same key panic with `runtime error: comparing uncomparable type map[string]interface {}`")
		})
	}
	for _, fn := range p.AllSrcFuncs(pk) {
		if !strings.Contains(p.Pos(fn.Pos()), "confmap/merge.go") {
			continue
		}
		for _, ci := range callsNamed(fn, func(f *types.Func) bool { return f.FullName() == "(reflect.Value).Equal" }) {
			// Value.Equal panics for values that are not comparable, unless Comparable() was asked first
			guarded := false
			for _, cond := range controllingCondsDeep(ci.Block()) {
				for v := range backSlice(cond) {
					if cc, ok := v.(*ssa.Call); ok {
						if f := calleeOf(cc); f != nil && f.FullName() == "(reflect.Value).Comparable" {
							guarded = true
						}
					}
				}
			}
			if guarded {
				continue
			}
			n++
			c.Bad("comparison in "+fnName(fn)+" is a deep comparison", p.Pos(ci.Pos()), "reflect.Value.Equal is used for the membership test: it panics for values that are not comparable – with the merge-append gate on, two sources that both define a list of maps under the same key panic (`reflect.Value.Equal: values of type map[string]interface {} are not comparable`)")
		}
	}
	if n == 0 {
		c.OK("no == / Value.Equal on arbitrary values in the merge code", "-", "membership tests use a deep comparison")
	}
}
