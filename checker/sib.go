package main

import (
	"fmt"
	"go/token"
	"sort"
	"strings"

	"golang.org/x/tools/go/ssa"
)

// SIB family: agreement between the per-signal siblings of one function.
//
// The collector implements most things once per signal (traces, metrics, logs, profiles). The siblings are
// textual copies of each other with the signal name substituted; a change that is applied to one of them only
// (typically the profiles copy, which lives in x-packages and is tested least) breaks the property for that signal
// while every test of the other signals still passes. The rule compares a normalised *skeleton* of each sibling –
// the sequence of resolved callees, branch and return kinds in source order, with signal words replaced by a
// placeholder – and reports the members that deviate from the majority of their group.

var signalWords = []string{"Traces", "Metrics", "Logs", "Profiles", "Trace", "Metric", "Log", "Profile", "Spans", "Span", "DataPoints", "DataPoint", "LogRecords", "LogRecord", "Samples", "Sample",
	"traces", "metrics", "logs", "profiles", "trace", "metric", "log", "profile", "spans", "span"}

var signalWordsSorted []string

func normSignal(s string) string {
	if signalWordsSorted == nil {
		signalWordsSorted = append([]string{}, signalWords...)
		sort.Slice(signalWordsSorted, func(i, j int) bool { return len(signalWordsSorted[i]) > len(signalWordsSorted[j]) })
	}
	for _, w := range signalWordsSorted {
		s = strings.ReplaceAll(s, w, "◇")
	}
	for strings.Contains(s, "◇◇") {
		s = strings.ReplaceAll(s, "◇◇", "◇")
	}
	return s
}

// pkgFamily: package path with x-prefix components and signal words normalised, so that
// exporterhelper and exporterhelper/xexporterhelper, ptrace and plog, land in one family.
func pkgFamily(path string) string {
	parts := strings.Split(relPkg(path), "/")
	var out []string
	for _, q := range parts {
		if strings.HasPrefix(q, "x") && len(q) > 1 && len(out) > 0 && (q[1:] == out[len(out)-1] || strings.HasSuffix(q, out[len(out)-1])) {
			continue // xexporterhelper under exporterhelper
		}
		switch q {
		case "ptrace", "pmetric", "plog", "pprofile":
			q = "p◇"
		case "ptraceotlp", "pmetricotlp", "plogotlp", "pprofileotlp":
			q = "p◇otlp"
		case "xconsumer":
			q = "consumer"
		case "xreceiver":
			q = "receiver"
		case "xprocessor":
			q = "processor"
		case "xexporter":
			q = "exporter"
		case "xconnector":
			q = "connector"
		case "xprocessorhelper":
			q = "processorhelper"
		case "xexporterhelper":
			q = "exporterhelper"
		case "xpipeline":
			q = "pipeline"
		}
		out = append(out, normSignal(q))
	}
	return strings.Join(out, "/")
}

func fnSkeleton(fn *ssa.Function) string {
	var toks []string
	type pin struct {
		pos token.Pos
		s   string
	}
	var pins []pin
	for _, f := range withAnon(fn) {
		allInstrs(f, func(in ssa.Instruction) {
			switch x := in.(type) {
			case ssa.CallInstruction:
				name := ""
				if x.Common().IsInvoke() {
					name = "i:" + x.Common().Method.Name()
				} else if g := calleeOf(x); g != nil {
					name = "c:" + g.Name()
					if g.Pkg() != nil && !strings.HasPrefix(g.Pkg().Path(), modPrefix) {
						name = "c:" + g.Pkg().Name() + "." + g.Name()
					}
				} else if b := builtinName(x); b != "" {
					name = "b:" + b
				} else {
					name = "dyn"
				}
				switch in.(type) {
				case *ssa.Go:
					name = "go " + name
				case *ssa.Defer:
					name = "defer " + name
				}
				pins = append(pins, pin{in.Pos(), normSignal(name)})
			case *ssa.If:
				s := "if"
				if bo, ok := x.Cond.(*ssa.BinOp); ok {
					s = "if" + bo.Op.String()
				}
				pins = append(pins, pin{in.Pos(), s})
			case *ssa.Return:
				pins = append(pins, pin{in.Pos(), fmt.Sprintf("ret%d", len(x.Results))})
			case *ssa.Send:
				pins = append(pins, pin{in.Pos(), "send"})
			case *ssa.Select:
				pins = append(pins, pin{in.Pos(), fmt.Sprintf("select%d", len(x.States))})
			case *ssa.Panic:
				pins = append(pins, pin{in.Pos(), "panic"})
			}
		})
	}
	// multiset, sorted: order in SSA is not the source order and differs with trivially reordered code
	for _, p := range pins {
		toks = append(toks, p.s)
	}
	sort.Strings(toks)
	return strings.Join(toks, " ")
}

type sibMember struct {
	fn   *ssa.Function
	skel string
}

// sibGroups groups the source functions of the given packages by (package family, normalised receiver, normalised name).
func sibGroups(p *Prog, include func(path string) bool) map[string][]sibMember {
	groups := map[string][]sibMember{}
	for _, pk := range p.Pkgs {
		if !strings.HasPrefix(pk.PkgPath, modPrefix) || !include(pk.PkgPath) {
			continue
		}
		for _, fn := range p.AllSrcFuncs(pk) {
			if fn.Parent() != nil || fn.Synthetic != "" {
				continue
			}
			name := fn.Name()
			if normSignal(name) == name {
				recv := ""
				if T := recvNamedOfFn(fn); T != nil {
					recv = T.Obj().Name()
				}
				if normSignal(recv) == recv && pkgFamily(pk.PkgPath) == relPkg(pk.PkgPath) {
					continue // nothing signal-specific about this function
				}
			}
			recv := ""
			if T := recvNamedOfFn(fn); T != nil {
				recv = normSignal(T.Obj().Name())
			}
			key := pkgFamily(pk.PkgPath) + " | " + recv + " | " + normSignal(name)
			groups[key] = append(groups[key], sibMember{fn, fnSkeleton(fn)})
		}
	}
	return groups
}

// sibDeviants: members whose skeleton differs from the strict majority skeleton of a group with ≥ 3 members.
func sibDeviants(ms []sibMember) (major string, dev []sibMember) {
	if len(ms) < 3 {
		return "", nil
	}
	cnt := map[string]int{}
	for _, m := range ms {
		cnt[m.skel]++
	}
	best, bn := "", 0
	for s, n := range cnt {
		if n > bn || (n == bn && s < best) {
			best, bn = s, n
		}
	}
	if bn < 2 {
		return "", nil // no two members agree: the group is not a set of copies
	}
	// a deviant is a member whose skeleton is unique in its group while other members agree with each other;
	// a second cluster of ≥ 2 identical members is a systematic variant (e.g. all x-package wrappers), not a slip
	for _, m := range ms {
		if cnt[m.skel] == 1 {
			dev = append(dev, m)
		}
	}
	return best, dev
}

// skelDiff: tokens only in a, only in b (multiset difference), for the diagnosis.
func skelDiff(a, b string) (onlyA, onlyB []string) {
	ca := map[string]int{}
	for _, t := range strings.Fields(a) {
		ca[t]++
	}
	for _, t := range strings.Fields(b) {
		if ca[t] > 0 {
			ca[t]--
		} else {
			onlyB = append(onlyB, t)
		}
	}
	for t, n := range ca {
		for i := 0; i < n; i++ {
			onlyA = append(onlyA, t)
		}
	}
	sort.Strings(onlyA)
	sort.Strings(onlyB)
	return
}

// sibScopes: per property, the packages whose per-signal siblings are true copies of each other.
var sibScopes = map[string][]string{
	"C04": {"exporter/exporterhelper", "exporter/exporterhelper/xexporterhelper", "exporter/exporterhelper/internal/sizer"},
	"C06": {"internal/fanoutconsumer", "consumer", "consumer/xconsumer", "processor/processorhelper", "processor/processorhelper/xprocessorhelper"},
	"C09": {"internal/fanoutconsumer", "service/internal/graph", "service/internal/builders", "connector", "connector/xconnector", "connector/internal", "service/internal/capabilityconsumer"},
	"C15": {"receiver/otlpreceiver", "receiver/otlpreceiver/internal/trace", "receiver/otlpreceiver/internal/metrics", "receiver/otlpreceiver/internal/logs", "receiver/otlpreceiver/internal/profiles", "exporter/otlpexporter", "exporter/otlphttpexporter"},
	"C17": {"processor/batchprocessor"},
	"C18": {"processor/memorylimiterprocessor", "extension/memorylimiterextension"},
	"C19": {"processor/processorhelper", "processor/processorhelper/xprocessorhelper", "receiver/receiverhelper", "scraper/scraperhelper", "service/internal/obsconsumer", "exporter/exporterhelper/internal", "exporter/exporterhelper/internal/queuebatch"},
	"C07": {"pdata/plog/plogotlp", "pdata/ptrace/ptraceotlp", "pdata/pmetric/pmetricotlp", "pdata/pprofile/pprofileotlp"},
}

func sibScopeAll(path string) bool {
	rel := relPkg(path)
	for _, ps := range sibScopes {
		for _, q := range ps {
			if q == rel {
				return true
			}
		}
	}
	return false
}

// sibExempt: deviants confirmed legitimate by reading the code (one symbol, one reason).
var sibExempt = map[string]string{
	"exporter/exporterhelper.extractScopeMetrics":                                              "metrics have one more level: a scope's metrics are themselves split by data points",
	"exporter/exporterhelper.extractMetricDataPoints":                                          "name collides with extractLogs/extractTraces after normalisation; it is the data-point dispatcher of the extra metrics level",
	"(*exporter/exporterhelper/internal/sizer.MetricsCountSizer).ResourceMetricsSize":          "metrics are counted in data points, which needs a walk over the extra level",
	"(*exporter/exporterhelper/internal/sizer.MetricsCountSizer).ScopeMetricsSize":             "same as ResourceMetricsSize",
	"(*exporter/exporterhelper/internal/sizer.MetricsCountSizer).MetricSize":                   "same as ResourceMetricsSize (switch over the five metric types)",
	"exporter/otlphttpexporter.createProfiles":                                                 "the experimental helper is named NewProfilesExporter, the stable ones NewTraces/NewMetrics/NewLogs",
	"(pdata/pmetric/pmetricotlp.ExportRequest).UnmarshalProto":                                 "metrics have no deprecated fields to migrate on decode (see the correction of C08.R4)",
	"processor/batchprocessor.newMetricsBatchProcessor":                                        "constructor is named newMetricsBatch, the others newBatchTraces/newBatchLogs",
	"(*processor/batchprocessor.batchTraces).split":                                            "traces compare through itemCount(), logs and metrics read their counter field directly; same comparison",
	"processor/processorhelper/xprocessorhelper.NewProfiles":                                   "no processor instruments exist for profiles yet; the profiles helper records nothing",
	"(*receiver/otlpreceiver/internal/profiles.Receiver).Export":                               "no receiver instruments exist for profiles yet; no StartOp/EndOp bracket",
	"(*service/internal/builders.ExporterBuilder).CreateProfiles":                              "the factory is first asserted to the experimental xexporter.Factory, with an error if it is not",
	"(*service/internal/builders.ProcessorBuilder).CreateProfiles":                             "same as ExporterBuilder.CreateProfiles (xprocessor.Factory)",
	"(*service/internal/builders.ReceiverBuilder).CreateProfiles":                              "same as ExporterBuilder.CreateProfiles (xreceiver.Factory)",
}

// runSIB evaluates the sibling-agreement rule over the scope registered for c.Prop.
func runSIB(c *Ctx, ruleID string) {
	p := c.P
	scope := sibScopes[c.Prop]
	c.Rule(ruleID, "SIB", "per-signal siblings agree: within each group of functions that are copies of each other for traces/metrics/logs/profiles (same package family, same name and receiver after replacing the signal words), no member has a call/branch/return skeleton that is unique in its group while the others agree; confirmed legitimate deviants are listed with a reason", 3)
	in := map[string]bool{}
	for _, q := range scope {
		in[q] = true
	}
	groups := sibGroups(p, func(path string) bool { return in[relPkg(path)] })
	ng := 0
	for _, k := range sortedKeys(groups) {
		ms := groups[k]
		if len(ms) < 3 {
			continue
		}
		major, dev := sibDeviants(ms)
		if major == "" {
			continue
		}
		ng++
		isDev := map[*ssa.Function]bool{}
		for _, d := range dev {
			isDev[d.fn] = true
		}
		for _, m := range ms {
			construct := "sibling " + fnName(m.fn) + " agrees with its group [" + k + "]"
			if !isDev[m.fn] {
				c.OK(construct, p.Pos(m.fn.Pos()), fmt.Sprintf("group of %d", len(ms)))
				continue
			}
			if why, ok := sibExempt[fnName(m.fn)]; ok {
				c.OK(construct, p.Pos(m.fn.Pos()), "confirmed legitimate deviant: "+why)
				continue
			}
			a, b := skelDiff(major, m.skel)
			c.Bad(construct, p.Pos(m.fn.Pos()), fmt.Sprintf("this copy differs from its %d siblings, which agree with each other: the siblings have %v, this one has %v instead – a change was applied to one signal only, so the property holds for the other signals and not for this one (or the other way round)", len(ms)-1, a, b))
		}
	}
	if ng == 0 {
		c.Undecided("sibling groups in scope", "-", "no group of ≥ 3 copies found")
	}
}
