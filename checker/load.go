package main

import (
	"bufio"
	"fmt"
	"go/ast"
	"go/token"
	"go/types"
	"os"
	"path/filepath"
	"sort"
	"strings"

	"golang.org/x/tools/go/packages"
	"golang.org/x/tools/go/ssa"
	"golang.org/x/tools/go/ssa/ssautil"
)

const modPrefix = "go.opentelemetry.io/collector"

// Prog is the loaded, type-checked, SSA-lowered view of the current /repo tree.
type Prog struct {
	Repo     string
	Fset     *token.FileSet
	Pkgs     []*packages.Package          // root packages (repo packages)
	ByPath   map[string]*packages.Package // all packages incl. deps
	SSA      *ssa.Program
	SSAPkgs  map[string]*ssa.Package
	Modules  int
	NumFuncs int
	Tags     string
	GOOS     string
	GOARCH   string
	fileOf   map[*ast.File]*packages.Package
}

type LoadOpts struct {
	Repo   string
	GOOS   string
	GOARCH string
	Tags   string
	// Extra directories (absolute) added to the harness as module "verifcanary".
	CanaryDir string
	Patterns  []string
	Overlay   map[string][]byte
}

// findModules returns module path -> directory for every collector module in the repo.
func findModules(repo string) (map[string]string, error) {
	mods := map[string]string{}
	err := filepath.Walk(repo, func(p string, info os.FileInfo, err error) error {
		if err != nil {
			return err
		}
		if info.IsDir() {
			n := info.Name()
			if n == ".git" || n == "node_modules" || n == "vendor" {
				return filepath.SkipDir
			}
			return nil
		}
		if info.Name() != "go.mod" {
			return nil
		}
		f, err := os.Open(p)
		if err != nil {
			return err
		}
		defer f.Close()
		sc := bufio.NewScanner(f)
		for sc.Scan() {
			line := strings.TrimSpace(sc.Text())
			if strings.HasPrefix(line, "module ") {
				m := strings.TrimSpace(strings.TrimPrefix(line, "module "))
				m = strings.Trim(m, "\"")
				if strings.HasPrefix(m, modPrefix) {
					dir := filepath.Dir(p)
					rel, _ := filepath.Rel(repo, dir)
					// internal/tools needs a newer go and holds no analysed code.
					if rel == filepath.Join("internal", "tools") {
						return nil
					}
					mods[m] = dir
				}
				break
			}
		}
		return nil
	})
	return mods, err
}

func writeHarness(o LoadOpts) (string, int, error) {
	mods, err := findModules(o.Repo)
	if err != nil {
		return "", 0, err
	}
	if len(mods) == 0 {
		return "", 0, fmt.Errorf("no collector modules found under %s", o.Repo)
	}
	dir, err := os.MkdirTemp("", "verifharness")
	if err != nil {
		return "", 0, err
	}
	var names []string
	for m := range mods {
		names = append(names, m)
	}
	sort.Strings(names)
	var b strings.Builder
	b.WriteString("module verifharness\n\ngo 1.23.0\n\nrequire (\n")
	for _, m := range names {
		fmt.Fprintf(&b, "\t%s v0.0.0-00010101000000-000000000000\n", m)
	}
	b.WriteString(")\n\nreplace (\n")
	for _, m := range names {
		fmt.Fprintf(&b, "\t%s => %s\n", m, mods[m])
	}
	b.WriteString(")\n")
	if err := os.WriteFile(filepath.Join(dir, "go.mod"), []byte(b.String()), 0o644); err != nil {
		return dir, 0, err
	}
	// go.sum = union of the repo's go.sum files.
	sums := map[string]struct{}{}
	for _, d := range mods {
		data, err := os.ReadFile(filepath.Join(d, "go.sum"))
		if err != nil {
			continue
		}
		for _, l := range strings.Split(string(data), "\n") {
			if strings.TrimSpace(l) != "" {
				sums[l] = struct{}{}
			}
		}
	}
	var sl []string
	for l := range sums {
		sl = append(sl, l)
	}
	sort.Strings(sl)
	if err := os.WriteFile(filepath.Join(dir, "go.sum"), []byte(strings.Join(sl, "\n")+"\n"), 0o644); err != nil {
		return dir, 0, err
	}
	// a tiny file importing nothing so that the module is non-empty
	if err := os.WriteFile(filepath.Join(dir, "doc.go"), []byte("package verifharness\n"), 0o644); err != nil {
		return dir, 0, err
	}
	if o.CanaryDir != "" {
		// copy canary packages into the harness module under ./canary/...
		err := filepath.Walk(o.CanaryDir, func(p string, info os.FileInfo, err error) error {
			if err != nil {
				return err
			}
			rel, _ := filepath.Rel(o.CanaryDir, p)
			dst := filepath.Join(dir, "canary", rel)
			if info.IsDir() {
				return os.MkdirAll(dst, 0o755)
			}
			if !strings.HasSuffix(p, ".go") {
				return nil
			}
			data, err := os.ReadFile(p)
			if err != nil {
				return err
			}
			return os.WriteFile(dst, data, 0o644)
		})
		if err != nil {
			return dir, 0, err
		}
	}
	return dir, len(mods), nil
}

// Load loads the repo. On any type error in a repo package it returns an error.
func Load(o LoadOpts) (*Prog, error) {
	dir, nmods, err := writeHarness(o)
	if dir != "" {
		defer os.RemoveAll(dir)
	}
	if err != nil {
		return nil, err
	}
	env := []string{}
	for _, e := range os.Environ() {
		k := strings.SplitN(e, "=", 2)[0]
		switch k {
		case "GOFLAGS", "GOPROXY", "GOSUMDB", "GOWORK", "GOTOOLCHAIN", "GOOS", "GOARCH", "CGO_ENABLED":
			continue
		}
		env = append(env, e)
	}
	env = append(env, "GOFLAGS=-mod=mod", "GOPROXY=off", "GOSUMDB=off", "GOWORK=off", "GOTOOLCHAIN=local", "CGO_ENABLED=0")
	if o.GOOS != "" {
		env = append(env, "GOOS="+o.GOOS)
	}
	if o.GOARCH != "" {
		env = append(env, "GOARCH="+o.GOARCH)
	}
	cfg := &packages.Config{
		Mode:    packages.LoadAllSyntax,
		Dir:     dir,
		Env:     env,
		Tests:   false,
		Overlay: o.Overlay,
	}
	if o.Tags != "" {
		cfg.BuildFlags = []string{"-tags=" + o.Tags}
	}
	pats := o.Patterns
	if len(pats) == 0 {
		pats = []string{modPrefix + "/..."}
	}
	if o.CanaryDir != "" {
		pats = append(pats, "verifharness/canary/...")
	}
	pkgs, err := packages.Load(cfg, pats...)
	if err != nil {
		return nil, fmt.Errorf("packages.Load: %w", err)
	}
	if len(pkgs) == 0 {
		return nil, fmt.Errorf("no packages matched %v", pats)
	}
	p := &Prog{Repo: o.Repo, ByPath: map[string]*packages.Package{}, Modules: nmods, GOOS: o.GOOS, GOARCH: o.GOARCH, Tags: o.Tags,
		fileOf: map[*ast.File]*packages.Package{}}
	var errs []string
	packages.Visit(pkgs, nil, func(pk *packages.Package) {
		p.ByPath[pk.PkgPath] = pk
		if strings.HasPrefix(pk.PkgPath, modPrefix) || strings.HasPrefix(pk.PkgPath, "verifharness") {
			for _, e := range pk.Errors {
				errs = append(errs, e.Error())
			}
			if pk.IllTyped {
				errs = append(errs, "ill-typed: "+pk.PkgPath)
			}
		}
		for _, f := range pk.Syntax {
			p.fileOf[f] = pk
		}
	})
	if len(errs) > 0 {
		sort.Strings(errs)
		if len(errs) > 10 {
			errs = errs[:10]
		}
		return nil, fmt.Errorf("load/type errors: %s", strings.Join(errs, "; "))
	}
	for _, pk := range pkgs {
		if strings.HasPrefix(pk.PkgPath, modPrefix) || strings.HasPrefix(pk.PkgPath, "verifharness/canary") {
			p.Pkgs = append(p.Pkgs, pk)
		}
	}
	sort.Slice(p.Pkgs, func(i, j int) bool { return p.Pkgs[i].PkgPath < p.Pkgs[j].PkgPath })
	if len(p.Pkgs) == 0 {
		return nil, fmt.Errorf("zero repo packages loaded")
	}
	p.Fset = pkgs[0].Fset
	prog, _ := ssautil.AllPackages(pkgs, ssa.InstantiateGenerics)
	prog.Build()
	p.SSA = prog
	p.SSAPkgs = map[string]*ssa.Package{}
	for _, sp := range prog.AllPackages() {
		p.SSAPkgs[sp.Pkg.Path()] = sp
	}
	return p, nil
}

// Pkg returns the package with the given path relative to the collector module prefix
// ("" = root module package).
func (p *Prog) Pkg(rel string) *packages.Package {
	path := modPrefix
	if rel != "" {
		if strings.HasPrefix(rel, "verifharness") {
			path = rel
		} else {
			path = modPrefix + "/" + rel
		}
	}
	return p.ByPath[path]
}

func (p *Prog) SSAPkg(rel string) *ssa.Package {
	pk := p.Pkg(rel)
	if pk == nil {
		return nil
	}
	return p.SSAPkgs[pk.PkgPath]
}

// Pos renders a position relative to the repo root.
func (p *Prog) Pos(pos token.Pos) string {
	if !pos.IsValid() {
		return "-"
	}
	ps := p.Fset.Position(pos)
	f := ps.Filename
	if r, err := filepath.Rel(p.Repo, f); err == nil && !strings.HasPrefix(r, "..") {
		f = r
	}
	return fmt.Sprintf("%s:%d", f, ps.Line)
}

// IsTestFile: we load with Tests=false so no _test files are present.

// LookupType finds a named type in a package by name.
func (p *Prog) LookupType(rel, name string) *types.Named {
	pk := p.Pkg(rel)
	if pk == nil || pk.Types == nil {
		return nil
	}
	obj := pk.Types.Scope().Lookup(name)
	if obj == nil {
		return nil
	}
	tn, ok := obj.(*types.TypeName)
	if !ok {
		return nil
	}
	n, _ := tn.Type().(*types.Named)
	return n
}

// LookupFunc finds a package-level function.
func (p *Prog) LookupFunc(rel, name string) *types.Func {
	pk := p.Pkg(rel)
	if pk == nil || pk.Types == nil {
		return nil
	}
	f, _ := pk.Types.Scope().Lookup(name).(*types.Func)
	return f
}

// LookupMethod finds a method (pointer or value receiver) of a named type.
func (p *Prog) LookupMethod(rel, typ, name string) *types.Func {
	n := p.LookupType(rel, typ)
	if n == nil {
		return nil
	}
	for i := 0; i < n.NumMethods(); i++ {
		if n.Method(i).Name() == name {
			return n.Method(i)
		}
	}
	return nil
}

// SSAFunc returns the SSA function (generic origin body for generic methods).
func (p *Prog) SSAFunc(f *types.Func) *ssa.Function {
	if f == nil {
		return nil
	}
	return p.SSA.FuncValue(f)
}

// AllSrcFuncs enumerates every source-level function of the given packages (incl. methods
// of generic types and anonymous functions), on generic bodies.
func (p *Prog) AllSrcFuncs(pkgs ...*packages.Package) []*ssa.Function {
	var out []*ssa.Function
	seen := map[*ssa.Function]bool{}
	var add func(fn *ssa.Function)
	add = func(fn *ssa.Function) {
		if fn == nil || seen[fn] {
			return
		}
		seen[fn] = true
		if fn.Blocks != nil {
			out = append(out, fn)
		}
		for _, a := range fn.AnonFuncs {
			add(a)
		}
	}
	for _, pk := range pkgs {
		if pk == nil {
			continue
		}
		// every *types.Func declared in the package
		for _, obj := range pk.TypesInfo.Defs {
			if f, ok := obj.(*types.Func); ok {
				add(p.SSA.FuncValue(f))
			}
		}
		if sp := p.SSAPkgs[pk.PkgPath]; sp != nil {
			for _, m := range sp.Members {
				if fn, ok := m.(*ssa.Function); ok {
					add(fn)
				}
			}
		}
	}
	// token.Pos order depends on (parallel) file load order; sort by file name and offset instead.
	type key struct {
		file string
		off  int
		name string
	}
	keys := make(map[*ssa.Function]key, len(out))
	for _, f := range out {
		ps := p.Fset.Position(f.Pos())
		keys[f] = key{ps.Filename, ps.Offset, f.String()}
	}
	sort.Slice(out, func(i, j int) bool {
		a, b := keys[out[i]], keys[out[j]]
		if a.file != b.file {
			return a.file < b.file
		}
		if a.off != b.off {
			return a.off < b.off
		}
		return a.name < b.name
	})
	return out
}
