package main

// Helpers that make the C09 / C12 rules (and C14.R10, which re-uses a C12 anchor) robust against
// behaviour-preserving refactorings: extracted helpers, closures <-> methods, range-over-func loop
// bodies (`for … := range slices.Backward(x)` is lowered by go/ssa to a synthetic yield closure),
// `for range N` loops, early-return <-> if/else, wrappers around an anchor call.
//
// Nothing here matches identifiers introduced by a particular refactoring: functions are followed by
// static call edges inside one package, values through parameters to the arguments of the call sites.

import (
	"go/token"
	"go/types"

	"golang.org/x/tools/go/packages"
	"golang.org/x/tools/go/ssa"
)

// ---------- call sites inside one package ----------

// a5PkgIndex: static call sites per callee inside one package, and whether a function is also used as a
// value (method value, closure argument, stored) – in which case its callers are not exactly known.
type a5PkgIndex struct {
	funcs   []*ssa.Function
	callers map[*ssa.Function][]ssa.CallInstruction
	asValue map[*ssa.Function]bool
}

var a5IndexCache = map[*packages.Package]*a5PkgIndex{}
var a5IndexProg *Prog

func a5Index(p *Prog, pk *packages.Package) *a5PkgIndex {
	if a5IndexProg != p {
		a5IndexProg = p
		a5IndexCache = map[*packages.Package]*a5PkgIndex{}
	}
	if ix, ok := a5IndexCache[pk]; ok {
		return ix
	}
	ix := &a5PkgIndex{funcs: p.AllSrcFuncs(pk), callers: map[*ssa.Function][]ssa.CallInstruction{}, asValue: map[*ssa.Function]bool{}}
	for _, fn := range ix.funcs {
		allInstrs(fn, func(in ssa.Instruction) {
			var callee *ssa.Function
			if ci, ok := in.(ssa.CallInstruction); ok {
				if callee = staticCalleeFn(ci); callee != nil {
					ix.callers[callee] = append(ix.callers[callee], ci)
				}
			}
			for _, op := range in.Operands(nil) {
				if *op == nil {
					continue
				}
				f, ok := (*op).(*ssa.Function)
				if !ok {
					continue
				}
				if o := f.Origin(); o != nil {
					f = o
				}
				if ci, isCall := in.(ssa.CallInstruction); isCall && ci.Common().Value == *op {
					continue
				}
				if mc, isMC := in.(*ssa.MakeClosure); isMC && mc.Fn == *op {
					continue // an anonymous function: its "caller" is the place where the closure is made
				}
				ix.asValue[f] = true
			}
		})
	}
	a5IndexCache[pk] = ix
	return ix
}

// exactCallers returns the static call sites of fn inside its package when these are all its callers:
// fn is a named, unexported function/method that is never used as a value.
func (ix *a5PkgIndex) exactCallers(fn *ssa.Function) ([]ssa.CallInstruction, bool) {
	if fn == nil || fn.Parent() != nil || ix.asValue[fn] {
		return nil, false
	}
	obj, ok := fn.Object().(*types.Func)
	if !ok || obj.Exported() {
		return nil, false
	}
	cs := ix.callers[fn]
	return cs, len(cs) > 0
}

// a5MakeClosureOf returns the (unique) MakeClosure instruction of the anonymous function fn in its parent.
func a5MakeClosureOf(fn *ssa.Function) *ssa.MakeClosure {
	par := fn.Parent()
	if par == nil {
		return nil
	}
	var found *ssa.MakeClosure
	n := 0
	allInstrs(par, func(in ssa.Instruction) {
		if mc, ok := in.(*ssa.MakeClosure); ok && mc.Fn == fn {
			found = mc
			n++
		}
	})
	if n != 1 {
		return nil
	}
	return found
}

// a5Lift maps an instruction of an anonymous function nested (at any depth) in top to the instruction of top
// that creates the enclosing closure; an instruction of top is returned as it is; nil if in is not under top.
// For a synchronously run closure (range-over-func body, immediately called literal, sort callback) the
// guards and the order of that instruction are the guards and the order of everything inside.
func a5Lift(in ssa.Instruction, top *ssa.Function) ssa.Instruction {
	for d := 0; d < 8 && in != nil; d++ {
		fn := in.Parent()
		if fn == top {
			return in
		}
		mc := a5MakeClosureOf(fn)
		if mc == nil {
			return nil
		}
		in = mc
	}
	return nil
}

// a5DeepCalls: the call instructions matching pred in fn and in its anonymous functions.
func a5DeepCalls(fn *ssa.Function, pred func(ssa.CallInstruction) bool) []ssa.CallInstruction {
	var out []ssa.CallInstruction
	for _, g := range withAnon(fn) {
		out = append(out, calls(g, pred)...)
	}
	return out
}

// a5ReachingSites returns the instructions of top through which a call matching pred is made: the matching
// calls of top itself, the MakeClosure of an anonymous function of top that contains such a site, and the
// static calls of top to functions of the same package that (up to depth) contain such a site. A helper that
// merely wraps the call is thereby "the call".
func a5ReachingSites(p *Prog, top *ssa.Function, pred func(ssa.CallInstruction) bool, depth int) []ssa.Instruction {
	memo := map[*ssa.Function]bool{}
	var has func(fn *ssa.Function, d int, stack map[*ssa.Function]bool) bool
	var sites func(fn *ssa.Function, d int, stack map[*ssa.Function]bool) []ssa.Instruction
	sites = func(fn *ssa.Function, d int, stack map[*ssa.Function]bool) []ssa.Instruction {
		var out []ssa.Instruction
		allInstrs(fn, func(in ssa.Instruction) {
			switch x := in.(type) {
			case ssa.CallInstruction:
				if pred(x) {
					out = append(out, in)
					return
				}
				if cf := staticCalleeFn(x); cf != nil && cf.Blocks != nil && cf.Pkg == top.Pkg && cf.Parent() == nil && d > 0 && !stack[cf] {
					if has(cf, d-1, stack) {
						out = append(out, in)
					}
				}
			case *ssa.MakeClosure:
				if af, ok := x.Fn.(*ssa.Function); ok && af.Parent() == fn && len(sites(af, d, stack)) > 0 {
					out = append(out, in)
				}
			}
		})
		return out
	}
	has = func(fn *ssa.Function, d int, stack map[*ssa.Function]bool) bool {
		if v, ok := memo[fn]; ok {
			return v
		}
		stack[fn] = true
		r := len(sites(fn, d, stack)) > 0
		delete(stack, fn)
		memo[fn] = r
		return r
	}
	return sites(top, depth, map[*ssa.Function]bool{top: true})
}

// ---------- call sites seen through wrappers ----------

// a5Site is a call matching a predicate together with the values of selected arguments. When such an
// argument is a bare parameter of a helper whose callers are exactly known, the site is replaced by the
// helper's call sites (Call = the outermost call, Args = the values at that call).
type a5Site struct {
	Call ssa.CallInstruction // the call as written in Fn (the wrapper call, if seen through a wrapper)
	Fn   *ssa.Function
	Args []ssa.Value
	Leaf ssa.CallInstruction // the matching call itself
}

func a5ParamIndex(fn *ssa.Function, v ssa.Value) int {
	pa, ok := strip(v).(*ssa.Parameter)
	if !ok {
		return -1
	}
	for i, q := range fn.Params {
		if q == pa {
			return i
		}
	}
	return -1
}

// a5SitesThroughWrappers enumerates, in the functions of ix, the calls matching pred with the arguments
// selected by sel, seen through wrappers (depth ≤ 3).
func a5SitesThroughWrappers(ix *a5PkgIndex, pred func(ssa.CallInstruction) bool, sel func(ssa.CallInstruction) []ssa.Value) []a5Site {
	var out []a5Site
	var expand func(s a5Site, d int)
	expand = func(s a5Site, d int) {
		anyParam := false
		for _, a := range s.Args {
			if a5ParamIndex(s.Fn, a) >= 0 {
				anyParam = true
			}
		}
		cs, exact := ix.exactCallers(s.Fn)
		if !anyParam || !exact || d == 0 {
			out = append(out, s)
			return
		}
		for _, cc := range cs {
			ns := a5Site{Call: cc, Fn: cc.Parent(), Leaf: s.Leaf, Args: make([]ssa.Value, len(s.Args))}
			for i, a := range s.Args {
				if k := a5ParamIndex(s.Fn, a); k >= 0 && k < len(cc.Common().Args) {
					ns.Args[i] = cc.Common().Args[k]
				} else {
					ns.Args[i] = a
				}
			}
			expand(ns, d-1)
		}
	}
	for _, fn := range ix.funcs {
		for _, ci := range calls(fn, pred) {
			expand(a5Site{Call: ci, Fn: fn, Args: sel(ci), Leaf: ci}, 3)
		}
	}
	return out
}

// ---------- provenance across helpers ----------

// a5BackSliceIP is backSliceMaps continued across the boundaries of helpers: a parameter of a function
// whose callers are exactly known stands for the arguments at its call sites, a free variable for the value
// bound to it where the closure is made.
func a5BackSliceIP(ix *a5PkgIndex, v ssa.Value) map[ssa.Value]bool {
	seen := map[ssa.Value]bool{}
	var work []ssa.Value
	push := func(x ssa.Value) {
		if x != nil && !seen[x] {
			seen[x] = true
			work = append(work, x)
		}
	}
	for x := range backSliceMaps(v) {
		push(x)
	}
	for steps := 0; len(work) > 0 && steps < 20000; steps++ {
		x := work[len(work)-1]
		work = work[:len(work)-1]
		var next []ssa.Value
		switch y := x.(type) {
		case *ssa.Parameter:
			fn := y.Parent()
			if cs, exact := ix.exactCallers(fn); exact {
				k := a5ParamIndex(fn, y)
				for _, cc := range cs {
					if k >= 0 && k < len(cc.Common().Args) {
						next = append(next, cc.Common().Args[k])
					}
				}
			}
		case *ssa.FreeVar:
			if b := freeVarBinding(y); b != nil {
				next = append(next, b)
			}
		}
		for _, n := range next {
			for z := range backSliceMaps(n) {
				push(z)
			}
		}
	}
	return seen
}

// a5IsCmpWithConst: v is compared (==, !=, or as the tag of a switch, which go/ssa lowers to ==) with a
// constant; returns the constants it is compared with among the referrers of v.
func a5ComparedConsts(v ssa.Value) (vals []int64, other bool) {
	refs := v.Referrers()
	if refs == nil {
		return nil, false
	}
	for _, r := range *refs {
		switch x := r.(type) {
		case *ssa.BinOp:
			if x.Op != token.EQL && x.Op != token.NEQ {
				other = true
				continue
			}
			o := x.Y
			if o == v {
				o = x.X
			}
			if k, ok := constInt(o); ok {
				vals = append(vals, k)
			} else {
				other = true
			}
		case *ssa.DebugRef:
		default:
			other = true
		}
	}
	return vals, other
}

// a5ReachableInPkg: top and the named functions of its package reachable from it by static calls (made in
// the functions themselves or in their anonymous functions), up to depth.
func a5ReachableInPkg(top *ssa.Function, depth int) map[*ssa.Function]bool {
	out := map[*ssa.Function]bool{}
	var visit func(fn *ssa.Function, d int)
	visit = func(fn *ssa.Function, d int) {
		if out[fn] {
			return
		}
		out[fn] = true
		if d == 0 {
			return
		}
		for _, g := range withAnon(fn) {
			allInstrs(g, func(in ssa.Instruction) {
				if ci, ok := in.(ssa.CallInstruction); ok {
					if cf := staticCalleeFn(ci); cf != nil && cf.Blocks != nil && cf.Pkg == top.Pkg {
						visit(rootFn(cf), d-1)
					}
				}
			})
		}
	}
	visit(top, depth)
	return out
}

// ---------- C12: termination shapes ----------

// a5ConstBoundTest: cond is `iv < K` / `iv <= K` / `K > iv` / `K >= iv` / `iv != K` with an ascending induction
// variable iv (the Phi itself or its increment: `for i := 0; i < K; i++` tests the Phi, the rotated form that
// go/ssa emits for `for range K` tests the incremented value) and a constant K ≥ min.
func a5ConstBoundTest(cond ssa.Value, min int64) (int64, bool) {
	bo, ok := cond.(*ssa.BinOp)
	if !ok {
		return 0, false
	}
	x, y, op := bo.X, bo.Y, bo.Op
	if _, isC := constInt(x); isC {
		x, y = y, x
		switch op {
		case token.GTR:
			op = token.LSS
		case token.GEQ:
			op = token.LEQ
		case token.LSS:
			op = token.GTR
		case token.LEQ:
			op = token.GEQ
		}
	}
	k, isC := constInt(y)
	if !isC || k < min {
		return 0, false
	}
	if op != token.LSS && op != token.LEQ && op != token.NEQ {
		return 0, false
	}
	if loopDir(x) != 1 {
		return 0, false
	}
	return k, true
}

// a5ErrorAfterBoundedLoop: fn returns a package-level error value on the path that leaves the loop (h, body)
// through its constant-bound test (or, for a loop whose header holds the test, anywhere behind the loop).
func a5ErrorAfterBoundedLoop(fn *ssa.Function, h *ssa.BasicBlock, body map[*ssa.BasicBlock]bool) bool {
	var exits []*ssa.BasicBlock
	for b := range body {
		iff, ok := b.Instrs[len(b.Instrs)-1].(*ssa.If)
		if !ok {
			continue
		}
		if _, isBound := a5ConstBoundTest(iff.Cond, 2); !isBound {
			continue
		}
		for _, s := range b.Succs {
			if !body[s] {
				exits = append(exits, s)
			}
		}
	}
	for _, r := range returnsOf(fn) {
		res := resultsOf(r)
		if len(res) == 0 || body[r.Block()] {
			continue
		}
		u, ok := strip(res[len(res)-1]).(*ssa.UnOp)
		if !ok {
			continue
		}
		if _, isG := u.X.(*ssa.Global); !isG {
			continue
		}
		if h.Dominates(r.Block()) {
			return true
		}
		for _, s := range exits {
			if s == r.Block() || s.Dominates(r.Block()) {
				return true
			}
		}
	}
	return false
}

// a5RecGraph: the static call graph between the named functions of a reachable set (calls made in their
// anonymous functions belong to the enclosing named function).
type a5RecGraph struct {
	succ map[*ssa.Function]map[*ssa.Function]bool
}

func a5NewRecGraph(reach map[*ssa.Function]bool) *a5RecGraph {
	g := &a5RecGraph{succ: map[*ssa.Function]map[*ssa.Function]bool{}}
	for fn := range reach {
		from := rootFn(fn)
		allInstrs(fn, func(in ssa.Instruction) {
			if ci, ok := in.(ssa.CallInstruction); ok {
				if cf := staticCalleeFn(ci); cf != nil && cf.Parent() == nil && reach[cf] {
					if g.succ[from] == nil {
						g.succ[from] = map[*ssa.Function]bool{}
					}
					g.succ[from][cf] = true
				}
			}
		})
	}
	return g
}

func (g *a5RecGraph) reaches(from, to *ssa.Function) bool {
	seen := map[*ssa.Function]bool{}
	st := []*ssa.Function{from}
	for len(st) > 0 {
		f := st[len(st)-1]
		st = st[:len(st)-1]
		if f == to {
			return true
		}
		if seen[f] {
			continue
		}
		seen[f] = true
		for s := range g.succ[f] {
			st = append(st, s)
		}
	}
	return false
}

// recursiveCalls: the calls in fn (a member of the reachable set, possibly anonymous) that close a call cycle:
// the callee is a named function from which the function enclosing the call is reached again. Direct
// self-recursion is the cycle of length one.
func (g *a5RecGraph) recursiveCalls(fn *ssa.Function, reach map[*ssa.Function]bool) []ssa.CallInstruction {
	return calls(fn, func(ci ssa.CallInstruction) bool {
		cf := staticCalleeFn(ci)
		return cf != nil && cf.Parent() == nil && reach[cf] && g.reaches(cf, rootFn(fn))
	})
}

// a5DataArgs: the arguments of a call that carry the data recursed on: not the receiver, not a context, not a
// number or a boolean.
func a5DataArgs(ci ssa.CallInstruction) []ssa.Value {
	var out []ssa.Value
	args := ci.Common().Args
	start := 0
	if cf := staticCalleeFn(ci); cf != nil && cf.Signature.Recv() != nil && !ci.Common().IsInvoke() {
		start = 1
	}
	for _, a := range args[start:] {
		if typeIs(a.Type(), "context", "Context") {
			continue
		}
		if b, ok := a.Type().Underlying().(*types.Basic); ok && b.Info()&(types.IsNumeric|types.IsBoolean) != 0 {
			continue
		}
		out = append(out, a)
	}
	return out
}

// a5PositiveOffset: v is `x + k` with a constant k ≥ 1, directly or as a parameter every call site of which
// (exactly known) passes such a sum.
func a5PositiveOffset(ix *a5PkgIndex, v ssa.Value, depth int) bool {
	v = strip(v)
	if bo, ok := v.(*ssa.BinOp); ok && bo.Op == token.ADD {
		if k, isC := constInt(bo.Y); isC && k >= 1 {
			return true
		}
		if k, isC := constInt(bo.X); isC && k >= 1 {
			return true
		}
	}
	if pa, ok := v.(*ssa.Parameter); ok && depth > 0 {
		fn := pa.Parent()
		cs, exact := ix.exactCallers(fn)
		if !exact {
			return false
		}
		k := a5ParamIndex(fn, pa)
		for _, cc := range cs {
			if k < 0 || k >= len(cc.Common().Args) || !a5PositiveOffset(ix, cc.Common().Args[k], depth-1) {
				return false
			}
		}
		return true
	}
	return false
}

// a5ParamLike: v is the caller's own parameter handed on: the parameter, a type assertion of it (one case of
// a type switch), or a captured copy of it.
func a5ParamLike(v ssa.Value) bool {
	for d := 0; d < 6; d++ {
		v = strip(v)
		switch x := v.(type) {
		case *ssa.Parameter:
			return true
		case *ssa.Extract:
			ta, ok := x.Tuple.(*ssa.TypeAssert)
			if !ok || x.Index != 0 {
				return false
			}
			v = ta.X
		case *ssa.TypeAssert:
			v = x.X
		default:
			return false
		}
	}
	return false
}

// a5ClassifyRecEdge classifies a call that closes a call cycle. kind != "": the data argument strictly
// decreases (structural component, strict suffix under a containment guard). pass: the data arguments are the
// caller's parameters handed on unchanged – the cycle then has to decrease at another of its calls.
func a5ClassifyRecEdge(ix *a5PkgIndex, ci ssa.CallInstruction) (kind string, pass bool) {
	fn := ci.Parent()
	if staticCalleeFn(ci) == rootFn(fn) {
		if k := classifyRecursion(rootFn(fn), ci); k != "" {
			return k, false
		}
	}
	data := a5DataArgs(ci)
	contains := false
	for _, g := range guardsOf(ci.Block()) {
		v, br := boolOf(g)
		if call, ok := v.(*ssa.Call); ok && calleeOf(call) != nil && calleeOf(call).FullName() == "strings.Contains" && br {
			contains = true
		}
	}
	for _, a := range data {
		if sl, ok := strip(a).(*ssa.Slice); ok && sl.Low != nil && sl.High == nil && contains && a5PositiveOffset(ix, sl.Low, 2) {
			return "recursion on the strict suffix after the first `}` under a containment guard", false
		}
	}
	allPass := len(data) > 0
	for _, a := range data {
		if !a5ParamLike(a) {
			allPass = false
		}
	}
	if allPass {
		return "", true
	}
	for _, a := range data {
		for v := range backSlice(a) {
			switch x := v.(type) {
			case *ssa.Next:
				return "structural recursion on an element of the ranged value", false
			case *ssa.IndexAddr, *ssa.Index:
				return "structural recursion on an element of the value", false
			case *ssa.Field:
				if _, ok := strip(x.X).(*ssa.Extract); ok {
					return "structural recursion on a field of the type-switched value", false
				}
				return "structural recursion on a field of the value", false
			case *ssa.FieldAddr:
				return "structural recursion on a field of the value", false
			}
		}
	}
	return "", false
}

// a5ResultValue looks through a call of a function of the same package that has one result and one return
// statement: the value is what that statement returns (at most two levels).
func a5ResultValue(v ssa.Value) ssa.Value {
	for d := 0; d < 2; d++ {
		call, ok := strip(v).(*ssa.Call)
		if !ok {
			return v
		}
		cf := staticCalleeFn(call)
		if cf == nil || cf.Blocks == nil || cf.Pkg != call.Parent().Pkg || cf.Signature.Results().Len() != 1 {
			return v
		}
		rets := returnsOf(cf)
		if len(rets) != 1 {
			return v
		}
		v = resultsOf(rets[0])[0]
	}
	return v
}

// a5MustCallSites: the calls in fn that certainly make a call matching pred: the matching calls themselves and
// the static calls of functions of the same package every entry→return path of which passes through such a
// call (a wrapper is the call when every path of it makes the call).
func a5MustCallSites(fn *ssa.Function, pred func(ssa.CallInstruction) bool, depth int) []ssa.CallInstruction {
	memo := map[*ssa.Function]bool{}
	var must func(g *ssa.Function, d int, stack map[*ssa.Function]bool) bool
	var sites func(g *ssa.Function, d int, stack map[*ssa.Function]bool) []ssa.CallInstruction
	sites = func(g *ssa.Function, d int, stack map[*ssa.Function]bool) []ssa.CallInstruction {
		return calls(g, func(ci ssa.CallInstruction) bool {
			if _, isCall := ci.(*ssa.Call); !isCall {
				return false // go / defer: not at this point
			}
			if pred(ci) {
				return true
			}
			cf := staticCalleeFn(ci)
			return cf != nil && cf.Blocks != nil && cf.Pkg == fn.Pkg && cf.Parent() == nil && d > 0 && !stack[cf] && must(cf, d-1, stack)
		})
	}
	must = func(g *ssa.Function, d int, stack map[*ssa.Function]bool) bool {
		if v, ok := memo[g]; ok {
			return v
		}
		stack[g] = true
		via := map[ssa.Instruction]bool{}
		for _, s := range sites(g, d, stack) {
			via[s] = true
		}
		delete(stack, g)
		r := false
		if len(via) > 0 {
			bypass, _ := reachesReturnWithout(g, nil, via)
			r = !bypass
		}
		memo[g] = r
		return r
	}
	return sites(fn, depth, map[*ssa.Function]bool{fn: true})
}
