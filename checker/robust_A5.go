package main

// Helpers that make the C09 / C12 rules (and C14.R10, which re-uses a C12 anchor) robust against
// behaviour-preserving refactorings: extracted helpers, closures <-> methods, range-over-func loop
// bodies (`for … := range slices.Backward(x)` is lowered by go/ssa to a synthetic yield closure),
// `for range N` loops, early-return <-> if/else, wrappers around an anchor call.
//
// Nothing here matches identifiers introduced by a particular refactoring: functions are followed by
// static call edges inside one package, values through parameters to the arguments of the call sites.

import (
	"go/token"
	"go/types"

	"golang.org/x/tools/go/packages"
	"golang.org/x/tools/go/ssa"
)

// ---------- call sites inside one package ----------

// a5PkgIndex: static call sites per callee inside one package, and whether a function is also used as a
// value (method value, closure argument, stored) – in which case its callers are not exactly known.
type a5PkgIndex struct {
	funcs   []*ssa.Function
	callers map[*ssa.Function][]ssa.CallInstruction
	asValue map[*ssa.Function]bool
}

var a5IndexCache = map[*packages.Package]*a5PkgIndex{}
var a5IndexProg *Prog

func a5Index(p *Prog, pk *packages.Package) *a5PkgIndex {
	if a5IndexProg != p {
		a5IndexProg = p
		a5IndexCache = map[*packages.Package]*a5PkgIndex{}
	}
	if ix, ok := a5IndexCache[pk]; ok {
		return ix
	}
	ix := &a5PkgIndex{funcs: p.AllSrcFuncs(pk), callers: map[*ssa.Function][]ssa.CallInstruction{}, asValue: map[*ssa.Function]bool{}}
	for _, fn := range ix.funcs {
		allInstrs(fn, func(in ssa.Instruction) {
			var callee *ssa.Function
			if ci, ok := in.(ssa.CallInstruction); ok {
				if callee = staticCalleeFn(ci); callee != nil {
					ix.callers[callee] = append(ix.callers[callee], ci)
				}
			}
			for _, op := range in.Operands(nil) {
				if *op == nil {
					continue
				}
				f, ok := (*op).(*ssa.Function)
				if !ok {
					continue
				}
				if o := f.Origin(); o != nil {
					f = o
				}
				if ci, isCall := in.(ssa.CallInstruction); isCall && ci.Common().Value == *op {
					continue
				}
				if mc, isMC := in.(*ssa.MakeClosure); isMC && mc.Fn == *op {
					continue // an anonymous function: its "caller" is the place where the closure is made
				}
				ix.asValue[f] = true
			}
		})
	}
	a5IndexCache[pk] = ix
	return ix
}

// exactCallers returns the static call sites of fn inside its package when these are all its callers:
// fn is a named, unexported function/method that is never used as a value.
func (ix *a5PkgIndex) exactCallers(fn *ssa.Function) ([]ssa.CallInstruction, bool) {
	if fn == nil || fn.Parent() != nil || ix.asValue[fn] {
		return nil, false
	}
	obj, ok := fn.Object().(*types.Func)
	if !ok || obj.Exported() {
		return nil, false
	}
	cs := ix.callers[fn]
	return cs, len(cs) > 0
}

// a5MakeClosureOf returns the (unique) MakeClosure instruction of the anonymous function fn in its parent.
func a5MakeClosureOf(fn *ssa.Function) *ssa.MakeClosure {
	par := fn.Parent()
	if par == nil {
		return nil
	}
	var found *ssa.MakeClosure
	n := 0
	allInstrs(par, func(in ssa.Instruction) {
		if mc, ok := in.(*ssa.MakeClosure); ok && mc.Fn == fn {
			found = mc
			n++
		}
	})
	if n != 1 {
		return nil
	}
	return found
}

// a5Lift maps an instruction of an anonymous function nested (at any depth) in top to the instruction of top
// that creates the enclosing closure; an instruction of top is returned as it is; nil if in is not under top.
// For a synchronously run closure (range-over-func body, immediately called literal, sort callback) the
// guards and the order of that instruction are the guards and the order of everything inside.
func a5Lift(in ssa.Instruction, top *ssa.Function) ssa.Instruction {
	for d := 0; d < 8 && in != nil; d++ {
		fn := in.Parent()
		if fn == top {
			return in
		}
		mc := a5MakeClosureOf(fn)
		if mc == nil {
			return nil
		}
		in = mc
	}
	return nil
}

// a5DeepCalls: the call instructions matching pred in fn and in its anonymous functions.
func a5DeepCalls(fn *ssa.Function, pred func(ssa.CallInstruction) bool) []ssa.CallInstruction {
	var out []ssa.CallInstruction
	for _, g := range withAnon(fn) {
		out = append(out, calls(g, pred)...)
	}
	return out
}

// a5ReachingSites returns the instructions of top through which a call matching pred is made: the matching
// calls of top itself, the MakeClosure of an anonymous function of top that contains such a site, and the
// static calls of top to functions of the same package that (up to depth) contain such a site. A helper that
// merely wraps the call is thereby "the call".
func a5ReachingSites(p *Prog, top *ssa.Function, pred func(ssa.CallInstruction) bool, depth int) []ssa.Instruction {
	memo := map[*ssa.Function]bool{}
	var has func(fn *ssa.Function, d int, stack map[*ssa.Function]bool) bool
	var sites func(fn *ssa.Function, d int, stack map[*ssa.Function]bool) []ssa.Instruction
	sites = func(fn *ssa.Function, d int, stack map[*ssa.Function]bool) []ssa.Instruction {
		var out []ssa.Instruction
		allInstrs(fn, func(in ssa.Instruction) {
			switch x := in.(type) {
			case ssa.CallInstruction:
				if pred(x) {
					out = append(out, in)
					return
				}
				if cf := staticCalleeFn(x); cf != nil && cf.Blocks != nil && cf.Pkg == top.Pkg && cf.Parent() == nil && d > 0 && !stack[cf] {
					if has(cf, d-1, stack) {
						out = append(out, in)
					}
				}
			case *ssa.MakeClosure:
				if af, ok := x.Fn.(*ssa.Function); ok && af.Parent() == fn && len(sites(af, d, stack)) > 0 {
					out = append(out, in)
				}
			}
		})
		return out
	}
	has = func(fn *ssa.Function, d int, stack map[*ssa.Function]bool) bool {
		if v, ok := memo[fn]; ok {
			return v
		}
		stack[fn] = true
		r := len(sites(fn, d, stack)) > 0
		delete(stack, fn)
		memo[fn] = r
		return r
	}
	return sites(top, depth, map[*ssa.Function]bool{top: true})
}

// ---------- call sites seen through wrappers ----------

// a5Site is a call matching a predicate together with the values of selected arguments. When such an
// argument is a bare parameter of a helper whose callers are exactly known, the site is replaced by the
// helper's call sites (Call = the outermost call, Args = the values at that call).
type a5Site struct {
	Call ssa.CallInstruction // the call as written in Fn (the wrapper call, if seen through a wrapper)
	Fn   *ssa.Function
	Args []ssa.Value
	Leaf ssa.CallInstruction // the matching call itself
}

func a5ParamIndex(fn *ssa.Function, v ssa.Value) int {
	pa, ok := strip(v).(*ssa.Parameter)
	if !ok {
		return -1
	}
	for i, q := range fn.Params {
		if q == pa {
			return i
		}
	}
	return -1
}

// a5SitesThroughWrappers enumerates, in the functions of ix, the calls matching pred with the arguments
// selected by sel, seen through wrappers (depth ≤ 3).
func a5SitesThroughWrappers(ix *a5PkgIndex, pred func(ssa.CallInstruction) bool, sel func(ssa.CallInstruction) []ssa.Value) []a5Site {
	var out []a5Site
	var expand func(s a5Site, d int)
	expand = func(s a5Site, d int) {
		anyParam := false
		for _, a := range s.Args {
			if a5ParamIndex(s.Fn, a) >= 0 {
				anyParam = true
			}
		}
		cs, exact := ix.exactCallers(s.Fn)
		if !anyParam || !exact || d == 0 {
			out = append(out, s)
			return
		}
		for _, cc := range cs {
			ns := a5Site{Call: cc, Fn: cc.Parent(), Leaf: s.Leaf, Args: make([]ssa.Value, len(s.Args))}
			for i, a := range s.Args {
				if k := a5ParamIndex(s.Fn, a); k >= 0 && k < len(cc.Common().Args) {
					ns.Args[i] = cc.Common().Args[k]
				} else {
					ns.Args[i] = a
				}
			}
			expand(ns, d-1)
		}
	}
	for _, fn := range ix.funcs {
		for _, ci := range calls(fn, pred) {
			expand(a5Site{Call: ci, Fn: fn, Args: sel(ci), Leaf: ci}, 3)
		}
	}
	return out
}

// ---------- provenance across helpers ----------

// a5BackSliceIP is backSliceMaps continued across the boundaries of helpers: a parameter of a function
// whose callers are exactly known stands for the arguments at its call sites, a free variable for the value
// bound to it where the closure is made.
func a5BackSliceIP(ix *a5PkgIndex, v ssa.Value) map[ssa.Value]bool {
	seen := map[ssa.Value]bool{}
	var work []ssa.Value
	push := func(x ssa.Value) {
		if x != nil && !seen[x] {
			seen[x] = true
			work = append(work, x)
		}
	}
	for x := range backSliceMaps(v) {
		push(x)
	}
	for steps := 0; len(work) > 0 && steps < 20000; steps++ {
		x := work[len(work)-1]
		work = work[:len(work)-1]
		var next []ssa.Value
		switch y := x.(type) {
		case *ssa.Parameter:
			fn := y.Parent()
			if cs, exact := ix.exactCallers(fn); exact {
				k := a5ParamIndex(fn, y)
				for _, cc := range cs {
					if k >= 0 && k < len(cc.Common().Args) {
						next = append(next, cc.Common().Args[k])
					}
				}
			}
		case *ssa.FreeVar:
			if b := freeVarBinding(y); b != nil {
				next = append(next, b)
			}
		}
		for _, n := range next {
			for z := range backSliceMaps(n) {
				push(z)
			}
		}
	}
	return seen
}

// a5IsCmpWithConst: v is compared (==, !=, or as the tag of a switch, which go/ssa lowers to ==) with a
// constant; returns the constants it is compared with among the referrers of v.
func a5ComparedConsts(v ssa.Value) (vals []int64, other bool) {
	refs := v.Referrers()
	if refs == nil {
		return nil, false
	}
	for _, r := range *refs {
		switch x := r.(type) {
		case *ssa.BinOp:
			if x.Op != token.EQL && x.Op != token.NEQ {
				other = true
				continue
			}
			o := x.Y
			if o == v {
				o = x.X
			}
			if k, ok := constInt(o); ok {
				vals = append(vals, k)
			} else {
				other = true
			}
		case *ssa.DebugRef:
		default:
			other = true
		}
	}
	return vals, other
}

// a5ReachableInPkg: top and the named functions of its package reachable from it by static calls (made in
// the functions themselves or in their anonymous functions), up to depth.
func a5ReachableInPkg(top *ssa.Function, depth int) map[*ssa.Function]bool {
	out := map[*ssa.Function]bool{}
	var visit func(fn *ssa.Function, d int)
	visit = func(fn *ssa.Function, d int) {
		if out[fn] {
			return
		}
		out[fn] = true
		if d == 0 {
			return
		}
		for _, g := range withAnon(fn) {
			allInstrs(g, func(in ssa.Instruction) {
				if ci, ok := in.(ssa.CallInstruction); ok {
					if cf := staticCalleeFn(ci); cf != nil && cf.Blocks != nil && cf.Pkg == top.Pkg {
						visit(rootFn(cf), d-1)
					}
				}
			})
		}
	}
	visit(top, depth)
	return out
}
