package main

import (
	"crypto/sha1"
	"encoding/hex"
	"encoding/json"
	"fmt"
	"os"
	"path/filepath"
	"sort"
	"strings"
	"time"
)

// Verdicts.
const (
	VOK        = "discharged"
	VBad       = "violated"
	VUndecided = "undecided"
)

// Oblig is one rule instance, keyed by (Rule, Construct) – never by line.
type Oblig struct {
	Rule      string `json:"rule"`
	Construct string `json:"construct"`
	Pos       string `json:"pos,omitempty"`
	Verdict   string `json:"verdict"`
	Detail    string `json:"detail,omitempty"`
	Config    string `json:"config,omitempty"`
}

type RuleInfo struct {
	ID         string `json:"id"`
	Family     string `json:"family"`
	Text       string `json:"text"`
	Floor      int    `json:"floor"`
	Instances  int    `json:"instances"`
	Violated   int    `json:"violated"`
	Exhaustive bool   `json:"exhaustive,omitempty"`
}

// Ctx collects the obligations of one property on one build configuration.
type Ctx struct {
	P      *Prog
	Prop   string
	Tier   string
	Config string
	Obs    []Oblig
	Rules  map[string]*RuleInfo
	order  []string
	Notes  []string
	cur    string
}

func NewCtx(p *Prog, prop, tier, config string) *Ctx {
	return &Ctx{P: p, Prop: prop, Tier: tier, Config: config, Rules: map[string]*RuleInfo{}}
}

// Rule declares a rule (id like "R1" → "C01.R1"), its family, text and floor, and makes
// it the current rule for subsequent OK/Bad/Undecided calls.
func (c *Ctx) Rule(id, family, text string, floor int) {
	full := c.Prop + "." + id
	if _, ok := c.Rules[full]; !ok {
		c.Rules[full] = &RuleInfo{ID: full, Family: family, Text: text, Floor: floor}
		c.order = append(c.order, full)
	}
	c.cur = full
}

func (c *Ctx) Exhaustive() { c.Rules[c.cur].Exhaustive = true }

func (c *Ctx) add(verdict, construct, pos, detail string) {
	c.Obs = append(c.Obs, Oblig{Rule: c.cur, Construct: construct, Pos: pos, Verdict: verdict, Detail: detail, Config: c.Config})
	ri := c.Rules[c.cur]
	ri.Instances++
	if verdict != VOK {
		ri.Violated++
	}
}

func (c *Ctx) OK(construct, pos, detail string)        { c.add(VOK, construct, pos, detail) }
func (c *Ctx) Bad(construct, pos, detail string)       { c.add(VBad, construct, pos, detail) }
func (c *Ctx) Undecided(construct, pos, detail string) { c.add(VUndecided, construct, pos, detail) }

// Check records OK or Bad depending on cond.
func (c *Ctx) Check(cond bool, construct, pos, okDetail, badDetail string) bool {
	if cond {
		c.OK(construct, pos, okDetail)
	} else {
		c.Bad(construct, pos, badDetail)
	}
	return cond
}

// Anchor reports an unresolved anchor as a violation of the current rule.
func (c *Ctx) Anchor(what string) {
	c.add(VUndecided, "anchor: "+what, "-", "anchor did not resolve in the current tree; the rule cannot show the property holds")
}

func (c *Ctx) Note(format string, a ...any) { c.Notes = append(c.Notes, fmt.Sprintf(format, a...)) }

// finish applies floors.
func (c *Ctx) finish() {
	for _, id := range c.order {
		ri := c.Rules[id]
		if ri.Instances < ri.Floor {
			c.cur = id
			c.add(VUndecided, fmt.Sprintf("floor: %d instances < floor %d", ri.Instances, ri.Floor), "-",
				"rule went blind: fewer instances than confirmed by hand on the reference tree")
		}
	}
}

// ---------- known findings ----------

type KnownFinding struct {
	Property  string `json:"property"`
	Rule      string `json:"rule"`
	Construct string `json:"construct"`
	Status    string `json:"status"` // known | fixed
	Commit    string `json:"commit,omitempty"`
	What      string `json:"what"`
}

func loadKnown(path string) ([]KnownFinding, error) {
	data, err := os.ReadFile(path)
	if err != nil {
		if os.IsNotExist(err) {
			return nil, nil
		}
		return nil, err
	}
	var k struct {
		Findings []KnownFinding `json:"findings"`
	}
	if err := json.Unmarshal(data, &k); err != nil {
		return nil, err
	}
	return k.Findings, nil
}

// ---------- reporting ----------

type Result struct {
	Prop       string
	Tier       string
	Ctxs       []*Ctx
	Wall       float64
	Seed       int
	Pkgs       int
	Funcs      int
	Modules    int
	Configs    []string
	Selftest   *SelftestResult
	VerifDir   string
	Known      []KnownFinding
	Assumes    []string
	Explain    string
	NotDecided string
}

type SelftestResult struct {
	Run     int      `json:"run"`
	Caught  int      `json:"caught"`
	Silent  int      `json:"silent_ok"`
	Skipped int      `json:"skipped"`
	Failed  []string `json:"failed,omitempty"`
	Details []string `json:"details,omitempty"`
}

func obKey(o Oblig) string { return o.Rule + "|" + o.Construct }

func shortHash(s string) string {
	h := sha1.Sum([]byte(s))
	return hex.EncodeToString(h[:6])
}

// Report prints diagnostics, writes evidence and replay files, returns the exit code.
func (r *Result) Report() int {
	evDir := filepath.Join(r.VerifDir, "evidence")
	repDir := filepath.Join(evDir, "replay")
	_ = os.MkdirAll(repDir, 0o755)

	known := map[string]KnownFinding{}
	for _, k := range r.Known {
		if k.Property == r.Prop && k.Status == "known" {
			known[k.Rule+"|"+k.Construct] = k
		}
	}
	// merge obligations across configurations: key + verdict; a violation in any config counts.
	type merged struct {
		Oblig
		Configs []string
	}
	m := map[string]*merged{}
	var keys []string
	rules := map[string]*RuleInfo{}
	var ruleOrder []string
	var notes []string
	for _, c := range r.Ctxs {
		for _, id := range c.order {
			ri := c.Rules[id]
			if ex, ok := rules[id]; ok {
				if ri.Instances > ex.Instances {
					ex.Instances = ri.Instances
				}
				if ri.Violated > ex.Violated {
					ex.Violated = ri.Violated
				}
			} else {
				cp := *ri
				rules[id] = &cp
				ruleOrder = append(ruleOrder, id)
			}
		}
		for _, o := range c.Obs {
			k := obKey(o)
			if ex, ok := m[k]; ok {
				ex.Configs = append(ex.Configs, o.Config)
				if ex.Verdict == VOK && o.Verdict != VOK {
					ex.Oblig = o
				}
			} else {
				m[k] = &merged{Oblig: o, Configs: []string{o.Config}}
				keys = append(keys, k)
			}
		}
		for _, n := range c.Notes {
			notes = append(notes, n)
		}
	}
	sort.Strings(keys)
	nviol := 0
	nknown := 0
	discharged := 0
	seenKnown := map[string]bool{}
	var samples []any
	var violSamples []any
	for _, k := range keys {
		o := m[k]
		if o.Verdict == VOK {
			discharged++
			continue
		}
		if kf, ok := known[k]; ok {
			nknown++
			seenKnown[k] = true
			fmt.Printf("KNOWN-FINDING: property=%s rule=%s construct=%q %s (%s)\n", r.Prop, o.Rule, o.Construct, kf.What, o.Pos)
			violSamples = append(violSamples, map[string]any{"rule": o.Rule, "construct": o.Construct, "pos": o.Pos, "verdict": "known-finding", "detail": o.Detail})
			continue
		}
		nviol++
		label := "VIOLATED"
		if o.Verdict == VUndecided {
			label = "UNDECIDED"
		}
		rp := filepath.Join(repDir, fmt.Sprintf("%s-%s-%s.json", r.Prop, strings.ReplaceAll(o.Rule, ".", "_"), shortHash(k)))
		rj, _ := json.MarshalIndent(map[string]any{"property": r.Prop, "rule": o.Rule, "construct": o.Construct, "pos": o.Pos,
			"verdict": o.Verdict, "detail": o.Detail, "tier": r.Tier, "configs": o.Configs,
			"rule_text": rules[o.Rule].Text}, "", " ")
		_ = os.WriteFile(rp, append(rj, '\n'), 0o644)
		fmt.Printf("%s %s [%s] %s\n    at %s\n    rule: %s\n    why: %s\n", label, o.Rule, rules[o.Rule].Family, o.Construct, o.Pos, rules[o.Rule].Text, o.Detail)
		fmt.Printf("VIOLATION property=%s replay=%s\n", r.Prop, rp)
		violSamples = append(violSamples, map[string]any{"rule": o.Rule, "construct": o.Construct, "pos": o.Pos, "verdict": o.Verdict, "detail": o.Detail})
	}
	// sample a few discharged obligations per rule for the evidence file.
	perRule := map[string]int{}
	for _, k := range keys {
		o := m[k]
		if o.Verdict != VOK {
			continue
		}
		if perRule[o.Rule] >= 3 {
			continue
		}
		perRule[o.Rule]++
		samples = append(samples, map[string]any{"rule": o.Rule, "construct": o.Construct, "pos": o.Pos, "verdict": o.Verdict, "detail": o.Detail})
	}
	samples = append(violSamples, samples...)
	for _, n := range notes {
		fmt.Printf("NOTE %s\n", n)
	}
	var ruleList []*RuleInfo
	exhaustiveAll := true
	for _, id := range ruleOrder {
		ruleList = append(ruleList, rules[id])
		if !rules[id].Exhaustive {
			exhaustiveAll = false
		}
	}
	distinct := map[string]bool{}
	for _, k := range keys {
		distinct[m[k].Construct] = true
	}
	selfFail := 0
	if r.Selftest != nil {
		selfFail = len(r.Selftest.Failed)
		for _, f := range r.Selftest.Failed {
			fmt.Printf("SELFTEST-FAILED %s\n", f)
		}
	}
	fmt.Printf("%s %s: %d obligations in %d rules, %d discharged, %d violated/undecided, %d known findings; %d packages, %d functions, configs=%v, %.1fs\n",
		r.Prop, r.Tier, len(keys), len(ruleOrder), discharged, nviol, nknown, r.Pkgs, r.Funcs, r.Configs, r.Wall)

	cov := map[string]any{
		"explanation":         r.Explain,
		"not_decided":         r.NotDecided,
		"obligations":         len(keys),
		"discharged":          discharged,
		"evaluations":         len(keys),
		"distinct_nontrivial": len(distinct),
		"rule":                "one obligation per (rule, construct) instance found in the current source of /repo by the rule's anchor/enumeration; distinct = distinct constructs; every obligation is non-trivial in that it is a concrete code construct (call site, function, table entry, field) against which the rule's predicate was evaluated",
		"samples":             samples,
		"checker_cmd":         fmt.Sprintf("./bin/check %s %s", r.Prop, r.Tier),
		"trusted_base":        []string{"go/types type checker", "golang.org/x/tools v0.29.0 go/packages + go/ssa (SSA construction, dominators)", "the frozen oracles/tables in /verif/checker (listed per rule)", "Go toolchain's build-constraint evaluation"},
		"rules":               ruleList,
		"exhaustive":          exhaustiveAll,
		"packages_analysed":   r.Pkgs,
		"functions_analysed":  r.Funcs,
		"modules":             r.Modules,
		"build_configs":       r.Configs,
		"known_findings":      nknown,
	}
	if r.Selftest != nil {
		cov["selftest"] = r.Selftest
	}
	ev := map[string]any{
		"property_id": r.Prop,
		"tier":        r.Tier,
		"seed":        r.Seed,
		"level":       "other",
		"coverage":    cov,
		"assumptions": r.Assumes,
		"wall_s":      r.Wall,
		"violations":  nviol,
		"generated":   time.Now().UTC().Format(time.RFC3339),
	}
	ej, _ := json.MarshalIndent(ev, "", " ")
	if err := os.WriteFile(filepath.Join(evDir, r.Prop+".json"), append(ej, '\n'), 0o644); err != nil {
		fmt.Printf("CHECK-ERROR cannot write evidence: %v\n", err)
		return 2
	}
	if nviol > 0 {
		return 1
	}
	if selfFail > 0 {
		fmt.Printf("CHECK-ERROR selftest: %d seeded edits not handled as expected (rule blind or noisy)\n", selfFail)
		return 2
	}
	return 0
}
