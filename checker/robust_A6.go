package main

// Helpers that make the C10/C11 lifecycle rules robust against behaviour-preserving refactorings:
// a status report made through a same-package wrapper (method, function or closure) counts as the
// report; an event picked by a helper from an error (`outcomeEvent(err)`) counts as the two guarded
// reports it stands for; a lifecycle call that lives in an extracted helper or in the body of a
// range-over-func loop (`for … := range slices.Backward(x)`) is judged across the call; a Once body
// that was turned into a method is still the Once body.

import (
	"go/token"
	"go/types"
	"strings"

	"golang.org/x/tools/go/ssa"
)

// ---------- substitution of a callee's parameters by the caller's argument values ----------

type substA6 map[*ssa.Parameter]ssa.Value

func (s substA6) resolve(v ssa.Value) ssa.Value {
	if v == nil {
		return nil
	}
	if p, ok := strip(v).(*ssa.Parameter); ok {
		if a, ok := s[p]; ok && a != nil {
			return a
		}
	}
	return v
}

// bindArgsA6 maps the parameters of the statically called function g (receiver first) to the
// argument values of call, themselves resolved in the caller's substitution.
func bindArgsA6(g *ssa.Function, call ssa.CallInstruction, outer substA6) substA6 {
	s := substA6{}
	args := call.Common().Args
	for i, p := range g.Params {
		if i < len(args) {
			s[p] = outer.resolve(args[i])
		}
	}
	return s
}

// samePkgCalleeA6: the function (method, function or closure) with a body that call invokes
// statically and that belongs to the package of the calling function.
func samePkgCalleeA6(call ssa.CallInstruction) *ssa.Function {
	if _, isCall := call.(*ssa.Call); !isCall {
		return nil
	}
	g := staticCalleeFn(call)
	if g == nil || g.Blocks == nil || call.Parent() == nil || g == call.Parent() {
		return nil
	}
	if g.Pkg == nil || g.Pkg != call.Parent().Pkg {
		return nil
	}
	if len(g.Params) != len(call.Common().Args) {
		return nil
	}
	return g
}

// ---------- conditions ----------

// nilCondA6: "v is nil" / "v is not nil", v a value of the frame the report is judged in.
type nilCondA6 struct {
	v     ssa.Value
	isNil bool
}

// nilCondsOfBlockA6 translates the guards of block b into nil conditions on values resolved through s.
// opaque: some guard is not a nil test. reporterNil tests (`x.reporter != nil` around a report made on
// x.reporter) are dropped when recv is given: the rules accept them ("modulo reporter == nil").
func nilCondsOfBlockA6(b *ssa.BasicBlock, s substA6, recv ssa.Value) (conds []nilCondA6, opaque bool) {
	var rlast string
	if recv != nil {
		if _, rp := fieldChain(recv); len(rp) > 0 {
			rlast = rp[len(rp)-1]
		}
	}
	for _, g := range guardsOf(b) {
		op, x, y, ok := cmpOf(g)
		if !ok || (op != token.EQL && op != token.NEQ) {
			opaque = true
			continue
		}
		var other ssa.Value
		if isNilConst(y) {
			other = x
		} else if isNilConst(x) {
			other = y
		} else {
			opaque = true
			continue
		}
		if rlast != "" && op == token.NEQ {
			if _, op2 := fieldChain(other); len(op2) > 0 && op2[len(op2)-1] == rlast {
				continue
			}
		}
		conds = append(conds, nilCondA6{s.resolve(other), op == token.EQL})
	}
	return conds, opaque
}

// alwaysUnderGuardsA6: once the guards of in's block hold, in is executed on every path to a return
// of its function (no early return between the innermost guard and the instruction).
func alwaysUnderGuardsA6(in ssa.Instruction) bool {
	b := in.Block()
	fn := b.Parent()
	start := fn.Blocks[0]
	if gs := guardsOf(b); len(gs) > 0 {
		g := gs[0]
		if g.Branch {
			start = g.If.Block().Succs[0]
		} else {
			start = g.If.Block().Succs[1]
		}
	}
	if start == b || len(start.Instrs) == 0 {
		return start == b
	}
	first := start.Instrs[0]
	if first == in {
		return true
	}
	avoid := map[ssa.Instruction]bool{in: true}
	for _, r := range returnsOf(fn) {
		if first == ssa.Instruction(r) || canReach(first, r, avoid) {
			return false
		}
	}
	return true
}

// ---------- events ----------

// evAltA6 is one alternative of an event-valued expression.
type evAltA6 struct {
	kind   string
	errArg ssa.Value   // the error the event carries (caller's frame), nil if none
	conds  []nilCondA6 // the alternative is chosen exactly under these conditions
	opaque bool        // … or under a condition that is not a nil test
}

// eventAltsA6 classifies an event value: a componentstatus constructor call, or the result of a
// same-package helper each of whose returns is such a value (the helper's guards become conditions).
func eventAltsA6(v ssa.Value, s substA6, names map[int64]string, depth int) []evAltA6 {
	v = s.resolve(v)
	call, ok := strip(v).(*ssa.Call)
	if !ok {
		return nil
	}
	f := calleeOf(call)
	if f == nil || f.Pkg() == nil {
		return nil
	}
	if f.Pkg().Path() == pkgCompStatus {
		args := call.Call.Args
		switch f.Name() {
		case "NewEvent":
			if k, ok := constInt(s.resolve(args[0])); ok && names[k] != "" {
				return []evAltA6{{kind: names[k]}}
			}
		case "NewPermanentErrorEvent":
			return []evAltA6{{kind: "PermanentError", errArg: s.resolve(args[0])}}
		case "NewRecoverableErrorEvent":
			return []evAltA6{{kind: "RecoverableError", errArg: s.resolve(args[0])}}
		case "NewFatalErrorEvent":
			return []evAltA6{{kind: "FatalError", errArg: s.resolve(args[0])}}
		}
		return nil
	}
	g := samePkgCalleeA6(call)
	if g == nil || depth <= 0 || g.Signature.Results().Len() != 1 {
		return nil
	}
	s2 := bindArgsA6(g, call, s)
	var out []evAltA6
	for _, r := range returnsOf(g) {
		alts := eventAltsA6(resultsOf(r)[0], s2, names, depth-1)
		if len(alts) == 0 {
			return nil
		}
		conds, opaque := nilCondsOfBlockA6(r.Block(), s2, nil)
		for _, a := range alts {
			a.conds = append(append([]nilCondA6{}, conds...), a.conds...)
			a.opaque = a.opaque || opaque
			out = append(out, a)
		}
	}
	return out
}

// ---------- status reports, also through wrappers ----------

// statusReportsA6 lists the status reports fn makes: direct calls of ReportStatus / Report /
// ReportOKIfStarting, and calls of same-package wrappers (depth <= 2) that make such a report on every
// path on which nil tests of their own arguments allow it. A wrapper's report is attributed to the call
// of the wrapper, with the instance id, the error and the conditions expressed in fn's values.
func statusReportsA6(fn *ssa.Function, names map[int64]string) []statusReport {
	return statusReportsRecA6(fn, nil, names, 2, map[*ssa.Function]bool{fn: true})
}

func statusReportsRecA6(fn *ssa.Function, s substA6, names map[int64]string, depth int, busy map[*ssa.Function]bool) []statusReport {
	var out []statusReport
	allInstrs(fn, func(in ssa.Instruction) {
		ci, ok := in.(ssa.CallInstruction)
		if !ok {
			return
		}
		f := calleeOf(ci)
		if f == nil {
			return
		}
		cc := ci.Common()
		args := cc.Args
		var recv ssa.Value
		if cc.IsInvoke() {
			recv = cc.Value
		} else if len(args) > 0 && recvNamed(f) != nil {
			recv = args[0]
			args = args[1:]
		}
		direct := func(id, ev ssa.Value) {
			for _, a := range eventAltsA6(ev, s, names, 2) {
				if a.opaque {
					continue
				}
				out = append(out, statusReport{call: ci, kind: a.kind, id: s.resolve(id), recv: recv, ev: s.resolve(ev), errArg: a.errArg, conds: a.conds})
			}
		}
		switch {
		case f.Name() == "ReportStatus" && len(args) == 2:
			direct(args[0], args[1])
			return
		case f.Name() == "Report" && len(args) == 1:
			direct(nil, args[0])
			return
		case f.Name() == "ReportOKIfStarting" && len(args) == 1:
			out = append(out, statusReport{call: ci, kind: "OKIfStarting", id: s.resolve(args[0]), recv: recv})
			return
		}
		g := samePkgCalleeA6(ci)
		if g == nil || depth <= 0 || busy[g] {
			return
		}
		busy[g] = true
		inner := statusReportsRecA6(g, bindArgsA6(g, ci, s), names, depth-1, busy)
		delete(busy, g)
		for _, r := range inner {
			conds, opaque := nilCondsOfBlockA6(r.call.Block(), bindArgsA6(g, ci, s), r.recv)
			if opaque || !alwaysUnderGuardsA6(r.call) {
				continue
			}
			r.conds = append(conds, r.conds...)
			r.call = ci
			out = append(out, r)
		}
	})
	return out
}

// reportOnErrSideA6: report r is made only when the error returned by call is nil (wantNil) / not nil:
// its block is guarded by that test, or the event it carries is chosen by it.
func reportOnErrSideA6(r *statusReport, call ssa.CallInstruction, wantNil bool) bool {
	if errGuardOn(r.call.Block(), call, wantNil) {
		return true
	}
	for _, cd := range r.conds {
		if cd.isNil == wantNil && valueIsResultOf(cd.v, call) {
			return true
		}
	}
	return false
}

// ---------- range-over-func loops ----------

// rangeFuncYieldA6: call invokes an iterator (a func value) with the synthetic body function of a
// `for … := range seq` loop; returns that body ("yield") function.
func rangeFuncYieldA6(call ssa.CallInstruction) *ssa.Function {
	if _, isCall := call.(*ssa.Call); !isCall || call.Common().IsInvoke() {
		return nil
	}
	for _, a := range call.Common().Args {
		if mc, ok := a.(*ssa.MakeClosure); ok {
			if y, ok := mc.Fn.(*ssa.Function); ok && isRangeFuncYieldA6(y) {
				return y
			}
		}
	}
	return nil
}

func isRangeFuncYieldA6(fn *ssa.Function) bool {
	return fn != nil && fn.Parent() != nil && fn.Synthetic == "range-over-func yield"
}

// rangeFuncLoopCallA6 finds, in the parent of yield function y, the iterator invocation y is the body of.
func rangeFuncLoopCallA6(y *ssa.Function) ssa.CallInstruction {
	var out ssa.CallInstruction
	if y.Parent() == nil {
		return nil
	}
	allInstrs(y.Parent(), func(in ssa.Instruction) {
		if ci, ok := in.(ssa.CallInstruction); ok && rangeFuncYieldA6(ci) == y {
			out = ci
		}
	})
	return out
}

// rangeFuncSourceA6: the sequence a range-over-func loop walks and its direction, for the iterators of
// package slices over a slice: Backward (-1), All / Values (+1). nil when the iterator is something else.
func rangeFuncSourceA6(loop ssa.CallInstruction) (ssa.Value, int) {
	if loop == nil {
		return nil, 0
	}
	mk, ok := strip(loop.Common().Value).(*ssa.Call)
	if !ok {
		return nil, 0
	}
	f := calleeOf(mk)
	if f == nil || f.Pkg() == nil || f.Pkg().Path() != "slices" || len(mk.Call.Args) != 1 {
		return nil, 0
	}
	switch f.Name() {
	case "Backward":
		return mk.Call.Args[0], -1
	case "All", "Values":
		return mk.Call.Args[0], 1
	}
	return nil, 0
}

const (
	rfContinueA6 = iota // the body ends, the loop goes on (continue / end of body)
	rfBreakA6           // the loop ends, control continues behind it
	rfReturnA6          // the enclosing function returns
	rfOtherA6           // a jump to an outer label, or not recognised
)

type rfExitA6 struct {
	ret     *ssa.Return
	kind    int
	results []ssa.Value // rfReturnA6: the values the enclosing function returns
}

// rangeFuncExitsA6 classifies the returns of a range-over-func body by go/ssa's protocol: `return true`
// continues; `jump = 0; return false` is a break; `jump = k (k >= 1); return false` leaves through exit k of
// the parent, which for a `return` statement returns the result variables the body stored into.
func rangeFuncExitsA6(y *ssa.Function) []rfExitA6 {
	var out []rfExitA6
	if len(y.FreeVars) == 0 {
		return nil
	}
	jump := y.FreeVars[0]
	if pt, ok := jump.Type().(*types.Pointer); !ok || !types.Identical(pt.Elem(), types.Typ[types.Int]) {
		return nil
	}
	jumpAlloc := freeVarBinding(jump)
	for _, r := range returnsOf(y) {
		e := rfExitA6{ret: r, kind: rfOtherA6}
		if len(r.Results) == 1 {
			if bv, ok := constBool(r.Results[0]); ok && bv {
				e.kind = rfContinueA6
			} else if ok {
				// the last store to the jump variable in this block
				code, has := int64(0), false
				instrs := r.Block().Instrs
				for j := instrIndex(r) - 1; j >= 0; j-- {
					if st, ok := instrs[j].(*ssa.Store); ok && st.Addr == ssa.Value(jump) {
						code, has = constInt(st.Val)
						break
					}
				}
				switch {
				case has && code == 0:
					e.kind = rfBreakA6
				case has && code >= 1 && jumpAlloc != nil:
					if pr := rangeFuncExitReturnA6(y.Parent(), jumpAlloc, code); pr != nil {
						e.kind = rfReturnA6
						for _, res := range pr.Results {
							var val ssa.Value
							if u, ok := res.(*ssa.UnOp); ok && u.Op == token.MUL {
								for _, fv := range y.FreeVars {
									if freeVarBinding(fv) == u.X {
										for j := instrIndex(r) - 1; j >= 0; j-- {
											if st, ok := instrs[j].(*ssa.Store); ok && st.Addr == ssa.Value(fv) {
												val = st.Val
												break
											}
										}
									}
								}
							}
							e.results = append(e.results, val)
						}
					}
				}
			}
		}
		out = append(out, e)
	}
	return out
}

// rangeFuncExitReturnA6: the Return of the parent that exit `code` of the loop leads to (the true side of
// `*jump == code`), nil when that exit is not a return.
func rangeFuncExitReturnA6(parent *ssa.Function, jumpAlloc ssa.Value, code int64) *ssa.Return {
	var out *ssa.Return
	allInstrs(parent, func(in ssa.Instruction) {
		iff, ok := in.(*ssa.If)
		if !ok {
			return
		}
		bo, ok := iff.Cond.(*ssa.BinOp)
		if !ok || bo.Op != token.EQL {
			return
		}
		k, isK := constInt(bo.Y)
		ld, isLd := bo.X.(*ssa.UnOp)
		if !isK || k != code || !isLd || ld.Op != token.MUL || ld.X != jumpAlloc {
			return
		}
		t := iff.Block().Succs[0]
		if r, ok := t.Instrs[len(t.Instrs)-1].(*ssa.Return); ok {
			out = r
		}
	})
	return out
}

// ---------- a call found in an extracted helper or in a range-over-func body ----------

// linkA6 is one step from a function into the function that holds the call looked for.
type linkA6 struct {
	fn    *ssa.Function       // the function that contains `at`
	at    ssa.CallInstruction // the static call of the next function, or the iterator invocation whose body the next function is
	next  *ssa.Function
	yield bool // next is the body of a range-over-func loop of fn
}

type deepCallA6 struct {
	call  ssa.CallInstruction
	chain []linkA6 // outermost first; empty when the call is in the top function itself
}

func (d deepCallA6) fn() *ssa.Function { return d.call.Parent() }

// deepCallsA6 finds the calls selected by pick in top, in the bodies of its range-over-func loops, and in
// the same-package functions and closures it calls statically (at most `depth` static calls deep).
func deepCallsA6(top *ssa.Function, depth int, pick func(fn *ssa.Function) []ssa.CallInstruction) []deepCallA6 {
	var out []deepCallA6
	var walk func(fn *ssa.Function, chain []linkA6, depth int)
	walk = func(fn *ssa.Function, chain []linkA6, depth int) {
		for _, ci := range pick(fn) {
			out = append(out, deepCallA6{call: ci, chain: append([]linkA6{}, chain...)})
		}
		onChain := func(g *ssa.Function) bool {
			if g == top {
				return true
			}
			for _, l := range chain {
				if l.next == g {
					return true
				}
			}
			return false
		}
		allInstrs(fn, func(in ssa.Instruction) {
			ci, ok := in.(ssa.CallInstruction)
			if !ok {
				return
			}
			if y := rangeFuncYieldA6(ci); y != nil && !onChain(y) {
				walk(y, append(append([]linkA6{}, chain...), linkA6{fn, ci, y, true}), depth)
				return
			}
			if g := samePkgCalleeA6(ci); g != nil && depth > 0 && !onChain(g) {
				walk(g, append(append([]linkA6{}, chain...), linkA6{fn, ci, g, false}), depth-1)
			}
		})
	}
	walk(top, nil, depth)
	return out
}

func lifecycleCallsDeepA6(top *ssa.Function, name string) []deepCallA6 {
	return deepCallsA6(top, 2, func(fn *ssa.Function) []ssa.CallInstruction { return lifecycleCalls(fn, name) })
}

// errSrcA6 extends "v is the error returned by call" to "… or that error handed through a same-package
// helper whose every non-nil result keeps the chain of its argument" (`return g.failed(id, err)`).
func errSrcA6(isSrc func(ssa.Value) bool) func(ssa.Value) bool {
	var rec func(v ssa.Value, depth int) bool
	rec = func(v ssa.Value, depth int) bool {
		if isSrc(v) {
			return true
		}
		call, ok := strip(v).(*ssa.Call)
		if !ok || depth <= 0 {
			return false
		}
		g := samePkgCalleeA6(call)
		if g == nil || g.Signature.Results().Len() != 1 {
			return false
		}
		for i, a := range call.Call.Args {
			if !rec(a, depth-1) {
				continue
			}
			prm := g.Params[i]
			all, any := true, false
			for _, r := range returnsOf(g) {
				res := resultsOf(r)[0]
				if isNilConst(res) {
					continue
				}
				ok, _ := errChainReaches(res, func(x ssa.Value) bool { return strip(x) == ssa.Value(prm) }, nil)
				all = all && ok
				any = any || ok
			}
			if all && any {
				return true
			}
		}
		return false
	}
	return func(v ssa.Value) bool { return rec(v, 2) }
}

// errFailSuccA6: the successor taken when the error tested by iff is not nil.
func errFailSuccA6(iff *ssa.If) *ssa.BasicBlock {
	failSucc := iff.Block().Succs[0]
	if op, _, _, _ := cmpOf(Guard{Cond: iff.Cond, Branch: true, If: iff}); op == token.EQL {
		failSucc = iff.Block().Succs[1]
	}
	return failSucc
}

// startAbortA6 judges one level of "a failing Start ends the start-up with that error": in the function
// that holds `call` (a Start call, or the call of the helper that starts the component), the err != nil
// side returns the (wrapped) error and cannot go on with the loop. In a range-over-func body the return
// is go/ssa's exit protocol and "going on" is `return true`.
// found: there is a return on the failing side; chainOK/why: each of them returns the error; again: the
// failing side can reach another iteration.
func startAbortA6(call ssa.CallInstruction, isSrc func(ssa.Value) bool) (found, chainOK bool, why string, retPos token.Pos, iff *ssa.If, again bool) {
	fn := call.Parent()
	chainOK = true
	src := errSrcA6(isSrc)
	iff = errIfOf(call)
	if isRangeFuncYieldA6(fn) {
		exits := rangeFuncExitsA6(fn)
		for _, e := range exits {
			if !errGuardOn(e.ret.Block(), call, false) {
				continue
			}
			switch e.kind {
			case rfReturnA6:
				found = true
				retPos = e.ret.Pos()
				if retPos == token.NoPos {
					retPos = call.Pos()
				}
				okc, w := false, "the function's error result is not set before the loop is left"
				for _, rv := range e.results {
					if rv == nil || !types.Identical(rv.Type(), types.Universe.Lookup("error").Type()) {
						continue
					}
					okc, w = errChainReaches(rv, src, nil)
				}
				if !okc {
					chainOK, why = false, w
				}
			case rfContinueA6:
				again = true
			}
		}
		if iff != nil {
			fs := errFailSuccA6(iff)
			for _, e := range exits {
				if e.kind == rfContinueA6 && len(fs.Instrs) > 0 && (fs.Instrs[0] == ssa.Instruction(e.ret) || canReach(fs.Instrs[0], e.ret, nil)) {
					again = true
				}
			}
		}
		return
	}
	for _, r := range returnsOf(fn) {
		if !errGuardOn(r.Block(), call, false) {
			continue
		}
		found = true
		retPos = r.Pos()
		res := resultsOf(r)
		okc, w := errChainReaches(res[len(res)-1], src, nil)
		if !okc {
			chainOK, why = false, w
		}
	}
	if iff != nil {
		fs := errFailSuccA6(iff)
		again = len(fs.Instrs) > 0 && canReach(fs.Instrs[0], call, nil)
	}
	return
}

// loopVisitsAllA6: the loop around the (deep) call has no exit other than its own condition: walking
// outwards from the call, the first enclosing loop is a natural loop that exits only at its header, or a
// range-over-func body all of whose exits continue the loop.
func loopVisitsAllA6(d deepCallA6) bool {
	var at ssa.Instruction = d.call
	for i := len(d.chain); ; i-- {
		fn := at.Block().Parent()
		if hdr, _ := innermostLoop(at.Block()); hdr != nil {
			return loopHasOnlyConditionExit(at.Block())
		}
		if isRangeFuncYieldA6(fn) {
			exits := rangeFuncExitsA6(fn)
			for _, e := range exits {
				if e.kind != rfContinueA6 {
					return false
				}
			}
			return len(exits) > 0
		}
		if i == 0 {
			return false
		}
		at = d.chain[i-1].at
	}
}

// failureValueA6 builds, for a deep call, the predicate "v is the error of that call" as seen from the top
// function: at each helper level the helper's call stands for the error if some return of the helper
// keeps the chain of the inner error. Levels that are range-over-func bodies share the parent's variables
// and need no translation.
func failureValueA6(d deepCallA6) func(ssa.Value) bool {
	cur := errSrcA6(func(v ssa.Value) bool { return valueIsResultOf(v, d.call) })
	for i := len(d.chain) - 1; i >= 0; i-- {
		l := d.chain[i]
		if l.yield {
			continue
		}
		inner := cur
		helper := l.next
		at := l.at
		keeps := false
		for _, r := range returnsOf(helper) {
			res := resultsOf(r)
			if len(res) == 0 {
				continue
			}
			if ok, _ := errChainReaches(res[len(res)-1], inner, nil); ok {
				keeps = true
			}
		}
		cur = errSrcA6(func(v ssa.Value) bool { return keeps && valueIsResultOf(v, at) })
	}
	return cur
}

// ---------- walking a slice ----------

type walkA6 struct {
	dir int // +1 ascending, -1 descending, 0 not recognised
	pos token.Pos
}

// sliceWalksA6 lists how fn walks the slices selected by isSlice: by index (`x[i]`, `range x`: the
// direction of the induction variable) or by range-over-func over slices.Backward / All / Values.
func sliceWalksA6(fn *ssa.Function, isSlice func(ssa.Value) bool) []walkA6 {
	var out []walkA6
	for _, ix := range indexUses(fn, isSlice) {
		pos := ix.Pos()
		if pos == token.NoPos {
			pos = fn.Pos()
		}
		out = append(out, walkA6{loopDir(ix), pos})
	}
	allInstrs(fn, func(in ssa.Instruction) {
		ci, ok := in.(ssa.CallInstruction)
		if !ok || rangeFuncYieldA6(ci) == nil {
			return
		}
		if src, dir := rangeFuncSourceA6(ci); src != nil && isSlice(src) {
			out = append(out, walkA6{dir, ci.Pos()})
		}
	})
	return out
}

// readOnlyIterA6: call is slices.Backward / All / Values and its result is used only as the iterator of
// range-over-func loops (the slice is read, not modified or kept).
func readOnlyIterA6(call *ssa.Call) bool {
	f := calleeOf(call)
	if f == nil || f.Pkg() == nil || f.Pkg().Path() != "slices" {
		return false
	}
	switch f.Name() {
	case "Backward", "All", "Values":
	default:
		return false
	}
	if call.Referrers() == nil {
		return true
	}
	for _, r := range *call.Referrers() {
		switch x := r.(type) {
		case *ssa.DebugRef:
		case ssa.CallInstruction:
			if x.Common().Value != ssa.Value(call) || rangeFuncYieldA6(x) == nil {
				return false
			}
		default:
			return false
		}
	}
	return true
}

// deepSliceA6 is backSlice across the levels of a deep call: a parameter of a helper continues with the
// argument of the helper's call, a captured variable with the values stored into it in the parent; the
// element / index parameter of a range-over-func body is recorded as "element of the walked sequence".
func deepSliceA6(v ssa.Value, chain []linkA6) (vals map[ssa.Value]bool, walked []ssa.Value) {
	vals = map[ssa.Value]bool{}
	into := map[*ssa.Function]linkA6{}
	for _, l := range chain {
		into[l.next] = l
	}
	var work []ssa.Value
	work = append(work, v)
	for len(work) > 0 {
		x := work[len(work)-1]
		work = work[:len(work)-1]
		if x == nil || vals[x] {
			continue
		}
		for y := range backSlice(x) {
			if vals[y] {
				continue
			}
			vals[y] = true
			switch z := y.(type) {
			case *ssa.Parameter:
				l, ok := into[z.Parent()]
				if !ok {
					continue
				}
				if l.yield {
					if src, _ := rangeFuncSourceA6(l.at); src != nil {
						walked = append(walked, src)
						work = append(work, src)
					}
					continue
				}
				for i, prm := range z.Parent().Params {
					if prm == z && i < len(l.at.Common().Args) {
						work = append(work, l.at.Common().Args[i])
					}
				}
			case *ssa.FreeVar:
				b := freeVarBinding(z)
				if b == nil {
					continue
				}
				if a, ok := b.(*ssa.Alloc); ok && a.Referrers() != nil {
					for _, r := range *a.Referrers() {
						if st, ok := r.(*ssa.Store); ok && st.Addr == ssa.Value(a) {
							work = append(work, st.Val)
						}
					}
				} else {
					work = append(work, b)
				}
			}
		}
	}
	return vals, walked
}

// ---------- the body of a sync.Once ----------

// closureTargetA6: the function a func value stands for: a closure, a plain function, or the method behind
// a method value (`x.m`: go/ssa's bound method wrapper).
func closureTargetA6(v ssa.Value) *ssa.Function {
	var f *ssa.Function
	switch x := v.(type) {
	case *ssa.MakeClosure:
		f, _ = x.Fn.(*ssa.Function)
	case *ssa.Function:
		f = x
	}
	if f == nil {
		return nil
	}
	if strings.HasPrefix(f.Synthetic, "bound method wrapper") && len(f.Blocks) > 0 {
		var tgt *ssa.Function
		n := 0
		allInstrs(f, func(in ssa.Instruction) {
			if ci, ok := in.(ssa.CallInstruction); ok {
				n++
				tgt = staticCalleeFn(ci)
			}
		})
		if n == 1 && tgt != nil {
			return tgt
		}
		return nil
	}
	if o := f.Origin(); o != nil {
		return o
	}
	return f
}

// onceBodyA6 decides whether fn runs only as (part of) the body of a Once: it is the function handed to a
// Do call accepted by isDo (closure, function or method value) and used for nothing else, or an unexported
// function / closure whose every use is a static call from such a function (at most 3 levels). It returns
// the static call sites on the way from the Once body down to fn (empty when fn is the body itself).
func onceBodyA6(funcs []*ssa.Function, fn *ssa.Function, isDo func(ssa.CallInstruction) bool, depth int) ([]ssa.CallInstruction, bool) {
	if fn == nil || depth < 0 {
		return nil, false
	}
	var links []ssa.CallInstruction
	uses, ok := 0, true
	var callers []ssa.CallInstruction
	for _, g := range funcs {
		allInstrs(g, func(in ssa.Instruction) {
			ci, isCall := in.(ssa.CallInstruction)
			for _, op := range in.Operands(nil) {
				if *op == nil || closureTargetA6(*op) != fn {
					continue
				}
				if _, isMC := (*op).(*ssa.MakeClosure); isMC && !isCall {
					// the closure value flowing on (stored in a variable, …): not followed
					if _, isDbg := in.(*ssa.DebugRef); !isDbg {
						uses++
						ok = false
					}
					continue
				}
				if !isCall {
					if _, isDbg := in.(*ssa.DebugRef); isDbg {
						continue
					}
					if _, isMC := in.(*ssa.MakeClosure); isMC {
						continue // fn as the code of a closure: the closure value is judged where it is used
					}
					uses++
					ok = false
					continue
				}
				uses++
				switch {
				case *op == ci.Common().Value && !ci.Common().IsInvoke():
					if _, plain := in.(*ssa.Call); !plain {
						ok = false // go / defer of the function
						continue
					}
					callers = append(callers, ci)
				case isDo(ci) && len(ci.Common().Args) == 2 && ci.Common().Args[1] == *op:
					// the Once body
				default:
					ok = false // handed to something else
				}
			}
		})
	}
	if uses == 0 || !ok {
		return nil, false
	}
	if len(callers) > 0 {
		if obj := fn.Object(); obj != nil && obj.Exported() {
			return nil, false
		}
	}
	for _, ci := range callers {
		up, ok := onceBodyA6(funcs, ci.Parent(), isDo, depth-1)
		if !ok {
			return nil, false
		}
		links = append(links, up...)
		links = append(links, ci)
	}
	return links, true
}

// ---------- a comma-ok table lookup, possibly behind a helper ----------

// tableLookupOKA6: v tells whether the two-level lookup tbl[k1][k2] (tbl accepted by isTable) succeeded:
// it is the `ok` of that comma-ok lookup, its negation, or the result of a same-package helper that
// returns it (`return ok`, `return !ok`, or `if ok { return true }; return false`). k1, k2 are the keys
// in the values of the frame v is judged in; positive: v == true means "found".
func tableLookupOKA6(v ssa.Value, s substA6, isTable func(ssa.Value) bool, depth int) (k1, k2 ssa.Value, positive, ok bool) {
	v = s.resolve(v)
	switch x := strip(v).(type) {
	case *ssa.UnOp:
		if x.Op == token.NOT {
			k1, k2, positive, ok = tableLookupOKA6(x.X, s, isTable, depth)
			return k1, k2, !positive, ok
		}
	case *ssa.Extract:
		lk, isLk := x.Tuple.(*ssa.Lookup)
		if !isLk || !lk.CommaOk || x.Index != 1 {
			return nil, nil, false, false
		}
		inner, isIn := strip(lk.X).(*ssa.Lookup)
		if !isIn || !isTable(inner.X) {
			return nil, nil, false, false
		}
		return s.resolve(inner.Index), s.resolve(lk.Index), true, true
	case *ssa.Call:
		g := samePkgCalleeA6(x)
		if g == nil || depth <= 0 || g.Signature.Results().Len() != 1 {
			return nil, nil, false, false
		}
		s2 := bindArgsA6(g, x, s)
		first := true
		for _, r := range returnsOf(g) {
			res := resultsOf(r)[0]
			var a1, a2 ssa.Value
			var apos, aok bool
			if cv, isConst := constBool(res); isConst {
				// a constant returned under the lookup's verdict
				for _, gd := range guardsOf(r.Block()) {
					gv, br := boolOf(gd)
					if b1, b2, bpos, bok := tableLookupOKA6(gv, s2, isTable, depth-1); bok {
						a1, a2, apos, aok = b1, b2, (bpos == br) == cv, true
						break
					}
				}
			} else {
				a1, a2, apos, aok = tableLookupOKA6(res, s2, isTable, depth-1)
			}
			if !aok {
				return nil, nil, false, false
			}
			if first {
				k1, k2, positive, first = a1, a2, apos, false
			} else if !sameValue(k1, a1) || !sameValue(k2, a2) || positive != apos {
				return nil, nil, false, false
			}
		}
		return k1, k2, positive, !first
	}
	return nil, nil, false, false
}
