package main

import (
	"fmt"
	"go/token"
	"go/types"
	"strings"

	"golang.org/x/tools/go/packages"
	"golang.org/x/tools/go/ssa"
)

func init() {
	register(&Property{
		ID:         "C03",
		Run:        runC03,
		Explain:    "Static structural necessary conditions of graceful exporter shutdown: (R1) BaseExporter.Shutdown stops retry sender, then queue sender, then the wrapped exporter, all three on every path (no early return on error); (R2) QueueBatch.Shutdown stops the queue and then the batcher, both always; Start starts batcher before queue and stops the batcher when the queue fails to start; (R3) every goroutine of queuebatch is joined: WaitGroup.Add before `go` and before any blocking operation of the spawner, deferred Done in the body, Wait in the owner's Shutdown after the stop signal/final flush; (R4) drain order: the memory queue serves queued items before honouring `stopped`, the persistent queue stops dispatching first; (R5) the retry sender's Shutdown closes the stop channel and nothing else does; (R6) completion aggregation: every partial outcome flows into the aggregated error handed to the original Done on every path.",
		NotDecided: "Attempt counts (at least once / exactly once) and timing relative to Shutdown returning under a slow backend: need executions.",
		Assumes:    []string{"sync.WaitGroup semantics", "channel close wakes all receivers"},
	})
}

// shutdown-like calls: invoke of component.Component.Shutdown or a static call of a method
// named Shutdown; receiver description by field path.
type lifeCall struct {
	ci   ssa.CallInstruction
	path string // last field name of the receiver chain
}

func namedCalls(fn *ssa.Function, name string) []lifeCall {
	var out []lifeCall
	allInstrs(fn, func(in ssa.Instruction) {
		ci, ok := in.(ssa.CallInstruction)
		if !ok {
			return
		}
		if _, isDefer := in.(*ssa.Defer); isDefer {
			return
		}
		f := calleeOf(ci)
		if f != nil && f.Name() != name {
			// a helper of the package that makes the call on one of its parameters on every path (but for the nil test
			// of that parameter) stands for the call: `err = shutdownOptional(ctx, be.RetrySender, err)`
			if cf := staticCalleeFn(ci); cf != nil && cf.Pkg == rootFn(fn).Pkg {
				if k := wrapperOfNamedCall(cf, name); k >= 0 && k < len(ci.Common().Args) {
					_, path := fieldChain(ci.Common().Args[k])
					last := ""
					if len(path) > 0 {
						last = path[len(path)-1]
					}
					out = append(out, lifeCall{ci, last})
				}
			}
			return
		}
		if f == nil {
			return
		}
		var recv ssa.Value
		if ci.Common().IsInvoke() {
			recv = ci.Common().Value
		} else if len(ci.Common().Args) > 0 && recvNamed(f) != nil {
			recv = ci.Common().Args[0]
		} else {
			return
		}
		_, path := fieldChain(recv)
		last := ""
		if len(path) > 0 {
			last = path[len(path)-1]
		}
		out = append(out, lifeCall{ci, last})
	})
	return out
}

// onAllPaths: every path entry→return passes through ci, except paths that take the
// nil-side of a `recvField != nil` guard on the call's own receiver field.
func onAllPathsModNil(fn *ssa.Function, lc lifeCall) (bool, string) {
	for _, g := range guardsOf(lc.ci.Block()) {
		op, x, y, ok := cmpOf(g)
		if ok && op == token.NEQ && (isNilConst(x) || isNilConst(y)) {
			other := x
			if isNilConst(x) {
				other = y
			}
			_, path := fieldChain(other)
			if len(path) > 0 && path[len(path)-1] == lc.path {
				continue
			}
		}
		return false, "call is conditional on something other than its own receiver being non-nil"
	}
	return true, ""
}

func runC03(c *Ctx) {
	p := c.P
	ipk := p.ByPath[pkgEHI]
	qpk := p.ByPath[pkgQB]
	if ipk == nil || qpk == nil {
		c.Rule("R1", "ORD", "", 0)
		c.Anchor("packages exporterhelper/internal and queuebatch")
		return
	}
	// ---------- R1
	c.Rule("R1", "ORD", "BaseExporter.Shutdown: retry sender ≺ queue sender ≺ wrapped exporter's shutdown, each executed on every path (modulo its own nil guard); single return", 4)
	if m := p.LookupMethod(relPkg(pkgEHI), "BaseExporter", "Shutdown"); m == nil {
		c.Anchor("BaseExporter.Shutdown")
	} else {
		fn := p.SSAFunc(m)
		cs := namedCalls(fn, "Shutdown")
		var retry, queue, inner *lifeCall
		for i := range cs {
			switch cs[i].path {
			case "RetrySender":
				retry = &cs[i]
			case "QueueSender":
				queue = &cs[i]
			case "ShutdownFunc":
				inner = &cs[i]
			}
		}
		if retry == nil || queue == nil || inner == nil {
			c.Bad("BaseExporter.Shutdown stops retry sender, queue sender and wrapped exporter", p.Pos(fn.Pos()), fmt.Sprintf("missing shutdown call: retry=%v queue=%v wrapped=%v", retry != nil, queue != nil, inner != nil))
		} else {
			ord := func(a, b *lifeCall) bool { return canReach(a.ci, b.ci, nil) && !canReach(b.ci, a.ci, nil) }
			c.Check(ord(retry, queue), "retry sender is stopped before the queue sender", p.Pos(retry.ci.Pos()), "retry ≺ queue", "the queue is drained while retries are still enabled: shutdown can hang on a failing backend (or order reversed)")
			c.Check(ord(queue, inner), "queue sender is stopped before the wrapped exporter", p.Pos(queue.ci.Pos()), "queue ≺ wrapped exporter", "the wrapped exporter is shut down before the queue has drained: drained requests hit a closed exporter")
			for _, lc := range []*lifeCall{retry, queue, inner} {
				ok, why := onAllPathsModNil(fn, *lc)
				c.Check(ok, "BaseExporter.Shutdown always stops "+lc.path, p.Pos(lc.ci.Pos()), "unconditional (modulo nil receiver)", why)
			}
			c.Check(len(returnsOf(fn)) == 1, "BaseExporter.Shutdown has no early return", p.Pos(fn.Pos()), "single return", "an early return skips later shutdown steps")
		}
	}
	// ---------- R2
	c.Rule("R2", "ORD", "QueueBatch.Shutdown: queue ≺ batcher, both unconditionally; QueueBatch.Start: batcher ≺ queue and a failed queue start shuts the batcher down", 4)
	qbT := p.LookupType(relPkg(pkgQB), "QueueBatch")
	if qbT == nil {
		c.Anchor("queuebatch.QueueBatch")
	} else {
		st := qbT.Underlying().(*types.Struct)
		var queueF, batchF string
		for i := 0; i < st.NumFields(); i++ {
			n := namedOf(st.Field(i).Type())
			if n == nil {
				continue
			}
			switch n.Obj().Name() {
			case "Queue":
				queueF = st.Field(i).Name()
			case "Batcher":
				batchF = st.Field(i).Name()
			}
		}
		if queueF == "" || batchF == "" {
			c.Anchor("QueueBatch fields of type Queue / Batcher")
		} else {
			pick := func(cs []lifeCall, f string) *lifeCall {
				for i := range cs {
					if cs[i].path == f {
						return &cs[i]
					}
				}
				return nil
			}
			if m := p.LookupMethod(relPkg(pkgQB), "QueueBatch", "Shutdown"); m != nil {
				fn := p.SSAFunc(m)
				cs := namedCalls(fn, "Shutdown")
				qc, bc := pick(cs, queueF), pick(cs, batchF)
				if qc == nil || bc == nil {
					c.Bad("QueueBatch.Shutdown stops queue and batcher", p.Pos(fn.Pos()), "a shutdown call is missing")
				} else {
					c.Check(canReach(qc.ci, bc.ci, nil) && !canReach(bc.ci, qc.ci, nil), "QueueBatch.Shutdown: queue before batcher", p.Pos(qc.ci.Pos()), "queue ≺ batcher", "the batcher's final flush happens before the queue has drained: late items stay in a partial batch")
					for _, lc := range []*lifeCall{qc, bc} {
						un := len(guardsOf(lc.ci.Block())) == 0
						c.Check(un, "QueueBatch.Shutdown always stops "+lc.path, p.Pos(lc.ci.Pos()), "unconditional", "conditional shutdown step (e.g. skipped when the previous step failed): a goroutine/timer is left running and a partial batch is exported after Shutdown returned")
					}
				}
			} else {
				c.Anchor("QueueBatch.Shutdown")
			}
			if m := p.LookupMethod(relPkg(pkgQB), "QueueBatch", "Start"); m != nil {
				fn := p.SSAFunc(m)
				cs := namedCalls(fn, "Start")
				qc, bc := pick(cs, queueF), pick(cs, batchF)
				if qc == nil || bc == nil {
					c.Bad("QueueBatch.Start starts batcher and queue", p.Pos(fn.Pos()), "a start call is missing")
				} else {
					c.Check(instrDominates(bc.ci, qc.ci), "QueueBatch.Start: batcher before queue", p.Pos(bc.ci.Pos()), "batcher ≺ queue", "consumers may hand requests to a batcher that is not started")
					sd := pick(namedCalls(fn, "Shutdown"), batchF)
					c.Check(sd != nil && errGuardOn(sd.ci.Block(), qc.ci, false), "failed queue start shuts the batcher down", p.Pos(qc.ci.Pos()), "batcher.Shutdown on the err!=nil side", "a failed queue start leaves the batcher (timer goroutine) running")
				}
			}
		}
	}
	// ---------- R3 GO rule
	c.Rule("R3", "GO+ORD", "every goroutine started in queuebatch is joined: WaitGroup.Add(1) dominates the `go` statement and is not preceded by a blocking operation in the spawner, the body defers Done on the same WaitGroup field, and the owner's Shutdown Waits on it after stopping the source of work", 8)
	runGoRule(c, []*packages.Package{qpk})
	// owner shutdown ordering
	for _, fn := range p.AllSrcFuncs(qpk) {
		if fn.Parent() != nil || fn.Name() != "Shutdown" {
			continue
		}
		waits := calls(fn, func(ci ssa.CallInstruction) bool { return isMethod(calleeOf(ci), "sync", "WaitGroup", "Wait") })
		if len(waits) == 0 {
			continue
		}
		w := waits[0]
		// everything else that stops work must precede Wait: inner Shutdown calls, close(), flush calls
		var before []ssa.Instruction
		allInstrs(fn, func(in ssa.Instruction) {
			ci, ok := in.(ssa.CallInstruction)
			if !ok || in == w.(ssa.Instruction) {
				return
			}
			if _, isDefer := in.(*ssa.Defer); isDefer {
				return
			}
			if builtinName(ci) == "close" {
				before = append(before, in)
				return
			}
			if f := calleeOf(ci); f != nil && (f.Name() == "Shutdown" || (staticCalleeFn(ci) != nil && recvNamedOfFn(staticCalleeFn(ci)) == recvNamedOfFn(fn) && recvNamedOfFn(fn) != nil)) {
				before = append(before, in)
			}
		})
		for _, b := range before {
			c.Check(instrDominates(b, w), fmt.Sprintf("%s: %s precedes WaitGroup.Wait", fnName(fn), instrKind(b)), p.Pos(b.Pos()), "stop/flush dominates the join", "the join happens before the stop signal / final flush: Shutdown waits forever or returns before the last flush goroutine was registered")
		}
		c.Check(len(guardsOf(w.Block())) == 0, fnName(fn)+": WaitGroup.Wait is unconditional", p.Pos(w.Pos()), "unconditional", "the join is skipped on some path")
	}
	// ---------- R4 drain order
	c.Rule("R4", "ORD", "memory queue Read: the stopped⇒return-false exit is reachable only on the no-elements side of the emptiness test (queued items are served after stop); persistent queue Read: the stopped test precedes any dequeue", 2)
	q := findQB(p)
	if q == nil {
		c.Anchor("queue types")
	} else {
		for _, fn := range p.AllSrcFuncs(qpk) {
			if fn.Parent() != nil || fn.Name() != "Read" {
				continue
			}
			T := recvNamedOfFn(fn)
			// the stop flag: the bool field the queue's Shutdown sets (whatever it is called)
			stoppedF := stopFlagField(p, qpk, T)
			if T == q.mq.Origin() {
				n := 0
				for _, r := range returnsOf(fn) {
					res := resultsOf(r)
					b, ok := constBool(res[len(res)-1])
					if !ok || b {
						continue
					}
					n++
					// guarded by stopped==true and by hasElements()==false
					gotStopped, gotEmpty := false, false
					for _, g := range guardsOf(r.Block()) {
						v, br := boolOf(g)
						if _, path := fieldChain(v); len(path) > 0 && path[len(path)-1] == stoppedF && br {
							gotStopped = true
						}
						if call, ok := v.(*ssa.Call); ok && recvNamed(calleeOf(call)) == q.lq.Origin() && !br {
							gotEmpty = true
						}
						// inline emptiness test: head != nil
						if op, x, y, ok := cmpOf(g); ok && op == token.EQL && (isNilConst(x) || isNilConst(y)) {
							o := x
							if isNilConst(x) {
								o = y
							}
							// a pointer field of the list (its head) compared with nil
							if u, ok := strip(o).(*ssa.UnOp); ok && u.Op == token.MUL {
								if fa, ok := u.X.(*ssa.FieldAddr); ok && q.lq != nil && namedOf(fa.X.Type()) == q.lq.Origin() {
									gotEmpty = true
								}
							}
						}
					}
					c.Check(gotStopped && gotEmpty, "memory queue Read returns false only when stopped AND empty", p.Pos(r.Pos()), "guarded by stopped and by no-elements", fmt.Sprintf("stopped guard=%v, empty guard=%v: items accepted before shutdown would be dropped at stop", gotStopped, gotEmpty))
				}
				if n == 0 {
					c.Bad("memory queue Read has a stopped exit", p.Pos(fn.Pos()), "Read never returns false: consumers cannot terminate")
				}
			}
			if T == q.pq.Origin() {
				// the dequeue call, or the call of a helper of the package that makes it (`pq.dequeueLocked(ctx)`)
				deq := callsToThrough(fn, funcObj(q.pqA.dequeue), 3)
				if len(deq) == 0 {
					c.Bad("persistent queue Read dequeues", p.Pos(fn.Pos()), "no dequeue call")
					continue
				}
				for _, d := range deq {
					ok := false
					for _, g := range guardsOf(d.Block()) {
						v, br := boolOf(g)
						if _, path := fieldChain(v); len(path) > 0 && path[len(path)-1] == stoppedF && !br {
							ok = true
						}
					}
					c.Check(ok, "persistent queue Read dequeues only while not stopped", p.Pos(d.Pos()), "guarded by !stopped", "items are dispatched after stop: a consumer can start work after Shutdown took the final client reference")
				}
			}
		}
	}
	// ---------- R5 retry stop
	c.Rule("R5", "WHO", "the retry sender's Shutdown closes the stop channel; no other function closes it", 1)
	{
		n := 0
		// the stop channel: the channel field of the retry sender (the struct with the back-off configuration)
		stopCh := "stopCh"
		if _, retryT, _ := findRetrySend(p); retryT != nil {
			if st, ok := retryT.Underlying().(*types.Struct); ok {
				for i := 0; i < st.NumFields(); i++ {
					if _, isCh := st.Field(i).Type().Underlying().(*types.Chan); isCh {
						stopCh = st.Field(i).Name()
					}
				}
			}
		}
		for _, fn := range p.AllSrcFuncs(ipk) {
			allInstrs(fn, func(in ssa.Instruction) {
				ci, ok := in.(ssa.CallInstruction)
				if !ok || builtinName(ci) != "close" {
					return
				}
				_, path := fieldChain(ci.Common().Args[0])
				if len(path) == 0 || path[len(path)-1] != stopCh {
					return
				}
				n++
				okFn := fn.Name() == "Shutdown" && fn.Parent() == nil && len(guardsOf(ci.Block())) == 0
				c.Check(okFn, "stop channel closed in "+fnName(fn), p.Pos(ci.Pos()), "closed unconditionally by Shutdown", "stop channel closed outside Shutdown or conditionally")
			})
		}
		if n == 0 {
			c.Bad("retry sender Shutdown closes the stop channel", "-", "nothing closes the retry sender's stop channel: a retry wait is not interrupted by shutdown")
		}
	}
	// ---------- R7 every request gets an attempt
	c.Rule("R7", "ORD", "the retry sender makes its first attempt unconditionally: no return of Send is reachable from its entry without passing the export call (a request drained during shutdown is attempted at least once even though the stop channel is already closed)", 1)
	if send, _, attempt := findRetrySend(p); send == nil || attempt == nil {
		c.Anchor("retry sender Send and its attempt call")
	} else {
		var to []ssa.Instruction
		for _, r := range returnsOf(send) {
			to = append(to, r)
		}
		ok, esc := mustPassThrough(send, nil, map[ssa.Instruction]bool{attempt.(ssa.Instruction): true}, to)
		c.Check(ok, "first attempt in "+fnName(send)+" is unconditional", p.Pos(attempt.Pos()), "every path from entry to a return passes the export call", "the return at "+posOf(p, esc)+" is reachable without any export attempt: requests drained from the in-memory queue after the retry sender was stopped are dropped without ever being attempted while Shutdown reports success")
	}
	// ---------- R8 shutdown classification (shared with C01.R5)
	{
		sub := NewCtx(p, "C01", c.Tier, c.Config)
		if a := findPQ(p); a != nil {
			runC01Chain(sub, a)
		}
		c.Rule("R8", "TAB+CHAIN", "an export interrupted by shutdown is recognised as such through every wrapper on its way to the persistent queue (same rule as C01.R5): only then is the request kept for the next start", 4)
		for _, o := range sub.Obs {
			if o.Rule == "C01.R5" && !strings.HasPrefix(o.Construct, "floor:") {
				c.add(o.Verdict, o.Construct, o.Pos, o.Detail)
			}
		}
	}
	// ---------- R6 aggregation
	c.Rule("R6", "PAIR", "completion aggregation: in the ref-counted done object every partial outcome is merged into the aggregated error on every path before the count is tested; the original Done receives the aggregate; the multi-done forwards to every element", 3)
	for _, fn := range p.AllSrcFuncs(qpk) {
		if fn.Parent() != nil || fn.Name() != "OnDone" || len(fn.Params) != 2 {
			continue
		}
		T := recvNamedOfFn(fn)
		if T == nil {
			continue
		}
		st, isStruct := T.Underlying().(*types.Struct)
		errParam := fn.Params[1]
		if isStruct {
			errF := ""
			for i := 0; i < st.NumFields(); i++ {
				if isErrorType(st.Field(i).Type()) {
					errF = st.Field(i).Name()
				}
			}
			if errF == "" {
				continue
			}
			stores := fieldStores(fn, T, errF)
			if len(stores) == 0 {
				c.Bad("ref-counted done merges each outcome", p.Pos(fn.Pos()), "no store to the aggregated error")
				continue
			}
			for _, s := range stores {
				// value must include both the previous aggregate and the parameter, chain-preserving
				incl := func(src func(ssa.Value) bool) bool {
					ok, _ := errChainReaches(s.Val, src, nil)
					return ok
				}
				hasParam := incl(func(v ssa.Value) bool { return v == ssa.Value(errParam) })
				hasPrev := false
				if call, ok := strip(s.Val).(*ssa.Call); ok {
					for _, a := range call.Call.Args {
						if u, ok := a.(*ssa.UnOp); ok && isFieldAccess(u.X, T, errF) {
							hasPrev = true
						}
						if els, ok := variadicElems(a); ok {
							for _, e := range els {
								if u, ok := strip(e).(*ssa.UnOp); ok && isFieldAccess(u.X, T, errF) {
									hasPrev = true
								}
							}
						}
					}
				}
				un := len(guardsOf(s.Block())) == 0
				c.Check(hasParam && hasPrev && un, "ref-counted done merges each outcome unconditionally", p.Pos(s.Pos()), "err = merge(err, outcome) on every path", fmt.Sprintf("includes outcome=%v, includes previous aggregate=%v, unconditional=%v: a later (e.g. shutdown-classified) failure can be masked and the persistent queue deletes the request", hasParam, hasPrev, un))
			}
			for _, ci := range calls(fn, func(ci ssa.CallInstruction) bool {
				return ci.Common().IsInvoke() && ci.Common().Method.Name() == "OnDone"
			}) {
				u, ok := ci.Common().Args[0].(*ssa.UnOp)
				c.Check(ok && isFieldAccess(u.X, T, errF), "original Done receives the aggregate", p.Pos(ci.Pos()), "passes the aggregated error", "the original Done does not receive the aggregated error")
			}
		} else if _, isSlice := T.Underlying().(*types.Slice); isSlice {
			for _, ci := range calls(fn, func(ci ssa.CallInstruction) bool {
				return ci.Common().IsInvoke() && ci.Common().Method.Name() == "OnDone"
			}) {
				okLoop := loopHasOnlyConditionExit(ci.Block())
				c.Check(okLoop && ci.Common().Args[0] == ssa.Value(errParam), "multi-done forwards the outcome to every element", p.Pos(ci.Pos()), "range over all, no early exit, same error", "multi-done skips elements or alters the error")
			}
		}
	}
	runC03Round3(c)
}

// runGoRule checks every `go` statement of the packages.
func runGoRule(c *Ctx, pkgs []*packages.Package) {
	p := c.P
	for _, fn := range p.AllSrcFuncs(pkgs...) {
		allInstrs(fn, func(in ssa.Instruction) {
			g, ok := in.(*ssa.Go)
			if !ok {
				return
			}
			site := "go statement in " + fnName(fn)
			pos := p.Pos(g.Pos())
			// the goroutine's body: a function literal, or a function / method (value) started directly
			body := goBodyFn(g)
			if body == nil || len(body.Blocks) == 0 {
				c.Undecided(site, pos, "goroutine body is not a static function")
				return
			}
			// deferred Done in body
			var doneField string
			allInstrs(body, func(bi ssa.Instruction) {
				d, ok := bi.(*ssa.Defer)
				if !ok || !isMethod(calleeOf(d), "sync", "WaitGroup", "Done") {
					return
				}
				if d.Block() != body.Blocks[0] {
					return
				}
				_, path := fieldChain(d.Call.Args[0])
				if len(path) > 0 {
					doneField = path[len(path)-1]
				}
			})
			if doneField == "" {
				c.Bad(site+": body defers WaitGroup.Done", pos, "the goroutine does not `defer wg.Done()` on an owner WaitGroup in its entry block: Shutdown cannot join it")
				return
			}
			// Add dominating go, on same field
			var add ssa.CallInstruction
			for _, ci := range calls(fn, func(ci ssa.CallInstruction) bool { return isMethod(calleeOf(ci), "sync", "WaitGroup", "Add") }) {
				_, path := fieldChain(ci.Common().Args[0])
				if len(path) > 0 && path[len(path)-1] == doneField && instrDominates(ci, g) {
					add = ci
				}
			}
			if add == nil {
				c.Bad(site+": WaitGroup.Add before go", pos, "no "+doneField+".Add dominates the go statement: Wait may return before the goroutine is registered")
				return
			}
			c.OK(site+": WaitGroup.Add before go, deferred Done in body ("+doneField+")", pos, "Add dominates go; body defers Done")
			// no blocking op before Add in the spawner
			blocking := false
			e := entryInstr(fn)
			allInstrs(fn, func(bi ssa.Instruction) {
				isBlock := false
				switch x := bi.(type) {
				case *ssa.UnOp:
					isBlock = x.Op == token.ARROW
				case *ssa.Send:
					isBlock = true
				case *ssa.Select:
					isBlock = x.Blocking
				}
				if isBlock && (bi == e || canReach(e, bi, map[ssa.Instruction]bool{add.(ssa.Instruction): true}) || e == bi) && canReach(bi, add, nil) {
					blocking = true
				}
			})
			c.Check(!blocking, site+": Add is not preceded by a blocking operation", p.Pos(add.Pos()), "registered before the spawner can block", "the spawner can block (channel operation) before registering with the WaitGroup: Shutdown's Wait can return while this flush is still pending")
			// owner has a Shutdown that Waits on the same field
			owner := recvNamedOfFn(rootFn(fn))
			waited := false
			for _, sfn := range p.AllSrcFuncs(pkgs...) {
				if sfn.Parent() == nil && sfn.Name() == "Shutdown" && recvNamedOfFn(sfn) == owner && owner != nil {
					for _, w := range calls(sfn, func(ci ssa.CallInstruction) bool { return isMethod(calleeOf(ci), "sync", "WaitGroup", "Wait") }) {
						_, path := fieldChain(w.Common().Args[0])
						if len(path) > 0 && path[len(path)-1] == doneField {
							waited = true
						}
					}
				}
			}
			c.Check(waited, site+": owner Shutdown waits on "+doneField, pos, "joined in Shutdown", "no Shutdown of the owning type waits on this WaitGroup: goroutine leak / work after Shutdown returned")
		})
	}
}
