package main

// Helpers that make the C01 / C02 rules robust against behaviour-preserving refactorings (extract / inline helper,
// closure <-> method, loop forms). Nothing here names a function of the analysed code: helpers are followed by
// static call edges inside the package, and a wrapper counts as the call it makes on every path.

import (
	"go/token"
	"go/types"

	"golang.org/x/tools/go/ssa"
)

// ---------- generic: following static calls into helpers of the same package ----------

func samePkgA1(a, b *ssa.Function) bool {
	oa, ob := funcObj(rootFn(a)), funcObj(rootFn(b))
	return oa != nil && ob != nil && oa.Pkg() != nil && oa.Pkg() == ob.Pkg()
}

// helperCalleeA1: the function statically called (or deferred) by ci when it is a source function of the caller's
// package (a method, a function or a closure literal); nil for interface calls, other packages, `go` statements.
func helperCalleeA1(ci ssa.CallInstruction) *ssa.Function {
	if _, isGo := ci.(*ssa.Go); isGo {
		return nil
	}
	cf := staticCalleeFn(ci)
	if cf == nil || len(cf.Blocks) == 0 || !samePkgA1(cf, ci.Parent()) {
		return nil
	}
	return cf
}

// fnReachesA1: fn contains a leaf instruction, or (depth > 0) statically calls a helper of its package that does.
func fnReachesA1(fn *ssa.Function, leaf func(ssa.Instruction) bool, depth int, seen map[*ssa.Function]bool) bool {
	if fn == nil || seen[fn] {
		return false
	}
	seen[fn] = true
	defer delete(seen, fn)
	found := false
	allInstrs(fn, func(in ssa.Instruction) {
		if found {
			return
		}
		if leaf(in) {
			found = true
			return
		}
		if ci, ok := in.(ssa.CallInstruction); ok && depth > 0 {
			if cf := helperCalleeA1(ci); cf != nil && fnReachesA1(cf, leaf, depth-1, seen) {
				found = true
			}
		}
	})
	return found
}

// sitesReachingA1: the instructions of fn that are leaves, and the calls of helpers that (transitively) contain one.
func sitesReachingA1(fn *ssa.Function, leaf func(ssa.Instruction) bool, depth int) []ssa.Instruction {
	var out []ssa.Instruction
	allInstrs(fn, func(in ssa.Instruction) {
		if leaf(in) {
			out = append(out, in)
			return
		}
		if ci, ok := in.(ssa.CallInstruction); ok && depth > 0 {
			if cf := helperCalleeA1(ci); cf != nil && cf != fn && fnReachesA1(cf, leaf, depth-1, map[*ssa.Function]bool{fn: true}) {
				out = append(out, in)
			}
		}
	})
	return out
}

// alwaysCallsA1: every path of fn from its entry to a return makes a call of target (a call or a deferred call;
// directly, or through a helper of the package that itself always makes it).
func alwaysCallsA1(fn *ssa.Function, target *types.Func, depth int) bool {
	if fn == nil || len(fn.Blocks) == 0 || target == nil {
		return false
	}
	via := map[ssa.Instruction]bool{}
	allInstrs(fn, func(in ssa.Instruction) {
		ci, ok := in.(ssa.CallInstruction)
		if !ok {
			return
		}
		if _, isGo := ci.(*ssa.Go); isGo {
			return
		}
		if calleeOf(ci) == target.Origin() {
			via[in] = true
			return
		}
		if depth > 0 {
			if cf := helperCalleeA1(ci); cf != nil && cf != fn && funcObj(cf) != target.Origin() && alwaysCallsA1(cf, target, depth-1) {
				via[in] = true
			}
		}
	})
	if len(via) == 0 {
		return false
	}
	esc, _ := reachesReturnWithout(fn, nil, via)
	return !esc
}

// deferredOnEveryPathA1: the defer statement d is executed on every path from the entry of its function to a return.
func deferredOnEveryPathA1(d *ssa.Defer) bool {
	esc, _ := reachesReturnWithout(d.Parent(), nil, map[ssa.Instruction]bool{d: true})
	return !esc
}

// viaStoreA1: a store found in fn itself (Chain empty) or in a helper reached through the calls of Chain
// (outermost call first).
type viaStoreA1 struct {
	S     *ssa.Store
	Chain []ssa.CallInstruction
}

// fieldStoresDeepA1: the stores to field f of T in fn and in the helpers of its package it statically calls.
func fieldStoresDeepA1(fn *ssa.Function, T *types.Named, f string, depth int) []viaStoreA1 {
	var out []viaStoreA1
	var walk func(g *ssa.Function, chain []ssa.CallInstruction, d int, seen map[*ssa.Function]bool)
	walk = func(g *ssa.Function, chain []ssa.CallInstruction, d int, seen map[*ssa.Function]bool) {
		if seen[g] {
			return
		}
		seen[g] = true
		defer delete(seen, g)
		for _, s := range fieldStores(g, T, f) {
			out = append(out, viaStoreA1{S: s, Chain: append([]ssa.CallInstruction(nil), chain...)})
		}
		if d == 0 {
			return
		}
		for _, ci := range calls(g, func(ci ssa.CallInstruction) bool { return helperCalleeA1(ci) != nil }) {
			walk(helperCalleeA1(ci), append(append([]ssa.CallInstruction(nil), chain...), ci), d-1, seen)
		}
	}
	walk(fn, nil, depth, map[*ssa.Function]bool{})
	return out
}

// resolveArgA1 maps a value of a helper back to the caller's terms: while it is a parameter of the innermost helper
// of the chain it is replaced by the argument of the call that entered the helper.
func resolveArgA1(v ssa.Value, chain []ssa.CallInstruction) ssa.Value {
	for i := len(chain) - 1; i >= 0; i-- {
		pa, ok := strip(v).(*ssa.Parameter)
		if !ok {
			return v
		}
		callee := staticCalleeFn(chain[i])
		if callee == nil || pa.Parent() != callee {
			return v
		}
		idx := -1
		for k, q := range callee.Params {
			if q == pa {
				idx = k
			}
		}
		args := chain[i].Common().Args
		if idx < 0 || idx >= len(args) {
			return v
		}
		v = args[idx]
	}
	return v
}

// ---------- may-be-nil of a returned error ----------

// mayBeNilA1: can the error value v be nil where block b ends? (false only when it is provably non-nil)
func mayBeNilA1(v ssa.Value, b *ssa.BasicBlock, seen map[ssa.Value]bool) bool {
	if seen[v] {
		return false
	}
	seen[v] = true
	if isNilConst(v) {
		return true
	}
	switch x := v.(type) {
	case *ssa.Const:
		return false
	case *ssa.MakeInterface:
		return false
	case *ssa.UnOp:
		if x.Op == token.MUL {
			if _, isGlobal := x.X.(*ssa.Global); isGlobal {
				return false // a package-level sentinel error
			}
		}
	case *ssa.Phi:
		for i, e := range x.Edges {
			if mayBeNilA1(e, x.Block().Preds[i], seen) {
				return true
			}
		}
		return false
	}
	for _, g := range guardsOf(b) {
		if guardIsNilTest(g, v, false) {
			return false
		}
	}
	return true
}

// ---------- C02.R3: the capacity test may live in a helper whose success return is gated by it ----------

// capacityGuardedA1: capacityGuarded, or block b is guarded by the success (nil error) of a call of a helper of the
// package whose every possibly-successful return is itself on the not-over-capacity side of the capacity test
// (recursively). Returns the helpers that carry the test, so that their waits can be judged too.
func capacityGuardedA1(b *ssa.BasicBlock, T *types.Named, sizeF string, q *qbAnchors, depth int) (bool, string, []*ssa.Function) {
	ok, why := capacityGuarded(b, T, sizeF, q)
	if ok || depth == 0 {
		return ok, why, nil
	}
	for _, g := range guardsOf(b) {
		op, x, y, isCmp := cmpOf(g)
		if !isCmp || op != token.EQL {
			continue
		}
		other := x
		if isNilConst(x) {
			other = y
		} else if !isNilConst(y) {
			continue
		}
		call, idx := callResultA1(other)
		if call == nil {
			continue
		}
		cf := helperCalleeA1(call)
		if cf == nil || cf == b.Parent() {
			continue
		}
		// every return of the helper that can report success is gated by the capacity test
		n := 0
		all := true
		helpers := []*ssa.Function{cf}
		for _, r := range returnsOf(cf) {
			res := resultsOf(r)
			if idx >= len(res) {
				all = false
				break
			}
			for _, loc := range nilReturnBlocksA1(res[idx], r.Block()) {
				n++
				gok, _, hs := capacityGuardedA1(loc, T, sizeF, q, depth-1)
				if !gok {
					all = false
				}
				helpers = append(helpers, hs...)
			}
		}
		if all && n > 0 {
			return true, "", helpers
		}
	}
	return false, why, nil
}

// nilReturnBlocksA1: the blocks at whose end the returned error v can be nil (the return's block, or for a merged
// value the predecessors that contribute a possibly-nil value).
func nilReturnBlocksA1(v ssa.Value, b *ssa.BasicBlock) []*ssa.BasicBlock {
	if phi, ok := v.(*ssa.Phi); ok && phi.Block() == b {
		var out []*ssa.BasicBlock
		for i, e := range phi.Edges {
			if mayBeNilA1(e, b.Preds[i], map[ssa.Value]bool{}) {
				out = append(out, b.Preds[i])
			}
		}
		return out
	}
	if mayBeNilA1(v, b, map[ssa.Value]bool{}) {
		return []*ssa.BasicBlock{b}
	}
	return nil
}

// callResultA1: v is the (idx-th) result of a call.
func callResultA1(v ssa.Value) (ssa.CallInstruction, int) {
	switch x := strip(v).(type) {
	case *ssa.Call:
		return x, 0
	case *ssa.Extract:
		if call, ok := x.Tuple.(*ssa.Call); ok {
			return call, x.Index
		}
	}
	return nil, 0
}

// ---------- C01 recovery: the re-enqueue may be made by a helper ----------

func isEnqueueCallA1(a *pqAnchors) func(ssa.Instruction) bool {
	return func(in ssa.Instruction) bool {
		ci, ok := in.(ssa.CallInstruction)
		return ok && a.enqueue != nil && staticCalleeFn(ci) == a.enqueue
	}
}

// deleteBatchLeafA1: storage calls that carry a Delete operation of key class kc ("" = any).
func deleteBatchLeafA1(kc string) func(ssa.Instruction) bool {
	cache := map[*ssa.Function]map[ssa.Instruction]bool{}
	return func(in ssa.Instruction) bool {
		if _, ok := in.(ssa.CallInstruction); !ok {
			return false
		}
		fn := in.Parent()
		m, ok := cache[fn]
		if !ok {
			m = map[ssa.Instruction]bool{}
			for _, b := range batchCalls(fn) {
				if b.has("Delete", kc) != nil {
					m[b.Call.(ssa.Instruction)] = true
				}
			}
			cache[fn] = m
		}
		return m[in]
	}
}

// putSitesA1: the calls in fn that (re-)enqueue: calls of the enqueue method, and calls of helpers that reach it.
func putSitesA1(fn *ssa.Function, a *pqAnchors, depth int) []ssa.CallInstruction {
	var out []ssa.CallInstruction
	for _, in := range sitesReachingA1(fn, isEnqueueCallA1(a), depth) {
		out = append(out, in.(ssa.CallInstruction))
	}
	return out
}

// recoveryViaHelpersA1: the recovery method when the re-enqueue (or the delete batch) was moved into a helper: the
// method of the queue that reaches both a storage call deleting item bodies and the enqueue, and none of whose
// helpers does so on its own (start-up functions that merely call the recovery are not it).
func recoveryViaHelpersA1(a *pqAnchors) *ssa.Function {
	if a.enqueue == nil {
		return nil
	}
	del := deleteBatchLeafA1("item")
	enq := isEnqueueCallA1(a)
	cand := map[*ssa.Function]bool{}
	for _, fn := range a.methods {
		if fn == a.enqueue || fn == a.dequeue {
			continue
		}
		if fnReachesA1(fn, del, 3, map[*ssa.Function]bool{}) && fnReachesA1(fn, enq, 3, map[*ssa.Function]bool{}) {
			cand[fn] = true
		}
	}
	var lowest []*ssa.Function
	for _, fn := range a.methods {
		if !cand[fn] {
			continue
		}
		callsCand := fnReachesA1(fn, func(in ssa.Instruction) bool {
			ci, ok := in.(ssa.CallInstruction)
			if !ok {
				return false
			}
			cf := staticCalleeFn(ci)
			return cf != nil && cf != fn && cand[cf]
		}, 3, map[*ssa.Function]bool{})
		if !callsCand {
			lowest = append(lowest, fn)
		}
	}
	if len(lowest) == 1 {
		return lowest[0]
	}
	return nil
}

// leafBeforeEnqueueInHelpersA1: sites of a leaf effect (e.g. a storage call carrying Delete operations) that are not
// plain instructions of fn itself but can still run before a (re-)enqueue: calls in fn of helpers that contain the
// effect and from which a put site of fn is reachable, and the same situation inside the helpers that make the enqueue.
func leafBeforeEnqueueInHelpersA1(fn *ssa.Function, leaf func(ssa.Instruction) bool, a *pqAnchors, depth int, top bool) []ssa.Instruction {
	if depth < 0 {
		return nil
	}
	puts := putSitesA1(fn, a, depth)
	var bad []ssa.Instruction
	for _, d := range sitesReachingA1(fn, leaf, depth) {
		if leaf(d) && top {
			continue // the plain instructions of the recovery itself are judged by the rule proper
		}
		for _, e := range puts {
			if canReach(d, e.(ssa.Instruction), nil) {
				bad = append(bad, d)
				break
			}
		}
	}
	for _, e := range puts {
		if cf := helperCalleeA1(e); cf != nil && cf != a.enqueue && cf != fn {
			bad = append(bad, leafBeforeEnqueueInHelpersA1(cf, leaf, a, depth-1, false)...)
		}
	}
	return bad
}

func deleteBeforeEnqueueInHelpersA1(fn *ssa.Function, a *pqAnchors, depth int, top bool) []ssa.Instruction {
	return leafBeforeEnqueueInHelpersA1(fn, deleteBatchLeafA1(""), a, depth, top)
}

// keyWriteLeafA1: storage calls that set or delete the constant key.
func keyWriteLeafA1(key string) func(ssa.Instruction) bool {
	cache := map[*ssa.Function]map[ssa.Instruction]bool{}
	return func(in ssa.Instruction) bool {
		if _, ok := in.(ssa.CallInstruction); !ok {
			return false
		}
		fn := in.Parent()
		m, ok := cache[fn]
		if !ok {
			m = map[ssa.Instruction]bool{}
			for _, b := range batchCalls(fn) {
				for _, o := range b.Ops {
					if (o.Kind == "Set" || o.Kind == "Delete") && o.KeyClass == key {
						m[b.Call.(ssa.Instruction)] = true
					}
				}
			}
			for _, ci := range append(storageCalls(fn, "Set"), storageCalls(fn, "Delete")...) {
				if k, ok := constString(ci.Common().Args[1]); ok && k == key {
					m[ci.(ssa.Instruction)] = true
				}
			}
			cache[fn] = m
		}
		return m[in]
	}
}

// ----- the outcome of a re-enqueue as seen through a helper's result -----

type wantA1 int

const (
	wTrueA1 wantA1 = iota
	wFalseA1
	wNilA1
	wNonNilA1
)

func (w wantA1) neg() wantA1 {
	switch w {
	case wTrueA1:
		return wFalseA1
	case wFalseA1:
		return wTrueA1
	case wNilA1:
		return wNonNilA1
	}
	return wNilA1
}

func isResultOfA1(v ssa.Value, site ssa.CallInstruction) (int, bool) {
	call, idx := callResultA1(v)
	if call != nil && call == site {
		return idx, true
	}
	return 0, false
}

// testOfSiteA1: "v has the value `want`" states "result idx of site has the value w" (for a bool v: wTrue/wFalse, for
// an error v: wNil/wNonNil).
func testOfSiteA1(v ssa.Value, want wantA1, site ssa.CallInstruction) (w wantA1, idx int, ok bool) {
	for {
		u, isNot := v.(*ssa.UnOp)
		if !isNot || u.Op != token.NOT {
			break
		}
		v = u.X
		want = want.neg()
	}
	if i, is := isResultOfA1(v, site); is {
		return want, i, true
	}
	bo, isBin := v.(*ssa.BinOp)
	if !isBin || (bo.Op != token.EQL && bo.Op != token.NEQ) || (want != wTrueA1 && want != wFalseA1) {
		return 0, 0, false
	}
	other := bo.X
	if isNilConst(bo.X) {
		other = bo.Y
	} else if !isNilConst(bo.Y) {
		// comparison of a bool result with a constant
		if k, isC := constBool(bo.Y); isC {
			if i, is := isResultOfA1(bo.X, site); is {
				if (bo.Op == token.EQL) == (want == wTrueA1) == k {
					return wTrueA1, i, true
				}
				return wFalseA1, i, true
			}
		}
		return 0, 0, false
	}
	i, is := isResultOfA1(other, site)
	if !is {
		return 0, 0, false
	}
	if (bo.Op == token.EQL) == (want == wTrueA1) {
		return wNilA1, i, true
	}
	return wNonNilA1, i, true
}

// siteSucceededA1: block b is entered only when the enqueue made by site (directly or inside the helper it calls)
// succeeded, or when that call did not attempt the enqueue at all.
func siteSucceededA1(b *ssa.BasicBlock, site ssa.CallInstruction, a *pqAnchors, depth int) bool {
	for _, g := range guardsOf(b) {
		want := wFalseA1
		if g.Branch {
			want = wTrueA1
		}
		if w, idx, ok := testOfSiteA1(g.Cond, want, site); ok && resultMeansEnqueuedA1(site, idx, w, a, depth) {
			return true
		}
	}
	return false
}

// resultMeansEnqueuedA1: result idx of site having value w implies: the enqueue succeeded or was not attempted.
func resultMeansEnqueuedA1(site ssa.CallInstruction, idx int, w wantA1, a *pqAnchors, depth int) bool {
	cf := staticCalleeFn(site)
	if cf == nil {
		return false
	}
	if cf == a.enqueue {
		return w == wNilA1
	}
	cf = helperCalleeA1(site)
	if cf == nil || depth == 0 {
		return false
	}
	inner := putSitesA1(cf, a, depth-1)
	if len(inner) == 0 {
		return false
	}
	var okVal func(v ssa.Value, blk *ssa.BasicBlock, at ssa.Instruction, seen map[ssa.Value]bool) bool
	okVal = func(v ssa.Value, blk *ssa.BasicBlock, at ssa.Instruction, seen map[ssa.Value]bool) bool {
		if seen[v] {
			return true
		}
		if phi, isPhi := v.(*ssa.Phi); isPhi {
			seen[v] = true
			for i, e := range phi.Edges {
				pb := phi.Block().Preds[i]
				if !okVal(e, pb, pb.Instrs[len(pb.Instrs)-1], seen) {
					return false
				}
			}
			return true
		}
		// can this return yield w at all?
		switch w {
		case wTrueA1, wFalseA1:
			if k, isC := constBool(v); isC && k != (w == wTrueA1) {
				return true
			}
		case wNilA1:
			if !mayBeNilA1(v, blk, map[ssa.Value]bool{}) {
				return true
			}
		case wNonNilA1:
			if isNilConst(v) {
				return true
			}
		}
		for _, pt := range inner {
			if pt.(ssa.Instruction) != at && !canReach(pt.(ssa.Instruction), at, nil) {
				continue // the enqueue is not attempted on the paths to this return
			}
			if w2, i2, ok := testOfSiteA1(v, w, pt); ok && resultMeansEnqueuedA1(pt, i2, w2, a, depth-1) {
				continue
			}
			if siteSucceededA1(blk, pt, a, depth-1) {
				continue
			}
			return false
		}
		return true
	}
	for _, r := range returnsOf(cf) {
		res := resultsOf(r)
		if idx >= len(res) {
			return false
		}
		if !okVal(res[idx], r.Block(), r, map[ssa.Value]bool{}) {
			return false
		}
	}
	return true
}
