package main

// C18: the memory check and the per-signal process functions executed on a finite model (see mx_A8.go).
//
// Model of the check: the class of each measurement (0 below the soft limit, 1 between soft and hard, 2 at or above
// the hard limit; the first reading and the reading after a forced GC are enumerated independently), whether the time
// since the last forced GC exceeds the hard / the soft interval, and the refuse flag before the check. Effects:
// measurement, forced GC, recording the time of the GC, store of the refuse flag. The clauses of C18 are conditions on
// the trace of every path: the flag is stored and ends up as `latest measurement >= soft`; a GC is forced only above
// the soft limit and after the interval of its severity; a forced GC is followed by recording its time.

import (
	"fmt"
	"go/token"
	"go/types"

	"golang.org/x/tools/go/ssa"
)

type c18Anchors struct {
	mlT              *types.Named
	flagF            int
	lastGCF          int
	hardIntF         int
	softIntF         int
	check            *ssa.Function
	softFn, hardFn   *ssa.Function
	relevant         map[*ssa.Function]bool
	pkg              *ssa.Package
	missing          []string
	measureFns       map[*ssa.Function]bool
	gcFn             *ssa.Function
	flagStoreFns     map[*ssa.Function]bool
	allFuncs         []*ssa.Function
	lastGCFieldName  string
	flagFieldName    string
}

func isMemStatsPtr(t types.Type) bool {
	pt, ok := types.Unalias(t).(*types.Pointer)
	return ok && typeIs(pt.Elem(), "runtime", "MemStats") && !isPtr(pt.Elem())
}

// c18DynKind classifies a call made through a function-typed field of the limiter (the test seams for
// runtime.ReadMemStats and runtime.GC) or the runtime functions themselves.
func (a *c18Anchors) dynKind(ci ssa.CallInstruction) string {
	cc := ci.Common()
	if cc.IsInvoke() {
		return ""
	}
	if f := calleeOf(ci); f != nil {
		switch {
		case isFunc(f, "runtime", "ReadMemStats"):
			return "measure"
		case isFunc(f, "runtime", "GC"):
			return "gc"
		}
		return ""
	}
	v := cc.Value
	u, ok := v.(*ssa.UnOp)
	if !ok || u.Op != token.MUL {
		return ""
	}
	var owner types.Type
	switch fa := u.X.(type) {
	case *ssa.FieldAddr:
		owner = fa.X.Type()
	case *ssa.Global:
		// a package-level seam (ReadMemStatsFn)
		owner = nil
	default:
		return ""
	}
	if owner != nil && namedOf(owner) != a.mlT {
		return ""
	}
	sig, ok := v.Type().Underlying().(*types.Signature)
	if !ok {
		return ""
	}
	switch {
	case sig.Params().Len() == 1 && sig.Results().Len() == 0 && isMemStatsPtr(sig.Params().At(0).Type()):
		return "measure"
	case owner != nil && sig.Params().Len() == 0 && sig.Results().Len() == 0:
		return "gc"
	}
	return ""
}

func findC18Anchors(p *Prog, mlT *types.Named, funcs []*ssa.Function, softFn, hardFn *ssa.Function) *c18Anchors {
	a := &c18Anchors{mlT: mlT, softFn: softFn, hardFn: hardFn, flagF: -1, lastGCF: -1, hardIntF: -1, softIntF: -1, allFuncs: funcs}
	a.flagF = structFieldIndex(mlT, func(f *types.Var) bool { return typeIs(f.Type(), "sync/atomic", "Bool") })
	a.lastGCF = structFieldIndex(mlT, func(f *types.Var) bool { return isValueOf(f.Type(), "time", "Time") })
	a.flagFieldName, a.lastGCFieldName = structFieldName(mlT, a.flagF), structFieldName(mlT, a.lastGCF)
	cfgT := p.LookupType(relPkg(pkgMemLim), "Config")
	if cfgT != nil {
		a.hardIntF = fieldFedBy(funcs, mlT, cfgT, fieldWithTag(cfgT, "mapstructure", "min_gc_interval_when_hard_limited"))
		a.softIntF = fieldFedBy(funcs, mlT, cfgT, fieldWithTag(cfgT, "mapstructure", "min_gc_interval_when_soft_limited"))
	}
	for name, idx := range map[string]int{"refuse flag (atomic.Bool field)": a.flagF, "time of the last forced GC (time.Time field)": a.lastGCF, "hard-limit GC interval field": a.hardIntF, "soft-limit GC interval field": a.softIntF} {
		if idx < 0 {
			a.missing = append(a.missing, name)
		}
	}
	direct := func(fn *ssa.Function) bool {
		hit := false
		allInstrs(fn, func(in ssa.Instruction) {
			switch x := in.(type) {
			case *ssa.FieldAddr:
				if namedOf(x.X.Type()) == mlT && (x.Field == a.flagF || x.Field == a.lastGCF || x.Field == a.hardIntF || x.Field == a.softIntF) {
					hit = true
				}
			case ssa.CallInstruction:
				if a.dynKind(x) != "" {
					hit = true
				}
				if cf := staticCalleeFn(x); cf != nil && (cf == softFn || cf == hardFn) {
					hit = true
				}
				if f := calleeOf(x); f != nil && isFunc(f, "time", "Since") {
					hit = true
				}
			}
		})
		return hit
	}
	a.relevant = map[*ssa.Function]bool{}
	for _, fn := range funcs {
		if direct(fn) {
			a.relevant[fn] = true
		}
	}
	for changed := true; changed; {
		changed = false
		for _, fn := range funcs {
			if a.relevant[fn] {
				continue
			}
			allInstrs(fn, func(in ssa.Instruction) {
				if ci, ok := in.(ssa.CallInstruction); ok {
					if cf := staticCalleeFn(ci); cf != nil && a.relevant[cf] {
						a.relevant[fn] = true
					}
				}
			})
			if a.relevant[fn] {
				changed = true
			}
		}
	}
	return a
}

func (a *c18Anchors) model() mxModel {
	latest := func(st *mxState) int64 {
		if st.M["nmeasure"] == 0 {
			return -1
		}
		return st.M["latest"]
	}
	return mxModel{
		Skip: func(fn *ssa.Function) bool {
			fn = originFn(fn)
			return !a.relevant[fn] || fn == a.softFn || fn == a.hardFn
		},
		Load: func(x *mxExec, st *mxState, addr mxVal, typ types.Type) (mxVal, bool) {
			if addr.Own != a.mlT {
				return mxVal{}, false
			}
			switch addr.Fld {
			case a.hardIntF:
				return mxRef("int:hard"), true
			case a.softIntF:
				return mxRef("int:soft"), true
			case a.flagF:
				return mxRef("flag"), true
			case a.lastGCF:
				return mxRef(fmt.Sprintf("lastgc:%d", st.M["gcgen"])), true
			}
			return mxVal{}, false
		},
		Store: func(x *mxExec, st *mxState, addr mxVal, val mxVal) bool {
			if addr.Own == a.mlT && addr.Fld == a.lastGCF {
				st.M["gcgen"]++
				st.event("gcdone", 0, 0, "")
				return true
			}
			return false
		},
		BinOp: func(x *mxExec, st *mxState, op token.Token, l, r mxVal) (mxVal, bool) {
			isSince := func(v mxVal) bool { return v.K == mxR && len(v.S) > 6 && v.S[:6] == "since:" }
			isInt := func(v mxVal) bool { return v.K == mxR && len(v.S) > 4 && v.S[:4] == "int:" }
			var since, iv mxVal
			switch {
			case isSince(l) && isInt(r):
				since, iv = l, r
			case isInt(l) && isSince(r):
				since, iv = r, l
				switch op {
				case token.LSS:
					op = token.GTR
				case token.GTR:
					op = token.LSS
				case token.LEQ:
					op = token.GEQ
				case token.GEQ:
					op = token.LEQ
				}
			default:
				return mxVal{}, false
			}
			if since.S != "since:0" {
				return mxVal{}, true // after a GC of this very check: not modelled
			}
			elapsed := st.M["sinceSoft"] != 0
			if iv.S == "int:hard" {
				elapsed = st.M["sinceHard"] != 0
			}
			st.event("timetest:"+iv.S[4:], 0, 0, "")
			switch op {
			case token.GTR:
				return mxBool(elapsed), true
			case token.LEQ:
				return mxBool(!elapsed), true
			}
			return mxVal{}, true // >= / < / == are a different test: unknown
		},
		Call: func(x *mxExec, st *mxState, ci ssa.CallInstruction, fnv mxVal, args []mxVal) (mxVal, bool) {
			switch a.dynKind(ci) {
			case "measure":
				cls := st.M["class0"]
				if st.count("gc") > 0 {
					cls = st.M["class1"]
				}
				st.M["nmeasure"]++
				st.M["latest"] = cls
				st.event("measure", cls, 0, "")
				if len(args) > 0 && args[len(args)-1].K == mxR {
					st.mem[args[len(args)-1].S+"#class"] = mxInt(cls)
				}
				return mxVal{}, true
			case "gc":
				cls := latest(st)
				ok := int64(0)
				if st.M["gcgen"] == 0 && st.count("gc") == 0 && ((cls >= 2 && st.M["sinceHard"] != 0) || (cls == 1 && st.M["sinceSoft"] != 0)) {
					ok = 1
				}
				st.event("gc", cls, ok, "")
				return mxVal{}, true
			}
			if cf := staticCalleeFn(ci); cf != nil && (cf == a.softFn || cf == a.hardFn) && len(args) > 0 {
				ms := args[len(args)-1]
				if ms.K != mxR {
					return mxVal{}, true
				}
				cls, ok := st.mem[ms.S+"#class"]
				if !ok || cls.K != mxI {
					return mxVal{}, true
				}
				if cf == a.softFn {
					st.event("soft?", cls.I, 0, "")
					return mxBool(cls.I >= 1), true
				}
				return mxBool(cls.I >= 2), true
			}
			f := calleeOf(ci)
			if f == nil {
				return mxVal{}, false
			}
			switch {
			case isFunc(f, "time", "Since"):
				if len(args) == 1 && args[0].K == mxR && len(args[0].S) > 7 && args[0].S[:7] == "lastgc:" {
					return mxRef("since:" + args[0].S[7:]), true
				}
				return mxVal{}, true
			case isMethod(f, "sync/atomic", "Bool", "Store"):
				if len(args) == 2 && args[0].K == mxR && args[0].S == "flag" {
					v := int64(-1)
					if args[1].K == mxB {
						v = 0
						if args[1].B {
							v = 1
						}
					}
					st.M["flag"] = v
					st.event("store", v, latest(st), "")
					return mxVal{}, true
				}
			case isMethod(f, "sync/atomic", "Bool", "Load"):
				if len(args) == 1 && args[0].K == mxR && args[0].S == "flag" {
					if st.M["flag"] < 0 {
						return mxVal{}, true
					}
					return mxBool(st.M["flag"] != 0), true
				}
			}
			return mxVal{}, false
		},
	}
}

// runC18CheckModel decides R1 (decision freshness) and R2 (GC gating) by executing the check on the model.
func runC18CheckModel(c *Ctx, a *c18Anchors, rule string) {
	p := c.P
	pos := p.Pos(a.check.Pos())
	type run struct {
		init   map[string]int64
		finals []*mxState
		over   bool
	}
	var runs []run
	for _, flag := range []int64{0, 1} {
		for _, c0 := range []int64{0, 1, 2} {
			for _, c1 := range []int64{0, 1, 2} {
				for _, sh := range []int64{0, 1} {
					for _, ss := range []int64{0, 1} {
						x := &mxExec{Model: a.model(), Pkg: pkgOfFn(a.check)}
						st := x.Start(a.check, []mxVal{mxRef("self")})
						init := map[string]int64{"flag": flag, "class0": c0, "class1": c1, "sinceHard": sh, "sinceSoft": ss}
						for k, v := range init {
							st.M[k] = v
						}
						runs = append(runs, run{init, x.Run(st), x.Overflow})
					}
				}
			}
		}
	}
	describe := func(r run, st *mxState) string {
		return fmt.Sprintf("with %s: trace [%s], flag afterwards=%d, path ends with %q", mxSummary(r.init), st.trace(), st.M["flag"], st.Status)
	}
	var stored, fresh, gcSoft, gcTime, gcRec c17Verdict
	for _, r := range runs {
		if r.over {
			stored.undecided, fresh.undecided, gcSoft.undecided, gcTime.undecided, gcRec.undecided = "the model execution ran out of paths", "the model execution ran out of paths", "the model execution ran out of paths", "the model execution ran out of paths", "the model execution ran out of paths"
			continue
		}
		for _, st := range r.finals {
			if st.Status == "panic" {
				continue
			}
			if st.Status != "return" {
				stored.fail("the check does not come to an end: " + describe(r, st))
				continue
			}
			stored.n++
			fresh.n++
			if st.count("store") == 0 {
				stored.fail(describe(r, st))
			} else if st.M["nmeasure"] == 0 || st.M["flag"] < 0 || (st.M["flag"] != 0) != (st.M["latest"] >= 1) {
				fresh.fail(describe(r, st))
			}
			for i, e := range st.Ev {
				if e.Kind != "gc" {
					continue
				}
				gcSoft.n++
				gcTime.n++
				gcRec.n++
				if e.A < 1 {
					gcSoft.fail(describe(r, st))
				} else if e.B == 0 {
					gcTime.fail(describe(r, st))
				}
				rec := false
				for _, e2 := range st.Ev[i+1:] {
					if e2.Kind == "gcdone" {
						rec = true
					}
				}
				if !rec {
					gcRec.fail(describe(r, st))
				}
			}
		}
	}
	switch rule {
	case "R1":
		stored.report(c, "every path of the check stores the refuse flag", pos, "a store of the flag on every path", "a path of the check returns without storing the decision: the limiter keeps a stale mode")
		fresh.report(c, "the stored decision is the soft-limit evaluation of the latest measurement", pos, "flag == (latest measurement >= limit - spike) on every path", "after the check the refuse flag is not `latest measurement at or above limit − spike` (e.g. the hard-limit comparison or a stale reading decides after a GC): the limiter refuses, or stops refusing, at the wrong usage")
	case "R2":
		if gcSoft.n == 0 {
			c.Bad("forced GC sites", pos, "the check never forces a GC")
			return
		}
		gcSoft.report(c, "forced GC only while above the soft limit", pos, "every forced GC follows a measurement at or above the soft limit", "a GC can be forced while usage is below the soft limit")
		gcTime.report(c, "forced GC only after the minimum interval of its severity", pos, "every forced GC follows `time since the last one > interval` of its severity", "a GC is forced although the minimum interval of its severity has not elapsed (e.g. the elapsed-time test is OR-ed with another condition, or the other severity's interval is used)")
		gcRec.report(c, "the GC routine records the time of the GC", pos, "every forced GC is followed by recording its time", "the time of a forced GC is not recorded on every path: the interval gating does not engage")
	}
}

// ---------- R4: the per-signal process functions ----------

// c18ProcessModel: MustRefuse() of the limiter answers the model's `refuse`; the refusal error is the package-level
// error value of internal/memorylimiter that the function loads.
func c18ProcessModel(mlT *types.Named, relevant map[*ssa.Function]bool) mxModel {
	return mxModel{
		Skip: func(fn *ssa.Function) bool { return !relevant[originFn(fn)] },
		Call: func(x *mxExec, st *mxState, ci ssa.CallInstruction, fnv mxVal, args []mxVal) (mxVal, bool) {
			f := calleeOf(ci)
			if f != nil && f.Name() == "MustRefuse" && recvNamed(f) == mlT {
				st.event("mustrefuse", 0, 0, "")
				return mxBool(st.M["refuse"] != 0), true
			}
			return mxVal{}, false
		},
	}
}
