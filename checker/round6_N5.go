package main

// Rules added in the sixth round by engineer N5, from the seeded changes C10/m1, C11/m3 (also covers C11/m2), C17/m1,
// C20/m3, C04/m1 and C04/m2. Each rule finds its subject by type / effect, names its obligations by function + role, and
// reports UNDECIDED when the subject cannot be found.

import (
	"fmt"
	"go/token"
	"go/types"
	"sort"
	"strings"

	"golang.org/x/tools/go/ssa"
)

// ---------- helpers ----------

// n5Decider: an If whose outcome decides whether block b is executed (again): when the If's block is not expanded, b is
// reachable from exactly one of its two successors. Unlike guardsOf the If need not dominate b (a `break` test at the
// end of a loop body decides the next iteration), and a test whose two sides both reach b is not a decider.
type n5Decider struct {
	If   *ssa.If
	Side bool // the outcome (true = Succs[0]) on which b can still be reached
}

func n5ReachStop(start, stop *ssa.BasicBlock) map[*ssa.BasicBlock]bool {
	seen := map[*ssa.BasicBlock]bool{start: true}
	st := []*ssa.BasicBlock{start}
	for len(st) > 0 {
		b := st[len(st)-1]
		st = st[:len(st)-1]
		if b == stop {
			continue
		}
		for _, s := range b.Succs {
			if !seen[s] {
				seen[s] = true
				st = append(st, s)
			}
		}
	}
	return seen
}

func n5Deciders(b *ssa.BasicBlock) []n5Decider {
	var out []n5Decider
	for _, d := range b.Parent().Blocks {
		if len(d.Instrs) == 0 || len(d.Succs) != 2 || d.Succs[0] == d.Succs[1] {
			continue
		}
		iff, ok := d.Instrs[len(d.Instrs)-1].(*ssa.If)
		if !ok {
			continue
		}
		rt := n5ReachStop(d.Succs[0], d)[b]
		rf := n5ReachStop(d.Succs[1], d)[b]
		if rt != rf {
			out = append(out, n5Decider{iff, rt})
		}
	}
	return out
}

// n5CallArgs: the operands of a call including the receiver of an interface invoke.
func n5CallArgs(ci ssa.CallInstruction) []ssa.Value {
	cc := ci.Common()
	if cc.IsInvoke() {
		return append([]ssa.Value{cc.Value}, cc.Args...)
	}
	return cc.Args
}

// n5CallOnValue: the backward slice of cond contains a call that takes ev (receiver or argument); returns its name.
func n5CallOnValue(cond, ev ssa.Value) (string, bool) {
	names := []string{}
	for v := range backSlice(cond) {
		call, ok := v.(*ssa.Call)
		if !ok {
			continue
		}
		for _, a := range n5CallArgs(call) {
			if sameValue(a, ev) {
				nm := "a call"
				if f := calleeOf(call); f != nil {
					nm = f.Name() + "()"
				}
				names = append(names, nm)
			}
		}
	}
	if len(names) == 0 {
		return "", false
	}
	sort.Strings(names)
	return names[0], true
}

// n5MutexFields: the sync.Mutex / sync.RWMutex fields of struct type T.
func n5MutexFields(T *types.Named) []string {
	st, ok := T.Underlying().(*types.Struct)
	if !ok {
		return nil
	}
	var out []string
	for i := 0; i < st.NumFields(); i++ {
		if f := st.Field(i); typeIs(f.Type(), "sync", "Mutex") || typeIs(f.Type(), "sync", "RWMutex") {
			out = append(out, f.Name())
		}
	}
	return out
}

// n5Unlocks: the instructions of fn that give lock field lockF of T up before fn returns: explicit (non-deferred)
// Unlock / RUnlock calls, and static calls to functions of the same package that unlock it without locking it.
func n5Unlocks(fn *ssa.Function, T *types.Named, lockF string) []ssa.Instruction {
	out := append(explicitMutexCalls(fn, T, lockF, "Unlock"), explicitMutexCalls(fn, T, lockF, "RUnlock")...)
	for _, ci := range calls(fn, func(ci ssa.CallInstruction) bool {
		if _, isCall := ci.(*ssa.Call); !isCall {
			return false
		}
		cf := staticCalleeFn(ci)
		if cf == nil || cf.Pkg == nil || cf.Pkg != fn.Pkg || cf == fn || cf.Blocks == nil {
			return false
		}
		un := len(explicitMutexCalls(cf, T, lockF, "Unlock")) + len(explicitMutexCalls(cf, T, lockF, "RUnlock"))
		lk := len(explicitMutexCalls(cf, T, lockF, "Lock")) + len(explicitMutexCalls(cf, T, lockF, "RLock"))
		return un > 0 && lk == 0
	}) {
		out = append(out, ci.(ssa.Instruction))
	}
	return out
}

// n5HeldFromTo: some acquisition (one of the method names in how) of lock field lockF of T dominates `from` and the lock
// is not given up on any path from that acquisition to `to`.
func n5HeldFromTo(fn *ssa.Function, T *types.Named, lockF string, how []string, from, to ssa.Instruction) (bool, ssa.Instruction) {
	var acq []ssa.Instruction
	for _, h := range how {
		acq = append(acq, explicitMutexCalls(fn, T, lockF, h)...)
	}
	unl := n5Unlocks(fn, T, lockF)
	var firstBad ssa.Instruction
	for _, l := range acq {
		if !instrDominates(l, from) {
			continue
		}
		ok := true
		for _, u := range unl {
			if canReach(l, u, nil) && canReach(u, to, nil) {
				ok = false
				if firstBad == nil {
					firstBad = u
				}
			}
		}
		if ok {
			return true, nil
		}
	}
	return false, firstBad
}

// ---------- C10.R13: the components are started / stopped along the topological order of the whole graph ----------
func init() { addRules("C10", runC10N5WalkedOrder) }

// n5ListOfElement: v is an element of a list (through type assertions and loads): returns the list value. Recognised:
// x[i] (also `for _, v := range x`), and the value parameter of the yield function of `range slices.Backward(x)` /
// `slices.All(x)` / `slices.Values(x)`.
func n5ListOfElement(v ssa.Value, depth int) (ssa.Value, bool) {
	if depth > 8 {
		return nil, false
	}
	switch x := strip(v).(type) {
	case *ssa.TypeAssert:
		return n5ListOfElement(x.X, depth+1)
	case *ssa.Extract:
		if ta, ok := x.Tuple.(*ssa.TypeAssert); ok && x.Index == 0 {
			return n5ListOfElement(ta.X, depth+1)
		}
	case *ssa.UnOp:
		if x.Op == token.MUL {
			if ia, ok := x.X.(*ssa.IndexAddr); ok {
				return ia.X, true
			}
			// a local that the range-over-func lowering keeps in memory: single store
			if a, ok := x.X.(*ssa.Alloc); ok {
				if s := singleStore(a); s != nil {
					return n5ListOfElement(s.Val, depth+1)
				}
			}
		}
	case *ssa.Parameter:
		// the yield function of a range-over-func loop: its caller is the iterator that slices.X(list) returned
		fn := x.Parent()
		if fn == nil || fn.Parent() == nil || len(fn.Params) == 0 || fn.Params[len(fn.Params)-1] != x {
			return nil, false
		}
		var list ssa.Value
		allInstrs(fn.Parent(), func(in ssa.Instruction) {
			mc, ok := in.(*ssa.MakeClosure)
			if !ok || mc.Fn != ssa.Value(fn) || mc.Referrers() == nil {
				return
			}
			for _, r := range *mc.Referrers() {
				call, ok := r.(*ssa.Call)
				if !ok {
					continue
				}
				it, ok := strip(call.Call.Value).(*ssa.Call)
				if !ok {
					continue
				}
				f := calleeOf(it)
				if f == nil || f.Pkg() == nil || f.Pkg().Path() != "slices" || len(it.Call.Args) != 1 {
					continue
				}
				switch f.Name() {
				case "Backward", "All", "Values":
					list = it.Call.Args[0]
				}
			}
		})
		if list != nil {
			return list, true
		}
	}
	return nil, false
}

type n5CompUse struct {
	site ssa.CallInstruction // in fn or one of its closures
	comp ssa.Value           // the component value as seen in the function of `site`; nil when it cannot be followed
}

// n5ComponentUses: the call sites in fn (and its closures) through which the lifecycle method `name` of a component is
// invoked, directly or through helpers of the same package that are handed the component (depth ≤ 3).
func n5ComponentUses(fn *ssa.Function, name string, depth int, seen map[*ssa.Function]bool) []n5CompUse {
	var out []n5CompUse
	if fn == nil || seen[fn] || depth > 3 {
		return nil
	}
	seen[fn] = true
	for _, f := range withAnon(fn) {
		for _, ci := range lifecycleCalls(f, name) {
			out = append(out, n5CompUse{ci, ci.Common().Value})
		}
		for _, ci := range calls(f, func(ci ssa.CallInstruction) bool {
			cf := staticCalleeFn(ci)
			return cf != nil && cf.Pkg != nil && cf.Pkg == fn.Pkg && cf.Parent() == nil && cf != fn
		}) {
			cf := staticCalleeFn(ci)
			for _, sub := range n5ComponentUses(cf, name, depth+1, seen) {
				var v ssa.Value
				if sub.comp != nil && sub.site.Parent() == cf {
					if lst, ok := n5ListOfElement(sub.comp, 0); ok && lst != nil {
						// the helper walks a list of its own: not a per-component helper of this loop
						v = nil
					} else if prm := n5RootParam(sub.comp); prm != nil {
						for i, q := range cf.Params {
							if q == prm && i < len(ci.Common().Args) {
								v = ci.Common().Args[i]
							}
						}
					}
				}
				out = append(out, n5CompUse{ci, v})
			}
		}
	}
	return out
}

// n5RootParam: v is a parameter seen through type assertions.
func n5RootParam(v ssa.Value) *ssa.Parameter {
	for i := 0; i < 8; i++ {
		switch x := strip(v).(type) {
		case *ssa.Parameter:
			return x
		case *ssa.TypeAssert:
			v = x.X
		case *ssa.Extract:
			ta, ok := x.Tuple.(*ssa.TypeAssert)
			if !ok {
				return nil
			}
			v = ta.X
		default:
			return nil
		}
	}
	return nil
}

func runC10N5WalkedOrder(c *Ctx) {
	p := c.P
	c.Rule("R13", "PROV", "the start and the stop order are the topological order of the WHOLE graph, whatever happened before: the component whose Start / Shutdown is invoked at each step of Graph.StartAll / Graph.ShutdownAll is the element of the topo.Sort result at the walked position (directly, or handed to a per-component helper) – not an element of another list (components recorded while starting, a filtered or re-assembled order); all such call sites of one function sit in one loop. After a failed start the started components are exactly the downstream ones, so a `started first, the rest afterwards` order stops consumers before the components that still send to them", 2)
	for _, spec := range []struct{ name, life string }{{"StartAll", "Start"}, {"ShutdownAll", "Shutdown"}} {
		construct := "Graph." + spec.name + " invokes " + spec.life + " on the element of the topological order at the walked position"
		m := p.LookupMethod(relPkg(pkgGraph), "Graph", spec.name)
		if m == nil || p.SSAFunc(m) == nil {
			c.Anchor("Graph." + spec.name)
			continue
		}
		fn := p.SSAFunc(m)
		var sortV ssa.Value
		nSort := 0
		for _, f := range withAnon(fn) {
			for _, s := range callsNamed(f, func(f *types.Func) bool { return f.FullName() == "gonum.org/v1/gonum/graph/topo.Sort" }) {
				nSort++
				sortV, _ = s.(ssa.Value)
			}
		}
		if nSort != 1 || sortV == nil {
			c.Undecided(construct, p.Pos(fn.Pos()), fmt.Sprintf("%d topo.Sort calls: the order that is walked cannot be identified", nSort))
			continue
		}
		isSorted := func(v ssa.Value) bool {
			v = strip(v)
			if fv, ok := v.(*ssa.FreeVar); ok {
				v = strip(resolveFree(fv))
			}
			if u, ok := v.(*ssa.UnOp); ok && u.Op == token.MUL {
				// a captured local (range-over-func lowering): the cell holds the sort result only
				if a, ok := resolveFree(u.X).(*ssa.Alloc); ok {
					if s := singleStore(a); s != nil {
						v = strip(s.Val)
					}
				}
			}
			ex, ok := v.(*ssa.Extract)
			return ok && ex.Tuple == sortV && ex.Index == 0
		}
		uses := n5ComponentUses(fn, spec.life, 0, map[*ssa.Function]bool{})
		if len(uses) == 0 {
			c.Undecided(construct, p.Pos(fn.Pos()), "no call of the component's "+spec.life+" found in the function, its closures or its helpers")
			continue
		}
		bad, undecided := "", ""
		loops := map[*ssa.BasicBlock]bool{}
		for _, u := range uses {
			pos := p.Pos(u.site.Pos())
			if u.comp == nil {
				undecided = "the component handed on at " + pos + " cannot be followed"
				continue
			}
			lst, ok := n5ListOfElement(u.comp, 0)
			if !ok {
				undecided = "the component used at " + pos + " is not recognisably an element of a list"
				continue
			}
			if !isSorted(lst) {
				bad = "the component used at " + pos + " is taken from a list that is not the topo.Sort result"
			}
			if u.site.Parent() == fn {
				h, _ := innermostLoop(u.site.Block())
				loops[h] = true
			}
		}
		switch {
		case bad != "":
			c.Bad(construct, p.Pos(fn.Pos()), bad+": r1 → p1 → p2 → e1 with p1.Start failing – e1 and p2 were started, r1 and p1 were not; an order built from what was started stops p2 and e1 before p1 and r1, which send to them")
		case undecided != "":
			c.Undecided(construct, p.Pos(fn.Pos()), undecided)
		case len(loops) > 1:
			c.Bad(construct, p.Pos(fn.Pos()), "the components are handled by several loops: each loop may follow the topological order and the concatenation still does not (started ones first, the others afterwards)")
		default:
			c.OK(construct, p.Pos(fn.Pos()), fmt.Sprintf("%d call site(s), element of the topo.Sort result", len(uses)))
		}
	}
}

// ---------- C11.R16: what a shared component delivers to an instance does not depend on what the event says ----------
func init() { addRules("C11", runC11N5ContentBlindDelivery) }

func n5HostWrapper(p *Prog) (hw *types.Named, srcField string) {
	spk := p.ByPath[pkgShared]
	if spk == nil {
		return nil, ""
	}
	for _, n := range spk.Types.Scope().Names() {
		tn, ok := spk.Types.Scope().Lookup(n).(*types.TypeName)
		if !ok {
			continue
		}
		st, ok := tn.Type().Underlying().(*types.Struct)
		if !ok {
			continue
		}
		src, mu := "", false
		for i := 0; i < st.NumFields(); i++ {
			if sl, ok := st.Field(i).Type().Underlying().(*types.Slice); ok && typeIs(sl.Elem(), pkgCompStatus, "Reporter") {
				src = st.Field(i).Name()
			}
			if typeIs(st.Field(i).Type(), "sync", "Mutex") || typeIs(st.Field(i).Type(), "sync", "RWMutex") {
				mu = true
			}
		}
		if src != "" && mu {
			if nt, ok := tn.Type().(*types.Named); ok {
				hw, srcField = nt, src
			}
		}
	}
	return
}

func runC11N5ContentBlindDelivery(c *Ctx) {
	p := c.P
	c.Rule("R16", "DEP", "a shared component passes every status on to every instance, whatever the status is: in the host wrapper of internal/sharedcomponent no delivery of an event to a source (the fan-out of a new report, the replay of the remembered reports to an instance that attaches later) is decided by a test of the event's content (its Status(), Err(), ...) – which transitions an instance accepts is the business of that instance's state machine; a wrapper that leaves out the OK of a recovered component leaves the late instance in RecoverableError for ever, one that stops the fan-out at a FatalError leaves the other instances in OK", 2)
	hw, srcField := n5HostWrapper(p)
	if hw == nil {
		c.Anchor("host wrapper struct of internal/sharedcomponent (mutex + []componentstatus.Reporter)")
		return
	}
	type verdict struct {
		pos  string
		bad  string
		seen int
	}
	res := map[string]*verdict{}
	var order []string
	for _, fn := range p.AllSrcFuncs(p.ByPath[pkgShared]) {
		if recvNamedOfFn(rootFn(fn)) != hw {
			continue
		}
		for _, ci := range calls(fn, func(ci ssa.CallInstruction) bool {
			return ci.Common().IsInvoke() && isMethod(ci.Common().Method, pkgCompStatus, "Reporter", "Report") && len(ci.Common().Args) == 1
		}) {
			role := "the source that is being added"
			if rangesOverField(ci.Common().Value, hw, srcField) {
				role = "every registered source"
			}
			construct := "delivery of an event to " + role + " in " + fnName(rootFn(fn)) + " does not depend on the event's content"
			v := res[construct]
			if v == nil {
				v = &verdict{pos: p.Pos(ci.Pos())}
				res[construct] = v
				order = append(order, construct)
			}
			v.seen++
			ev := ci.Common().Args[0]
			for _, d := range n5Deciders(ci.Block()) {
				if nm, dep := n5CallOnValue(d.If.Cond, ev); dep {
					v.bad = "whether the event is delivered depends on " + nm + " of the event (" + p.Pos(d.If.Pos()) + ")"
				}
			}
		}
	}
	if len(order) == 0 {
		c.Undecided("deliveries of the host wrapper", "-", "no call of componentstatus.Reporter.Report in the methods of the host wrapper")
		return
	}
	for _, k := range order {
		v := res[k]
		c.Check(v.bad == "", k, v.pos, "decided by the registration state only", v.bad+": a receiver shared by traces and metrics reports RecoverableError and then OK before the metrics instance attaches – the first instance ends OK, the late one stays in RecoverableError (the automatic OK of the service is withheld because the instance is no longer Starting); with a filter in the fan-out a FatalError reaches the first instance only")
	}
}

// ---------- C17.R15: the shutdown test and the hand-over to a shard are one critical section ----------
func init() { addRules("C17", runC17N5HandOverUnderLock) }

func runC17N5HandOverUnderLock(c *Ctx) {
	p := c.P
	c.Rule("R15", "ATOM", "accepting a request and announcing the shutdown exclude each other: the function of the batch processor that tests the shutdown signal and then hands the data on holds the shutdown lock (read side is enough) from before the test until the hand-over has returned – no release in between, directly or in a helper – and the function that closes the shutdown signal does so while it holds that lock exclusively. Otherwise a request passes the test, Shutdown closes the signal, the shard drains and exits, and the request is put into the queue of a shard that nobody reads any more: Consume* returned nil and the data is never emitted", 2)
	pk := p.Pkg("processor/batchprocessor")
	if pk == nil {
		c.Anchor("processor/batchprocessor")
		return
	}
	funcs := p.AllSrcFuncs(pk)
	// the processor: a struct of the package with a channel field that one of its functions closes and a mutex field
	type subject struct {
		T      *types.Named
		chF    string
		closer *ssa.Function
		close  ssa.Instruction
	}
	var subs []subject
	for _, n := range pk.Types.Scope().Names() {
		tn, ok := pk.Types.Scope().Lookup(n).(*types.TypeName)
		if !ok {
			continue
		}
		T, ok := tn.Type().(*types.Named)
		if !ok {
			continue
		}
		st, ok := T.Underlying().(*types.Struct)
		if !ok || len(n5MutexFields(T)) == 0 {
			continue
		}
		for i := 0; i < st.NumFields(); i++ {
			if _, isCh := st.Field(i).Type().Underlying().(*types.Chan); !isCh {
				continue
			}
			for _, fn := range funcs {
				for _, ci := range calls(fn, func(ci ssa.CallInstruction) bool {
					return builtinName(ci) == "close" && len(ci.Common().Args) == 1 && isFieldAccess(ci.Common().Args[0], T, st.Field(i).Name())
				}) {
					subs = append(subs, subject{T, st.Field(i).Name(), fn, ci.(ssa.Instruction)})
				}
			}
		}
	}
	if len(subs) == 0 {
		c.Undecided("shutdown signal of the batch processor", "-", "no struct of the package with a mutex and a channel field that is closed")
		return
	}
	isCtx := func(t types.Type) bool { return typeIs(t, "context", "Context") }
	for _, s := range subs {
		T := s.T
		// tests of the signal: a receive from the channel field (select case or plain receive)
		testsIn := func(fn *ssa.Function) []ssa.Instruction {
			var out []ssa.Instruction
			allInstrs(fn, func(in ssa.Instruction) {
				switch x := in.(type) {
				case *ssa.Select:
					for _, st := range x.States {
						if st.Dir == types.RecvOnly && isFieldAccess(st.Chan, T, s.chF) {
							out = append(out, x)
						}
					}
				case *ssa.UnOp:
					if x.Op == token.ARROW && isFieldAccess(x.X, T, s.chF) {
						out = append(out, x)
					}
				}
			})
			return out
		}
		handOvers := func(fn *ssa.Function) []ssa.Instruction {
			var out []ssa.Instruction
			for _, ci := range calls(fn, func(ci ssa.CallInstruction) bool {
				if _, isCall := ci.(*ssa.Call); !isCall {
					return false
				}
				for _, a := range ci.Common().Args {
					if prm, ok := strip(a).(*ssa.Parameter); ok && prm.Parent() == fn && !isCtx(prm.Type()) && (fn.Signature.Recv() == nil || prm != fn.Params[0]) {
						return true
					}
				}
				return false
			}) {
				out = append(out, ci.(ssa.Instruction))
			}
			return out
		}
		nFwd := 0
		for _, fn := range funcs {
			if fn.Parent() != nil || recvNamedOfFn(fn) != T.Origin() {
				continue
			}
			tests := testsIn(fn)
			// the test may live in a helper of the same type that only answers `shut down?`
			for _, ci := range calls(fn, func(ci ssa.CallInstruction) bool {
				cf := staticCalleeFn(ci)
				return cf != nil && cf != fn && cf.Pkg == fn.Pkg && cf.Blocks != nil && len(testsIn(cf)) > 0 && len(handOvers(cf)) == 0
			}) {
				tests = append(tests, ci.(ssa.Instruction))
			}
			hos := handOvers(fn)
			if len(tests) == 0 || len(hos) == 0 {
				continue
			}
			var pairs [][2]ssa.Instruction
			for _, t := range tests {
				for _, h := range hos {
					if canReach(t, h, nil) {
						pairs = append(pairs, [2]ssa.Instruction{t, h})
					}
				}
			}
			if len(pairs) == 0 {
				continue
			}
			nFwd++
			ok := true
			why := ""
			for _, pr := range pairs {
				held := false
				var rel ssa.Instruction
				for _, lf := range n5MutexFields(T) {
					h, r := n5HeldFromTo(fn, T, lf, []string{"RLock", "Lock"}, pr[0], pr[1])
					if h {
						held = true
					}
					if r != nil {
						rel = r
					}
				}
				if !held {
					ok = false
					if rel != nil {
						why = "the lock is released at " + posOf(p, rel) + ", between the test of the shutdown signal and the hand-over at " + posOf(p, pr[1])
					} else {
						why = "no lock of the processor is taken before the test of the shutdown signal at " + posOf(p, pr[0])
					}
				}
			}
			c.Check(ok, "test of the shutdown signal and hand-over in "+fnName(fn)+" are one critical section of the shutdown lock", p.Pos(fn.Pos()), "lock held from the test to the return of the hand-over", why+": a producer passes the test and is descheduled, Shutdown closes the signal, the shard drains its queue and exits, the producer then sends into the buffered queue of the dead shard – Consume returns nil, the spans are never emitted (with metadata keys a new shard is even started after Shutdown returned)")
		}
		if nFwd == 0 {
			c.Undecided("function of "+T.Obj().Name()+" that tests the shutdown signal and hands the data on", "-", "not found")
		}
		// the closing side
		held := false
		for _, lf := range n5MutexFields(T) {
			if h, _ := n5HeldFromTo(s.closer, T, lf, []string{"Lock"}, s.close, s.close); h {
				held = true
			}
		}
		c.Check(held, "close of the shutdown signal in "+fnName(s.closer)+" happens under the exclusive shutdown lock", p.Pos(s.close.Pos()), "Lock dominates the close, no release in between", "the signal is closed without the exclusive lock: a request that has passed the test (holding the read lock) is not waited for – the shard can drain and exit before that request is handed over")
	}
}

// ---------- C20.R21: a fatal status always reaches the collector ----------
func init() { addRules("C20", runC20N5FatalAlwaysSent) }

func runC20N5FatalAlwaysSent(c *Ctx) {
	p := c.P
	c.Rule("R21", "GATE", "every FatalError status event is forwarded to the collector: in the service host, whether something is sent on the asynchronous error channel is decided by the test `event.Status() == StatusFatalError` alone – not by the event's error value, nor by anything else (R19 demands that WHAT is sent is never nil; this rule demands THAT it is sent). componentstatus.NewEvent(StatusFatalError) is a valid report; if it is not forwarded the component sits in the terminal FatalError status, the watchers are told so, and Run never leaves Running", 1)
	gpk := p.Pkg("service/internal/graph")
	cspk := p.ByPath[pkgCompStatus]
	if gpk == nil || cspk == nil {
		c.Anchor("service/internal/graph, component/componentstatus")
		return
	}
	fatal, haveFatal := int64(0), false
	if k, ok := cspk.Types.Scope().Lookup("StatusFatalError").(*types.Const); ok {
		fatal, haveFatal = constInt64Val(k)
	}
	if !haveFatal {
		c.Anchor("componentstatus.StatusFatalError")
		return
	}
	n := 0
	for _, fn := range p.AllSrcFuncs(gpk) {
		allInstrs(fn, func(in ssa.Instruction) {
			snd, ok := in.(*ssa.Send)
			if !ok {
				return
			}
			ch, ok := snd.Chan.Type().Underlying().(*types.Chan)
			if !ok || !isErrorType(ch.Elem()) {
				return
			}
			n++
			construct := "send on the asynchronous error channel in " + fnName(rootFn(fn)) + " is decided by the event's status alone"
			var ev *ssa.Parameter
			for _, prm := range rootFn(fn).Params {
				if pt, ok := prm.Type().(*types.Pointer); ok && typeIs(pt.Elem(), pkgCompStatus, "Event") {
					ev = prm
				}
			}
			if ev == nil {
				c.Undecided(construct, p.Pos(snd.Pos()), "the function has no status event parameter")
				return
			}
			isEv := func(v ssa.Value) bool {
				v = strip(v)
				if fv, ok := v.(*ssa.FreeVar); ok {
					v = strip(resolveFree(fv))
				}
				return v == ssa.Value(ev)
			}
			isStatus := func(v ssa.Value) bool {
				call, ok := strip(v).(*ssa.Call)
				return ok && isMethod(calleeOf(call), pkgCompStatus, "Event", "Status") && len(call.Call.Args) == 1 && isEv(call.Call.Args[0])
			}
			isFatal := func(v ssa.Value) bool {
				k, ok := constInt(strip(v))
				return ok && k == fatal
			}
			deciders := n5Deciders(snd.Block())
			// a send inside a closure: what decides that the closure is created / run counts as well
			for f := fn; f.Parent() != nil; f = f.Parent() {
				allInstrs(f.Parent(), func(pin ssa.Instruction) {
					if mc, ok := pin.(*ssa.MakeClosure); ok && mc.Fn == ssa.Value(f) {
						deciders = append(deciders, n5Deciders(mc.Block())...)
					}
				})
			}
			gates := 0
			bad, und := "", ""
			for _, d := range deciders {
				op, x, y, ok := cmpOf(Guard{Cond: d.If.Cond, Branch: d.Side, If: d.If})
				if ok && (isStatus(x) && isFatal(y) || isStatus(y) && isFatal(x)) {
					if op == token.EQL {
						gates++
					} else {
						bad = "the send is on the side where the status is NOT FatalError (" + p.Pos(d.If.Pos()) + ")"
					}
					continue
				}
				// anything else that decides the send
				what := "a condition that is not the status test"
				if nm, dep := n5CallOnValue(d.If.Cond, ev); dep {
					what = nm + " of the event"
					if nm != "Err()" && nm != "Status()" && nm != "Timestamp()" {
						und = "the send is decided through " + nm + " (" + p.Pos(d.If.Pos()) + "), which is not followed"
						continue
					}
				}
				bad = "the send also depends on " + what + " (" + p.Pos(d.If.Pos()) + ")"
			}
			switch {
			case bad != "":
				c.Bad(construct, p.Pos(snd.Pos()), bad+": a component reports componentstatus.NewEvent(StatusFatalError) (or NewFatalErrorEvent(nil)) once the collector is Running – the state machine accepts it, the status watchers see FatalError, nothing arrives on the channel and Run stays in Running for ever")
			case und != "":
				c.Undecided(construct, p.Pos(snd.Pos()), und)
			case gates == 0:
				c.Bad(construct, p.Pos(snd.Pos()), "no test of event.Status() against StatusFatalError decides the send")
			default:
				c.OK(construct, p.Pos(snd.Pos()), "Status() == StatusFatalError only")
			}
		})
	}
	if n == 0 {
		c.Undecided("send on the asynchronous error channel", "-", "not found in service/internal/graph")
	}
}

// ---------- C04.R13: a pooled completion object is recycled only by the party that holds it last ----------
func init() { addRules("C04", runC04N5PooledDone) }

func runC04N5PooledDone(c *Ctx) {
	p := c.P
	c.Rule("R13", "OWN", "a completion object that comes from a sync.Pool and carries the result over a channel goes back to the pool only when nobody can still touch it: (a) in a function that WAITS for the result (receives from the object's channel), every Put of the object – direct, deferred or in a deferred closure – lies behind a completed receive, never on the path where the wait was abandoned (context done): the consumer side still holds the object and will send on its channel; (b) in the function that SENDS the result, the object is either handed to the waiter or put back, never both. A recycled object that the batcher still holds is given to the next producer: two requests share one completion object, the later producer reads the stale result and returns before its batch was exported, with the outcome of another batch", 2)
	pk := p.ByPath[pkgQB]
	if pk == nil {
		c.Anchor("exporterhelper/internal/queuebatch")
		return
	}
	funcs := p.AllSrcFuncs(pk)
	isPut := func(ci ssa.CallInstruction) bool {
		return isMethod(calleeOf(ci), "sync", "Pool", "Put") && len(ci.Common().Args) >= 2
	}
	// pooled type with a channel field: from the argument of the Put
	pooled := func(ci ssa.CallInstruction) (*types.Named, []string) {
		a := ci.Common().Args[len(ci.Common().Args)-1]
		X := namedOf(strip(a).Type())
		if X == nil {
			return nil, nil
		}
		st, ok := X.Underlying().(*types.Struct)
		if !ok {
			return nil, nil
		}
		var chs []string
		for i := 0; i < st.NumFields(); i++ {
			if _, isCh := st.Field(i).Type().Underlying().(*types.Chan); isCh {
				chs = append(chs, st.Field(i).Name())
			}
		}
		return X, chs
	}
	// put sites of fn: Put calls / defers in fn, and the call / defer of a closure of fn that contains one
	type putSite struct {
		in  ssa.Instruction
		X   *types.Named
		chs []string
	}
	putSites := func(fn *ssa.Function) []putSite {
		var out []putSite
		for _, ci := range calls(fn, isPut) {
			if X, chs := pooled(ci); X != nil && len(chs) > 0 {
				out = append(out, putSite{ci.(ssa.Instruction), X, chs})
			}
		}
		for _, ci := range calls(fn, func(ci ssa.CallInstruction) bool {
			cf := staticCalleeFn(ci)
			return cf != nil && cf.Parent() == fn
		}) {
			for _, inner := range withAnon(staticCalleeFn(ci)) {
				for _, pc := range calls(inner, isPut) {
					if X, chs := pooled(pc); X != nil && len(chs) > 0 {
						out = append(out, putSite{ci.(ssa.Instruction), X, chs})
					}
				}
			}
		}
		return out
	}
	nWait, nSend := 0, 0
	for _, fn := range funcs {
		if fn.Parent() != nil {
			continue
		}
		puts := putSites(fn)
		if len(puts) == 0 {
			continue
		}
		X, chs := puts[0].X, puts[0].chs
		isCh := func(v ssa.Value) bool {
			for _, f := range chs {
				if isFieldAccess(v, X, f) {
					return true
				}
			}
			return false
		}
		// completed receives: the case blocks of a select's receive on the channel, and plain receives
		var recvBlocks []*ssa.BasicBlock
		var recvInstrs []ssa.Instruction
		var sends []ssa.Instruction
		allInstrs(fn, func(in ssa.Instruction) {
			switch x := in.(type) {
			case *ssa.Select:
				for i, st := range x.States {
					if !isCh(st.Chan) {
						continue
					}
					if st.Dir == types.RecvOnly {
						if x.Blocking && len(x.States) == 1 {
							recvInstrs = append(recvInstrs, x)
						}
						recvBlocks = append(recvBlocks, selectCaseBlocks(fn, x, i)...)
					} else {
						sends = append(sends, x)
					}
				}
			case *ssa.UnOp:
				if x.Op == token.ARROW && isCh(x.X) {
					recvInstrs = append(recvInstrs, x)
				}
			case *ssa.Send:
				if isCh(x.Chan) {
					sends = append(sends, x)
				}
			}
		})
		if len(recvBlocks)+len(recvInstrs) > 0 {
			nWait++
			var bad ssa.Instruction
			for _, ps := range puts {
				after := false
				for _, rb := range recvBlocks {
					if rb == ps.in.Block() || rb.Dominates(ps.in.Block()) {
						after = true
					}
				}
				for _, ri := range recvInstrs {
					if instrDominates(ri, ps.in) {
						after = true
					}
				}
				if !after {
					bad = ps.in
				}
			}
			c.Check(bad == nil, "pooled "+X.Obj().Name()+" in "+fnName(fn)+" goes back to the pool only behind a completed receive of its result", p.Pos(fn.Pos()), fmt.Sprintf("%d put site(s), each behind the receive", len(puts)), "the object is put back at "+posOf(p, bad)+" also when the wait ended without a result (the producer's context was done): the batcher still holds it in the pending batch; wait_for_result, min_size not reached, R1's deadline fires, R2 gets R1's object from the pool – when the batch is flushed two results are written into the 1-slot channel, the second stays behind and the next producer that gets the object returns at once with the stale outcome (nil although its own batch fails)")
		}
		if len(sends) > 0 {
			nSend++
			var bad ssa.Instruction
			for _, ps := range puts {
				for _, s := range sends {
					if canReach(s, ps.in, nil) || canReach(ps.in, s, nil) {
						bad = ps.in
					}
				}
			}
			c.Check(bad == nil, "pooled "+X.Obj().Name()+" in "+fnName(fn)+" is either handed to the waiter or put back", p.Pos(fn.Pos()), "the send and the Put are on different paths", "the object is put back at "+posOf(p, bad)+" on a path that also sends the result to the waiter: the waiter still reads from (and recycles) an object that the pool may already have given to another producer")
		}
	}
	if nWait == 0 {
		c.Undecided("function that waits for the result of a pooled completion object", "-", "not found")
	}
	if nSend == 0 {
		c.Undecided("function that sends the result of a pooled completion object", "-", "not found")
	}
}

// ---------- C04.R14: the progress fallback of a split loop can always take one item ----------
func init() { addRules("C04", runC04N5FallbackUnit) }

func runC04N5FallbackUnit(c *Ctx) {
	p := c.P
	c.Rule("R14", "TERM", "the `send one item alone` fallback of a split loop always extracts something: where a split function calls an extraction with a CONSTANT capacity k and a sizer built on the spot, that sizer charges every indivisible item a constant ≤ k – the method of the sizer's type that the innermost extraction function applies to the element it moves as a whole returns a constant on every path (it does not look at its argument), and the sizer's delta method applied to it returns its argument. A sizer that measures the item's content (samples of a profile, bytes) makes the fallback extract nothing for an item larger than k: the cached size is recomputed to the same value and the loop spins for ever, appending an empty request per turn", 4)
	n := 0
	for _, path := range []string{pkgEH, pkgXEH} {
		pk := p.ByPath[path]
		if pk == nil {
			c.Anchor("package " + relPkg(path))
			continue
		}
		for _, fn := range p.AllSrcFuncs(pk) {
			if fn.Parent() != nil {
				continue
			}
			for _, ci := range calls(fn, func(ci ssa.CallInstruction) bool {
				cf := staticCalleeFn(ci)
				return cf != nil && cf.Pkg != nil && cf.Pkg == fn.Pkg && cf.Parent() == nil
			}) {
				cf := staticCalleeFn(ci)
				var k int64
				haveK := false
				var S *types.Named
				var iface types.Type
				for i, a := range ci.Common().Args {
					if v, ok := constInt(a); ok && i < len(cf.Params) {
						if b, isB := cf.Params[i].Type().Underlying().(*types.Basic); isB && b.Info()&types.IsInteger != 0 {
							k, haveK = v, true
						}
					}
					if mi, ok := a.(*ssa.MakeInterface); ok && i < len(cf.Params) {
						if al, isAlloc := mi.X.(*ssa.Alloc); isAlloc && types.IsInterface(cf.Params[i].Type()) {
							if nt := namedOf(al.Type()); nt != nil {
								if _, isStruct := nt.Underlying().(*types.Struct); isStruct {
									S, iface = nt, cf.Params[i].Type()
								}
							}
						}
					}
				}
				if !haveK || S == nil {
					continue
				}
				n++
				construct := "fallback extraction in " + fnName(fn) + " charges an indivisible item at most its capacity"
				leafM, deltaM, und := n5LeafSizeMethods(cf, iface)
				if und != "" || len(leafM) == 0 {
					if und == "" {
						und = "no size method applied to the element moved by the innermost extraction function"
					}
					c.Undecided(construct, p.Pos(ci.Pos()), und)
					continue
				}
				bad := ""
				ms := types.NewMethodSet(types.NewPointer(S))
				check := func(name string, delta bool) {
					var mf *ssa.Function
					for i := 0; i < ms.Len(); i++ {
						if f, ok := ms.At(i).Obj().(*types.Func); ok && f.Name() == name {
							mf = p.SSAFunc(f)
						}
					}
					if mf == nil || mf.Blocks == nil {
						bad = "method " + name + " of " + S.Obj().Name() + " has no body to look at"
						return
					}
					for _, r := range returnsOf(mf) {
						rs := resultsOf(r)
						if len(rs) != 1 {
							bad = name + " does not return one value"
							continue
						}
						if v, ok := constInt(rs[0]); ok {
							if v > k {
								bad = fmt.Sprintf("%s.%s returns the constant %d, more than the fallback's capacity %d", S.Obj().Name(), name, v, k)
							}
							continue
						}
						if delta {
							if prm, ok := strip(rs[0]).(*ssa.Parameter); ok && prm.Parent() == mf {
								continue
							}
						}
						bad = S.Obj().Name() + "." + name + " computes its result (" + p.Pos(r.Pos()) + ") instead of charging a constant"
					}
				}
				for _, m := range leafM {
					check(m, false)
				}
				for _, m := range deltaM {
					check(m, true)
				}
				c.Check(bad == "", construct, p.Pos(ci.Pos()), fmt.Sprintf("%s: %s constant ≤ %d", S.Obj().Name(), strings.Join(leafM, ", "), k), bad+": the fallback asks for capacity "+fmt.Sprint(k)+" in units of that sizer, so an item that is charged more (a profile with 3 samples and max_size 2) is not extracted either – nothing leaves the request, its size is recomputed to the same value and the split loop never ends")
			}
		}
	}
	if n == 0 {
		c.Undecided("fallback extractions (constant capacity, sizer built on the spot)", "-", "none found")
	}
}

// n5LeafSizeMethods: starting at extraction function root (which takes a sizer of interface type iface), follow the
// calls to functions of the same package that take that sizer too; in the innermost ones (those that call no further
// one) collect the sizer methods applied to the element under consideration (the parameter of the RemoveIf-style
// closure), and the sizer methods applied to the result of such a call (delta).
func n5LeafSizeMethods(root *ssa.Function, iface types.Type) (leaf, delta []string, undecided string) {
	takesSizer := func(f *ssa.Function) bool {
		for _, prm := range f.Params {
			if types.Identical(prm.Type(), iface) {
				return true
			}
		}
		return false
	}
	reach := map[*ssa.Function]bool{}
	callees := map[*ssa.Function][]*ssa.Function{}
	var visit func(f *ssa.Function)
	visit = func(f *ssa.Function) {
		if reach[f] {
			return
		}
		reach[f] = true
		for _, g := range withAnon(f) {
			for _, ci := range calls(g, func(ssa.CallInstruction) bool { return true }) {
				cf := staticCalleeFn(ci)
				if cf == nil || cf.Parent() != nil || cf.Pkg != root.Pkg || cf == f || cf.Blocks == nil || !takesSizer(cf) {
					continue
				}
				callees[f] = append(callees[f], cf)
				visit(cf)
			}
		}
	}
	visit(root)
	lm, dm := map[string]bool{}, map[string]bool{}
	for f := range reach {
		if len(callees[f]) > 0 {
			continue
		}
		found := false
		for _, g := range withAnon(f) {
			if g.Parent() == nil {
				continue
			}
			var sized []ssa.Value
			for _, ci := range calls(g, func(ci ssa.CallInstruction) bool {
				return ci.Common().IsInvoke() && types.Identical(ci.Common().Value.Type(), iface) && len(ci.Common().Args) == 1
			}) {
				if prm, ok := strip(ci.Common().Args[0]).(*ssa.Parameter); ok && prm.Parent() == g {
					lm[ci.Common().Method.Name()] = true
					found = true
					if v, ok := ci.(ssa.Value); ok {
						sized = append(sized, v)
					}
				}
			}
			for _, ci := range calls(g, func(ci ssa.CallInstruction) bool {
				return ci.Common().IsInvoke() && types.Identical(ci.Common().Value.Type(), iface) && len(ci.Common().Args) == 1
			}) {
				for _, sv := range sized {
					if sameValue(ci.Common().Args[0], sv) {
						dm[ci.Common().Method.Name()] = true
					}
				}
			}
		}
		if !found {
			undecided = "innermost extraction function " + fnName(f) + " applies no size method to the element it moves"
		}
	}
	return sortedKeys(lm), sortedKeys(dm), undecided
}
