package main

import (
	"fmt"
	"go/token"
	"go/types"

	"golang.org/x/tools/go/ssa"
)

// Lifecycle bracketing (C11.R6 / C10.R6) and shared component fan-out (C11.R7).

const (
	pkgGraph      = modPrefix + "/service/internal/graph"
	pkgExtensions = modPrefix + "/service/extensions"
	pkgShared     = modPrefix + "/internal/sharedcomponent"
)

// valueIsResultOf: v is the result of call (directly, via Extract, or via a store/load through
// a local or captured variable).
func valueIsResultOf(v ssa.Value, call ssa.CallInstruction) bool {
	cv, ok := call.(ssa.Value)
	if !ok {
		return false
	}
	isRes := func(x ssa.Value) bool {
		x = strip(x)
		if x == cv {
			return true
		}
		if ex, ok := x.(*ssa.Extract); ok && ex.Tuple == cv {
			return true
		}
		return false
	}
	if isRes(v) {
		return true
	}
	v = strip(v)
	if u, ok := v.(*ssa.UnOp); ok && u.Op == token.MUL {
		found := false
		allInstrs(call.Parent(), func(in ssa.Instruction) {
			if s, ok := in.(*ssa.Store); ok && s.Addr == u.X && isRes(s.Val) {
				found = true
			}
		})
		return found
	}
	if phi, ok := v.(*ssa.Phi); ok {
		for _, e := range phi.Edges {
			if isRes(e) {
				return true
			}
		}
	}
	return false
}

// eventKind classifies an event-valued SSA value by its constructor.
func eventKind(v ssa.Value, names map[int64]string) string {
	call, ok := strip(v).(*ssa.Call)
	if !ok {
		return ""
	}
	f := calleeOf(call)
	if f == nil || f.Pkg() == nil || f.Pkg().Path() != pkgCompStatus {
		return ""
	}
	switch f.Name() {
	case "NewEvent":
		if k, ok := constInt(call.Call.Args[0]); ok {
			return names[k]
		}
	case "NewPermanentErrorEvent":
		return "PermanentError"
	case "NewRecoverableErrorEvent":
		return "RecoverableError"
	case "NewFatalErrorEvent":
		return "FatalError"
	}
	return ""
}

type statusReport struct {
	call ssa.CallInstruction
	kind string
	id   ssa.Value // instance id argument (nil for hostWrapper.Report)
	recv ssa.Value
	ev   ssa.Value
	// set by statusReportsA6 (robust_A6.go): the error the event carries, and the nil conditions (in the
	// reporting function's values) under which a helper picks this event / a wrapper makes this report
	errArg ssa.Value
	conds  []nilCondA6
}

func statusReports(fn *ssa.Function, names map[int64]string) []statusReport {
	var out []statusReport
	allInstrs(fn, func(in ssa.Instruction) {
		ci, ok := in.(ssa.CallInstruction)
		if !ok {
			return
		}
		f := calleeOf(ci)
		if f == nil {
			return
		}
		cc := ci.Common()
		args := cc.Args
		var recv ssa.Value
		if cc.IsInvoke() {
			recv = cc.Value
		} else if len(args) > 0 && recvNamed(f) != nil {
			recv = args[0]
			args = args[1:]
		}
		switch {
		case f.Name() == "ReportStatus" && len(args) == 2:
			if k := eventKind(args[1], names); k != "" {
				out = append(out, statusReport{call: ci, kind: k, id: args[0], recv: recv, ev: args[1]})
			}
		case f.Name() == "Report" && len(args) == 1:
			if k := eventKind(args[0], names); k != "" {
				out = append(out, statusReport{call: ci, kind: k, recv: recv, ev: args[0]})
			}
		case f.Name() == "ReportOKIfStarting" && len(args) == 1:
			out = append(out, statusReport{call: ci, kind: "OKIfStarting", id: args[0], recv: recv})
		}
	})
	return out
}

// guardsModuloRecvNil: the extra guards of block b relative to block ref are only nil-tests
// of a field chain ending in the same field as recv (the reporter object itself).
func extraGuardsAreRecvNil(b, ref *ssa.BasicBlock, recv ssa.Value) bool {
	refG := map[*ssa.If]bool{}
	for _, g := range guardsOf(ref) {
		refG[g.If] = true
	}
	_, rpath := fieldChain(recv)
	for _, g := range guardsOf(b) {
		if refG[g.If] {
			continue
		}
		op, x, y, ok := cmpOf(g)
		if !ok || op != token.NEQ {
			return false
		}
		var other ssa.Value
		if isNilConst(y) {
			other = x
		} else if isNilConst(x) {
			other = y
		} else {
			return false
		}
		_, opath := fieldChain(other)
		if len(rpath) == 0 || len(opath) == 0 || rpath[len(rpath)-1] != opath[len(opath)-1] {
			return false
		}
	}
	return true
}

func lifecycleCalls(fn *ssa.Function, name string) []ssa.CallInstruction {
	return calls(fn, func(ci ssa.CallInstruction) bool {
		f := calleeOf(ci)
		if f == nil || f.Name() != name {
			return false
		}
		if !ci.Common().IsInvoke() {
			return false
		}
		return isMethod(f, pkgComponent, "Component", name)
	})
}

// errGuard: does block b carry a guard "result of call ==/!= nil"?
func errGuardOn(b *ssa.BasicBlock, call ssa.CallInstruction, wantNil bool) bool {
	for _, g := range guardsOf(b) {
		op, x, y, ok := cmpOf(g)
		if !ok {
			continue
		}
		var other ssa.Value
		if isNilConst(y) {
			other = x
		} else if isNilConst(x) {
			other = y
		} else {
			continue
		}
		if !valueIsResultOf(other, call) {
			continue
		}
		if wantNil && op == token.EQL || !wantNil && op == token.NEQ {
			return true
		}
	}
	return false
}

func runC11Lifecycle(c *Ctx, names map[int64]string) {
	p := c.P
	c.Rule("R6", "ORD", "every lifecycle site reports Starting (same instance) before Start, a permanent error on the failing side and the conditional OK on the success side; Stopping before Shutdown, Stopped only on its success side, a permanent error on its failing side", 6)
	var fns []*ssa.Function
	for _, path := range []string{pkgGraph, pkgExtensions, pkgShared} {
		pk := p.ByPath[path]
		if pk == nil {
			c.Anchor("package " + relPkg(path))
			continue
		}
		fns = append(fns, p.AllSrcFuncs(pk)...)
	}
	for _, fn := range fns {
		// reports made through same-package wrappers and events picked by helpers count (robust_A6.go)
		reps := statusReportsA6(fn, names)
		for _, call := range lifecycleCalls(fn, "Start") {
			site := "Start site in " + fnName(fn)
			pos := p.Pos(call.Pos())
			var starting *statusReport
			for i := range reps {
				r := &reps[i]
				if r.kind == "Starting" && instrDominates(r.call, call) {
					starting = r
				}
			}
			if starting == nil {
				c.Bad(site+": Starting before Start", pos, "no Starting report dominates the component's Start call")
				continue
			}
			c.OK(site+": Starting before Start", pos, "Starting report dominates Start")
			// failure report
			var fail, okrep *statusReport
			for i := range reps {
				r := &reps[i]
				if r.kind == "PermanentError" && reportOnErrSideA6(r, call, false) {
					fail = r
				}
				if r.kind == "OKIfStarting" && canReach(call, r.call, nil) {
					okrep = r
				}
			}
			if fail == nil {
				c.Bad(site+": PermanentError on failed Start", pos, "no PermanentError report on the err!=nil side of Start")
			} else {
				same := starting.id == nil || sameValue(starting.id, fail.id)
				evErr := fail.errArg != nil && valueIsResultOf(fail.errArg, call)
				c.Check(same && evErr, site+": PermanentError on failed Start", p.Pos(fail.call.Pos()), "reported for the same instance with Start's error", fmt.Sprintf("same instance=%v, carries Start's error=%v", same, evErr))
			}
			if starting.id != nil {
				if okrep == nil {
					c.Bad(site+": ReportOKIfStarting after successful Start", pos, "no ReportOKIfStarting reachable after Start")
				} else {
					notOnFail := !reportOnErrSideA6(okrep, call, false)
					// on the failing side the function must return before OK: OK must not be reachable from the failure report
					if fail != nil && canReach(fail.call, okrep.call, map[ssa.Instruction]bool{call.(ssa.Instruction): true}) {
						notOnFail = false
					}
					c.Check(notOnFail && sameValue(okrep.id, starting.id), site+": ReportOKIfStarting after successful Start", p.Pos(okrep.call.Pos()), "same instance, success side only", "OK is reported on the failing side or for another instance")
				}
			}
		}
		for _, call := range lifecycleCalls(fn, "Shutdown") {
			site := "Shutdown site in " + fnName(fn)
			pos := p.Pos(call.Pos())
			var stopping, stopped, fail *statusReport
			for i := range reps {
				r := &reps[i]
				switch r.kind {
				case "Stopping":
					if canReach(r.call, call, nil) && !canReach(entryOrSelf(fn), call, map[ssa.Instruction]bool{r.call.(ssa.Instruction): true}) {
						stopping = r
					} else if canReach(r.call, call, nil) && extraGuardsAreRecvNil(r.call.Block(), call.Block(), r.recv) {
						stopping = r
					}
				case "Stopped":
					stopped = r
				case "PermanentError":
					if reportOnErrSideA6(r, call, false) {
						fail = r
					}
				}
			}
			if len(reps) == 0 {
				continue // not a status-reporting lifecycle site (e.g. LoadOrStore cleanup)
			}
			c.Check(stopping != nil, site+": Stopping before Shutdown", pos, "Stopping report precedes Shutdown on every path (modulo reporter==nil)", "no Stopping report precedes the component's Shutdown call on every path")
			if stopped == nil {
				c.Bad(site+": Stopped after successful Shutdown", pos, "no Stopped report")
			} else {
				okSide := reportOnErrSideA6(stopped, call, true)
				if !okSide {
					// alternative idiom: failing side `continue`s/returns, Stopped follows unguarded but is
					// unreachable from the failure report without passing the Shutdown call again
					if fail != nil && !canReach(fail.call, stopped.call, map[ssa.Instruction]bool{call.(ssa.Instruction): true}) && canReach(call, stopped.call, nil) {
						// and the only way around fail is err==nil: the fail block is guarded by err!=nil
						okSide = stoppedOnlyAfterNil(stopped.call, call)
					}
				}
				same := stopping == nil || stopping.id == nil || sameValue(stopping.id, stopped.id)
				c.Check(okSide && same, site+": Stopped after successful Shutdown", p.Pos(stopped.call.Pos()), "Stopped is reported only on the err==nil side, same instance", fmt.Sprintf("success-side only=%v, same instance=%v", okSide, same))
			}
			c.Check(fail != nil, site+": PermanentError on failed Shutdown", pos, "reported on err!=nil side", "no PermanentError report on the failing side of Shutdown")
		}
	}

	// R7: shared component host wrapper
	c.Rule("R7", "LOCK+ORD", "the shared component's host wrapper forwards a report to every registered source (loop over all sources, no early exit) and replays remembered events to a late source before appending it, both under the wrapper's lock", 4)
	spk := p.ByPath[pkgShared]
	if spk == nil {
		c.Anchor("package internal/sharedcomponent")
		return
	}
	var hw *types.Named
	for _, n := range spk.Types.Scope().Names() {
		if tn, ok := spk.Types.Scope().Lookup(n).(*types.TypeName); ok {
			if st, ok := tn.Type().Underlying().(*types.Struct); ok {
				hasSources, hasMu := false, false
				for i := 0; i < st.NumFields(); i++ {
					if sl, ok := st.Field(i).Type().Underlying().(*types.Slice); ok && typeIs(sl.Elem(), pkgCompStatus, "Reporter") {
						hasSources = true
					}
					if typeIs(st.Field(i).Type(), "sync", "Mutex") {
						hasMu = true
					}
				}
				if hasSources && hasMu {
					hw, _ = tn.Type().(*types.Named)
				}
			}
		}
	}
	if hw == nil {
		c.Anchor("host wrapper struct (mutex + []componentstatus.Reporter)")
		return
	}
	st := hw.Underlying().(*types.Struct)
	var srcField, muField, ringField string
	for i := 0; i < st.NumFields(); i++ {
		f := st.Field(i)
		if sl, ok := f.Type().Underlying().(*types.Slice); ok && typeIs(sl.Elem(), pkgCompStatus, "Reporter") {
			srcField = f.Name()
		}
		if typeIs(f.Type(), "sync", "Mutex") {
			muField = f.Name()
		}
		if pt, ok := f.Type().(*types.Pointer); ok && typeIs(pt.Elem(), "container/ring", "Ring") {
			ringField = f.Name()
		}
	}
	lc := &LockClass{Name: "hostWrapper.lock", Pkgs: pkgsOf(p, pkgShared),
		Mutexes:    map[fieldKey]bool{{hw, muField}: true},
		Guarded:    map[fieldKey]bool{{hw, srcField}: true, {hw, ringField}: true},
		NotGuarded: map[fieldKey]string{},
		Structs:    []*types.Named{hw},
	}
	reportLock(c, runLock(p, lc), lc)
	// Report: loop over sources calling Report with the parameter event, no early exit
	for _, fn := range p.AllSrcFuncs(spk) {
		if recvNamedOfFn(fn) != hw {
			continue
		}
		sig := fn.Signature
		if fn.Name() == "Report" && sig.Params().Len() == 1 {
			var fwd ssa.CallInstruction
			allInstrs(fn, func(in ssa.Instruction) {
				if ci, ok := in.(ssa.CallInstruction); ok && ci.Common().IsInvoke() && isMethod(ci.Common().Method, pkgCompStatus, "Reporter", "Report") {
					fwd = ci
				}
			})
			if fwd == nil {
				c.Bad("hostWrapper.Report forwards to every source", p.Pos(fn.Pos()), "no forwarding call found")
			} else {
				okRange := rangesOverField(fwd.Common().Value, hw, srcField)
				_, isParam := strip(fwd.Common().Args[0]).(*ssa.Parameter)
				noExit := loopHasOnlyConditionExit(fwd.Block())
				c.Check(okRange && isParam && noExit, "hostWrapper.Report forwards to every source", p.Pos(fwd.Pos()), "ranges over all sources, forwards the reported event, loop has no other exit", fmt.Sprintf("ranges over sources=%v forwards param=%v loop exits only at condition=%v", okRange, isParam, noExit))
			}
		}
		if sig.Params().Len() == 1 && typeIs(sig.Params().At(0).Type(), pkgCompStatus, "Reporter") {
			// addSource: replay (ring.Do) precedes the append store
			var doCall ssa.CallInstruction
			var appendStore *ssa.Store
			allInstrs(fn, func(in ssa.Instruction) {
				if ci, ok := in.(ssa.CallInstruction); ok && isMethod(calleeOf(ci), "container/ring", "Ring", "Do") {
					doCall = ci
				}
				if s, ok := in.(*ssa.Store); ok && isFieldAccess(s.Addr, hw, srcField) {
					appendStore = s
				}
			})
			if doCall == nil || appendStore == nil {
				c.Bad("addSource replays before appending", p.Pos(fn.Pos()), "replay call or append store not found")
			} else {
				c.Check(instrDominates(doCall, appendStore), "addSource replays before appending", p.Pos(doCall.Pos()), "replay dominates the append", "the late source is appended before remembered events are replayed to it (or replay is skipped on some path)")
				// the replay closure reports to the new source
				replayOK := false
				if mc, ok := doCall.Common().Args[len(doCall.Common().Args)-1].(*ssa.MakeClosure); ok {
					cf := mc.Fn.(*ssa.Function)
					allInstrs(cf, func(in ssa.Instruction) {
						if ci, ok := in.(ssa.CallInstruction); ok && ci.Common().IsInvoke() && isMethod(ci.Common().Method, pkgCompStatus, "Reporter", "Report") {
							switch x := strip(ci.Common().Value).(type) {
							case *ssa.FreeVar:
								if _, isP := strip(freeVarBinding(x)).(*ssa.Parameter); isP {
									replayOK = true
								}
							case *ssa.Parameter:
								if x.Parent() == fn {
									replayOK = true
								}
							}
						}
					})
				}
				c.Check(replayOK, "addSource replays to the new source", p.Pos(doCall.Pos()), "closure reports each remembered event to the added source", "replay closure does not report to the added source")
			}
		}
	}
}

func entryOrSelf(fn *ssa.Function) ssa.Instruction { return entryInstr(fn) }

// stoppedOnlyAfterNil: every path from call to target passes through the false side of an
// `err != nil` test on call's result (i.e. target is unreachable via the err!=nil side).
func stoppedOnlyAfterNil(target, call ssa.CallInstruction) bool {
	// find the If on the call's result
	fn := call.Parent()
	var iff *ssa.If
	allInstrs(fn, func(in ssa.Instruction) {
		i, ok := in.(*ssa.If)
		if !ok {
			return
		}
		g := Guard{Cond: i.Cond, Branch: true, If: i}
		op, x, y, ok := cmpOf(g)
		if !ok || (op != token.NEQ && op != token.EQL) {
			return
		}
		var other ssa.Value
		if isNilConst(y) {
			other = x
		} else if isNilConst(x) {
			other = y
		} else {
			return
		}
		if valueIsResultOf(other, call) {
			iff = i
		}
	})
	if iff == nil {
		return false
	}
	g := Guard{Cond: iff.Cond, Branch: true, If: iff}
	op, _, _, _ := cmpOf(g)
	failSucc := iff.Block().Succs[0]
	if op == token.EQL {
		failSucc = iff.Block().Succs[1]
	}
	// target must not be reachable from failSucc without passing through the call again
	cut := map[*ssa.BasicBlock]bool{call.Block(): true}
	r := reachFrom([]*ssa.BasicBlock{failSucc}, cut)
	return !r[target.Block()] && call.Block().Dominates(target.Block()) || (call.Block() == target.Block())
}

func recvNamedOfFn(fn *ssa.Function) *types.Named {
	if fn.Signature.Recv() == nil {
		return nil
	}
	return namedOf(fn.Signature.Recv().Type())
}

// rangesOverField: v is an element obtained by indexing (range) a slice loaded from field.
func rangesOverField(v ssa.Value, typ *types.Named, field string) bool {
	v = strip(v)
	u, ok := v.(*ssa.UnOp)
	if !ok || u.Op != token.MUL {
		return false
	}
	ia, ok := u.X.(*ssa.IndexAddr)
	if !ok {
		return false
	}
	if !isFieldAccess(ia.X, typ, field) {
		return false
	}
	// index must be a loop induction phi (range)
	_, isPhi := ia.Index.(*ssa.Phi)
	if !isPhi {
		if bo, ok := ia.Index.(*ssa.BinOp); ok {
			_, isPhi = bo.X.(*ssa.Phi)
		}
	}
	return isPhi
}

// loopHasOnlyConditionExit: the innermost natural loop containing block b has exactly one
// exit edge and it leaves from the loop header (range/for condition).
func loopHasOnlyConditionExit(b *ssa.BasicBlock) bool {
	hdr, body := innermostLoop(b)
	if hdr == nil {
		return false
	}
	for blk := range body {
		for _, s := range blk.Succs {
			if !body[s] && blk != hdr {
				return false
			}
		}
		// returns/panics inside the body
		if len(blk.Succs) == 0 {
			return false
		}
	}
	return true
}

// innermostLoop finds the smallest natural loop containing b: header h dominates b, there is a
// back edge t->h with t reachable from b.
func innermostLoop(b *ssa.BasicBlock) (*ssa.BasicBlock, map[*ssa.BasicBlock]bool) {
	fn := b.Parent()
	var best *ssa.BasicBlock
	var bestBody map[*ssa.BasicBlock]bool
	for _, h := range fn.Blocks {
		if !(h == b || h.Dominates(b)) {
			continue
		}
		body := map[*ssa.BasicBlock]bool{}
		for _, t := range h.Preds {
			if h == t || h.Dominates(t) {
				// natural loop of back edge t->h
				body[h] = true
				st := []*ssa.BasicBlock{t}
				for len(st) > 0 {
					x := st[len(st)-1]
					st = st[:len(st)-1]
					if body[x] {
						continue
					}
					body[x] = true
					for _, pr := range x.Preds {
						st = append(st, pr)
					}
				}
			}
		}
		if len(body) == 0 || !body[b] {
			continue
		}
		if best == nil || len(body) < len(bestBody) {
			best, bestBody = h, body
		}
	}
	return best, bestBody
}
