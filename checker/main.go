package main

import (
	"encoding/json"
	"fmt"
	"go/token"
	"go/types"
	"os"
	"path/filepath"
	"runtime/debug"
	"sort"
	"strconv"
	"strings"
	"time"

	"golang.org/x/tools/go/ssa"
)

// Property describes one checked property.
type Property struct {
	ID         string
	Run        func(c *Ctx)
	Explain    string
	NotDecided string
	Assumes    []string
	Technique  string
	// MultiConfig: rules touch build-tagged / OS-specific files; thorough re-runs on other configs.
	MultiConfig bool
}

var registry = map[string]*Property{}

func register(p *Property) { registry[p.ID] = p }

func usage() {
	fmt.Fprintln(os.Stderr, "usage: verifcheck <Cxx|all> <quick|thorough> | verifcheck --replay <file> | verifcheck --selftest [Cxx]")
	os.Exit(2)
}

func envOr(k, d string) string {
	if v := os.Getenv(k); v != "" {
		return v
	}
	return d
}

func main() {
	if len(os.Args) < 2 {
		usage()
	}
	repo := envOr("VERIF_REPO", "/repo")
	verifDir := envOr("VERIF_DIR", "/verif")
	seed, _ := strconv.Atoi(os.Getenv("VERIF_SEED"))

	switch os.Args[1] {
	case "--replay":
		if len(os.Args) < 3 {
			usage()
		}
		os.Exit(replay(repo, verifDir, os.Args[2]))
	case "--selftest":
		prop := ""
		if len(os.Args) > 2 {
			prop = os.Args[2]
		}
		res := runSelftest(repo, verifDir, prop, true)
		if len(res.Failed) > 0 {
			os.Exit(2)
		}
		os.Exit(0)
	case "--devsweep":
		devSweep(repo, os.Args[2])
		return
	case "--sibsweep":
		sibSweep(repo)
		return
	case "--list":
		type li struct {
			ID, Explain, NotDecided, Technique string
			Assumes                            []string
		}
		var out []li
		var ids []string
		for id := range registry {
			ids = append(ids, id)
		}
		sort.Strings(ids)
		for _, id := range ids {
			r := registry[id]
			out = append(out, li{r.ID, r.Explain, r.NotDecided, r.Technique, r.Assumes})
		}
		b, _ := json.MarshalIndent(out, "", " ")
		fmt.Println(string(b))
		os.Exit(0)
	case "--mutant":
		// internal: verifcheck --mutant <prop> <mutant-file>
		if len(os.Args) < 4 {
			usage()
		}
		os.Exit(runOneMutant(repo, verifDir, os.Args[2], os.Args[3]))
	}
	if len(os.Args) < 3 {
		usage()
	}
	tier := os.Args[2]
	if tier != "quick" && tier != "thorough" {
		usage()
	}
	var props []string
	if os.Args[1] == "all" {
		for id := range registry {
			props = append(props, id)
		}
		sort.Strings(props)
	} else {
		for _, id := range strings.Split(os.Args[1], ",") {
			if _, ok := registry[id]; !ok {
				fmt.Printf("CHECK-ERROR unknown property %s\n", id)
				os.Exit(2)
			}
			props = append(props, id)
		}
	}
	os.Exit(runProps(repo, verifDir, props, tier, seed))
}

type buildConfig struct{ GOOS, GOARCH, Tags string }

func (b buildConfig) String() string {
	s := b.GOOS + "/" + b.GOARCH
	if b.Tags != "" {
		s += "+" + b.Tags
	}
	return s
}

func runProps(repo, verifDir string, props []string, tier string, seed int) int {
	start := time.Now()
	known, err := loadKnown(filepath.Join(verifDir, "known_findings.json"))
	if err != nil {
		fmt.Printf("CHECK-ERROR known_findings.json: %v\n", err)
		return 2
	}
	configs := []buildConfig{{"linux", "amd64", ""}}
	if tier == "thorough" {
		// every rule is re-evaluated on the other build configurations the repository supports
		// (OS-specific files such as otelcol/collector_windows.go, 32-bit int widths)
		configs = append(configs, buildConfig{"windows", "amd64", ""}, buildConfig{"linux", "386", ""}, buildConfig{"darwin", "arm64", ""})
	}
	results := map[string]*Result{}
	for _, id := range props {
		results[id] = &Result{Prop: id, Tier: tier, Seed: seed, VerifDir: verifDir, Known: known,
			Assumes: registry[id].Assumes, Explain: registry[id].Explain, NotDecided: registry[id].NotDecided}
	}
	for _, bc := range configs {
		p, err := Load(LoadOpts{Repo: repo, GOOS: bc.GOOS, GOARCH: bc.GOARCH, Tags: bc.Tags})
		if err != nil {
			fmt.Printf("CHECK-ERROR load %s: %v\n", bc, err)
			return 2
		}
		nf := 0
		for _, pk := range p.Pkgs {
			nf += len(p.AllSrcFuncs(pk))
		}
		for _, id := range props {
			pr := registry[id]
			c := NewCtx(p, id, tier, bc.String())
			if code := safeRun(pr, c); code != 0 {
				return code
			}
			c.finish()
			r := results[id]
			r.Ctxs = append(r.Ctxs, c)
			r.Pkgs = len(p.Pkgs)
			r.Funcs = nf
			r.Modules = p.Modules
			r.Configs = append(r.Configs, bc.String())
		}
		p = nil
		// analysis caches are keyed by the loaded program: drop them with it
		pdataCache = map[*Prog]*pdataInfo{}
		startupCache = map[*LockClass]map[*ssa.Function]bool{}
		pkgFuncsCache = map[*ssa.Package][]*ssa.Function{}
		pkgFuncsProg = nil
		c20LastEngine = nil
		debug.FreeOSMemory()
	}
	code := 0
	for _, id := range props {
		r := results[id]
		if tier == "thorough" {
			st := runSelftest(repo, verifDir, id, false)
			r.Selftest = &st
		}
		r.Wall = time.Since(start).Seconds()
		if rc := r.Report(); rc > code {
			code = rc
		}
	}
	return code
}

func safeRun(pr *Property, c *Ctx) (code int) {
	defer func() {
		if e := recover(); e != nil {
			fmt.Printf("CHECK-ERROR panic in %s (rule %s): %v\n%s\n", pr.ID, c.cur, e, debug.Stack())
			code = 2
		}
	}()
	pr.Run(c)
	for _, f := range extraRules[pr.ID] {
		f(c)
	}
	return 0
}

func replay(repo, verifDir, path string) int {
	data, err := os.ReadFile(path)
	if err != nil {
		fmt.Printf("CHECK-ERROR %v\n", err)
		return 2
	}
	var rp struct {
		Property  string `json:"property"`
		Rule      string `json:"rule"`
		Construct string `json:"construct"`
	}
	if err := json.Unmarshal(data, &rp); err != nil {
		fmt.Printf("CHECK-ERROR %v\n", err)
		return 2
	}
	pr, ok := registry[rp.Property]
	if !ok {
		fmt.Printf("CHECK-ERROR unknown property %s\n", rp.Property)
		return 2
	}
	p, err := Load(LoadOpts{Repo: repo, GOOS: "linux", GOARCH: "amd64"})
	if err != nil {
		fmt.Printf("CHECK-ERROR load: %v\n", err)
		return 2
	}
	c := NewCtx(p, rp.Property, "quick", "linux/amd64")
	if code := safeRun(pr, c); code != 0 {
		return code
	}
	c.finish()
	found := false
	for _, o := range c.Obs {
		if o.Rule == rp.Rule && o.Construct == rp.Construct {
			found = true
			fmt.Printf("replay %s %q: %s\n    at %s\n    rule: %s\n    detail: %s\n", o.Rule, o.Construct, o.Verdict, o.Pos, c.Rules[o.Rule].Text, o.Detail)
			if o.Verdict != VOK {
				fmt.Printf("VIOLATION property=%s replay=%s\n", rp.Property, path)
				return 1
			}
		}
	}
	if !found {
		fmt.Printf("replay: obligation (%s, %q) no longer exists in the current tree\n", rp.Rule, rp.Construct)
	}
	return 0
}

func sibSweep(repo string) {
	p, err := Load(LoadOpts{Repo: repo, GOOS: "linux", GOARCH: "amd64"})
	if err != nil {
		fmt.Println(err)
		return
	}
	groups := sibGroups(p, sibScopeAll)
	keys := sortedKeys(groups)
	ng, nd := 0, 0
	for _, k := range keys {
		ms := groups[k]
		major, dev := sibDeviants(ms)
		if len(ms) >= 3 {
			ng++
		}
		for _, d := range dev {
			nd++
			a, b := skelDiff(major, d.skel)
			fmt.Printf("DEV %s :: %s (group of %d)\n    majority has %v\n    deviant has  %v\n", k, fnName(d.fn), len(ms), a, b)
		}
	}
	fmt.Printf("groups>=3: %d deviants: %d\n", ng, nd)
}

func devSweep(repo, what string) {
	p, err := Load(LoadOpts{Repo: repo, GOOS: "linux", GOARCH: "amd64"})
	if err != nil {
		fmt.Println(err)
		return
	}
	n := 0
	for _, pk := range p.Pkgs {
		if !strings.HasPrefix(pk.PkgPath, modPrefix) {
			continue
		}
		for _, fn := range p.AllSrcFuncs(pk) {
			switch what {
			case "errassert":
				allInstrs(fn, func(in ssa.Instruction) {
					if ta, ok := in.(*ssa.TypeAssert); ok && isErrorType(ta.X.Type()) {
						n++
						fmt.Printf("%s: %s -> %s\n", p.Pos(ta.Pos()), fnName(fn), ta.AssertedType)
					}
				})
			case "narrowarith":
				allInstrs(fn, func(in ssa.Instruction) {
					cv, ok := in.(*ssa.Convert)
					if !ok {
						return
					}
					to, ok1 := cv.Type().Underlying().(*types.Basic)
					from, ok2 := cv.X.Type().Underlying().(*types.Basic)
					if !ok1 || !ok2 || to.Info()&types.IsInteger == 0 || from.Info()&types.IsInteger == 0 {
						return
					}
					sz := types.SizesFor("gc", "amd64")
					if sz.Sizeof(to) <= sz.Sizeof(from) {
						return
					}
					if bo, ok := cv.X.(*ssa.BinOp); ok && (bo.Op == token.MUL || bo.Op == token.SHL) {
						n++
						fmt.Printf("%s: %s %s(%s %s)\n", p.Pos(cv.Pos()), fnName(fn), to.Name(), from.Name(), bo.Op)
					}
				})
			case "retfield":
				// exported functions returning a slice/map loaded directly from a struct field or global
				if fn.Parent() != nil || fn.Object() == nil || !fn.Object().Exported() {
					continue
				}
				for _, r := range returnsOf(fn) {
					for _, v := range resultsOf(r) {
						switch v.Type().Underlying().(type) {
						case *types.Slice, *types.Map:
						default:
							continue
						}
						if u, ok := v.(*ssa.UnOp); ok && u.Op == token.MUL {
							switch u.X.(type) {
							case *ssa.FieldAddr, *ssa.Global:
								n++
								fmt.Printf("%s: %s returns %s\n", p.Pos(r.Pos()), fnName(fn), u.X)
							}
						}
						if f, ok := v.(*ssa.Field); ok {
							n++
							fmt.Printf("%s: %s returns field %s\n", p.Pos(r.Pos()), fnName(fn), f)
						}
					}
				}
			case "goctx":
				// goroutines started by a Start(ctx, host) method that capture Start's ctx
				r := rootFn(fn)
				if fn.Parent() != nil || r.Name() != "Start" || r.Signature.Recv() == nil || len(r.Params) < 2 || !typeIs(r.Params[1].Type(), "context", "Context") {
					continue
				}
				ctxParam := r.Params[1]
				for _, f := range withAnon(fn) {
					allInstrs(f, func(in ssa.Instruction) {
						g, ok := in.(*ssa.Go)
						if !ok {
							return
						}
						var vals []ssa.Value
						vals = append(vals, g.Call.Args...)
						if mc, ok := g.Call.Value.(*ssa.MakeClosure); ok {
							vals = append(vals, mc.Bindings...)
						}
						for _, v := range vals {
							for s := range backSlice(v) {
								if s == ssa.Value(ctxParam) {
									n++
									fmt.Printf("%s: %s captures Start ctx\n", p.Pos(g.Pos()), fnName(fn))
								}
								if al, ok := s.(*ssa.Alloc); ok {
									if st := singleStore(al); st != nil && st.Val == ssa.Value(ctxParam) {
										n++
										fmt.Printf("%s: %s captures Start ctx (spilled)\n", p.Pos(g.Pos()), fnName(fn))
									}
								}
							}
						}
					})
				}
			}
		}
	}
	fmt.Println("sites:", n)
}
