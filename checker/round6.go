package main

// Rules added in the sixth round (from the seeded changes C*-r6m* and from the
// observations the seeding agents left about the unchanged tree).

import (
	"fmt"
	"go/token"
	"go/types"
	"reflect"
	"strings"

	"golang.org/x/tools/go/ssa"
)

// extraRules: rule groups added after a property's own run function (registered from init functions, so that
// adding a rule does not touch the property's file).
var extraRules = map[string][]func(*Ctx){}

func addRules(prop string, f func(*Ctx)) { extraRules[prop] = append(extraRules[prop], f) }

// fieldAccesses returns the loads and the stores of field f of type T in fn (closures not included).
func fieldAccesses(fn *ssa.Function, T *types.Named, f string) (loads []ssa.Instruction, stores []ssa.Instruction) {
	allInstrs(fn, func(in ssa.Instruction) {
		switch x := in.(type) {
		case *ssa.Store:
			if isFieldAccess(x.Addr, T, f) {
				stores = append(stores, x)
			}
		case *ssa.UnOp:
			if isFieldAccess(x.X, T, f) {
				loads = append(loads, x)
			}
		}
	})
	return
}

// explicitMutexCalls returns the non-deferred calls of method name (Lock / Unlock / RLock / RUnlock) on a
// sync.Mutex / sync.RWMutex that is field lockField of T.
func explicitMutexCalls(fn *ssa.Function, T *types.Named, lockField, name string) []ssa.Instruction {
	var out []ssa.Instruction
	allInstrs(fn, func(in ssa.Instruction) {
		ci, ok := in.(*ssa.Call)
		if !ok {
			return
		}
		f := calleeOf(ci)
		if f == nil || f.Name() != name || f.Pkg() == nil || f.Pkg().Path() != "sync" {
			return
		}
		if len(ci.Call.Args) == 0 || !isFieldAccess(ci.Call.Args[0], T, lockField) {
			return
		}
		out = append(out, ci)
	})
	return out
}

// ---------- C18.R16 / R17 ----------
func runC18Round6(c *Ctx) {
	p := c.P
	pk := p.Pkg("internal/memorylimiter")
	mlT := p.LookupType("internal/memorylimiter", "MemoryLimiter")
	if pk == nil || mlT == nil {
		c.Anchor("internal/memorylimiter.MemoryLimiter")
		return
	}
	st := mlT.Underlying().(*types.Struct)
	lockF, cntF, flagF := "", "", ""
	for i := 0; i < st.NumFields(); i++ {
		f := st.Field(i)
		switch {
		case typeIs(f.Type(), "sync", "Mutex") || typeIs(f.Type(), "sync", "RWMutex"):
			lockF = f.Name()
		case typeIs(f.Type(), "sync/atomic", "Bool"):
			flagF = f.Name()
		}
		if pt, ok := f.Type().(*types.Pointer); ok && typeIs(pt.Elem(), "sync/atomic", "Bool") {
			flagF = f.Name()
		}
	}
	// the counter: the integer field that is both incremented and decremented by methods of the limiter
	funcs := p.AllSrcFuncs(pk)
	for i := 0; i < st.NumFields(); i++ {
		f := st.Field(i)
		if b, ok := f.Type().Underlying().(*types.Basic); !ok || b.Info()&types.IsInteger == 0 {
			continue
		}
		w := 0
		for _, fn := range funcs {
			if recvNamedOfFn(fn) == mlT && len(fieldStores(fn, mlT, f.Name())) > 0 {
				w++
			}
		}
		if w >= 2 {
			cntF = f.Name()
		}
	}
	c.Rule("R16", "ATOM", "the user count is tested and changed in one critical section: in every method of the limiter that reads the reference counter and later writes it, the counter's lock is not released in between – a Start that slips in while the last Shutdown waits for the checker finds a counter that says `already running` and is left without a checker", 1)
	if lockF == "" || cntF == "" {
		c.Anchor("reference counter and its lock in MemoryLimiter")
	} else {
		n := 0
		for _, fn := range funcs {
			if fn.Parent() != nil || recvNamedOfFn(fn) != mlT {
				continue
			}
			loads, stores := fieldAccesses(fn, mlT, cntF)
			if len(loads) == 0 || len(stores) == 0 {
				continue
			}
			n++
			var bad ssa.Instruction
			for _, u := range explicitMutexCalls(fn, mlT, lockF, "Unlock") {
				before, after := false, false
				for _, l := range loads {
					if canReach(l, u, nil) {
						before = true
					}
				}
				for _, s := range stores {
					if canReach(u, s, nil) {
						after = true
					}
				}
				if before && after {
					bad = u
				}
			}
			c.Check(bad == nil, "test and update of the user count in "+fnName(fn)+" are one critical section", p.Pos(fn.Pos()), "no release of the lock between the read and the write", "the lock is released between the test of the counter and its update ("+posOf(p, bad)+"): a Start of another user that arrives while the last Shutdown waits for the checker goroutine sees counter == 1, increments it and starts nothing; the Shutdown then decrements – one user is started and no memory check runs any more")
		}
		if n == 0 {
			c.Undecided("methods that test and update the user count", "-", "not found")
		}
	}

	c.Rule("R17", "WHO", "the refusing mode is decided by a memory check only: the refuse flag is stored only by the function that evaluates a measurement (and by nothing in Start / Shutdown / the constructor with a constant) – another user's Start does not switch a refusing limiter back to accepting", 1)
	if flagF == "" {
		c.Anchor("refuse flag of MemoryLimiter")
		return
	}
	isMeasure := func(f *ssa.Function) bool {
		if f == nil || f.Signature.Results().Len() != 1 {
			return false
		}
		pt, ok := f.Signature.Results().At(0).Type().(*types.Pointer)
		return ok && typeIs(pt.Elem(), "runtime", "MemStats")
	}
	n := 0
	for _, fn := range funcs {
		for _, ci := range callsNamed(fn, func(f *types.Func) bool { return isMethod(f, "sync/atomic", "Bool", "Store") }) {
			if !isFieldAccess(ci.Common().Args[0], mlT, flagF) {
				continue
			}
			n++
			measures := false
			for _, cc := range calls(rootFn(fn), func(ssa.CallInstruction) bool { return true }) {
				if isMeasure(staticCalleeFn(cc)) {
					measures = true
				}
			}
			c.Check(measures, "store of the refuse flag in "+fnName(fn), p.Pos(ci.Pos()), "in the memory check, value computed from the measurement", "the refuse flag is set outside a memory check ("+p.Pos(ci.Pos())+"): with two processors sharing the limiter, a check that turns it to refusing between the first and the second Start is undone by the second Start – data is accepted and forwarded although the last measurement is above the soft limit")
		}
	}
	if n == 0 {
		c.Undecided("stores of the refuse flag", "-", "not found")
	}
}

// ---------- C18.R18: a processor releases the shared limiter only if it holds it ----------
func runC18UserHold(c *Ctx) {
	p := c.P
	c.Rule("R18", "OWN", "a user releases the shared limiter only if it started it: the shutdown hook that a create function of the memory limiter processor registers belongs to an object of that processor instance (allocated in the create function, not the limiter shared through the factory), and it reaches the limiter's Shutdown only behind a test of that instance's own state – the Shutdown of a processor that was never started (the service shuts every component down after a failed start) does not take away the reference of a started one", 4)
	fpk := p.Pkg("processor/memorylimiterprocessor")
	var limShutdown *ssa.Function
	if m := p.LookupMethod("internal/memorylimiter", "MemoryLimiter", "Shutdown"); m != nil {
		limShutdown = p.SSAFunc(m)
	}
	if fpk == nil || limShutdown == nil {
		c.Anchor("processor/memorylimiterprocessor and MemoryLimiter.Shutdown")
		return
	}
	// call sites (in f or in same-package callees) through which f reaches the limiter's Shutdown
	var reach func(f *ssa.Function, depth int, seen map[*ssa.Function]bool) []ssa.CallInstruction
	reach = func(f *ssa.Function, depth int, seen map[*ssa.Function]bool) []ssa.CallInstruction {
		var out []ssa.CallInstruction
		if f == nil || seen[f] || depth > 4 {
			return nil
		}
		seen[f] = true
		for _, ci := range calls(f, func(ssa.CallInstruction) bool { return true }) {
			cf := staticCalleeFn(ci)
			if cf == nil {
				continue
			}
			if originFn(cf) == limShutdown {
				out = append(out, ci)
			} else if cf.Pkg != nil && cf.Pkg == f.Pkg && len(reach(cf, depth+1, seen)) > 0 {
				out = append(out, ci)
			}
		}
		return out
	}
	n := 0
	for _, fn := range p.AllSrcFuncs(fpk) {
		if fn.Parent() != nil {
			continue
		}
		allInstrs(fn, func(in ssa.Instruction) {
			mc, ok := in.(*ssa.MakeClosure)
			if !ok || !flowsToCallNamed(mc, "WithShutdown") {
				return
			}
			f, ok := mc.Fn.(*ssa.Function)
			if !ok {
				return
			}
			n++
			// (a) the receiver is an object of this create call
			fresh := false
			var hook *ssa.Function
			if strings.HasSuffix(f.Name(), "$bound") && len(mc.Bindings) == 1 {
				if _, isAlloc := strip(mc.Bindings[0]).(*ssa.Alloc); isAlloc {
					fresh = true
				}
				// the method behind the bound wrapper
				for _, ci := range calls(f, func(ssa.CallInstruction) bool { return true }) {
					if cf := staticCalleeFn(ci); cf != nil {
						hook = cf
					}
				}
			} else {
				hook = f // a closure of the create function is per call by construction
				fresh = true
			}
			// (b) the limiter's Shutdown is reached only behind a test of the instance's own state
			guarded := hook != nil
			var bad ssa.CallInstruction
			if hook != nil {
				sites := reach(hook, 0, map[*ssa.Function]bool{})
				if len(sites) == 0 {
					guarded = false
				}
				for _, ci := range sites {
					own := false
					for _, cond := range controllingCondsDeep(ci.Block()) {
						for v := range backSlice(cond) {
							if fa, ok := v.(*ssa.FieldAddr); ok && len(hook.Params) > 0 && sameValue(strip(fa.X), hook.Params[0]) {
								own = true
							}
							if fv, ok := v.(*ssa.FreeVar); ok && fv != nil {
								own = true
							}
						}
					}
					if !own {
						guarded = false
						bad = ci
					}
				}
			}
			why := "the hook is a method of the object shared by all processors of the configuration"
			if fresh && !guarded {
				why = "the hook reaches the limiter's Shutdown without a test of its own state"
				if bad != nil {
					why += " (" + p.Pos(bad.Pos()) + ")"
				}
			}
			c.Check(fresh && guarded, "shutdown hook registered by "+fnName(fn)+" releases only its own hold", p.Pos(mc.Pos()), "per-instance object, release behind its own started state", why+": traces and metrics processors of one configuration, Start of the traces one, Shutdown of the never-started metrics one – the shared checker stops (reference count 1 → 0), nothing is refused any more at twice the limit, and the traces processor's own Shutdown returns ErrShutdownNotStarted")
		})
	}
	if n == 0 {
		c.Undecided("shutdown hooks of the memory limiter processor", "-", "none found")
	}
}

// tooLargeRefusal: fn compares a value that does not depend on the queue's current size with the capacity alone
// (x > cap in any normal form), returns a non-nil error on the larger side without reaching any of the `before`
// instructions from there, and evaluates the test before them.
func tooLargeRefusal(fn *ssa.Function, T *types.Named, sizeF string, before []ssa.Instruction) bool {
	isCapName := func(nm string) bool {
		l := strings.ToLower(nm)
		return l == "cap" || l == "capacity"
	}
	isCap := func(v ssa.Value) bool {
		for x := range backSlice(v) {
			if fa, ok := x.(*ssa.FieldAddr); ok && isCapName(derefStruct(fa.X.Type()).Field(fa.Field).Name()) {
				return true
			}
			if f, ok := x.(*ssa.Field); ok && isCapName(derefStruct(f.X.Type()).Field(f.Field).Name()) {
				return true
			}
		}
		return false
	}
	dependsOnSize := func(v ssa.Value) bool {
		for x := range backSlice(v) {
			if fa, ok := x.(*ssa.FieldAddr); ok && isFieldAccess(fa, T, sizeF) {
				return true
			}
		}
		return false
	}
	found := false
	allInstrs(fn, func(in ssa.Instruction) {
		iff, ok := in.(*ssa.If)
		if !ok {
			return
		}
		bo, ok := iff.Cond.(*ssa.BinOp)
		if !ok {
			return
		}
		var big ssa.Value
		side := 0 // successor taken when the request is larger than the capacity
		switch {
		case (bo.Op == token.GTR || bo.Op == token.GEQ) && isCap(bo.Y) && !isCap(bo.X):
			big, side = bo.X, 0
		case (bo.Op == token.LSS || bo.Op == token.LEQ) && isCap(bo.X) && !isCap(bo.Y):
			big, side = bo.Y, 0
		case (bo.Op == token.LEQ || bo.Op == token.LSS) && isCap(bo.Y) && !isCap(bo.X):
			big, side = bo.X, 1
		case (bo.Op == token.GEQ || bo.Op == token.GTR) && isCap(bo.X) && !isCap(bo.Y):
			big, side = bo.Y, 1
		default:
			return
		}
		if dependsOnSize(big) {
			return
		}
		tgt := iff.Block().Succs[side]
		reach := reachFrom([]*ssa.BasicBlock{tgt}, nil)
		for _, w := range before {
			if reach[w.Block()] {
				return
			}
		}
		errRet := false
		for _, r := range returnsOf(fn) {
			if !reach[r.Block()] {
				continue
			}
			rs := resultsOf(r)
			if len(rs) > 0 && !isNilConst(rs[len(rs)-1]) {
				errRet = true
			}
		}
		for _, w := range before {
			if !canReach(iff, w, nil) {
				return
			}
		}
		if errRet {
			found = true
		}
	})
	return found
}

// ---------- C02.R18–R20: freed space reaches every waiter; the persistent queue refuses what can never fit; its
// Shutdown releases the producers ----------
func init() { addRules("C02", runC02Round6) }

func runC02Round6(c *Ctx) {
	p := c.P
	q := findQB(p)
	if q == nil || q.mq == nil || q.pq == nil || q.cond == nil {
		c.Anchor("queuebatch queues")
		return
	}
	lc := queueLockClass(p)
	pk := p.ByPath[pkgQB]
	funcs := p.AllSrcFuncs(pk)
	sizeField := map[*types.Named]string{q.pq: "queueSize", q.mq: "size"}

	c.Rule("R18", "PAIR", "freed space reaches every blocked producer that can use it: a release of queue space (a store that lowers the reported size, outside start-up) wakes ALL producers waiting for space (Broadcast on the space condition; each re-checks under the mutex) – waking one leaves a second small producer asleep next to free capacity, and a woken producer that still does not fit swallows the wake-up a smaller one behind it could have used", 1)
	n := 0
	for _, T := range []*types.Named{q.pq, q.mq} {
		for _, fn := range funcs {
			if recvNamedOfFn(rootFn(fn)) != T.Origin() || fn.Parent() != nil || lcStart(lc, fn) || isStartupFn(p, lc, fn) {
				continue
			}
			one := instrSet(condCalls(fn, T, q.spaceField[T], "Signal"))
			all := instrSet(condCalls(fn, T, q.spaceField[T], "Broadcast"))
			for _, s := range fieldStores(fn, T, sizeField[T]) {
				lowers := false
				if bo, ok := s.Val.(*ssa.BinOp); ok && bo.Op == token.SUB {
					lowers = true
				}
				if k, ok := constInt(s.Val); ok && k == 0 {
					lowers = true
				}
				if _, isPhi := s.Val.(*ssa.Phi); isPhi {
					lowers = true
				}
				if !lowers {
					continue
				}
				n++
				esc, _ := reachesReturnWithout(fn, s, all)
				onlyOne := false
				if esc {
					if e2, _ := reachesReturnWithout(fn, s, one); !e2 {
						onlyOne = true
					}
				}
				if esc && !onlyOne {
					// no wake-up at all on some path: that is C02.R2's report, not this rule's
					c.OK(fmt.Sprintf("space released in %s wakes every waiting producer", fnName(fn)), p.Pos(s.Pos()), "no wake-up on some path (judged by R2)")
					continue
				}
				c.Check(!esc, fmt.Sprintf("space released in %s wakes every waiting producer", fnName(fn)), p.Pos(s.Pos()), "Broadcast on the space condition on every path", "the release wakes one producer only (Signal): capacity 10, A(10) read; W1(1), W2(1) blocked; A done → W1 accepted, W2 stays blocked with 9 free units although every earlier request finished; with X(5), Y(5), W1(8), W2(2): X done wakes W1, which does not fit and waits again behind W2, Y done wakes W2 – nobody wakes W1 when 2+8 ≤ 10")
			}
		}
	}
	if n == 0 {
		c.Undecided("space-releasing stores of the queues", "-", "not found")
	}

	c.Rule("R19", "GATE", "a request that can never fit is refused, not parked: every enqueue function that can wait for space tests the request's size against the capacity alone (size > capacity) before it waits, and returns an error on that side – with block_on_overflow a request larger than the capacity otherwise blocks on an EMPTY queue until its context ends and swallows the wake-ups of the producers behind it", 1)
	n = 0
	for _, T := range []*types.Named{q.pq, q.mq} {
		for _, fn := range funcs {
			if recvNamedOfFn(rootFn(fn)) != T.Origin() || fn.Parent() != nil {
				continue
			}
			waits := condCalls(fn, T, q.spaceField[T], "Wait")
			if len(waits) == 0 {
				continue
			}
			n++
			var waitIns []ssa.Instruction
			for _, w := range waits {
				waitIns = append(waitIns, w.(ssa.Instruction))
			}
			// the test may live in the function itself or further up: every static caller chain (helper → add → Offer)
			// must pass it before the call
			var refused func(g *ssa.Function, before []ssa.Instruction, depth int) bool
			refused = func(g *ssa.Function, before []ssa.Instruction, depth int) bool {
				if tooLargeRefusal(g, T, sizeField[T], before) {
					return true
				}
				if depth >= 3 {
					return false
				}
				callers := 0
				for _, h := range funcs {
					var sites []ssa.Instruction
					for _, ci := range calls(h, func(ci ssa.CallInstruction) bool { return originFn(staticCalleeFn(ci)) == originFn(g) }) {
						sites = append(sites, ci.(ssa.Instruction))
					}
					if len(sites) == 0 {
						continue
					}
					callers++
					if !refused(h, sites, depth+1) {
						return false
					}
				}
				return callers > 0
			}
			found := refused(fn, waitIns, 0)
			c.Check(found, "enqueue function "+fnName(fn)+" refuses a request larger than the capacity before it waits", p.Pos(fn.Pos()), "size > capacity ⇒ error, evaluated before the wait", "no test of the request's size against the capacity alone: capacity 10, block_on_overflow, a request of size 11 offered to the EMPTY queue blocks until its context ends; two such producers take every wake-up and a producer of size 1 behind them starves on an empty queue")
		}
	}
	if n == 0 {
		c.Undecided("enqueue functions that wait for space", "-", "not found")
	}

	c.Rule("R20", "GATE", "a stopped persistent queue accepts nothing and holds nobody: its enqueue reads the stopped flag inside the capacity wait (loop condition or a test behind the wait) and refuses with an error, and Shutdown wakes the producers waiting for space – after Shutdown no consumer frees space any more, a blocked producer would wait until its context ends, and an accepted request would never be handed over in this run (sibling of R15 for the memory queue)", 2)
	T := q.pq
	n = 0
	for _, fn := range funcs {
		if recvNamedOfFn(rootFn(fn)) != T.Origin() || fn.Parent() != nil {
			continue
		}
		if waits := condCalls(fn, T, q.spaceField[T], "Wait"); len(waits) > 0 {
			n++
			reads := false
			for _, b := range fn.Blocks {
				iff, ok := b.Instrs[len(b.Instrs)-1].(*ssa.If)
				if !ok {
					continue
				}
				onStopped := false
				for x := range backSlice(iff.Cond) {
					if fa, ok := x.(*ssa.FieldAddr); ok && isFieldAccess(fa, T, "stopped") {
						onStopped = true
					}
				}
				if !onStopped {
					continue
				}
				// the test is re-evaluated after a wait (it lies on a path from the wait) or it is the loop test of the wait
				for _, w := range waits {
					if canReach(w.(ssa.Instruction), iff, nil) {
						reads = true
					}
				}
			}
			c.Check(reads, "enqueue function "+fnName(fn)+" re-reads the stopped flag after waiting for space", p.Pos(fn.Pos()), "stopped tested behind the wait", "the stopped flag is never read on the way out of the capacity wait: producers blocked by block_on_overflow when Shutdown is called stay blocked until their own context ends, and an Offer after Shutdown is written to storage although nothing will hand it over")
		}
		// Shutdown: the function that stores stopped = true
		for _, s := range fieldStores(fn, T, "stopped") {
			if k, ok := constBool(s.Val); !ok || !k {
				continue
			}
			n++
			all := instrSet(condCalls(fn, T, q.spaceField[T], "Broadcast"))
			esc, _ := reachesReturnWithout(fn, s, all)
			c.Check(!esc, "stop of the persistent queue in "+fnName(fn)+" wakes the producers waiting for space", p.Pos(s.Pos()), "Broadcast on the space condition", "Shutdown wakes the consumers only: capacity 1, block_on_overflow, one stored request, a blocked producer – Shutdown returns and the producer stays blocked until its context ends")
		}
	}
	if n < 2 {
		c.Undecided("persistent queue enqueue wait / stop", "-", fmt.Sprintf("%d found", n))
	}
}

// ---------- C20.R19 / R20 ----------
func init() { addRules("C20", runC20Round6) }

// provablyNonNilErr: v is a freshly built error, or every way v gets its value is one (phi edges taken from the
// non-nil side of a nil test of the edge value count as well); at: the block where v is used.
func provablyNonNilErr(v ssa.Value, at *ssa.BasicBlock, seen map[ssa.Value]bool) bool {
	if seen[v] {
		return true
	}
	seen[v] = true
	switch x := v.(type) {
	case *ssa.MakeInterface:
		return true
	case *ssa.Call:
		if f := calleeOf(x); f != nil {
			switch f.FullName() {
			case "fmt.Errorf", "errors.New":
				return true
			}
		}
	case *ssa.Phi:
		for i, e := range x.Edges {
			pred := x.Block().Preds[i]
			if provablyNonNilErr(e, pred, seen) {
				continue
			}
			return false
		}
		return true
	}
	// guarded by v != nil (dominating guards of the using block, or the using block's own incoming edge test)
	for _, g := range guardsOf(at) {
		if guardIsNilTest(g, v, false) {
			return true
		}
	}
	if len(at.Instrs) > 0 {
		if iff, ok := at.Instrs[len(at.Instrs)-1].(*ssa.If); ok {
			// `if v == nil { v = fresh }`: the edge that skips the assignment leaves the If block on the non-nil side
			if op, a, b, ok := cmpOf(Guard{Cond: iff.Cond, Branch: false, If: iff}); ok && op == token.NEQ && (sameValue(a, v) && isNilConst(b) || sameValue(b, v) && isNilConst(a)) {
				return true
			}
		}
	}
	return false
}

func runC20Round6(c *Ctx) {
	p := c.P
	c.Rule("R19", "PROV", "a fatal report always reaches the collector as an error value: what the service host sends on the asynchronous error channel for a FatalError status event is never nil (an event built without an error gets a descriptive one) – the receivers tell `a fatal error was reported` from the value they receive, a nil received while the service starts is taken for `nothing happened` and the collector goes Running with a component in the terminal FatalError status", 1)
	gpk := p.Pkg("service/internal/graph")
	if gpk == nil {
		c.Anchor("service/internal/graph")
	} else {
		n := 0
		for _, fn := range p.AllSrcFuncs(gpk) {
			allInstrs(fn, func(in ssa.Instruction) {
				snd, ok := in.(*ssa.Send)
				if !ok {
					return
				}
				ch, ok := snd.Chan.Type().Underlying().(*types.Chan)
				if !ok || !isErrorType(ch.Elem()) {
					return
				}
				n++
				c.Check(provablyNonNilErr(snd.X, snd.Block(), map[ssa.Value]bool{}), "value sent on the asynchronous error channel in "+fnName(fn)+" is not nil", p.Pos(snd.Pos()), "fresh error, or sent on the non-nil side", "the event's error is sent as it is: componentstatus.NewEvent(StatusFatalError) carries none, nil goes over the channel, and a component that reports it while the service starts (initial start or reload) is ignored – Run keeps running with the component in FatalError")
			})
		}
		if n == 0 {
			c.Undecided("send on the asynchronous error channel", "-", "not found in service/internal/graph")
		}
	}

	c.Rule("R20", "PAIR", "a run whose first start fails also shuts the configuration providers down: every return of Run that lies behind the first set-up of the service (the call through which the configuration is resolved) and before the control loop passes a call that shuts the configuration provider down – the provider's watcher goroutine and the last Retrieved value are otherwise leaked, although the failed-reload path closes them", 1)
	m := p.LookupMethod("otelcol", "Collector", "Run")
	opk := p.Pkg("otelcol")
	if m == nil || opk == nil {
		c.Anchor("Collector.Run")
		return
	}
	fn := p.SSAFunc(m)
	isProvCall := func(name string) func(ci ssa.CallInstruction) bool {
		return func(ci ssa.CallInstruction) bool {
			f := calleeOf(ci)
			return f != nil && f.Name() == name && strings.Contains(f.FullName(), "ConfigProvider")
		}
	}
	// helpers that shut the provider down on every path / that resolve the configuration (Get), up to two calls deep
	shuts := map[*ssa.Function]bool{}
	gets := map[*ssa.Function]bool{}
	for round := 0; round < 3; round++ {
		for _, g := range p.AllSrcFuncs(opk) {
			if g.Parent() != nil {
				continue
			}
			ps := calls(g, func(ci ssa.CallInstruction) bool {
				if isProvCall("Shutdown")(ci) {
					return true
				}
				sf := staticCalleeFn(ci)
				return sf != nil && shuts[sf]
			})
			if len(ps) > 0 {
				via := map[ssa.Instruction]bool{}
				for _, x := range ps {
					via[x.(ssa.Instruction)] = true
				}
				if esc, _ := reachesReturnWithout(g, nil, via); !esc {
					shuts[g] = true
				}
			}
			if len(calls(g, func(ci ssa.CallInstruction) bool {
				if isProvCall("Get")(ci) {
					return true
				}
				sf := staticCalleeFn(ci)
				return sf != nil && gets[sf]
			})) > 0 {
				gets[g] = true
			}
		}
	}
	via := map[ssa.Instruction]bool{}
	for _, ci := range calls(fn, func(ci ssa.CallInstruction) bool {
		if isProvCall("Shutdown")(ci) {
			return true
		}
		sf := staticCalleeFn(ci)
		return sf != nil && shuts[sf]
	}) {
		via[ci.(ssa.Instruction)] = true
	}
	var sel *ssa.Select
	allInstrs(fn, func(in ssa.Instruction) {
		if s, ok := in.(*ssa.Select); ok && s.Blocking {
			sel = s
		}
	})
	var setups []ssa.CallInstruction
	for _, ci := range calls(fn, func(ci ssa.CallInstruction) bool {
		sf := staticCalleeFn(ci)
		return sf != nil && gets[sf]
	}) {
		if sel == nil || !canReach(sel, ci.(ssa.Instruction), nil) {
			setups = append(setups, ci)
		}
	}
	if len(setups) == 0 || sel == nil {
		c.Undecided("first set-up of the service in Run", p.Pos(fn.Pos()), "not found")
		return
	}
	n := 0
	var bad *ssa.Return
	for _, r := range returnsOf(fn) {
		if canReach(sel, r, nil) {
			continue // behind the loop: R18
		}
		for _, su := range setups {
			if !canReach(su.(ssa.Instruction), r, nil) {
				continue
			}
			n++
			if canReach(su.(ssa.Instruction), r, via) {
				bad = r
			}
		}
	}
	if n > 0 {
		c.Check(bad == nil, "every return of Run between the first set-up and the control loop shuts the providers down", p.Pos(fn.Pos()), fmt.Sprintf("%d returns pass the provider shutdown", n), "the return at "+posOf(p, bad)+" is reached without it: a configuration whose component fails in Start (or an invalid configuration): Run returns the error, the provider's Shutdown was never called, its Retrieved value is not closed and its watcher goroutine is still running")
	}
	if n == 0 {
		c.Undecided("returns of Run between the first set-up and the loop", "-", "none found")
	}
}

// ---------- C10.R12 (known finding D70): the later Start calls of a shared component report its failed Start ----------
func init() { addRules("C10", runC10SharedStartErr) }

func runC10SharedStartErr(c *Ctx) {
	p := c.P
	c.Rule("R12", "PROV", "a failed Start of a shared component is reported to every node that starts it: the wrapped component is started once (sync.Once), so what the later Start calls return is the result of that only Start, kept in the wrapper – not a fresh nil – otherwise the second pipeline's node believes that a component whose Start failed is running", 1)
	pk := p.Pkg("internal/sharedcomponent")
	if pk == nil {
		c.Anchor("internal/sharedcomponent")
		return
	}
	n := 0
	for _, fn := range p.AllSrcFuncs(pk) {
		if fn.Parent() != nil || fn.Name() != "Start" || fn.Signature.Recv() == nil {
			continue
		}
		// the method that starts the wrapped component inside a once: one of its closures is passed to (*sync.Once).Do
		once := false
		for _, cl := range fn.AnonFuncs {
			if passedToOnce(cl) {
				once = true
			}
		}
		if !once {
			continue
		}
		n++
		var bad *ssa.Return
		for _, r := range returnsOf(fn) {
			rs := resultsOf(r)
			if len(rs) != 1 {
				continue
			}
			kept := false
			for v := range backSlice(rs[0]) {
				if fa, ok := v.(*ssa.FieldAddr); ok && len(fn.Params) > 0 && sameValue(strip(fa.X), fn.Params[0]) && isErrorType(derefStruct(fa.X.Type()).Field(fa.Field).Type()) {
					kept = true
				}
			}
			if !kept {
				bad = r
			}
		}
		c.Check(bad == nil, "every Start call of the shared component hands back the result of its only Start", p.Pos(fn.Pos()), "read from an error field of the wrapper", "a returned error is a local of the call (or a constant nil, "+posOf(p, bad)+"): a receiver shared by traces and metrics whose Start fails – the first node's Start returns the error, the second node's Start returns nil")
	}
	if n == 0 {
		c.Undecided("Start of the shared component wrapper", "-", "not found")
	}
}

// ---------- C05.R17: shutdown wins over an elapsed back-off timer ----------
func init() { addRules("C05", runC05StopBeforeAttempt) }

func runC05StopBeforeAttempt(c *Ctx) {
	p := c.P
	c.Rule("R17", "ORD", "no retry attempt is started once the exporter is shutting down: between the back-off wait and the next attempt the retry loop tests the stop channel again without blocking (select with default, or the wait is followed by such a test) – a select whose timer case and stop case are both ready picks one at random, so with a zero or elapsed back-off new attempts would otherwise start after Shutdown has returned", 1)
	pk := p.Pkg("exporter/exporterhelper/internal")
	if pk == nil {
		c.Anchor("exporter/exporterhelper/internal")
		return
	}
	n := 0
	for _, fn := range p.AllSrcFuncs(pk) {
		if fn.Parent() != nil || fn.Signature.Recv() == nil {
			continue
		}
		// the retry loop: a blocking select with a case on the result of time.After (or a timer channel) and a case on a field channel
		var wait *ssa.Select
		var stopField string
		allInstrs(fn, func(in ssa.Instruction) {
			sel, ok := in.(*ssa.Select)
			if !ok || !sel.Blocking {
				return
			}
			timer, fieldCh := false, ""
			for _, st := range sel.States {
				// a timer case: the channel carries time.Time values (time.After, a Timer's or Ticker's C)
				if ch, ok := st.Chan.Type().Underlying().(*types.Chan); ok && typeIs(ch.Elem(), "time", "Time") {
					timer = true
				}
				if u, ok := st.Chan.(*ssa.UnOp); ok {
					if fa, ok := u.X.(*ssa.FieldAddr); ok && len(fn.Params) > 0 && sameValue(strip(fa.X), fn.Params[0]) {
						fieldCh = derefStruct(fa.X.Type()).Field(fa.Field).Name()
					}
				}
			}
			if timer && fieldCh != "" {
				wait, stopField = sel, fieldCh
			}
		})
		if wait == nil {
			continue
		}
		// the attempt: an interface call named Send inside the same loop
		hdr, body := innermostLoop(wait.Block())
		if hdr == nil {
			continue
		}
		var attempts []ssa.Instruction
		for _, ci := range calls(fn, func(ci ssa.CallInstruction) bool { return ci.Common().IsInvoke() && ci.Common().Method.Name() == "Send" }) {
			if body[ci.Block()] || ci.Block() == hdr {
				attempts = append(attempts, ci.(ssa.Instruction))
			}
		}
		if len(attempts) == 0 {
			continue
		}
		n++
		via := map[ssa.Instruction]bool{}
		allInstrs(fn, func(in ssa.Instruction) {
			sel, ok := in.(*ssa.Select)
			if !ok || sel.Blocking {
				return
			}
			for _, st := range sel.States {
				if u, ok := st.Chan.(*ssa.UnOp); ok {
					if fa, ok := u.X.(*ssa.FieldAddr); ok && derefStruct(fa.X.Type()).Field(fa.Field).Name() == stopField {
						via[sel] = true
					}
				}
			}
		})
		ok := true
		for _, a := range attempts {
			if canReach(wait, a, via) {
				ok = false
			}
		}
		c.Check(ok, "retry loop of "+fnName(fn)+" re-tests the stop channel between the wait and the next attempt", p.Pos(wait.Pos()), "non-blocking test of "+stopField+" on every path from the wait to the attempt", "the only test of the stop channel is a case of the waiting select, next to the timer case: with retry_on_failure::initial_interval 0 (accepted by validation) the timer is always ready, select chooses at random, and attempts are started after Shutdown has returned (30 of 50 trials)")
	}
	if n == 0 {
		c.Undecided("retry loop with a back-off wait", "-", "not found")
	}
}

// ---------- C12.R30: a referenced null never enters the hook chain as an untyped nil ----------
func init() { addRules("C12", runC12TypedNil) }

func runC12TypedNil(c *Ctx) {
	p := c.P
	c.Rule("R30", "GATE", "a reference that resolves to null is decoded like a written null, whatever the target: where a decode hook of confmap hands on the zero value of its target type (`reflect.Zero(to).Interface()`), the target is not of interface kind on that path (tested, or the zero value is taken of a pointer type) – the zero value of an interface type is an untyped nil, the next hook receives an invalid reflect.Value and `field: ${env:UNSET}` decoded into an `any` field panics inside Conf.Unmarshal", 1)
	pk := p.Pkg("confmap")
	if pk == nil {
		c.Anchor("confmap")
		return
	}
	n := 0
	for _, fn := range p.AllSrcFuncs(pk) {
		if fn.Parent() == nil || fn.Signature.Results().Len() != 2 {
			continue
		}
		for _, z := range callsNamed(fn, func(f *types.Func) bool { return f.FullName() == "reflect.Zero" }) {
			zc, ok := z.(*ssa.Call)
			if !ok {
				continue
			}
			// does its Interface() reach a return of the hook?
			returned := false
			for _, r := range returnsOf(fn) {
				for _, res := range resultsOf(r) {
					for v := range backSlice(res) {
						if v == ssa.Value(zc) {
							returned = true
						}
					}
				}
			}
			if !returned {
				continue
			}
			n++
			arg := zc.Call.Args[0]
			safe := false
			for v := range backSlice(arg) {
				if cl, ok := v.(*ssa.Call); ok {
					if f := calleeOf(cl); f != nil && (f.FullName() == "reflect.PointerTo" || f.FullName() == "reflect.PtrTo") {
						safe = true
					}
				}
			}
			if !safe {
				// on this path the kind of the target was compared with reflect.Interface and found different
				for _, g := range guardsOf(zc.Block()) {
					op, x, y, ok := cmpOf(g)
					if !ok {
						continue
					}
					isKind := func(v ssa.Value) bool {
						cl, ok := v.(*ssa.Call)
						if !ok {
							return false
						}
						f := calleeOf(cl)
						return f != nil && f.Name() == "Kind"
					}
					isIface := func(v ssa.Value) bool { k, ok := constInt(v); return ok && k == int64(reflect.Interface) }
					if op == token.NEQ && (isKind(x) && isIface(y) || isKind(y) && isIface(x)) {
						safe = true
					}
				}
			}
			c.Check(safe, "zero value handed on by decode hook "+fnName(fn)+" is typed", p.Pos(zc.Pos()), "target not of interface kind on this path", "the zero value of the target type is returned for a referenced null also when the target is an interface: `field: ${env:UNSET}` into `Field any` returns an untyped nil, the next hook calls from.Interface() on an invalid reflect.Value – panic out of Conf.Unmarshal (a written `field:` leaves the field nil)")
		}
	}
	if n == 0 {
		c.Undecided("zero values returned by confmap's decode hooks", "-", "none found")
	}
}

// ---------- C04.R30: configured sizes are not narrowed without saturation ----------
func init() { addRules("C04", runC04NoNarrowing) }

func runC04NoNarrowing(c *Ctx) {
	p := c.P
	c.Rule("R30", "BOUND", "the configured batch limits mean the same on every platform: in the exporter's queue/batch package a 64-bit size is converted to the platform's int only where the value is known to fit (the conversion lies on the not-larger side of a comparison of that value with an upper bound, i.e. it saturates) – validation accepts any non-negative int64, and on a 32-bit target `max_size: 2147483648` otherwise wraps to a negative limit (the split loop appends empty requests until the process is out of memory) and 4294967296 to `no limit`", 1)
	pk := p.Pkg("exporter/exporterhelper/internal/queuebatch")
	if pk == nil {
		c.Anchor("exporter/exporterhelper/internal/queuebatch")
		return
	}
	n := 0
	for _, fn := range p.AllSrcFuncs(pk) {
		allInstrs(fn, func(in ssa.Instruction) {
			cv, ok := in.(*ssa.Convert)
			if !ok {
				return
			}
			from, ok1 := cv.X.Type().Underlying().(*types.Basic)
			to, ok2 := cv.Type().Underlying().(*types.Basic)
			if !ok1 || !ok2 || from.Kind() != types.Int64 || to.Kind() != types.Int {
				return
			}
			if _, isConst := cv.X.(*ssa.Const); isConst {
				return
			}
			// a size: the result reaches a MergeSplit-like call (an int parameter of a request's interface method), a
			// comparison with a size, or is stored into a field – everything but logging; judged for every such conversion
			n++
			safe := false
			for _, g := range guardsOf(cv.Block()) {
				op, x, y, ok := cmpOf(g)
				if !ok {
					continue
				}
				if (op == token.LEQ || op == token.LSS) && sameValue(x, cv.X) || (op == token.GEQ || op == token.GTR) && sameValue(y, cv.X) {
					safe = true
				}
			}
			c.Check(safe, "64-bit size narrowed to int in "+fnName(fn)+" only where it fits", p.Pos(cv.Pos()), "saturating conversion", "int(x) of a configured int64 size without a bound test: GOARCH=386, `max_size: 2147483648` (bytes sizer) becomes −2147483648, every extraction is empty and MergeSplit never terminates; `max_size: 4294967336` becomes a 40-byte limit")
		})
	}
	if n == 0 {
		c.OK("no 64-bit size is narrowed to int in the queue/batch package", "-", "no int(int64) conversion")
	}
}

// ---------- C06.R30 (= C09.R30): a clone is made per mutating consumer ----------
func init() { addRules("C06", runC06ClonePerConsumer); addRules("C09", runC06ClonePerConsumer) }

func runC06ClonePerConsumer(c *Ctx) {
	p := c.P
	c.Rule("R30", "PROV", "every mutating consumer that does not get the original gets a copy of its own: where a fan-out hands a payload to consumers in a loop and that payload is the result of a copying call, the call is made inside the loop (once per consumer) – a copy taken before the loop is shared by all of them, and with three or more mutating consumers one pipeline's processor sees the changes of another's", 1)
	pk := p.Pkg("internal/fanoutconsumer")
	if pk == nil {
		c.Anchor("internal/fanoutconsumer")
		return
	}
	n := 0
	for _, fn := range p.AllSrcFuncs(pk) {
		if fn.Parent() != nil || fn.Signature.Recv() == nil || !strings.HasPrefix(fn.Name(), "Consume") {
			continue
		}
		sites := 0
		var bad ssa.Instruction
		for _, ci := range calls(fn, func(ci ssa.CallInstruction) bool {
			return ci.Common().IsInvoke() && strings.HasPrefix(ci.Common().Method.Name(), "Consume") && len(ci.Common().Args) == 2
		}) {
			hdr, body := innermostLoop(ci.Block())
			if hdr == nil {
				continue
			}
			// the payload handed on is (derived from) the result of a call of this package: a copy
			for v := range backSlice(ci.Common().Args[1]) {
				cl, ok := v.(*ssa.Call)
				if !ok {
					continue
				}
				sf := staticCalleeFn(cl)
				if sf == nil || sf.Pkg == nil || sf.Pkg != fn.Pkg {
					continue
				}
				sites++
				if !(body[cl.Block()] || cl.Block() == hdr) {
					bad = cl
				}
			}
		}
		if sites == 0 {
			continue
		}
		n++
		c.Check(bad == nil, "copies handed to consumers in a loop of "+fnName(fn)+" are made per consumer", p.Pos(fn.Pos()), "the copying call lies inside the loop", "the copy is taken once, before the loop ("+posOf(p, bad)+"), and handed to every consumer of the loop: with three mutating consumers behind one fan-out point the second sees what the first changed")
	}
	if n == 0 {
		c.Undecided("fan-out loops that hand copies to consumers", "-", "none found")
	}
}

// ---------- C09.R31: the cycle search marks a node before it descends ----------
func init() { addRules("C09", runC09MarkBeforeDescend) }

func runC09MarkBeforeDescend(c *Ctx) {
	p := c.P
	c.Rule("R31", "TERM", "the search for the cycle to report terminates on every cyclic configuration: a recursive walk over the component graph that keeps a visited set records the node it is at before it descends into a successor (the update of the set dominates every recursive call) – marking on the way back lets two cycles that share a pipeline send the walk round for ever, and the collector dies with a stack overflow instead of reporting `cycle detected`", 1)
	pk := p.Pkg("service/internal/graph")
	if pk == nil {
		c.Anchor("service/internal/graph")
		return
	}
	n := 0
	for _, fn := range p.AllSrcFuncs(pk) {
		if fn.Parent() == nil {
			continue
		}
		// recursive through the variable that holds the closure: a call whose callee is loaded from a captured variable
		// that the parent stores this very closure into
		var rec []ssa.Instruction
		allInstrs(fn, func(in ssa.Instruction) {
			cl, ok := in.(*ssa.Call)
			if !ok || cl.Call.IsInvoke() {
				return
			}
			u, ok := cl.Call.Value.(*ssa.UnOp)
			if !ok {
				return
			}
			fv, ok := u.X.(*ssa.FreeVar)
			if !ok {
				return
			}
			if b := freeVarBinding(fv); b != nil {
				if al, ok := b.(*ssa.Alloc); ok && al.Referrers() != nil {
					for _, r := range *al.Referrers() {
						if st, ok := r.(*ssa.Store); ok {
							if mc, ok := st.Val.(*ssa.MakeClosure); ok && mc.Fn == ssa.Value(fn) {
								rec = append(rec, cl)
							}
						}
					}
				}
			}
		})
		if len(rec) == 0 {
			continue
		}
		var marks []ssa.Instruction
		allInstrs(fn, func(in ssa.Instruction) {
			if mu, ok := in.(*ssa.MapUpdate); ok {
				if k, ok := constBool(mu.Value); ok && k {
					marks = append(marks, mu)
				}
			}
		})
		if len(marks) == 0 {
			continue // no visited set: not this kind of walk
		}
		n++
		ok := true
		for _, r := range rec {
			dom := false
			for _, m := range marks {
				if instrDominates(m, r) {
					dom = true
				}
			}
			if !dom {
				ok = false
			}
		}
		c.Check(ok, "recursive graph walk "+fnName(fn)+" marks a node before it descends", p.Pos(fn.Pos()), "the visited-set update dominates the recursive calls", "the node is recorded only after its successors were walked: two connector cycles that share a pipeline make the walk recurse without bound (fatal error: stack overflow) where `cycle detected` should be returned")
	}
	if n == 0 {
		c.Undecided("recursive walk with a visited set in the graph package", "-", "not found")
	}
}

// ---------- C16.R30: static headers are set behind the compressor ----------
func init() { addRules("C16", runC16HeadersBehindCompression) }

func runC16HeadersBehindCompression(c *Ctx) {
	p := c.P
	c.Rule("R30", "ORD", "what the client labels as compressed is compressed: in the construction of the HTTP client the compressing round tripper is wrapped AROUND the one that sets the configured static headers (the header round tripper is part of what the compressor forwards to), so the headers are applied to the request the compressor produced – the other way round a configured `Content-Encoding` header reaches the compressor's `already encoded` safeguard first, the body goes out uncompressed under a compressed label and the server rejects or mis-decodes it", 1)
	pk := p.Pkg("config/confighttp")
	if pk == nil {
		c.Anchor("config/confighttp")
		return
	}
	n := 0
	for _, fn := range p.AllSrcFuncs(pk) {
		if fn.Parent() != nil {
			continue
		}
		// the header wrapper: an allocated struct of this package with a map-of-headers field and a RoundTrip method;
		// the compressor: a call of a package function that takes a RoundTripper and a compression type
		var hdrAllocs []*ssa.Alloc
		allInstrs(fn, func(in ssa.Instruction) {
			al, ok := in.(*ssa.Alloc)
			if !ok {
				return
			}
			st := derefStruct(al.Type())
			if st == nil || namedOf(al.Type().(*types.Pointer).Elem()) == nil {
				return
			}
			hasMap, hasRT := false, false
			for i := 0; i < st.NumFields(); i++ {
				if _, ok := st.Field(i).Type().Underlying().(*types.Map); ok {
					hasMap = true
				}
				if typeIs(st.Field(i).Type(), "net/http", "RoundTripper") {
					hasRT = true
				}
			}
			ms := types.NewMethodSet(al.Type())
			if hasMap && hasRT && ms.Lookup(nil, "RoundTrip") != nil {
				hdrAllocs = append(hdrAllocs, al)
			}
		})
		var comp []*ssa.Call
		for _, ci := range calls(fn, func(ci ssa.CallInstruction) bool {
			sf := staticCalleeFn(ci)
			if sf == nil || sf.Pkg == nil || sf.Pkg != fn.Pkg || sf.Signature.Params().Len() < 2 {
				return false
			}
			if !typeIs(sf.Signature.Params().At(0).Type(), "net/http", "RoundTripper") {
				return false
			}
			for i := 1; i < sf.Signature.Params().Len(); i++ {
				if nt := namedOf(sf.Signature.Params().At(i).Type()); nt != nil && strings.Contains(nt.Obj().Pkg().Path(), "configcompression") {
					return true
				}
			}
			return false
		}) {
			if cl, ok := ci.(*ssa.Call); ok {
				comp = append(comp, cl)
			}
		}
		if len(hdrAllocs) == 0 || len(comp) == 0 {
			continue
		}
		n++
		ok := true
		for _, cl := range comp {
			inner := false
			for v := range backSlice(cl.Call.Args[0]) {
				for _, al := range hdrAllocs {
					if v == ssa.Value(al) {
						inner = true
					}
				}
			}
			if !inner {
				ok = false
			}
		}
		c.Check(ok, "compressor built in "+fnName(fn)+" wraps the static-header round tripper", p.Pos(fn.Pos()), "the header wrapper is inside what the compressor forwards to", "the header wrapper is put around the compressor: `compression: gzip` with a static header `Content-Encoding: gzip` (redundant but harmless before) makes the compressor skip the body – gzip/zlib/deflate requests are answered 400, zstd/snappy/lz4 fail in the handler; a configured Host header is lost as well")
	}
	if n == 0 {
		c.Undecided("client construction with header and compression wrappers", "-", "not found")
	}
}

// ---------- C16.R31: the client compresses the whole body ----------
func init() { addRules("C16", runC16WholeBodyCompressed) }

func runC16WholeBodyCompressed(c *Ctx) {
	p := c.P
	c.Rule("R31", "GATE", "the compressing round tripper compresses the body it was given, all of it: where it cuts the request body to a declared length (io.LimitReader / io.CopyN / a LimitedReader on the way to the compressor) it does so only on the side where that length is known to be positive – Content-Length −1 means `unknown` (a streamed body, a request forwarded by a reverse proxy), a limit of −1 reads nothing, an empty stream is compressed and sent with a correct Content-Encoding, and the server answers 200 for a body that was silently lost", 1)
	pk := p.Pkg("config/confighttp")
	if pk == nil {
		c.Anchor("config/confighttp")
		return
	}
	n := 0
	for _, fn := range p.AllSrcFuncs(pk) {
		if fn.Parent() != nil || fn.Name() != "RoundTrip" || fn.Signature.Recv() == nil {
			continue
		}
		// the compressing one: it reads the request's Body and its receiver type has a field of a compressor type
		st := derefStruct(fn.Signature.Recv().Type())
		if st == nil {
			continue
		}
		isComp := false
		for i := 0; i < st.NumFields(); i++ {
			if nt := namedOf(st.Field(i).Type()); nt != nil && strings.Contains(strings.ToLower(nt.Obj().Name()), "compress") {
				isComp = true
			}
			if pt, ok := st.Field(i).Type().(*types.Pointer); ok {
				if nt := namedOf(pt.Elem()); nt != nil && strings.Contains(strings.ToLower(nt.Obj().Name()), "compress") {
					isComp = true
				}
			}
		}
		if !isComp {
			continue
		}
		n++
		var bad ssa.Instruction
		for _, ci := range callsNamed(fn, func(f *types.Func) bool {
			return f.FullName() == "io.LimitReader" || f.FullName() == "io.CopyN"
		}) {
			// the limit
			lim := ci.Common().Args[len(ci.Common().Args)-1]
			if f := calleeOf(ci); f != nil && f.FullName() == "io.CopyN" {
				lim = ci.Common().Args[2]
			}
			pos := false
			for _, g := range guardsOf(ci.Block()) {
				op, x, y, ok := cmpOf(g)
				if !ok {
					continue
				}
				k := func(v ssa.Value) (int64, bool) { return constInt(v) }
				if (op == token.GTR || op == token.GEQ) && sameValue(x, lim) {
					if kv, ok := k(y); ok && (kv > 0 || op == token.GTR && kv == 0) {
						pos = true
					}
				}
				if (op == token.LSS || op == token.LEQ) && sameValue(y, lim) {
					if kv, ok := k(x); ok && (kv > 0 || op == token.LSS && kv == 0) {
						pos = true
					}
				}
			}
			if !pos {
				bad = ci.(ssa.Instruction)
			}
		}
		c.Check(bad == nil, "body compressed by "+fnName(fn)+" is not cut to an unknown length", p.Pos(fn.Pos()), "no length limit, or only where the length is positive", "the body is limited to the declared Content-Length ("+posOf(p, bad)+") on a side where it can be −1 (unknown): a streamed request is compressed as empty and the whole payload is lost while the server answers 200")
	}
	if n == 0 {
		c.Undecided("compressing round tripper", "-", "not found")
	}
}

// ---------- C15.R30: the gRPC server of the receiver stops gracefully ----------
func init() { addRules("C15", runC15GracefulStop) }

func runC15GracefulStop(c *Ctx) {
	p := c.P
	c.Rule("R30", "WHO", "a request that the consumer accepted is answered with success also while the receiver shuts down: the OTLP receiver stops its gRPC server with GracefulStop (in-flight calls are answered) – a hard Stop is made only in a function that has asked for the graceful stop first; with a hard stop the consumer gets the data, the exporter sees `Unavailable: error reading from server: EOF` (retryable) and sends it again", 1)
	pk := p.Pkg("receiver/otlpreceiver")
	if pk == nil {
		c.Anchor("receiver/otlpreceiver")
		return
	}
	isSrv := func(f *types.Func, name string) bool {
		return f != nil && f.Name() == name && recvNamed(f) != nil && recvNamed(f).Obj().Name() == "Server" && recvNamed(f).Obj().Pkg() != nil && recvNamed(f).Obj().Pkg().Path() == "google.golang.org/grpc"
	}
	graceful, n := 0, 0
	for _, fn := range p.AllSrcFuncs(pk) {
		g := callsNamed(fn, func(f *types.Func) bool { return isSrv(f, "GracefulStop") })
		graceful += len(g)
		for _, h := range callsNamed(fn, func(f *types.Func) bool { return isSrv(f, "Stop") }) {
			n++
			c.Check(len(callsNamed(rootFn(fn), func(f *types.Func) bool { return isSrv(f, "GracefulStop") })) > 0 || len(g) > 0, "hard stop of the gRPC server in "+fnName(fn)+" follows a graceful one", p.Pos(h.Pos()), "GracefulStop in the same function", "the server is stopped with Stop only: a request that is inside the next consumer when Shutdown is called is accepted by the consumer and reported to the sender as a retryable transport error")
		}
	}
	if n == 0 {
		c.Check(graceful > 0, "the receiver stops its gRPC server gracefully", "-", fmt.Sprintf("%d GracefulStop call(s), no hard Stop", graceful), "no GracefulStop call found in the OTLP receiver")
	}
}

// ---------- C05.R18: the last flush is not bound to the shutdown context ----------
func init() { addRules("C05", runC05FlushCtxNotShutdownCtx) }

func runC05FlushCtxNotShutdownCtx(c *Ctx) {
	p := c.P
	c.Rule("R18", "DEP", "a retry that shutdown interrupts ends with a shutdown-classified error: the context under which the batcher's last flush (and the retries below it) runs does not derive from the context given to Shutdown – the retry loop tests the context's deadline before the stop channel, so a shutdown deadline shorter than the next back-off turns the interruption into `request will be cancelled before next retry`, a final failure, and the persistent queue deletes the batch", 1)
	pk := p.Pkg("exporter/exporterhelper/internal/queuebatch")
	if pk == nil {
		c.Anchor("exporter/exporterhelper/internal/queuebatch")
		return
	}
	n := 0
	for _, fn := range p.AllSrcFuncs(pk) {
		if fn.Parent() != nil || fn.Name() != "Shutdown" || fn.Signature.Recv() == nil || len(fn.Params) != 2 {
			continue
		}
		// batchers: the receiver type has a field holding a pending batch (a pointer to a struct with a context field)
		st := derefStruct(fn.Signature.Recv().Type())
		if st == nil {
			continue
		}
		hasBatch := false
		for i := 0; i < st.NumFields(); i++ {
			if bs := derefStruct(st.Field(i).Type()); bs != nil {
				for j := 0; j < bs.NumFields(); j++ {
					if typeIs(bs.Field(j).Type(), "context", "Context") {
						hasBatch = true
					}
				}
			}
		}
		if !hasBatch {
			continue
		}
		n++
		ctxParam := fn.Params[1]
		var bad ssa.Instruction
		for _, g := range withAnon(fn) {
			allInstrs(g, func(in ssa.Instruction) {
				var vals []ssa.Value
				switch x := in.(type) {
				case *ssa.Store:
					if typeIs(x.Val.Type(), "context", "Context") {
						vals = append(vals, x.Val)
					}
				case ssa.CallInstruction:
					// a context handed to a method of the batcher itself (flush …)
					if sf := staticCalleeFn(x); sf != nil && sf.Pkg == fn.Pkg && sf.Signature.Recv() != nil {
						for _, a := range x.Common().Args {
							if typeIs(a.Type(), "context", "Context") {
								vals = append(vals, a)
							}
						}
					}
				}
				for _, v := range vals {
					for w := range backSlice(v) {
						if w == ssa.Value(ctxParam) || loadsParam(w, ctxParam) {
							bad = in
						}
					}
				}
			})
		}
		c.Check(bad == nil, "the last flush of "+fnName(fn)+" does not run under the shutdown context", p.Pos(fn.Pos()), "no context derived from Shutdown's parameter is stored or handed to the flush", "a context derived from the one given to Shutdown is attached to the pending batch ("+posOf(p, bad)+"): persistent queue, retry enabled, failing backend, Shutdown(ctx) with a deadline shorter than the next back-off – the retry gives up with a non-shutdown error and the queue deletes the batch; after the restart it is gone")
	}
	if n == 0 {
		c.Undecided("Shutdown of a batcher with a pending batch", "-", "not found")
	}
}
