package main

// Rules added in the sixth round (from the seeded changes C*-r6m* and from the
// observations the seeding agents left about the unchanged tree).

import (
	"go/types"
	"strings"

	"golang.org/x/tools/go/ssa"
)

// fieldAccesses returns the loads and the stores of field f of type T in fn (closures not included).
func fieldAccesses(fn *ssa.Function, T *types.Named, f string) (loads []ssa.Instruction, stores []ssa.Instruction) {
	allInstrs(fn, func(in ssa.Instruction) {
		switch x := in.(type) {
		case *ssa.Store:
			if isFieldAccess(x.Addr, T, f) {
				stores = append(stores, x)
			}
		case *ssa.UnOp:
			if isFieldAccess(x.X, T, f) {
				loads = append(loads, x)
			}
		}
	})
	return
}

// explicitMutexCalls returns the non-deferred calls of method name (Lock / Unlock / RLock / RUnlock) on a
// sync.Mutex / sync.RWMutex that is field lockField of T.
func explicitMutexCalls(fn *ssa.Function, T *types.Named, lockField, name string) []ssa.Instruction {
	var out []ssa.Instruction
	allInstrs(fn, func(in ssa.Instruction) {
		ci, ok := in.(*ssa.Call)
		if !ok {
			return
		}
		f := calleeOf(ci)
		if f == nil || f.Name() != name || f.Pkg() == nil || f.Pkg().Path() != "sync" {
			return
		}
		if len(ci.Call.Args) == 0 || !isFieldAccess(ci.Call.Args[0], T, lockField) {
			return
		}
		out = append(out, ci)
	})
	return out
}

// ---------- C18.R16 / R17 ----------
func runC18Round6(c *Ctx) {
	p := c.P
	pk := p.Pkg("internal/memorylimiter")
	mlT := p.LookupType("internal/memorylimiter", "MemoryLimiter")
	if pk == nil || mlT == nil {
		c.Anchor("internal/memorylimiter.MemoryLimiter")
		return
	}
	st := mlT.Underlying().(*types.Struct)
	lockF, cntF, flagF := "", "", ""
	for i := 0; i < st.NumFields(); i++ {
		f := st.Field(i)
		switch {
		case typeIs(f.Type(), "sync", "Mutex") || typeIs(f.Type(), "sync", "RWMutex"):
			lockF = f.Name()
		case typeIs(f.Type(), "sync/atomic", "Bool"):
			flagF = f.Name()
		}
		if pt, ok := f.Type().(*types.Pointer); ok && typeIs(pt.Elem(), "sync/atomic", "Bool") {
			flagF = f.Name()
		}
	}
	// the counter: the integer field that is both incremented and decremented by methods of the limiter
	funcs := p.AllSrcFuncs(pk)
	for i := 0; i < st.NumFields(); i++ {
		f := st.Field(i)
		if b, ok := f.Type().Underlying().(*types.Basic); !ok || b.Info()&types.IsInteger == 0 {
			continue
		}
		w := 0
		for _, fn := range funcs {
			if recvNamedOfFn(fn) == mlT && len(fieldStores(fn, mlT, f.Name())) > 0 {
				w++
			}
		}
		if w >= 2 {
			cntF = f.Name()
		}
	}
	c.Rule("R16", "ATOM", "the user count is tested and changed in one critical section: in every method of the limiter that reads the reference counter and later writes it, the counter's lock is not released in between – a Start that slips in while the last Shutdown waits for the checker finds a counter that says `already running` and is left without a checker", 2)
	if lockF == "" || cntF == "" {
		c.Anchor("reference counter and its lock in MemoryLimiter")
	} else {
		n := 0
		for _, fn := range funcs {
			if fn.Parent() != nil || recvNamedOfFn(fn) != mlT {
				continue
			}
			loads, stores := fieldAccesses(fn, mlT, cntF)
			if len(loads) == 0 || len(stores) == 0 {
				continue
			}
			n++
			var bad ssa.Instruction
			for _, u := range explicitMutexCalls(fn, mlT, lockF, "Unlock") {
				before, after := false, false
				for _, l := range loads {
					if canReach(l, u, nil) {
						before = true
					}
				}
				for _, s := range stores {
					if canReach(u, s, nil) {
						after = true
					}
				}
				if before && after {
					bad = u
				}
			}
			c.Check(bad == nil, "test and update of the user count in "+fnName(fn)+" are one critical section", p.Pos(fn.Pos()), "no release of the lock between the read and the write", "the lock is released between the test of the counter and its update ("+posOf(p, bad)+"): a Start of another user that arrives while the last Shutdown waits for the checker goroutine sees counter == 1, increments it and starts nothing; the Shutdown then decrements – one user is started and no memory check runs any more")
		}
		if n == 0 {
			c.Undecided("methods that test and update the user count", "-", "not found")
		}
	}

	c.Rule("R17", "WHO", "the refusing mode is decided by a memory check only: the refuse flag is stored only by the function that evaluates a measurement (and by nothing in Start / Shutdown / the constructor with a constant) – another user's Start does not switch a refusing limiter back to accepting", 1)
	if flagF == "" {
		c.Anchor("refuse flag of MemoryLimiter")
		return
	}
	isMeasure := func(f *ssa.Function) bool {
		if f == nil || f.Signature.Results().Len() != 1 {
			return false
		}
		pt, ok := f.Signature.Results().At(0).Type().(*types.Pointer)
		return ok && typeIs(pt.Elem(), "runtime", "MemStats")
	}
	n := 0
	for _, fn := range funcs {
		for _, ci := range callsNamed(fn, func(f *types.Func) bool { return isMethod(f, "sync/atomic", "Bool", "Store") }) {
			if !isFieldAccess(ci.Common().Args[0], mlT, flagF) {
				continue
			}
			n++
			measures := false
			for _, cc := range calls(rootFn(fn), func(ssa.CallInstruction) bool { return true }) {
				if isMeasure(staticCalleeFn(cc)) {
					measures = true
				}
			}
			c.Check(measures, "store of the refuse flag in "+fnName(fn), p.Pos(ci.Pos()), "in the memory check, value computed from the measurement", "the refuse flag is set outside a memory check ("+p.Pos(ci.Pos())+"): with two processors sharing the limiter, a check that turns it to refusing between the first and the second Start is undone by the second Start – data is accepted and forwarded although the last measurement is above the soft limit")
		}
	}
	if n == 0 {
		c.Undecided("stores of the refuse flag", "-", "not found")
	}
}

// ---------- C18.R18: a processor releases the shared limiter only if it holds it ----------
func runC18UserHold(c *Ctx) {
	p := c.P
	c.Rule("R18", "OWN", "a user releases the shared limiter only if it started it: the shutdown hook that a create function of the memory limiter processor registers belongs to an object of that processor instance (allocated in the create function, not the limiter shared through the factory), and it reaches the limiter's Shutdown only behind a test of that instance's own state – the Shutdown of a processor that was never started (the service shuts every component down after a failed start) does not take away the reference of a started one", 4)
	fpk := p.Pkg("processor/memorylimiterprocessor")
	var limShutdown *ssa.Function
	if m := p.LookupMethod("internal/memorylimiter", "MemoryLimiter", "Shutdown"); m != nil {
		limShutdown = p.SSAFunc(m)
	}
	if fpk == nil || limShutdown == nil {
		c.Anchor("processor/memorylimiterprocessor and MemoryLimiter.Shutdown")
		return
	}
	// call sites (in f or in same-package callees) through which f reaches the limiter's Shutdown
	var reach func(f *ssa.Function, depth int, seen map[*ssa.Function]bool) []ssa.CallInstruction
	reach = func(f *ssa.Function, depth int, seen map[*ssa.Function]bool) []ssa.CallInstruction {
		var out []ssa.CallInstruction
		if f == nil || seen[f] || depth > 4 {
			return nil
		}
		seen[f] = true
		for _, ci := range calls(f, func(ssa.CallInstruction) bool { return true }) {
			cf := staticCalleeFn(ci)
			if cf == nil {
				continue
			}
			if originFn(cf) == limShutdown {
				out = append(out, ci)
			} else if cf.Pkg != nil && cf.Pkg == f.Pkg && len(reach(cf, depth+1, seen)) > 0 {
				out = append(out, ci)
			}
		}
		return out
	}
	n := 0
	for _, fn := range p.AllSrcFuncs(fpk) {
		if fn.Parent() != nil {
			continue
		}
		allInstrs(fn, func(in ssa.Instruction) {
			mc, ok := in.(*ssa.MakeClosure)
			if !ok || !flowsToCallNamed(mc, "WithShutdown") {
				return
			}
			f, ok := mc.Fn.(*ssa.Function)
			if !ok {
				return
			}
			n++
			// (a) the receiver is an object of this create call
			fresh := false
			var hook *ssa.Function
			if strings.HasSuffix(f.Name(), "$bound") && len(mc.Bindings) == 1 {
				if _, isAlloc := strip(mc.Bindings[0]).(*ssa.Alloc); isAlloc {
					fresh = true
				}
				// the method behind the bound wrapper
				for _, ci := range calls(f, func(ssa.CallInstruction) bool { return true }) {
					if cf := staticCalleeFn(ci); cf != nil {
						hook = cf
					}
				}
			} else {
				hook = f // a closure of the create function is per call by construction
				fresh = true
			}
			// (b) the limiter's Shutdown is reached only behind a test of the instance's own state
			guarded := hook != nil
			var bad ssa.CallInstruction
			if hook != nil {
				sites := reach(hook, 0, map[*ssa.Function]bool{})
				if len(sites) == 0 {
					guarded = false
				}
				for _, ci := range sites {
					own := false
					for _, cond := range controllingCondsDeep(ci.Block()) {
						for v := range backSlice(cond) {
							if fa, ok := v.(*ssa.FieldAddr); ok && len(hook.Params) > 0 && sameValue(strip(fa.X), hook.Params[0]) {
								own = true
							}
							if fv, ok := v.(*ssa.FreeVar); ok && fv != nil {
								own = true
							}
						}
					}
					if !own {
						guarded = false
						bad = ci
					}
				}
			}
			why := "the hook is a method of the object shared by all processors of the configuration"
			if fresh && !guarded {
				why = "the hook reaches the limiter's Shutdown without a test of its own state"
				if bad != nil {
					why += " (" + p.Pos(bad.Pos()) + ")"
				}
			}
			c.Check(fresh && guarded, "shutdown hook registered by "+fnName(fn)+" releases only its own hold", p.Pos(mc.Pos()), "per-instance object, release behind its own started state", why+": traces and metrics processors of one configuration, Start of the traces one, Shutdown of the never-started metrics one – the shared checker stops (reference count 1 → 0), nothing is refused any more at twice the limit, and the traces processor's own Shutdown returns ErrShutdownNotStarted")
		})
	}
	if n == 0 {
		c.Undecided("shutdown hooks of the memory limiter processor", "-", "none found")
	}
}
