package main

import (
	"fmt"
	"go/token"
	"go/types"
	"strings"

	"golang.org/x/tools/go/ssa"
)

// ---------- R6: protobuf decoding never keeps a reference into its input buffer ----------
//
// Every Unmarshal([]byte) method of the generated messages and of the hand-written ID types may read the
// buffer, hand sub-slices to other calls (nested Unmarshal – checked by the same rule –, append's variadic
// operand, copy's source, string conversion), but a sub-slice of the parameter must never be stored, boxed into
// an interface, appended *to*, or returned: the decoded payload would change when the caller reuses its buffer.

func runC08NoAlias(c *Ctx) {
	p := c.P
	c.Rule("R6", "OWN", "no protobuf Unmarshal keeps a reference into its input: a sub-slice of the []byte parameter is only read, converted to string, copied from, passed to append as the appended operand or handed to another call – never stored, boxed, appended to or returned", 60)
	for _, pk := range p.Pkgs {
		if !strings.Contains(pk.PkgPath, "/pdata/internal/data") {
			continue
		}
		for _, fn := range p.AllSrcFuncs(pk) {
			if fn.Parent() != nil || fn.Signature.Recv() == nil || !strings.HasPrefix(fn.Name(), "Unmarshal") || len(fn.Params) < 2 {
				continue
			}
			var buf *ssa.Parameter
			for _, prm := range fn.Params[1:] {
				if sl, ok := prm.Type().Underlying().(*types.Slice); ok {
					if b, ok := sl.Elem().Underlying().(*types.Basic); ok && b.Kind() == types.Uint8 {
						buf = prm
					}
				}
			}
			if buf == nil {
				continue
			}
			// alias closure: the parameter, re-slices, phis
			alias := map[ssa.Value]bool{buf: true}
			var bad ssa.Instruction
			why := ""
			work := []ssa.Value{buf}
			for len(work) > 0 {
				v := work[len(work)-1]
				work = work[:len(work)-1]
				refs := v.Referrers()
				if refs == nil {
					continue
				}
				for _, r := range *refs {
					switch x := r.(type) {
					case *ssa.Slice:
						if x.X == v && !alias[x] {
							alias[x] = true
							work = append(work, x)
						}
					case *ssa.Phi:
						if !alias[x] {
							alias[x] = true
							work = append(work, x)
						}
					case *ssa.Store:
						if x.Val == v {
							// spill of the parameter itself into a local (closure capture) is followed; anything else is a leak
							if al, ok := x.Addr.(*ssa.Alloc); ok && !al.Heap {
								for _, rr := range *al.Referrers() {
									if u, ok := rr.(*ssa.UnOp); ok && u.Op == token.MUL && !alias[u] {
										alias[u] = true
										work = append(work, u)
									}
								}
								continue
							}
							bad, why = x, "stored"
						}
					case *ssa.MakeInterface:
						bad, why = x, "boxed into an interface"
					case *ssa.Return:
						bad, why = x, "returned"
					case *ssa.ChangeType, *ssa.Convert:
						// string(b) copies; a conversion to another slice type keeps the alias
						cv := r.(ssa.Value)
						if b, ok := cv.Type().Underlying().(*types.Basic); ok && b.Info()&types.IsString != 0 {
							continue
						}
						if !alias[cv] {
							alias[cv] = true
							work = append(work, cv)
						}
					case *ssa.Call:
						if builtinName(x) == "append" && len(x.Call.Args) > 0 && x.Call.Args[0] == v {
							bad, why = x, "used as the destination of append"
						}
					case *ssa.MapUpdate, *ssa.Send:
						bad, why = x, "stored"
					}
				}
			}
			c.Check(bad == nil, fnName(fn)+" does not retain its input buffer", p.Pos(fn.Pos()), fmt.Sprintf("%d sub-slices of the parameter, all only read/copied", len(alias)-1),
				fmt.Sprintf("a sub-slice of the input buffer is %s at %s: the decoded payload aliases the caller's buffer and changes when the buffer is reused (decode ≠ original after the fact)", why, posOf(p, bad)))
		}
	}
}

// ---------- R7: scratch buffers of packed varint fields cover the longest encoding ----------

func runC08Packed(c *Ctx) {
	p := c.P
	c.Rule("R7", "BOUND", "in the generated marshalers every scratch buffer `make([]byte, len(field)*K)` for a packed varint field has K ≥ the longest varint of the element type (10 bytes for int32 – negative values are sign-extended –, int64, uint64 and enums; 5 for uint32)", 9)
	for _, pk := range p.Pkgs {
		if !strings.Contains(pk.PkgPath, "/pdata/internal/data/protogen") {
			continue
		}
		for _, fn := range p.AllSrcFuncs(pk) {
			if !strings.HasPrefix(fn.Name(), "Marshal") {
				continue
			}
			n := 0
			allInstrs(fn, func(in ssa.Instruction) {
				mk, ok := in.(*ssa.MakeSlice)
				if !ok {
					return
				}
				bo, ok := mk.Len.(*ssa.BinOp)
				if !ok || bo.Op != token.MUL {
					return
				}
				lenV, kV := bo.X, bo.Y
				if _, ok := constInt(lenV); ok {
					lenV, kV = kV, lenV
				}
				k, ok := constInt(kV)
				call, isCall := lenV.(*ssa.Call)
				if !ok || !isCall || builtinName(call) != "len" {
					return
				}
				sl, ok := call.Call.Args[0].Type().Underlying().(*types.Slice)
				if !ok {
					return
				}
				b, ok := sl.Elem().Underlying().(*types.Basic)
				if !ok {
					return
				}
				n++
				need := int64(10)
				switch b.Kind() {
				case types.Uint32:
					need = 5
				case types.Bool:
					need = 1
				}
				c.Check(k >= need, fmt.Sprintf("packed scratch buffer #%d in %s (element %s)", n, fnName(fn), sl.Elem()), p.Pos(mk.Pos()), fmt.Sprintf("K=%d ≥ %d", k, need),
					fmt.Sprintf("K=%d < %d: a value with the longest encoding (e.g. a negative int32) writes past the scratch buffer and Marshal panics, although Size() promises the larger size", k, need))
			})
		}
	}
}

// ---------- R8: enum names are looked up by presence, not by value ----------

func runC08EnumLookup(c *Ctx) {
	p := c.P
	c.Rule("R8", "DEP", "the JSON enum reader decides `unknown name` from the presence flag of the name table lookup (comma-ok), never from the looked-up number: zero-valued names (…_UNSPECIFIED, STATUS_CODE_UNSET) are legal", 1)
	fn := p.LookupFunc("pdata/internal/json", "ReadEnumValue")
	if fn == nil {
		c.Anchor("pdata/internal/json.ReadEnumValue")
		return
	}
	sf := p.SSAFunc(fn)
	if sf == nil {
		c.Anchor("SSA of ReadEnumValue")
		return
	}
	var lookups []*ssa.Lookup
	allInstrs(sf, func(in ssa.Instruction) {
		if l, ok := in.(*ssa.Lookup); ok {
			if _, isMap := l.X.Type().Underlying().(*types.Map); isMap {
				lookups = append(lookups, l)
			}
		}
	})
	if len(lookups) == 0 {
		c.Undecided("name table lookup in ReadEnumValue", p.Pos(sf.Pos()), "no map lookup found")
		return
	}
	for i, l := range lookups {
		okForm := l.CommaOk
		// no branch may depend on the looked-up number
		valueBranch := false
		if okForm {
			for _, r := range *l.Referrers() {
				if ex, ok := r.(*ssa.Extract); ok && ex.Index == 0 {
					for _, rr := range *ex.Referrers() {
						if bo, ok := rr.(*ssa.BinOp); ok {
							for _, r3 := range *bo.Referrers() {
								if _, isIf := r3.(*ssa.If); isIf {
									valueBranch = true
								}
							}
						}
					}
				}
			}
		}
		// the presence flag guards the error report
		guarded := false
		if okForm {
			for _, ci := range callsNamed(sf, func(f *types.Func) bool { return f.Name() == "ReportError" }) {
				for _, g := range guardsOf(ci.Block()) {
					if v, br := boolOf(g); v != nil && !br {
						if ex, ok := v.(*ssa.Extract); ok && ex.Tuple == ssa.Value(l) && ex.Index == 1 {
							guarded = true
						}
					}
				}
			}
		}
		c.Check(okForm && guarded && !valueBranch, fmt.Sprintf("name lookup #%d in %s", i+1, fnName(sf)), p.Pos(l.Pos()), "comma-ok lookup; ReportError on the !ok side; no branch on the number",
			"the reader does not decide `unknown name` from the lookup's presence flag: a legal zero-valued enum name (SPAN_KIND_UNSPECIFIED, STATUS_CODE_UNSET, …) is rejected or an unknown name accepted, so name and number spellings disagree")
	}
}
