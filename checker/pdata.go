package main

import (
	"go/token"
	"go/types"
	"strings"

	"golang.org/x/tools/go/packages"
	"golang.org/x/tools/go/ssa"
)

// Shared machinery for the pdata properties (C07, C08): wrapper types, payload-root
// resolution, write/assert effects with summaries.

const (
	pkgPdata         = modPrefix + "/pdata"
	pkgPdataInternal = modPrefix + "/pdata/internal"
)

var pdataPkgRels = []string{"pdata/pcommon", "pdata/plog", "pdata/pmetric", "pdata/ptrace", "pdata/pprofile",
	"pdata/plog/plogotlp", "pdata/pmetric/pmetricotlp", "pdata/ptrace/ptraceotlp", "pdata/pprofile/pprofileotlp"}

type pdataInfo struct {
	p         *Prog
	pkgs      []*packages.Package // API packages
	internal  *packages.Package
	all       []*packages.Package // API + internal
	funcs     []*ssa.Function     // all source functions of `all`
	inScope   map[*ssa.Function]bool
	wrappers  map[*types.Named]bool
	writeSum  map[*ssa.Function]map[int]bool // params through which f writes payload without own dominating assert
	assertSum map[*ssa.Function]map[int]bool // params whose state f asserts in its entry block
	retSum    map[*ssa.Function]int          // wrapper-returning function: index of the param its result's orig derives from (-1 none/fresh, -2 unknown)
	busy      map[*ssa.Function]bool
}

func isWrapperStruct(t types.Type) bool {
	st, ok := t.Underlying().(*types.Struct)
	if !ok || st.NumFields() != 2 {
		return false
	}
	var hasOrig, hasState bool
	for i := 0; i < 2; i++ {
		f := st.Field(i)
		if f.Name() == "orig" {
			if _, ok := f.Type().(*types.Pointer); ok {
				hasOrig = true
			}
		}
		if f.Name() == "state" {
			if pt, ok := f.Type().(*types.Pointer); ok && typeIs(pt.Elem(), pkgPdataInternal, "State") {
				hasState = true
			}
		}
	}
	return hasOrig && hasState
}

var pdataCache = map[*Prog]*pdataInfo{}

func loadPdata(p *Prog) *pdataInfo {
	if pi, ok := pdataCache[p]; ok {
		return pi
	}
	pi := &pdataInfo{p: p, inScope: map[*ssa.Function]bool{}, wrappers: map[*types.Named]bool{},
		writeSum: map[*ssa.Function]map[int]bool{}, assertSum: map[*ssa.Function]map[int]bool{}, retSum: map[*ssa.Function]int{}, busy: map[*ssa.Function]bool{}}
	for _, rel := range pdataPkgRels {
		if pk := p.Pkg(rel); pk != nil {
			pi.pkgs = append(pi.pkgs, pk)
		}
	}
	pi.internal = p.ByPath[pkgPdataInternal]
	pi.all = append(pi.all, pi.pkgs...)
	if pi.internal != nil {
		pi.all = append(pi.all, pi.internal)
	}
	for _, pk := range pi.all {
		for _, n := range pk.Types.Scope().Names() {
			if tn, ok := pk.Types.Scope().Lookup(n).(*types.TypeName); ok && !tn.IsAlias() {
				if nn, ok := tn.Type().(*types.Named); ok && isWrapperStruct(nn) {
					pi.wrappers[nn] = true
				}
			}
		}
	}
	pi.funcs = p.AllSrcFuncs(pi.all...)
	for _, f := range pi.funcs {
		pi.inScope[f] = true
	}
	pdataCache[p] = pi
	return pi
}

func (pi *pdataInfo) isWrapperType(t types.Type) bool {
	n := namedOf(t)
	if n == nil {
		return false
	}
	if _, isPtr := t.(*types.Pointer); isPtr {
		return false
	}
	return pi.wrappers[n]
}

// resolveWrapper follows a wrapper-typed value back to where its orig comes from:
// a Parameter/FreeVar binding (the wrapper itself), or – through constructor calls and accessor
// summaries – the wrapper it was derived from. Returns nil when fresh/unknown.
func (pi *pdataInfo) resolveWrapper(v ssa.Value, depth int) ssa.Value {
	if depth > 24 || v == nil {
		return nil
	}
	v = strip(v)
	switch x := v.(type) {
	case *ssa.Parameter:
		return x
	case *ssa.FreeVar:
		if b := freeVarBinding(x); b != nil {
			return pi.resolveWrapper(b, depth+1)
		}
		return x
	case *ssa.Convert:
		return pi.resolveWrapper(x.X, depth+1)
	case *ssa.Alloc:
		// spilled wrapper: single store handled by strip; otherwise local
		return nil
	case *ssa.Phi:
		for _, e := range x.Edges {
			if r := pi.resolveWrapper(e, depth+1); r != nil {
				return r
			}
		}
		return nil
	case *ssa.Call:
		cf := staticCalleeFn(x)
		if cf == nil || !pi.inScope[cf] {
			return nil
		}
		idx := pi.returnsDerivedFrom(cf)
		if idx >= 0 && idx < len(x.Call.Args) {
			arg := x.Call.Args[idx]
			if pi.isWrapperType(arg.Type()) {
				return pi.resolveWrapper(arg, depth+1)
			}
			// pointer argument (constructor newX(orig, state)): follow the address
			return pi.origRoot(arg, depth+1)
		}
		return nil
	case *ssa.Extract:
		// wrapper taken out of a multi-result call (v, ok := m.Get(k))
		call, ok := x.Tuple.(*ssa.Call)
		if !ok {
			return nil
		}
		cf := staticCalleeFn(call)
		if cf == nil || !pi.inScope[cf] {
			return nil
		}
		idx := pi.returnsDerivedFromN(cf, x.Index)
		if idx >= 0 && idx < len(call.Call.Args) {
			arg := call.Call.Args[idx]
			if pi.isWrapperType(arg.Type()) {
				return pi.resolveWrapper(arg, depth+1)
			}
			return pi.origRoot(arg, depth+1)
		}
		return nil
	case *ssa.UnOp:
		if x.Op == token.MUL {
			// load of a wrapper from memory (e.g. captured variable): unknown
			return nil
		}
	case *ssa.MakeInterface, *ssa.ChangeType:
		return nil
	}
	return nil
}

// returnsDerivedFrom: for a function returning a wrapper (or pointer) whose orig derives from
// one of its parameters on every return: that parameter's index. -1 fresh/none, -2 unknown.
func (pi *pdataInfo) returnsDerivedFrom(f *ssa.Function) int {
	if f.Signature.Results().Len() != 1 {
		return -1
	}
	return pi.returnsDerivedFromN(f, 0)
}

type retKey struct {
	f *ssa.Function
	i int
}

var retSumN = map[retKey]int{}
var retSumNOwner *pdataInfo

// returnsDerivedFromN: the same for result number ri of a multi-result function (e.g. Map.Get).
func (pi *pdataInfo) returnsDerivedFromN(f *ssa.Function, ri int) int {
	if retSumNOwner != pi {
		retSumNOwner = pi
		retSumN = map[retKey]int{}
	}
	if r, ok := retSumN[retKey{f, ri}]; ok {
		return r
	}
	if pi.busy[f] {
		return -2
	}
	pi.busy[f] = true
	defer delete(pi.busy, f)
	res := -1
	if ri >= f.Signature.Results().Len() || len(f.Blocks) == 0 {
		retSumN[retKey{f, ri}] = -1
		return -1
	}
	first := true
	for _, r := range returnsOf(f) {
		rs := resultsOf(r)
		if ri >= len(rs) {
			continue
		}
		v := rs[ri]
		var root ssa.Value
		sv := strip(v)
		// struct literal of a wrapper: built in an Alloc then loaded, or as a value via field stores
		if pi.isWrapperType(sv.Type()) {
			root = pi.wrapperLiteralOrig(sv)
			if root == nil {
				root = pi.resolveWrapper(sv, 1)
			}
		} else if _, isPtr := sv.Type().(*types.Pointer); isPtr {
			root = pi.origRoot(sv, 1)
		}
		idx := -1
		if pa, ok := root.(*ssa.Parameter); ok && pa.Parent() == f {
			for i, q := range f.Params {
				if q == pa {
					idx = i
				}
			}
		}
		if idx == -1 && root == nil && ri > 0 || idx == -1 && root == nil && f.Signature.Results().Len() > 1 {
			// a fresh / zero wrapper on one return of a multi-result function (`return Value{}, false`) is neutral:
			// writes through the result can still reach the parameter's payload on the other returns
			continue
		}
		if first {
			res = idx
			first = false
		} else if res != idx {
			res = -2
		}
	}
	retSumN[retKey{f, ri}] = res
	return res
}

// wrapperLiteralOrig: v is a load of a local struct literal W{orig: o, state: s}; returns the
// root of o.
func (pi *pdataInfo) wrapperLiteralOrig(v ssa.Value) ssa.Value {
	u, ok := v.(*ssa.UnOp)
	if !ok || u.Op != token.MUL {
		return nil
	}
	a, ok := u.X.(*ssa.Alloc)
	if !ok || a.Referrers() == nil {
		return nil
	}
	for _, r := range *a.Referrers() {
		fa, ok := r.(*ssa.FieldAddr)
		if !ok || fa.Referrers() == nil {
			continue
		}
		st := derefStruct(fa.X.Type())
		if st == nil || st.Field(fa.Field).Name() != "orig" {
			continue
		}
		for _, rr := range *fa.Referrers() {
			if s, ok := rr.(*ssa.Store); ok && s.Addr == fa {
				return pi.origRoot(s.Val, 1)
			}
		}
	}
	return nil
}

// origRoot climbs an address/pointer expression to the wrapper (or pointer parameter) whose
// payload it points into. nil: local / fresh / unknown.
func (pi *pdataInfo) origRoot(v ssa.Value, depth int) ssa.Value {
	if depth > 24 || v == nil {
		return nil
	}
	switch x := v.(type) {
	case *ssa.FieldAddr:
		st := derefStruct(x.X.Type())
		if st != nil && pi.isWrapperTypeOrPtr(x.X.Type()) {
			// address of a field of a (spilled) wrapper struct itself: local
			return nil
		}
		return pi.origRoot(x.X, depth+1)
	case *ssa.Field:
		if pi.isWrapperType(x.X.Type()) {
			st := derefStruct(x.X.Type())
			if st.Field(x.Field).Name() == "orig" {
				return pi.resolveWrapper(x.X, depth+1)
			}
			return nil
		}
		return pi.origRoot(x.X, depth+1)
	case *ssa.IndexAddr:
		return pi.origRoot(x.X, depth+1)
	case *ssa.Index:
		return pi.origRoot(x.X, depth+1)
	case *ssa.Slice:
		return pi.origRoot(x.X, depth+1)
	case *ssa.ChangeType:
		return pi.origRoot(x.X, depth+1)
	case *ssa.Convert:
		return pi.origRoot(x.X, depth+1)
	case *ssa.MakeInterface:
		return pi.origRoot(x.X, depth+1)
	case *ssa.TypeAssert:
		return pi.origRoot(x.X, depth+1)
	case *ssa.Extract:
		return pi.origRoot(x.Tuple, depth+1)
	case *ssa.Lookup:
		return pi.origRoot(x.X, depth+1)
	case *ssa.UnOp:
		if x.Op != token.MUL {
			return nil
		}
		// load through a pointer: where does the pointer live?
		if fa, ok := x.X.(*ssa.FieldAddr); ok && pi.isWrapperTypeOrPtr(fa.X.Type()) {
			st := derefStruct(fa.X.Type())
			if st.Field(fa.Field).Name() == "orig" {
				// orig pointer loaded from a wrapper in memory (spilled receiver)
				if a, ok := fa.X.(*ssa.Alloc); ok {
					if s := singleStore(a); s != nil {
						return pi.resolveWrapper(s.Val, depth+1)
					}
					return nil
				}
				if fv, ok := fa.X.(*ssa.FreeVar); ok {
					if b := freeVarBinding(fv); b != nil {
						if a, ok := b.(*ssa.Alloc); ok {
							if s := singleStore(a); s != nil {
								return pi.resolveWrapper(s.Val, depth+1)
							}
						}
					}
					return nil
				}
				return pi.origRoot(fa.X, depth+1)
			}
			return nil
		}
		if a, ok := x.X.(*ssa.Alloc); ok {
			if s := singleStore(a); s != nil {
				return pi.origRoot(s.Val, depth+1)
			}
			return nil
		}
		if fv, ok := x.X.(*ssa.FreeVar); ok {
			if b := freeVarBinding(fv); b != nil {
				if a, ok := b.(*ssa.Alloc); ok {
					if s := singleStore(a); s != nil {
						return pi.origRoot(s.Val, depth+1)
					}
				}
			}
			return nil
		}
		return pi.origRoot(x.X, depth+1)
	case *ssa.Phi:
		for _, e := range x.Edges {
			if r := pi.origRoot(e, depth+1); r != nil {
				return r
			}
		}
		return nil
	case *ssa.Parameter:
		if pi.isWrapperType(x.Type()) {
			return nil // a wrapper value is not an address
		}
		if _, ok := x.Type().Underlying().(*types.Pointer); ok {
			return x
		}
		if _, ok := x.Type().Underlying().(*types.Slice); ok {
			return x
		}
		return nil
	case *ssa.FreeVar:
		if b := freeVarBinding(x); b != nil {
			return pi.origRoot(b, depth+1)
		}
		return nil
	case *ssa.Call:
		f := calleeOf(x)
		if f == nil {
			return nil
		}
		cf := staticCalleeFn(x)
		if cf != nil && pi.inScope[cf] {
			idx := pi.returnsDerivedFrom(cf)
			if idx >= 0 && idx < len(x.Call.Args) {
				arg := x.Call.Args[idx]
				if pi.isWrapperType(arg.Type()) {
					return pi.resolveWrapper(arg, depth+1)
				}
				return pi.origRoot(arg, depth+1)
			}
		}
		return nil
	}
	return nil
}

func (pi *pdataInfo) isWrapperTypeOrPtr(t types.Type) bool {
	n := namedOf(t)
	return n != nil && pi.wrappers[n]
}

// stateRoot: the wrapper whose state pointer v is.
func (pi *pdataInfo) stateRoot(v ssa.Value, depth int) ssa.Value {
	if depth > 24 || v == nil {
		return nil
	}
	switch x := v.(type) {
	case *ssa.Field:
		if pi.isWrapperType(x.X.Type()) && derefStruct(x.X.Type()).Field(x.Field).Name() == "state" {
			return pi.resolveWrapper(x.X, depth+1)
		}
	case *ssa.UnOp:
		if x.Op == token.MUL {
			if fa, ok := x.X.(*ssa.FieldAddr); ok && pi.isWrapperTypeOrPtr(fa.X.Type()) && derefStruct(fa.X.Type()).Field(fa.Field).Name() == "state" {
				if a, ok := fa.X.(*ssa.Alloc); ok {
					if s := singleStore(a); s != nil {
						return pi.resolveWrapper(s.Val, depth+1)
					}
				}
				if fv, ok := fa.X.(*ssa.FreeVar); ok {
					if b := freeVarBinding(fv); b != nil {
						if a, ok := b.(*ssa.Alloc); ok {
							if s := singleStore(a); s != nil {
								return pi.resolveWrapper(s.Val, depth+1)
							}
						}
					}
				}
			}
			if a, ok := x.X.(*ssa.Alloc); ok {
				if s := singleStore(a); s != nil {
					return pi.stateRoot(s.Val, depth+1)
				}
			}
		}
	case *ssa.Call:
		cf := staticCalleeFn(x)
		if cf == nil || !pi.inScope[cf] || len(x.Call.Args) == 0 {
			return nil
		}
		// getState()-like: returns *State, single wrapper argument
		if pt, ok := cf.Signature.Results().At(0).Type().(*types.Pointer); ok && typeIs(pt.Elem(), pkgPdataInternal, "State") {
			for _, a := range x.Call.Args {
				if pi.isWrapperType(a.Type()) {
					return pi.resolveWrapper(a, depth+1)
				}
			}
		}
	case *ssa.Phi:
		for _, e := range x.Edges {
			if r := pi.stateRoot(e, depth+1); r != nil {
				return r
			}
		}
	}
	return nil
}

// pure methods of the generated protobuf types (frozen allow-list): everything else called on a
// payload pointer counts as a write.
func protoMethodIsPure(name string) bool {
	switch {
	case strings.HasPrefix(name, "Marshal"), strings.HasPrefix(name, "Get"), strings.HasPrefix(name, "XXX_Size"), strings.HasPrefix(name, "XXX_Marshal"):
		return true
	}
	switch name {
	case "Size", "String", "Equal", "ProtoMessage", "Descriptor", "ProtoSize", "IsEmpty", "MarshalJSON":
		return true
	}
	return false
}

var externalMutators = map[string]bool{
	"sort.Slice": true, "sort.SliceStable": true, "sort.Sort": true, "sort.Stable": true,
	"slices.Sort": true, "slices.SortFunc": true, "slices.SortStableFunc": true, "slices.Reverse": true,
	"math/rand.Shuffle": true,
}

type pdWrite struct {
	in   ssa.Instruction
	root ssa.Value
	what string
}

// writesIn collects the payload writes of fn (and its closures), with their roots.
func (pi *pdataInfo) writesIn(fn *ssa.Function) []pdWrite {
	var out []pdWrite
	for _, g := range withAnon(fn) {
		allInstrs(g, func(in ssa.Instruction) {
			switch x := in.(type) {
			case *ssa.Store:
				if r := pi.origRoot(x.Addr, 0); r != nil {
					out = append(out, pdWrite{in, r, "store"})
				}
			case *ssa.MapUpdate:
				if r := pi.origRoot(x.Map, 0); r != nil {
					out = append(out, pdWrite{in, r, "map update"})
				}
			case ssa.CallInstruction:
				cc := x.Common()
				switch builtinName(x) {
				case "copy", "clear":
					if r := pi.origRoot(cc.Args[0], 0); r != nil {
						out = append(out, pdWrite{in, r, builtinName(x)})
					}
					return
				case "delete":
					if r := pi.origRoot(cc.Args[0], 0); r != nil {
						out = append(out, pdWrite{in, r, "delete"})
					}
					return
				}
				f := calleeOf(x)
				if f == nil {
					return
				}
				if externalMutators[f.FullName()] {
					if r := pi.origRoot(cc.Args[0], 0); r != nil {
						out = append(out, pdWrite{in, r, f.FullName()})
					}
					return
				}
				// protobuf type methods on payload pointers
				if rn := recvNamed(f); rn != nil && rn.Obj().Pkg() != nil && strings.HasPrefix(rn.Obj().Pkg().Path(), pkgPdataInternal+"/data") && !cc.IsInvoke() && len(cc.Args) > 0 {
					if _, isPtr := cc.Args[0].Type().(*types.Pointer); isPtr && !protoMethodIsPure(f.Name()) {
						if r := pi.origRoot(cc.Args[0], 0); r != nil {
							out = append(out, pdWrite{in, r, "proto method " + f.Name()})
						}
					}
					return
				}
				cf := staticCalleeFn(x)
				if cf == nil || !pi.inScope[cf] {
					return
				}
				for i := range pi.writeSummary(cf) {
					if i >= len(cc.Args) {
						continue
					}
					arg := cc.Args[i]
					var r ssa.Value
					if pi.isWrapperType(arg.Type()) {
						r = pi.resolveWrapper(arg, 0)
					} else {
						r = pi.origRoot(arg, 0)
					}
					if r != nil {
						out = append(out, pdWrite{in, r, "call " + cf.Name()})
					}
				}
			}
		})
	}
	return out
}

type pdAssert struct {
	in   ssa.Instruction
	root ssa.Value
}

func (pi *pdataInfo) assertsIn(fn *ssa.Function) []pdAssert {
	var out []pdAssert
	for _, g := range withAnon(fn) {
		allInstrs(g, func(in ssa.Instruction) {
			ci, ok := in.(ssa.CallInstruction)
			if !ok {
				return
			}
			f := calleeOf(ci)
			if f == nil {
				return
			}
			if isMethod(f, pkgPdataInternal, "State", "AssertMutable") {
				if r := pi.stateRoot(ci.Common().Args[0], 0); r != nil {
					out = append(out, pdAssert{in, r})
				}
				return
			}
			cf := staticCalleeFn(ci)
			if cf == nil || !pi.inScope[cf] {
				return
			}
			for i := range pi.assertSummary(cf) {
				if i < len(ci.Common().Args) && pi.isWrapperType(ci.Common().Args[i].Type()) {
					if r := pi.resolveWrapper(ci.Common().Args[i], 0); r != nil {
						out = append(out, pdAssert{in, r})
					}
				}
			}
		})
	}
	return out
}

func paramIndex(fn *ssa.Function, v ssa.Value) int {
	for i, pa := range fn.Params {
		if ssa.Value(pa) == v {
			return i
		}
	}
	return -1
}

// covered: is write w preceded by an assert on the same root on every path?
func (pi *pdataInfo) covered(fn *ssa.Function, w pdWrite, asserts []pdAssert) bool {
	for _, a := range asserts {
		if a.root != w.root {
			continue
		}
		if a.in.Parent() == w.in.Parent() {
			if instrDominates(a.in, w.in) {
				return true
			}
			continue
		}
		// assert in an ancestor function, write in a closure created after the assert
		anc := w.in.Parent()
		for anc != nil && anc.Parent() != a.in.Parent() {
			anc = anc.Parent()
		}
		if anc == nil {
			continue
		}
		okAll := true
		found := false
		allInstrs(a.in.Parent(), func(in ssa.Instruction) {
			if mc, ok := in.(*ssa.MakeClosure); ok && mc.Fn == anc {
				found = true
				if !instrDominates(a.in, in) {
					okAll = false
				}
			}
		})
		if found && okAll {
			return true
		}
	}
	return false
}

// writeSummary: parameter indexes through which f writes payload without a dominating own assert.
func (pi *pdataInfo) writeSummary(f *ssa.Function) map[int]bool {
	if s, ok := pi.writeSum[f]; ok {
		return s
	}
	pi.writeSum[f] = map[int]bool{} // recursion guard
	res := map[int]bool{}
	ws := pi.writesIn(f)
	as := pi.assertsIn(f)
	for _, w := range ws {
		i := paramIndex(f, w.root)
		if i < 0 {
			continue
		}
		if !pi.covered(f, w, as) {
			res[i] = true
		}
	}
	pi.writeSum[f] = res
	return res
}

// assertSummary: parameters whose state f asserts before anything else can happen (entry block,
// dominating every return).
func (pi *pdataInfo) assertSummary(f *ssa.Function) map[int]bool {
	if s, ok := pi.assertSum[f]; ok {
		return s
	}
	pi.assertSum[f] = map[int]bool{}
	res := map[int]bool{}
	if len(f.Blocks) > 0 {
		for _, in := range f.Blocks[0].Instrs {
			ci, ok := in.(ssa.CallInstruction)
			if !ok {
				continue
			}
			if _, isDefer := in.(*ssa.Defer); isDefer {
				continue
			}
			if isMethod(calleeOf(ci), pkgPdataInternal, "State", "AssertMutable") {
				if r := pi.stateRoot(ci.Common().Args[0], 0); r != nil {
					if i := paramIndex(f, r); i >= 0 {
						res[i] = true
					}
				}
			}
		}
	}
	pi.assertSum[f] = res
	return res
}
