package main

// Helpers that make the C19 / C20 rules robust against behaviour-preserving refactorings
// (a helper extracted or inlined, a guard written as a guard clause, duplicated code merged into
// a wrapper). Nothing here matches names introduced by a particular edit: subjects are found by
// effect (the call they make) and conditions are evaluated across the call into a same-package helper.

import (
	"go/token"
	"go/types"
	"strings"

	"golang.org/x/tools/go/ssa"
)

// ---------- effects reached through same-package helpers ----------

// effectSiteA9 is an instruction of a function through which an effect happens: the effect call itself,
// or a static call of a function of the same package that (transitively, depth-bounded) contains the effect.
type effectSiteA9 struct {
	At    ssa.CallInstruction   // the call in the examined function
	Inner []ssa.CallInstruction // the calls below At, outermost first; the last one is the effect (empty when At is the effect)
}

// Effect returns the innermost call, the effect itself.
func (s effectSiteA9) Effect() ssa.CallInstruction {
	if len(s.Inner) > 0 {
		return s.Inner[len(s.Inner)-1]
	}
	return s.At
}

func pkgOfFnA9(f *ssa.Function) *ssa.Package {
	for f != nil {
		if f.Pkg != nil {
			return f.Pkg
		}
		if o := f.Origin(); o != nil && o != f {
			f = o
			continue
		}
		f = f.Parent()
	}
	return nil
}

// effectSitesA9 lists the sites of fn at which an effect (isEffect) happens, following static calls into
// functions of fn's package up to depth levels.
func effectSitesA9(fn *ssa.Function, isEffect func(ssa.CallInstruction) bool, depth int) []effectSiteA9 {
	return effectSitesRecA9(fn, isEffect, depth, map[*ssa.Function]bool{fn: true})
}

func effectSitesRecA9(fn *ssa.Function, isEffect func(ssa.CallInstruction) bool, depth int, onPath map[*ssa.Function]bool) []effectSiteA9 {
	var out []effectSiteA9
	for _, ci := range calls(fn, func(ssa.CallInstruction) bool { return true }) {
		if isEffect(ci) {
			out = append(out, effectSiteA9{At: ci})
			continue
		}
		if depth <= 0 {
			continue
		}
		if _, isGo := ci.(*ssa.Go); isGo {
			continue
		}
		cf := staticCalleeFn(ci)
		if cf == nil || cf.Blocks == nil || onPath[cf] || pkgOfFnA9(cf) == nil || pkgOfFnA9(cf) != pkgOfFnA9(fn) {
			continue
		}
		onPath[cf] = true
		for _, in := range effectSitesRecA9(cf, isEffect, depth-1, onPath) {
			inner := append([]ssa.CallInstruction{in.At}, in.Inner...)
			out = append(out, effectSiteA9{At: ci, Inner: inner})
		}
		delete(onPath, cf)
	}
	return out
}

// argOfParamA9 maps a parameter of the function statically called by ci to the argument passed for it.
func argOfParamA9(ci ssa.CallInstruction, pa *ssa.Parameter) ssa.Value {
	cf := pa.Parent()
	args := ci.Common().Args
	for i, q := range cf.Params {
		if q == pa && i < len(args) {
			return args[i]
		}
	}
	return nil
}

// guardLevelA9 is one level of the guards that control an effect site: the guards of the block of a call,
// together with the call that leads one level further out (nil at the outermost level).
type guardLevelA9 struct {
	Guards []Guard
	Via    ssa.CallInstruction // the call (one level further out) through which this level's function was entered
}

// guardLevelsA9 returns the guards that control the effect of site s, innermost level first: the guards in the
// helper(s) around the effect and, last, the guards around s.At in the examined function.
func guardLevelsA9(s effectSiteA9) []guardLevelA9 {
	chain := append([]ssa.CallInstruction{s.At}, s.Inner...)
	var out []guardLevelA9
	for i := len(chain) - 1; i >= 0; i-- {
		lv := guardLevelA9{Guards: guardsOf(chain[i].Block())}
		if i > 0 {
			lv.Via = chain[i-1]
		}
		out = append(out, lv)
	}
	return out
}

// traceToOuterA9 expresses value v of an inner level in terms of the outermost function: a parameter of a helper
// is replaced by the argument passed for it, level by level. vias are the calls leading outwards (innermost first).
// The result is nil when v is not (a wrapper-free view of) a parameter at some level.
func traceToOuterA9(v ssa.Value, vias []ssa.CallInstruction) ssa.Value {
	for _, via := range vias {
		if via == nil {
			break
		}
		pa, ok := strip(v).(*ssa.Parameter)
		if !ok {
			return nil
		}
		v = argOfParamA9(via, pa)
		if v == nil {
			return nil
		}
	}
	return v
}

// errGuardOnSiteA9: the effect of site s happens only where the (error) result of call – a call of the examined
// function – is nil (wantNil) / non-nil: either the site itself is on that side of a test of the result, or the
// result is handed to the helper and the helper tests the parameter.
func errGuardOnSiteA9(s effectSiteA9, call ssa.CallInstruction, wantNil bool) bool {
	if errGuardOn(s.At.Block(), call, wantNil) {
		return true
	}
	levels := guardLevelsA9(s)
	for li, lv := range levels[:len(levels)-1] {
		var vias []ssa.CallInstruction
		for _, l := range levels[li:] {
			vias = append(vias, l.Via)
		}
		for _, g := range lv.Guards {
			op, x, y, ok := cmpOf(g)
			if !ok {
				continue
			}
			var other ssa.Value
			if isNilConst(y) {
				other = x
			} else if isNilConst(x) {
				other = y
			} else {
				continue
			}
			outer := traceToOuterA9(other, vias)
			if outer == nil || !valueIsResultOf(outer, call) {
				continue
			}
			if wantNil && op == token.EQL || !wantNil && op == token.NEQ {
				return true
			}
		}
	}
	return false
}

// ---------- attribution of a count by the outcome ----------

// attrValA9 is the abstract value of a recorded count under an assumption about the error: zero, or the count.
type attrValA9 struct {
	kind int       // 0 unknown, 1 constant zero, 2 the count
	src  ssa.Value // for kind 2: the value (of the examined function) that is the count
}

type attrEnvA9 struct {
	errV ssa.Value                    // the error the attribution follows, in this function (nil: not visible here)
	bind map[*ssa.Parameter]attrValA9 // parameters of a helper → what the caller passes
	top  bool                         // the examined function itself: its integer parameters are counts
}

// feasibleA9: can block b execute when errV is non-nil (errNonNil) / nil?
func feasibleA9(b *ssa.BasicBlock, errV ssa.Value, errNonNil bool) bool {
	if errV == nil {
		return true
	}
	for _, g := range guardsOf(b) {
		if guardIsNilTest(g, errV, errNonNil) {
			return false
		}
	}
	return true
}

// edgeFeasibleA9: can the edge pred→b be taken under the assumption?
func edgeFeasibleA9(pred, b *ssa.BasicBlock, errV ssa.Value, errNonNil bool) bool {
	if !feasibleA9(pred, errV, errNonNil) {
		return false
	}
	if errV == nil || len(pred.Instrs) == 0 {
		return true
	}
	if iff, ok := pred.Instrs[len(pred.Instrs)-1].(*ssa.If); ok && len(pred.Succs) == 2 && pred.Succs[0] != pred.Succs[1] {
		g := Guard{Cond: iff.Cond, Branch: pred.Succs[0] == b, If: iff}
		if guardIsNilTest(g, errV, errNonNil) {
			return false
		}
	}
	return true
}

func isIntegerA9(t types.Type) bool {
	b, ok := t.Underlying().(*types.Basic)
	return ok && b.Info()&types.IsInteger != 0
}

// evalAttrA9 evaluates v to "zero" or "the count" under the assumption that the error is non-nil / nil. Phi nodes are
// resolved by the edges that are feasible under the assumption, same-package helpers are entered (the error and
// the count are followed through their parameters); all feasible alternatives must agree.
func evalAttrA9(v ssa.Value, env attrEnvA9, errNonNil bool, depth int, busy map[ssa.Value]bool) attrValA9 {
	if v == nil || depth > 4 || busy[v] {
		return attrValA9{}
	}
	busy[v] = true
	defer delete(busy, v)
	merge := func(vals []attrValA9) attrValA9 {
		if len(vals) == 0 {
			return attrValA9{}
		}
		for _, x := range vals {
			if x.kind == 0 || x.kind != vals[0].kind || x.src != vals[0].src {
				return attrValA9{}
			}
		}
		return vals[0]
	}
	switch x := v.(type) {
	case *ssa.Const:
		if k, ok := constInt(x); ok && k == 0 {
			return attrValA9{kind: 1}
		}
	case *ssa.Convert:
		return evalAttrA9(x.X, env, errNonNil, depth, busy)
	case *ssa.ChangeType:
		return evalAttrA9(x.X, env, errNonNil, depth, busy)
	case *ssa.Parameter:
		if b, ok := env.bind[x]; ok {
			return b
		}
		if env.top && x != env.errV && isIntegerA9(x.Type()) {
			return attrValA9{kind: 2, src: x}
		}
	case *ssa.Phi:
		var vals []attrValA9
		for i, e := range x.Edges {
			if !edgeFeasibleA9(x.Block().Preds[i], x.Block(), env.errV, errNonNil) {
				continue
			}
			vals = append(vals, evalAttrA9(e, env, errNonNil, depth, busy))
		}
		return merge(vals)
	case *ssa.Extract:
		if call, ok := x.Tuple.(*ssa.Call); ok {
			return evalAttrCallA9(call, x.Index, env, errNonNil, depth, busy, merge)
		}
	case *ssa.Call:
		return evalAttrCallA9(x, 0, env, errNonNil, depth, busy, merge)
	case *ssa.UnOp:
		if s := strip(x); s != ssa.Value(x) {
			return evalAttrA9(s, env, errNonNil, depth, busy)
		}
	}
	return attrValA9{}
}

func evalAttrCallA9(call *ssa.Call, idx int, env attrEnvA9, errNonNil bool, depth int, busy map[ssa.Value]bool, merge func([]attrValA9) attrValA9) attrValA9 {
	g := staticCalleeFn(call)
	if g == nil || g.Blocks == nil || pkgOfFnA9(g) == nil || pkgOfFnA9(g) != pkgOfFnA9(call.Parent()) || idx >= g.Signature.Results().Len() {
		return attrValA9{}
	}
	env2 := attrEnvA9{bind: map[*ssa.Parameter]attrValA9{}}
	for i, pa := range g.Params {
		if i >= len(call.Call.Args) {
			break
		}
		a := call.Call.Args[i]
		switch {
		case env.errV != nil && isErrorType(pa.Type()) && sameValue(a, env.errV):
			env2.errV = pa
		case isIntegerA9(pa.Type()):
			env2.bind[pa] = evalAttrA9(a, env, errNonNil, depth+1, busy)
		}
	}
	var vals []attrValA9
	for _, r := range returnsOf(g) {
		if !feasibleA9(r.Block(), env2.errV, errNonNil) {
			continue
		}
		res := resultsOf(r)
		if idx >= len(res) {
			return attrValA9{}
		}
		vals = append(vals, evalAttrA9(res[idx], env2, errNonNil, depth+1, busy))
	}
	return merge(vals)
}

// attributionA9 evaluates a recorded value of fn under both outcomes of errP.
func attributionA9(fn *ssa.Function, errP *ssa.Parameter, v ssa.Value) (onNil, onErr attrValA9) {
	env := attrEnvA9{errV: errP, top: true}
	onNil = evalAttrA9(v, env, false, 0, map[ssa.Value]bool{})
	onErr = evalAttrA9(v, env, true, 0, map[ssa.Value]bool{})
	return
}

// ---------- nil-ness of a helper's error result in terms of its arguments ----------

// retNonNilGivenCallA9: the value returned by r (a return of the function statically called by ci) is non-nil
// whenever an error argument of ci that is known to be non-nil at the call is: the result is that parameter, or a
// combination (errors.Join, multierr.Append/Combine) that contains it or a freshly made error.
func retNonNilGivenCallA9(r *ssa.Return, ci ssa.CallInstruction) bool {
	res := resultsOf(r)
	if len(res) == 0 {
		return false
	}
	v := res[len(res)-1]
	if !isErrorType(v.Type()) {
		return false
	}
	nonNil := func(x ssa.Value) bool {
		x = strip(x)
		if pa, ok := x.(*ssa.Parameter); ok && pa.Parent() == r.Parent() {
			if a := argOfParamA9(ci, pa); a != nil && guardedNonNil(ci.Block(), a) {
				return true
			}
		}
		if call, ok := x.(*ssa.Call); ok {
			if f := calleeOf(call); f != nil && (f.FullName() == "fmt.Errorf" || f.FullName() == "errors.New") {
				return true
			}
		}
		return false
	}
	if nonNil(v) {
		return true
	}
	if call, ok := strip(v).(*ssa.Call); ok {
		if f := calleeOf(call); f != nil {
			switch f.FullName() {
			case "go.uber.org/multierr.Combine", "go.uber.org/multierr.Append", "errors.Join":
				for _, a := range call.Call.Args {
					if els, ok := variadicElems(a); ok && len(els) > 0 {
						for _, e := range els {
							if nonNil(e) {
								return true
							}
						}
					} else if nonNil(a) {
						return true
					}
				}
			}
		}
	}
	return false
}

// ---------- wrappers of the configuration provider's Shutdown ----------

// provShutdownWrappersA9 returns the functions of the collector's package that are nothing but the provider's Shutdown
// under another name: exactly one direct call of ConfigProvider.Shutdown, passed on every path to every return, and
// nothing else that concerns the life cycle (no state write, no service creation / start / shutdown, no set-up).
// A call of such a function is a provider shutdown site of its caller.
func provShutdownWrappersA9(p *Prog, funcs []*ssa.Function, setter *types.Func) map[*types.Func]bool {
	out := map[*types.Func]bool{}
	isProv := func(f *types.Func) bool { return isMethod(f, pkgOtelcol, "ConfigProvider", "Shutdown") }
	for _, fn := range funcs {
		if fn.Parent() != nil || fn.Object() == nil {
			continue
		}
		cp := callsNamed(fn, isProv)
		if len(cp) != 1 {
			continue
		}
		if _, isDefer := cp[0].(*ssa.Defer); isDefer {
			continue
		}
		other := callsNamed(fn, func(g *types.Func) bool {
			return g == setter || isFunc(g, pkgService, "New") || isServiceShutdownFn(p, g) || isServiceStartFn(p, g)
		})
		if len(other) > 0 {
			continue
		}
		// no call of another method of the collector (it could change the state)
		colCalls := calls(fn, func(ci ssa.CallInstruction) bool {
			cf := staticCalleeFn(ci)
			return cf != nil && cf.Blocks != nil && pkgOfFnA9(cf) == pkgOfFnA9(fn) && cf.Signature.Recv() != nil && recvNamedOfFn(cf) == recvNamedOfFn(fn) && recvNamedOfFn(fn) != nil
		})
		if len(colCalls) > 0 {
			continue
		}
		var rets []ssa.Instruction
		for _, r := range returnsOf(fn) {
			rets = append(rets, r)
		}
		if ok, _ := mustPassThrough(fn, nil, map[ssa.Instruction]bool{cp[0].(ssa.Instruction): true}, rets); !ok {
			continue
		}
		if tf, isF := fn.Object().(*types.Func); isF {
			out[tf.Origin()] = true
		}
	}
	return out
}

// isEnqueueFailedAddA9: an Add on the instrument held in a field named for failed enqueues.
func isEnqueueFailedAddA9(ci ssa.CallInstruction) bool {
	if !ci.Common().IsInvoke() || ci.Common().Method.Name() != "Add" {
		return false
	}
	_, path := fieldChain(ci.Common().Value)
	return len(path) > 0 && strings.Contains(strings.ToLower(path[len(path)-1]), "enqueuefailed")
}

// dependsOnCallA9: does cond – a condition at some guard level of an effect site – depend on the result of call, a call
// of the outermost function? At an inner level the dependence runs through the parameters of the helper (vias as for
// traceToOuterA9).
func dependsOnCallA9(cond ssa.Value, vias []ssa.CallInstruction, call ssa.CallInstruction) bool {
	cv, ok := call.(ssa.Value)
	if !ok {
		return false
	}
	inner := len(vias) > 0 && vias[0] != nil
	for v := range backSlice(cond) {
		if !inner {
			if v == cv {
				return true
			}
			continue
		}
		if _, isP := v.(*ssa.Parameter); !isP {
			continue
		}
		if ov := traceToOuterA9(v, vias); ov != nil && (ov == cv || backSlice(ov)[cv]) {
			return true
		}
	}
	return false
}
