package main

import (
	"fmt"
	"go/token"
	"go/types"

	"golang.org/x/tools/go/ssa"
)

// C01.R8 / R9: two necessary conditions of "an accepted request survives any death" that concern start-up.
//
// R8 (key tables of writer and reader agree). The enqueue transaction writes a set of keys K_enq (write index, item
// body). Start-up reads a set of keys K_init and, when decoding fails, resets both indices – which discards every
// stored request. A key of K_init that the enqueue transaction does not write (the read index: first written by
// the first dequeue) is absent after "accept, die before the first dequeue"; its absence must therefore be handled
// on its own (field gets its initial value, error cleared) instead of flowing into the reset.
//
// R9 (recovery deletes only what it moved or cannot read). The old copy of a previously dispatched item may be
// deleted after the re-enqueue loop only if that item's re-enqueue succeeded, or on a branch of the iteration that
// never attempts the re-enqueue (value missing / undecodable).

func runC01Recovery(c *Ctx, a *pqAnchors) {
	p := c.P
	c.Rule("R8", "TAB", "every key that start-up needs in order not to reset the queue is written by the enqueue transaction, or its absence is handled separately (initial value, error cleared) before the shared reset test", 2)
	var initFn *ssa.Function
	for _, fn := range a.methods {
		r0, w0 := false, false
		for _, s := range fieldStores(fn, a.T, "readIndex") {
			if k, ok := constInt(s.Val); ok && k == 0 {
				r0 = true
			}
		}
		for _, s := range fieldStores(fn, a.T, "writeIndex") {
			if k, ok := constInt(s.Val); ok && k == 0 {
				w0 = true
			}
		}
		if r0 && w0 {
			initFn = fn
		}
	}
	if initFn == nil || a.enqueue == nil {
		c.Anchor("persistent queue start-up (resets both indices) and enqueue")
	} else {
		enq := map[string]bool{}
		for _, b := range batchCalls(a.enqueue) {
			for _, o := range b.Ops {
				if o.Kind == "Set" {
					enq[o.KeyClass] = true
				}
			}
		}
		var resetW *ssa.Store
		for _, s := range fieldStores(initFn, a.T, "writeIndex") {
			if k, ok := constInt(s.Val); ok && k == 0 {
				resetW = s
			}
		}
		bcs := batchCalls(initFn)
		if len(bcs) == 0 || len(enq) == 0 {
			c.Undecided("start-up key table", p.Pos(initFn.Pos()), "no storage batch found in start-up or enqueue")
		}
		for _, b := range bcs {
			for _, o := range b.Ops {
				if o.Kind != "Get" || o.KeyClass == "item" {
					continue
				}
				// only keys whose decode error reaches the reset test
				dec := decodeOf(initFn, o.Call)
				if dec == nil {
					continue
				}
				reaches := false
				for _, g := range guardsOf(resetW.Block()) {
					for v := range backSlice(g.Cond) {
						if ex, ok := v.(*ssa.Extract); ok && ex.Tuple == ssa.Value(dec) {
							reaches = true
						}
					}
				}
				if !reaches {
					continue
				}
				construct := fmt.Sprintf("start-up key %q: written by the enqueue transaction or absence handled", o.KeyClass)
				if enq[o.KeyClass] {
					c.OK(construct, p.Pos(o.Call.Pos()), "written by every enqueue")
					continue
				}
				c.Check(absenceHandled(initFn, a, dec, o.Call), construct, p.Pos(o.Call.Pos()), "absence handled on its own: field initialised, error cleared",
					fmt.Sprintf("key %q is read at start-up, its decode error leads to the reset of both indices, but no enqueue writes it and its absence is not handled separately: after `accept requests, die before the first dequeue` the next start finds the key missing, resets to 0/0 and every accepted request is lost", o.KeyClass))
			}
		}
	}

	c.Rule("R9", "GATE", "start-up recovery deletes the old copy of a previously dispatched item (in the batch that runs after the re-enqueue loop) only if that item's re-enqueue succeeded, or on a branch of the iteration that never attempts the re-enqueue (missing / undecodable value)", 1)
	if a.recovery == nil || a.enqueue == nil {
		c.Anchor("persistent queue recovery")
		return
	}
	fn := a.recovery
	puts := callsTo(fn, funcObj(a.enqueue))
	if len(puts) == 0 {
		puts = calls(fn, func(ci ssa.CallInstruction) bool {
			cf := staticCalleeFn(ci)
			return cf != nil && (cf == a.enqueue || cf.Origin() == a.enqueue)
		})
	}
	if len(puts) == 0 {
		// the re-enqueue is made by a helper of the recovery: its call stands for the re-enqueue, and the helper's
		// result is read through the helper's returns (resultMeansEnqueuedA1)
		puts = putSitesA1(fn, a, 3)
	}
	if len(puts) != 1 {
		c.Undecided("re-enqueue call in recovery", p.Pos(fn.Pos()), fmt.Sprintf("%d call sites", len(puts)))
		return
	}
	put := puts[0]
	hdr, body := innermostLoop(put.Block())
	if hdr == nil {
		c.Undecided("re-enqueue loop in recovery", p.Pos(put.Pos()), "the re-enqueue is not inside a loop")
		return
	}
	avoid := map[ssa.Instruction]bool{hdr.Instrs[0]: true}
	n := 0
	for _, b := range batchCalls(fn) {
		if !canReach(put.(ssa.Instruction), b.Call.(ssa.Instruction), nil) {
			continue // runs before any re-enqueue (e.g. the clean-up after a failed retrieve)
		}
		for _, o := range b.Ops {
			if o.Kind != "Delete" || o.KeyClass != "item" {
				continue
			}
			n++
			// judge the place where the operation joins the batch (the append / slot store), not where it is constructed:
			// `del := DeleteOperation(k); if put(...) != nil { continue }; batch = append(batch, del)` is fine
			d := ssa.Instruction(o.Call)
			if ins := insertionSite(o.Call); ins != nil {
				d = ins
			}
			inLoop := body[d.Block()]
			okSucc := inLoop && (errGuardOn(d.Block(), put, true) || siteSucceededA1(d.Block(), put, a, 3))
			okSkip := inLoop && !canReach(put.(ssa.Instruction), d, avoid) && !canReach(d, put.(ssa.Instruction), avoid)
			c.Check(okSucc || okSkip, fmt.Sprintf("recovery delete #%d is tied to the outcome of that item's re-enqueue", n), p.Pos(o.Call.Pos()), "created on the success side of the re-enqueue, or on a branch that skips it",
				"the delete operation is created independently of whether the item was moved: when the re-enqueue is refused (queue full after a repeated recovery or a smaller capacity) the only copy of an accepted request is deleted although it was never handed to the export function")
		}
	}
	if n == 0 {
		c.Undecided("item deletes after the re-enqueue loop", p.Pos(fn.Pos()), "none found")
	}
}

// decodeOf: the call that decodes op.Value (op = result of a storage.GetOperation call) in fn.
func decodeOf(fn *ssa.Function, op *ssa.Call) *ssa.Call {
	var out *ssa.Call
	allInstrs(fn, func(in ssa.Instruction) {
		call, ok := in.(*ssa.Call)
		if !ok || call == op {
			return
		}
		for _, arg := range call.Call.Args {
			u, ok := arg.(*ssa.UnOp)
			if !ok || u.Op != token.MUL {
				continue
			}
			fa, ok := u.X.(*ssa.FieldAddr)
			if !ok {
				continue
			}
			if strip(fa.X) == ssa.Value(op) && derefStruct(fa.X.Type()).Field(fa.Field).Name() == "Value" {
				out = call
			}
		}
	})
	return out
}

// absenceHandled: a guard tests the key's absence (errors.Is(decodeErr, sentinel) or op.Value == nil); on its
// true side an error-typed phi receives nil (the error is cleared) – the absence does not flow into the reset.
func absenceHandled(fn *ssa.Function, a *pqAnchors, dec *ssa.Call, op *ssa.Call) bool {
	isAbsenceTest := func(v ssa.Value) bool {
		switch x := v.(type) {
		case *ssa.Call:
			if f := calleeOf(x); f != nil && f.FullName() == "errors.Is" && len(x.Call.Args) == 2 {
				if valueIsResultOf(x.Call.Args[0], dec) {
					return true
				}
			}
		case *ssa.BinOp:
			if x.Op == token.EQL && (isNilConst(x.X) || isNilConst(x.Y)) {
				o := x.X
				if isNilConst(o) {
					o = x.Y
				}
				if u, ok := o.(*ssa.UnOp); ok && u.Op == token.MUL {
					if fa, ok := u.X.(*ssa.FieldAddr); ok && strip(fa.X) == ssa.Value(op) {
						return true
					}
				}
			}
		}
		return false
	}
	handled := false
	allInstrs(fn, func(in ssa.Instruction) {
		phi, ok := in.(*ssa.Phi)
		if !ok || !isErrorType(phi.Type()) {
			return
		}
		for i, e := range phi.Edges {
			if !isNilConst(e) {
				continue
			}
			pred := phi.Block().Preds[i]
			for _, g := range append(guardsOf(pred), selfGuard(pred, phi.Block())...) {
				if !g.Branch {
					continue
				}
				if isAbsenceTest(g.Cond) {
					handled = true
				}
			}
		}
	})
	_ = types.Typ
	return handled
}

// selfGuard: when pred itself ends in the If and phiBlock is its true successor.
func selfGuard(pred, succ *ssa.BasicBlock) []Guard {
	if iff, ok := pred.Instrs[len(pred.Instrs)-1].(*ssa.If); ok && len(pred.Succs) == 2 {
		if pred.Succs[0] == succ && pred.Succs[1] != succ {
			return []Guard{{Cond: iff.Cond, Branch: true, If: iff}}
		}
		if pred.Succs[1] == succ && pred.Succs[0] != succ {
			return []Guard{{Cond: iff.Cond, Branch: false, If: iff}}
		}
	}
	return nil
}

// C01.R10: the list of dispatched items is the only durable record of in-flight requests; recovery must not
// overwrite it before the items were moved. C01.R11: the storage client identity (storage id, exporter id, signal)
// is what keeps two queues from overwriting each other's keys; every literal that builds the persistent queue's
// settings must set each settings field that flows into the storage client lookup.
func runC01Recovery2(c *Ctx, a *pqAnchors) {
	p := c.P
	// R12: a shutdown error of any part of a split request must survive the aggregation in the ref-counted
	// completion (same obligations as C03.R6), otherwise the stored item is deleted although a part was interrupted
	{
		sub := NewCtx(p, "C03", c.Tier, c.Config)
		runC03(sub)
		c.Rule("R12", "PAIR", "completion aggregation (same rule as C03.R6): the ref-counted completion merges every part's outcome, so a part interrupted by shutdown keeps the whole stored request from being deleted", 3)
		for _, o := range sub.Obs {
			if o.Rule == "C03.R6" {
				c.add(o.Verdict, o.Construct, o.Pos, o.Detail)
			}
		}
	}
	c.Rule("R10", "ORD", "start-up recovery does not overwrite the durable list of dispatched items before the re-enqueue loop: no storage batch that can still reach a re-enqueue sets that key", 1)
	if a.recovery != nil && a.enqueue != nil {
		fn := a.recovery
		// the re-enqueue calls: of the enqueue method, or of a helper that makes it
		puts := putSitesA1(fn, a, 3)
		// which constant key holds the dispatched list: the key Set from currentlyDispatchedItems in the dequeue
		diKey := ""
		for _, m := range a.methods {
			for _, b := range batchCalls(m) {
				for _, o := range b.Ops {
					if o.Kind == "Set" && o.Val != nil && len(sliceLoadsField(o.Val, a.T, "currentlyDispatchedItems")) > 0 {
						diKey = o.KeyClass
					}
				}
			}
		}
		if diKey == "" || len(puts) == 0 {
			c.Undecided("dispatched-list key / re-enqueue call", p.Pos(fn.Pos()), "not found")
		} else {
			bad := false
			for _, b := range batchCalls(fn) {
				for _, o := range b.Ops {
					if (o.Kind == "Set" || o.Kind == "Delete") && o.KeyClass == diKey {
						for _, put := range puts {
							if canReach(b.Call.(ssa.Instruction), put.(ssa.Instruction), nil) {
								bad = true
								c.Bad("recovery keeps the dispatched list until the items are moved", p.Pos(o.Call.Pos()), fmt.Sprintf("key %q is overwritten by a batch that runs before the re-enqueue: a second death between this batch and the last re-enqueue leaves the not-yet-moved requests unreferenced – they are never exported", diKey))
							}
						}
					}
				}
			}
			for _, ci := range append(storageCalls(fn, "Set"), storageCalls(fn, "Delete")...) {
				if k, ok := constString(ci.Common().Args[1]); ok && k == diKey {
					for _, put := range puts {
						if canReach(ci.(ssa.Instruction), put.(ssa.Instruction), nil) {
							bad = true
							c.Bad("recovery keeps the dispatched list until the items are moved", p.Pos(ci.Pos()), fmt.Sprintf("key %q is overwritten before the re-enqueue", diKey))
						}
					}
				}
			}
			for _, w := range leafBeforeEnqueueInHelpersA1(fn, keyWriteLeafA1(diKey), a, 3, true) {
				bad = true
				c.Bad("recovery keeps the dispatched list until the items are moved", p.Pos(w.Pos()), fmt.Sprintf("key %q is overwritten (inside a helper) before the re-enqueue", diKey))
			}
			if !bad {
				c.OK("recovery keeps the dispatched list until the items are moved", p.Pos(fn.Pos()), fmt.Sprintf("no write of %q can reach the re-enqueue", diKey))
			}
		}
	} else {
		c.Anchor("persistent queue recovery")
	}

	c.Rule("R11", "COV", "every non-test literal of the persistent queue's settings sets each settings field that flows into the storage client lookup (storage id, exporter id, signal): queues of different signals of one exporter never share a storage client", 3)
	// settings struct: the struct-typed field of the queue whose fields feed the GetClient-reaching call
	var setT *types.Named
	st := a.T.Underlying().(*types.Struct)
	for i := 0; i < st.NumFields(); i++ {
		if n := namedOf(st.Field(i).Type()); n != nil && n.Obj().Pkg() == a.pk.Types {
			if _, ok := n.Underlying().(*types.Struct); ok && st.Field(i).Name() == "set" {
				setT = n
			}
		}
	}
	if setT == nil {
		c.Anchor("persistent queue settings struct")
		return
	}
	// identity fields: settings fields loaded in the backward slice of the arguments of the call that yields the storage client
	ident := map[string]bool{}
	getsClient := func(f *ssa.Function) bool {
		found := false
		for _, g := range withAnon(f) {
			allInstrs(g, func(in ssa.Instruction) {
				if ci, ok := in.(ssa.CallInstruction); ok && ci.Common().IsInvoke() && ci.Common().Method.Name() == "GetClient" {
					found = true
				}
			})
		}
		return found
	}
	for _, fn := range a.methods {
		for _, ci := range calls(fn, func(ci ssa.CallInstruction) bool {
			if ci.Common().IsInvoke() {
				return ci.Common().Method.Name() == "GetClient"
			}
			cf := staticCalleeFn(ci)
			return cf != nil && cf.Pkg == fn.Pkg && getsClient(cf)
		}) {
			for _, arg := range ci.Common().Args {
				for w := range backSlice(arg) {
					if fa, ok := w.(*ssa.FieldAddr); ok && namedOf(fa.X.Type()) != nil && namedOf(fa.X.Type()).Origin() == setT.Origin() {
						ident[derefStruct(fa.X.Type()).Field(fa.Field).Name()] = true
					}
				}
			}
		}
	}
	if len(ident) < 2 {
		c.Undecided("identity fields of the storage client lookup", "-", fmt.Sprintf("found %v", sortedKeys(ident)))
		return
	}
	nLit := 0
	for _, fn := range p.AllSrcFuncs(a.pk) {
		allInstrs(fn, func(in ssa.Instruction) {
			al, ok := in.(*ssa.Alloc)
			if !ok {
				return
			}
			n := namedOf(al.Type().(*types.Pointer).Elem())
			if n == nil || n.Origin() != setT.Origin() || al.Comment != "complit" {
				return
			}
			nLit++
			set := map[string]bool{}
			for _, r := range *al.Referrers() {
				if fa, ok := r.(*ssa.FieldAddr); ok {
					for _, rr := range *fa.Referrers() {
						if s, ok := rr.(*ssa.Store); ok && s.Addr == ssa.Value(fa) {
							set[derefStruct(al.Type()).Field(fa.Field).Name()] = true
						}
					}
				}
			}
			for _, f := range sortedKeys(ident) {
				c.Check(set[f], fmt.Sprintf("settings literal in %s sets %s", fnName(fn), f), p.Pos(al.Pos()), "set", "the field is left at its zero value: every queue built here asks the storage extension for the same client, so the queues of two signals of one exporter overwrite each other's indices and request bodies")
			}
		})
	}
	if nLit == 0 {
		c.Undecided("settings literals", "-", "none found in non-test code")
	}
}

// insertionSite: the instruction that puts the operation value into a batch slice: the append call whose variadic
// pack holds it, or the store into an indexed slot of a slice. nil if it is passed to Batch directly.
func insertionSite(op *ssa.Call) ssa.Instruction {
	if op.Referrers() == nil {
		return nil
	}
	for _, r := range *op.Referrers() {
		st, ok := r.(*ssa.Store)
		if !ok || st.Val != ssa.Value(op) {
			continue
		}
		ia, ok := st.Addr.(*ssa.IndexAddr)
		if !ok {
			continue
		}
		// variadic pack: new [1]T → slice → append(x, pack...)
		if al, ok := ia.X.(*ssa.Alloc); ok && al.Referrers() != nil {
			for _, ar := range *al.Referrers() {
				if sl, ok := ar.(*ssa.Slice); ok && sl.Referrers() != nil {
					for _, sr := range *sl.Referrers() {
						if call, ok := sr.(*ssa.Call); ok && builtinName(call) == "append" {
							return call
						}
					}
				}
			}
			continue
		}
		return st
	}
	return nil
}
