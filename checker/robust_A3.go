package main

// Helpers that make the C05 / C06 rule families (and the shared error-chain rule C01.R5 = C03.R8 = C05.R4,
// C09.R8 = C06.R4) robust against behaviour-preserving rewrites: a construct moved into a same-package helper is
// evaluated across the call, mirrored comparisons (Time.After for Time.Before) and negated / De-Morgan guards are
// normalised, `range` over a (sub-)slice is accepted for a counted loop, and a value built in locals and stored
// into the object afterwards is followed to the locals.

import (
	"fmt"
	"go/token"
	"go/types"
	"os"
	"strings"

	"golang.org/x/tools/go/ssa"
)

// debugDumpA3 prints the SSA of every function whose name contains $VERIF_DUMP_SSA (development aid only).
func debugDumpA3(p *Prog, pkgPaths ...string) {
	want := os.Getenv("VERIF_DUMP_SSA")
	if want == "" {
		return
	}
	for _, pa := range pkgPaths {
		pk := p.ByPath[pa]
		if pk == nil {
			continue
		}
		for _, fn := range p.AllSrcFuncs(pk) {
			if strings.Contains(fn.String(), want) {
				fn.WriteTo(os.Stdout)
			}
		}
	}
}

// ---------- reachability under assumptions on branch outcomes ----------

// canReachEdgesA3 is canReach with an edge filter: edgeOK(iff, succIdx) == false removes the edge from iff's block to
// its succIdx-th successor (0 = true side, 1 = false side).
func canReachEdgesA3(a, b ssa.Instruction, avoid map[ssa.Instruction]bool, edgeOK func(iff *ssa.If, succ int) bool) bool {
	succs := func(blk *ssa.BasicBlock) []*ssa.BasicBlock {
		if len(blk.Instrs) > 0 && edgeOK != nil {
			if iff, ok := blk.Instrs[len(blk.Instrs)-1].(*ssa.If); ok {
				var out []*ssa.BasicBlock
				for i, s := range blk.Succs {
					if edgeOK(iff, i) {
						out = append(out, s)
					}
				}
				return out
			}
		}
		return blk.Succs
	}
	ab := a.Block()
	for i := instrIndex(a) + 1; i < len(ab.Instrs); i++ {
		in := ab.Instrs[i]
		if in == b {
			return true
		}
		if avoid[in] {
			return false
		}
	}
	seen := map[*ssa.BasicBlock]bool{}
	var st []*ssa.BasicBlock
	for _, s := range succs(ab) {
		if !seen[s] {
			seen[s] = true
			st = append(st, s)
		}
	}
	for len(st) > 0 {
		blk := st[len(st)-1]
		st = st[:len(st)-1]
		blocked := false
		for _, in := range blk.Instrs {
			if in == b {
				return true
			}
			if avoid[in] {
				blocked = true
				break
			}
		}
		if blocked {
			continue
		}
		for _, s := range succs(blk) {
			if !seen[s] {
				seen[s] = true
				st = append(st, s)
			}
		}
	}
	return false
}

// result classes of a returned value
const (
	resUnknownA3 = iota
	resZeroA3    // nil (error / pointer / interface) or false
	resNonZeroA3 // provably non-nil, or true
)

// definitelyNonNilA3: the value can never be a nil interface/pointer: an interface made from a concrete value,
// the result of fmt.Errorf / errors.New, the address of a fresh object, or the result of a function with a body all
// of whose returns are such values (depth-bounded).
func definitelyNonNilA3(v ssa.Value, depth int, seen map[ssa.Value]bool) bool {
	if seen[v] {
		return true // cycle through a phi: decided by the other edges
	}
	seen[v] = true
	switch x := v.(type) {
	case *ssa.MakeInterface, *ssa.Alloc, *ssa.MakeClosure, *ssa.Function:
		return true
	case *ssa.ChangeInterface:
		return definitelyNonNilA3(x.X, depth, seen)
	case *ssa.ChangeType:
		return definitelyNonNilA3(x.X, depth, seen)
	case *ssa.Phi:
		for _, e := range x.Edges {
			if !definitelyNonNilA3(e, depth, seen) {
				return false
			}
		}
		return len(x.Edges) > 0
	case *ssa.Call:
		if f := calleeOf(x); f != nil {
			switch f.FullName() {
			case "fmt.Errorf", "errors.New":
				return true
			}
		}
		cf := staticCalleeFn(x)
		if cf == nil || len(cf.Blocks) == 0 || depth <= 0 || cf.Signature.Results().Len() != 1 {
			return false
		}
		rs := returnsOf(cf)
		for _, r := range rs {
			if !definitelyNonNilA3(resultsOf(r)[0], depth-1, seen) {
				return false
			}
		}
		return len(rs) > 0
	}
	return false
}

func classifyResultA3(v ssa.Value) int {
	if isNilConst(v) {
		return resZeroA3
	}
	if k, ok := constBool(v); ok {
		if k {
			return resNonZeroA3
		}
		return resZeroA3
	}
	if _, isBool := v.Type().Underlying().(*types.Basic); isBool {
		return resUnknownA3
	}
	if definitelyNonNilA3(v, 3, map[ssa.Value]bool{}) {
		return resNonZeroA3
	}
	return resUnknownA3
}

// resultIndexA3: v is the k-th result of call (looking through spills / interface conversions); -1 otherwise.
func resultIndexA3(v ssa.Value, call ssa.CallInstruction) int {
	cv, ok := call.(ssa.Value)
	if !ok {
		return -1
	}
	v = strip(v)
	if v == cv {
		return 0
	}
	if ex, ok := v.(*ssa.Extract); ok && ex.Tuple == cv {
		return ex.Index
	}
	return -1
}

// edgesAssumingResultA3 returns an edge filter for canReachEdgesA3 that follows, at every If testing a result of
// `call` (against nil, or as a boolean), only the side that is consistent with the given result classes.
func edgesAssumingResultA3(call ssa.CallInstruction, classes []int) func(iff *ssa.If, succ int) bool {
	return func(iff *ssa.If, succ int) bool {
		branch := succ == 0
		g := Guard{Cond: iff.Cond, Branch: branch}
		if op, x, y, ok := cmpOf(g); ok && (op == token.EQL || op == token.NEQ) {
			var other ssa.Value
			if isNilConst(y) {
				other = x
			} else if isNilConst(x) {
				other = y
			}
			if other != nil {
				if k := resultIndexA3(other, call); k >= 0 && k < len(classes) {
					switch classes[k] {
					case resZeroA3:
						return op == token.EQL
					case resNonZeroA3:
						return op == token.NEQ
					}
				}
				return true
			}
		}
		v, br := boolOf(g)
		if k := resultIndexA3(v, call); k >= 0 && k < len(classes) {
			switch classes[k] {
			case resZeroA3:
				return !br
			case resNonZeroA3:
				return br
			}
		}
		return true
	}
}

// ---------- the place where a function waits in a select (directly or through a same-package helper) ----------

type waitSiteA3 struct {
	outer *ssa.Function
	sel   *ssa.Select
	fn    *ssa.Function       // the function that contains sel: outer itself, or a helper that outer calls
	call  ssa.CallInstruction // the call in outer that enters fn; nil when fn == outer
}

// findWaitSiteA3: the (last) select of outer; when outer has none, the select of a function of the same package
// (method, function or closure) that outer calls statically and that waits on every one of its paths.
func findWaitSiteA3(outer *ssa.Function) *waitSiteA3 {
	sel := waitSelectOf(outer)
	if sel != nil {
		return &waitSiteA3{outer: outer, sel: sel, fn: outer}
	}
	var found *waitSiteA3
	n := 0
	allInstrs(outer, func(in ssa.Instruction) {
		ci, ok := in.(ssa.CallInstruction)
		if !ok {
			return
		}
		if _, isCall := in.(*ssa.Call); !isCall {
			return // go / defer do not wait here
		}
		cf := staticCalleeFn(ci)
		if cf == nil || len(cf.Blocks) == 0 || rootFn(cf).Pkg != rootFn(outer).Pkg {
			return
		}
		hs := waitSelectOf(cf)
		if hs == nil {
			return
		}
		n++
		found = &waitSiteA3{outer: outer, sel: hs, fn: cf, call: ci}
	})
	if n != 1 {
		return nil
	}
	return found
}

// waitSelectOf: the select of fn that waits – a blocking select is preferred to a non-blocking one (a `select { ...
// default: }` that re-tests the stop channel after the wait is not the wait), the last of its kind is taken.
func waitSelectOf(fn *ssa.Function) *ssa.Select {
	var blocking, any *ssa.Select
	allInstrs(fn, func(in ssa.Instruction) {
		if s, ok := in.(*ssa.Select); ok {
			any = s
			if s.Blocking {
				blocking = s
			}
		}
	})
	if blocking != nil {
		return blocking
	}
	return any
}

// instr: the instruction of outer that stands for the wait.
func (w *waitSiteA3) instr() ssa.Instruction {
	if w.call != nil {
		return w.call.(ssa.Instruction)
	}
	return w.sel
}

// alwaysWaits: every path through the helper executes the select (trivially true when the select is in outer).
func (w *waitSiteA3) alwaysWaits() bool {
	if w.call == nil {
		return true
	}
	var to []ssa.Instruction
	for _, r := range returnsOf(w.fn) {
		to = append(to, r)
	}
	ok, _ := mustPassThrough(w.fn, nil, map[ssa.Instruction]bool{w.sel: true}, to)
	return ok
}

// toOuter maps a value of the helper to the value of outer it stands for (a parameter → the argument of the call).
func (w *waitSiteA3) toOuter(v ssa.Value) ssa.Value {
	if w.call == nil {
		return v
	}
	if pa, ok := strip(v).(*ssa.Parameter); ok {
		for i, q := range w.fn.Params {
			if q == pa && i < len(w.call.Common().Args) {
				return w.call.Common().Args[i]
			}
		}
	}
	return v
}

// caseBlocks: the blocks entered when the select chose state i.
func (w *waitSiteA3) caseBlocks(i int) []*ssa.BasicBlock {
	var region []*ssa.BasicBlock
	allInstrs(w.fn, func(in ssa.Instruction) {
		iff, ok := in.(*ssa.If)
		if !ok {
			return
		}
		bo, ok := iff.Cond.(*ssa.BinOp)
		if !ok || bo.Op != token.EQL {
			return
		}
		ex, isEx := bo.X.(*ssa.Extract)
		k, isC := constInt(bo.Y)
		if isEx && isC && ex.Tuple == w.sel && ex.Index == 0 && int(k) == i {
			region = append(region, iff.Block().Succs[0])
		}
	})
	return region
}

// caseReaches: after the select chose the case whose body starts at rb, can control reach `target` (an instruction of
// outer)? Across a helper the helper's returns reachable from rb are classified (nil / non-nil, true / false) and
// followed through the tests outer makes on the call's result.
func (w *waitSiteA3) caseReaches(rb *ssa.BasicBlock, target ssa.Instruction) bool {
	if len(rb.Instrs) == 0 {
		return false
	}
	first := rb.Instrs[0]
	if w.call == nil {
		return first == target || canReach(first, target, nil)
	}
	for _, r := range returnsOf(w.fn) {
		if first != ssa.Instruction(r) && !canReach(first, r, nil) {
			continue
		}
		var classes []int
		for _, res := range resultsOf(r) {
			classes = append(classes, classifyResultA3(res))
		}
		if canReachEdgesA3(w.call.(ssa.Instruction), target, nil, edgesAssumingResultA3(w.call, classes)) {
			return true
		}
	}
	return false
}

// ---------- ordering tests on time.Time ----------

// timeOrderTestA3: cond (possibly negated) is `a.Before(b)` or `b.After(a)`; returns the earlier and the later
// operand of the relation that holds on the returned branch polarity (holdsOn == true: on the true side).
func timeOrderTestA3(cond ssa.Value) (lesser, greater ssa.Value, holdsOn bool, ok bool) {
	v, br := boolOf(Guard{Cond: cond, Branch: true})
	call, isCall := v.(*ssa.Call)
	if !isCall || len(call.Call.Args) != 2 {
		return nil, nil, false, false
	}
	f := calleeOf(call)
	switch {
	case isMethod(f, "time", "Time", "Before"):
		return call.Call.Args[0], call.Call.Args[1], br, true
	case isMethod(f, "time", "Time", "After"):
		return call.Call.Args[1], call.Call.Args[0], br, true
	}
	return nil, nil, false, false
}

// ---------- C06 helpers ----------

// sliceBaseA3 looks through re-slicing (`x[:n]`, `x[a:b]`) to the sliced value, and reports the bounds of the
// outermost slice expression (nil when absent).
func sliceBaseA3(v ssa.Value) (base ssa.Value, low, high ssa.Value, sliced bool) {
	v = strip(v)
	if s, ok := v.(*ssa.Slice); ok {
		return strip(s.X), s.Low, s.High, true
	}
	return v, nil, nil, false
}

// lenOfA3: v is len(x); returns x.
func lenOfA3(v ssa.Value) (ssa.Value, bool) {
	call, ok := strip(v).(*ssa.Call)
	if !ok || builtinName(call) != "len" {
		return nil, false
	}
	return call.Call.Args[0], true
}

// rangeLoopBoundA3 classifies the bound of a counted or range loop whose header ends in `idx < bound`:
// "len" when the loop visits every element of field `list` of T, "len-1" when it visits all but the last one
// (index form `i < len(x)-1` or range over `x[:len(x)-1]`), "" otherwise.
func rangeLoopBoundA3(hdr *ssa.BasicBlock, T *types.Named, list string) string {
	if len(hdr.Instrs) == 0 {
		return ""
	}
	iff, ok := hdr.Instrs[len(hdr.Instrs)-1].(*ssa.If)
	if !ok {
		return ""
	}
	bo, ok := iff.Cond.(*ssa.BinOp)
	if !ok || bo.Op != token.LSS {
		return ""
	}
	isLenMinus1 := func(v ssa.Value) bool {
		sub, ok := v.(*ssa.BinOp)
		if !ok || sub.Op != token.SUB || !isLenOfField(sub.X, T, list) {
			return false
		}
		k, isC := constInt(sub.Y)
		return isC && k == 1
	}
	if isLenOfField(bo.Y, T, list) {
		return "len"
	}
	if isLenMinus1(bo.Y) {
		return "len-1"
	}
	// range loops compare against the length of the ranged value, taken once before the loop
	x, ok := lenOfA3(bo.Y)
	if !ok {
		return ""
	}
	if isFieldAccess(x, T, list) {
		return "len"
	}
	base, low, high, sliced := sliceBaseA3(x)
	if !sliced || !isFieldAccess(base, T, list) {
		return ""
	}
	if low != nil {
		if k, isC := constInt(low); !isC || k != 0 {
			return ""
		}
	}
	switch {
	case high == nil:
		return "len"
	case isLenOfField(high, T, list):
		return "len"
	case isLenMinus1(high):
		return "len-1"
	}
	return ""
}

func describeA3(v ssa.Value) string {
	if v == nil {
		return "<nil>"
	}
	return fmt.Sprintf("%s = %s", v.Name(), v.String())
}

// ---------- error chain across a call into a helper ----------

// errChainThroughCalleeA3: the (idx-th; -1 = the only error-typed) result of a static call to a function of the
// collector that has a body keeps the chain of the source error when every non-nil value the callee returns there
// derives chain-preservingly from a parameter of the callee whose argument at this call site keeps the chain of
// the source. followed == false: the callee is not followed (dynamic, external, no body, recursion).
func errChainThroughCalleeA3(call *ssa.Call, idx int, isSrc func(ssa.Value) bool, seen map[ssa.Value]bool) (ok bool, why string, followed bool) {
	cf := staticCalleeFn(call)
	if cf == nil || len(cf.Blocks) == 0 || cf.Pkg == nil && cf.Parent() == nil {
		return false, "", false
	}
	if pk := rootFn(cf).Pkg; pk == nil || !strings.HasPrefix(pk.Pkg.Path(), modPrefix) {
		return false, "", false
	}
	if seen[cf] {
		return false, "", false
	}
	res := cf.Signature.Results()
	if idx < 0 {
		for i := 0; i < res.Len(); i++ {
			if isErrorType(res.At(i).Type()) {
				if idx >= 0 {
					return false, "", false
				}
				idx = i
			}
		}
	}
	if idx < 0 || idx >= res.Len() || !isErrorType(res.At(idx).Type()) {
		return false, "", false
	}
	seen[cf] = true
	defer delete(seen, cf)
	args := call.Call.Args
	inner := func(v ssa.Value) bool {
		pa, isP := v.(*ssa.Parameter)
		if !isP || pa.Parent() != cf || !isErrorType(pa.Type()) {
			return false
		}
		for i, q := range cf.Params {
			if q == pa && i < len(args) {
				ok, _ := errChainReaches(args[i], isSrc, seen)
				return ok
			}
		}
		return false
	}
	any := false
	for _, r := range returnsOf(cf) {
		rv := resultsOf(r)[idx]
		if isNilConst(rv) {
			continue
		}
		calleeSeen := map[ssa.Value]bool{}
		for k := range seen {
			if _, isFn := k.(*ssa.Function); isFn {
				calleeSeen[k] = true // functions already being followed: no recursion
			}
		}
		ok, why := errChainReaches(rv, inner, calleeSeen)
		if !ok {
			return false, "helper " + fnName(cf) + ": " + why, true
		}
		any = true
	}
	if !any {
		return false, "helper " + fnName(cf) + " never returns the source error", true
	}
	return true, "", true
}

// ---------- C06.R6: what a capability value handed to capabilityconsumer.New* depends on ----------

type capSourcesA3 struct {
	own    bool // Capabilities() of the consumer that is being wrapped (or, inside a helper, of a parameter)
	elems  bool // Capabilities() of the elements of a slice parameter (all next consumers)
	fan    bool // … of the pipeline's fan-out node
	procs  bool // … of the pipeline's processors
	direct bool // some store to MutatesData takes the field straight out of a Capabilities() result of the fan-out node
	helper bool // the value is computed by a same-package helper
}

// capabilitySourcesA3 evaluates the backward slice of capArg in fn and – when the value (or part of it) is the
// result of a same-package helper – in the helper's returned values as well (depth 2).
func capabilitySourcesA3(fn *ssa.Function, capArg, wrapped ssa.Value) capSourcesA3 {
	var out capSourcesA3
	type item struct {
		v     ssa.Value
		fn    *ssa.Function
		call  *ssa.Call // the call through which fn was entered (nil for the site function)
		depth int
	}
	work := []item{{capArg, fn, nil, 0}}
	seenFn := map[*ssa.Function]bool{fn: true}
	fns := []*ssa.Function{fn}
	fieldName := func(fa *ssa.FieldAddr) string {
		st := derefStruct(fa.X.Type())
		if st == nil {
			return ""
		}
		return st.Field(fa.Field).Name()
	}
	for len(work) > 0 {
		it := work[0]
		work = work[1:]
		for x := range backSlice(it.v) {
			cc, ok := x.(*ssa.Call)
			if !ok {
				continue
			}
			if cf := staticCalleeFn(cc); cf != nil && len(cf.Blocks) > 0 && it.depth < 2 && rootFn(cf).Pkg == rootFn(fn).Pkg && cf.Signature.Results().Len() == 1 {
				out.helper = true
				if !seenFn[cf] {
					seenFn[cf] = true
					fns = append(fns, cf)
				}
				for _, r := range returnsOf(cf) {
					work = append(work, item{resultsOf(r)[0], cf, cc, it.depth + 1})
				}
				continue
			}
			if !cc.Call.IsInvoke() || cc.Call.Method.Name() != "Capabilities" {
				continue
			}
			recv := cc.Call.Value
			if pa, isP := strip(recv).(*ssa.Parameter); isP && it.call != nil {
				// inside a helper: the helper's own parameter
				own := true
				if wrapped != nil && it.depth == 1 {
					for i, q := range it.fn.Params {
						if q == pa && i < len(it.call.Call.Args) {
							own = sameValue(it.call.Call.Args[i], wrapped)
						}
					}
				}
				if own {
					out.own = true
				}
			} else if wrapped != nil && it.call == nil && sameValue(recv, wrapped) {
				out.own = true
			}
			for w := range backSlice(recv) {
				switch y := w.(type) {
				case *ssa.Parameter:
					if _, isSl := y.Type().Underlying().(*types.Slice); isSl {
						out.elems = true
					}
				case *ssa.FieldAddr:
					switch fieldName(y) {
					case "fanOutNode":
						out.fan = true
					case "processors":
						out.procs = true
					}
				}
			}
		}
	}
	for _, g := range fns {
		for _, f := range withAnon(g) {
			allInstrs(f, func(in ssa.Instruction) {
				st, ok := in.(*ssa.Store)
				if !ok {
					return
				}
				fa, ok := st.Addr.(*ssa.FieldAddr)
				if !ok || fieldName(fa) != "MutatesData" {
					return
				}
				var base ssa.Value
				switch x := st.Val.(type) {
				case *ssa.Field:
					base = x.X
				case *ssa.UnOp:
					if fa2, ok := x.X.(*ssa.FieldAddr); ok {
						base = fa2.X
					}
				}
				if base == nil {
					return
				}
				for w := range backSlice(base) {
					if fa3, ok := w.(*ssa.FieldAddr); ok && fieldName(fa3) == "fanOutNode" {
						out.direct = true
					}
				}
			})
		}
	}
	return out
}

// ---------- a value chosen on the way to its use (`x := a; if c { x = b }; use(x)`) ----------

type altA3 struct {
	v      ssa.Value
	guards []Guard
}

// valueAlternativesA3: the values v may stand for at a use in block `at`, each with the conditions under which it
// is the one used: a phi that merges branch-local choices (not a loop-carried phi) is split into its edges, the
// guards of an edge being those of the predecessor block plus the branch of the predecessor's If that leads to the
// phi. The guards of the use site apply to every alternative.
func valueAlternativesA3(v ssa.Value, at *ssa.BasicBlock) []altA3 {
	var out []altA3
	var walk func(v ssa.Value, gs []Guard, depth int)
	walk = func(v ssa.Value, gs []Guard, depth int) {
		phi, ok := v.(*ssa.Phi)
		if ok && depth < 3 {
			loopCarried := false
			for _, e := range phi.Edges {
				if e == ssa.Value(phi) || backSlice(e)[phi] {
					loopCarried = true
				}
			}
			if !loopCarried {
				blk := phi.Block()
				for i, e := range phi.Edges {
					pred := blk.Preds[i]
					eg := append(append([]Guard{}, gs...), guardsOf(pred)...)
					if len(pred.Instrs) > 0 {
						if iff, isIf := pred.Instrs[len(pred.Instrs)-1].(*ssa.If); isIf && pred.Succs[0] != pred.Succs[1] {
							if pred.Succs[0] == blk {
								eg = append(eg, Guard{Cond: iff.Cond, Branch: true, If: iff})
							} else if pred.Succs[1] == blk {
								eg = append(eg, Guard{Cond: iff.Cond, Branch: false, If: iff})
							}
						}
					}
					walk(e, eg, depth+1)
				}
				return
			}
		}
		out = append(out, altA3{v: v, guards: gs})
	}
	walk(v, guardsOf(at), 0)
	return out
}

// lenCmpA3: the guard compares len(T.field) with a constant; returns the comparison with the length on the left.
func lenCmpA3(g Guard, T *types.Named, field string) (token.Token, int64, bool) {
	op, x, y, ok := cmpOf(g)
	if !ok {
		return 0, 0, false
	}
	if k, isC := constInt(y); isC && isLenOfField(x, T, field) {
		return op, k, true
	}
	if k, isC := constInt(x); isC && isLenOfField(y, T, field) {
		switch op {
		case token.LSS:
			op = token.GTR
		case token.GTR:
			op = token.LSS
		case token.LEQ:
			op = token.GEQ
		case token.GEQ:
			op = token.LEQ
		}
		return op, k, true
	}
	return 0, 0, false
}

// lenIsZeroA3: the guard states len(T.field) == 0 in any of its spellings (== 0, <= 0, < 1, and the negations of
// != 0, > 0, >= 1 which cmpOf has already folded in).
func lenIsZeroA3(g Guard, T *types.Named, field string) bool {
	op, k, ok := lenCmpA3(g, T, field)
	if !ok {
		return false
	}
	return (op == token.EQL && k == 0) || (op == token.LEQ && k == 0) || (op == token.LSS && k == 1)
}

// appendsFeedingA3: the append calls whose result flows into v (through the loop-carried phi of an accumulator
// built in a local, or directly when the field is appended to in place).
func appendsFeedingA3(v ssa.Value) []*ssa.Call {
	var out []*ssa.Call
	seen := map[ssa.Value]bool{}
	var walk func(x ssa.Value)
	walk = func(x ssa.Value) {
		x = strip(x)
		if x == nil || seen[x] {
			return
		}
		seen[x] = true
		switch y := x.(type) {
		case *ssa.Phi:
			for _, e := range y.Edges {
				walk(e)
			}
		case *ssa.Call:
			if builtinName(y) == "append" {
				out = append(out, y)
				walk(y.Call.Args[0])
			}
		case *ssa.Slice:
			walk(y.X)
		}
	}
	walk(v)
	return out
}

// ---------- C06: which list of a fan-out type holds the mutating consumers ----------

// capabilityPolarityA3: block b is guarded by a condition that depends on a Capabilities() call; returns the
// polarity of the innermost such guard.
func capabilityPolarityA3(b *ssa.BasicBlock) (polarity, found bool) {
	for _, g := range guardsOf(b) {
		v, br := boolOf(g)
		for x := range backSlice(v) {
			if call, ok := x.(*ssa.Call); ok && call.Call.IsInvoke() && call.Call.Method.Name() == "Capabilities" {
				return br, true
			}
		}
	}
	return false, false
}

// fanListsByEffectA3 identifies the two consumer lists of fan-out type T by what the constructor does with them:
// the list whose elements are appended under Capabilities().MutatesData is the mutable one, the list appended to on
// the other side is the read-only one. Used when the field names do not tell (a rename).
func fanListsByEffectA3(p *Prog, funcs []*ssa.Function, T *types.Named) (mutF, roF string) {
	st, ok := T.Underlying().(*types.Struct)
	if !ok {
		return "", ""
	}
	for _, fn := range funcs {
		if fn.Parent() != nil || recvNamedOfFn(fn) != nil {
			continue
		}
		var m, r []string
		for i := 0; i < st.NumFields(); i++ {
			if _, isSl := st.Field(i).Type().Underlying().(*types.Slice); !isSl {
				continue
			}
			name := st.Field(i).Name()
			nT, nF := 0, 0
			for _, s := range fieldStores(fn, T, name) {
				for _, ap := range appendsFeedingA3(s.Val) {
					if pol, found := capabilityPolarityA3(ap.Block()); found {
						if pol {
							nT++
						} else {
							nF++
						}
					}
				}
			}
			if nT > 0 && nF == 0 {
				m = append(m, name)
			}
			if nF > 0 && nT == 0 {
				r = append(r, name)
			}
		}
		if len(m) == 1 && len(r) == 1 {
			return m[0], r[0]
		}
	}
	return "", ""
}

// ---------- C05: the delay a throttling error carries, identified by type ----------

var errorIfaceA3 = errorType.Underlying().(*types.Interface)

// isThrottleDelayAccessA3: x reads (or addresses) a field of type time.Duration of a struct type of the exporter
// helper's internal package that is itself an error – the delay the backend asked for, whatever the type and the
// field are called.
func isThrottleDelayAccessA3(x ssa.Value) bool {
	var base types.Type
	var idx int
	switch y := x.(type) {
	case *ssa.FieldAddr:
		base, idx = y.X.Type(), y.Field
	case *ssa.Field:
		base, idx = y.X.Type(), y.Field
	default:
		return false
	}
	n := namedOf(base)
	st := derefStruct(base)
	if n == nil || st == nil || n.Obj().Pkg() == nil || n.Obj().Pkg().Path() != pkgEHI {
		return false
	}
	if !typeIs(st.Field(idx).Type(), "time", "Duration") {
		return false
	}
	return types.Implements(n, errorIfaceA3) || types.Implements(types.NewPointer(n), errorIfaceA3)
}

// timeoutSenderTypeA3: the sender type of exporterhelper/internal whose Send derives its context with
// context.WithTimeout (the per-attempt timeout sender), whatever it is called.
func timeoutSenderTypeA3(p *Prog) *types.Named {
	ipk := p.ByPath[pkgEHI]
	if ipk == nil {
		return nil
	}
	for _, fn := range p.AllSrcFuncs(ipk) {
		if fn.Parent() != nil || fn.Name() != "Send" {
			continue
		}
		if len(callsNamed(fn, func(f *types.Func) bool { return f.FullName() == "context.WithTimeout" })) > 0 {
			return recvNamedOfFn(fn)
		}
	}
	return nil
}

// constructedTypeA3: the named type of the object a constructor function returns as its first result (the declared
// result type, or – when that is an interface – the concrete type every return wraps).
func constructedTypeA3(p *Prog, g *types.Func) *types.Named {
	sig := g.Type().(*types.Signature)
	if sig.Results().Len() == 0 {
		return nil
	}
	if _, isIface := sig.Results().At(0).Type().Underlying().(*types.Interface); !isIface {
		return namedOf(sig.Results().At(0).Type())
	}
	fn := p.SSAFunc(g)
	if fn == nil || len(fn.Blocks) == 0 {
		return nil
	}
	var out *types.Named
	for _, r := range returnsOf(fn) {
		n := namedOf(strip(resultsOf(r)[0]).Type())
		if n == nil || (out != nil && n != out) {
			return nil
		}
		out = n
	}
	return out
}

// ---------- C06: a fan-out Consume* whose sections were extracted into helpers ----------

// fanBodyA3 is a function that carries out part of a fan-out Consume*: the method itself, or a function of the same
// package that the method calls exactly once, handing it the incoming payload, and that itself sends to consumers.
type fanBodyA3 struct {
	fn      *ssa.Function
	payload ssa.Value           // the parameter of fn that holds the incoming payload
	call    ssa.CallInstruction // the call in the Consume* method that enters fn (nil for the method itself)
}

func fanBodiesA3(consume *ssa.Function, payload ssa.Value) []*fanBodyA3 {
	out := []*fanBodyA3{{fn: consume, payload: payload}}
	isSend := func(in ssa.Instruction) bool {
		ci, ok := in.(ssa.CallInstruction)
		return ok && ci.Common().IsInvoke() && ci.Common().Method.Name() == consume.Name()
	}
	nCalls := map[*ssa.Function]int{}
	var cand []*fanBodyA3
	allInstrs(consume, func(in ssa.Instruction) {
		call, ok := in.(*ssa.Call)
		if !ok {
			return
		}
		cf := staticCalleeFn(call)
		if cf == nil || len(cf.Blocks) == 0 || cf.Pkg == nil || cf.Pkg != consume.Pkg || cf == consume {
			return
		}
		var pp ssa.Value
		for i, a := range call.Call.Args {
			if a == payload && i < len(cf.Params) {
				pp = cf.Params[i]
			}
		}
		if pp == nil {
			return
		}
		sends := false
		allInstrs(cf, func(in2 ssa.Instruction) {
			if isSend(in2) {
				sends = true
			}
		})
		if !sends {
			return
		}
		nCalls[cf]++
		cand = append(cand, &fanBodyA3{fn: cf, payload: pp, call: call})
	})
	for _, b := range cand {
		if nCalls[b.fn] == 1 {
			out = append(out, b)
		}
	}
	return out
}

// isBackOffEnabledA3: v reads the Enabled flag of a configretry.BackOffConfig (held in whatever field or variable).
func isBackOffEnabledA3(v ssa.Value) bool {
	v = strip(v)
	if u, ok := v.(*ssa.UnOp); ok && u.Op == token.MUL {
		v = u.X
	}
	var base types.Type
	var idx int
	switch y := v.(type) {
	case *ssa.FieldAddr:
		base, idx = y.X.Type(), y.Field
	case *ssa.Field:
		base, idx = y.X.Type(), y.Field
	default:
		return false
	}
	st := derefStruct(base)
	return st != nil && st.Field(idx).Name() == "Enabled" && typeIs(base, modPrefix+"/config/configretry", "BackOffConfig")
}
