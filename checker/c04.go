package main

import (
	"fmt"
	"go/token"
	"go/types"
	"strings"

	"golang.org/x/tools/go/ssa"
)

const pkgXEH = pkgEH + "/xexporterhelper"

func init() {
	register(&Property{
		ID:         "C04",
		Run:        runC04,
		Explain:    "Static structural necessary conditions of exporter-side batching: (R1) partial-copy completeness – every fresh pdata container created while splitting (resource/scope level, Metric, Sum, Histogram, …; the identity-attribute list is computed from the type's API) either receives a whole source or has every identity attribute copied from its source, followed through helpers and returned values; (R2) split-loop progress – each `for size > max` split loop contains a progress guard (a branch on an empty extraction that leaves the loop or falls back to extracting one indivisible item), otherwise a single item larger than the limit makes it spin forever; (R3) cache pairing – every function that moves payload into or out of a request updates that request's cached size in the same function; (R4) merge moves the whole top-level resource slice of the source into the destination's; (R5) completion fan-in – the ref-counted and multi done objects forward/aggregate every outcome (shared with C03.R6); (R6) the default batcher's pending-slot discipline, decided by a path-sensitive abstract interpretation of every method that stores to the slot (slot nil/non-nil, batch owed to flush, nilness of saved batches, length intervals of the MergeSplit result lists refined by the branch conditions): a pending batch is never overwritten, a batch taken out of the slot is flushed with its own callback list on every path, every result dropped from the list was put into the pending batch with the request's callback, all remaining results are flushed, the ref-count equals the number of results and the raw callback is not used after the split decision; (R7) the pending slot is accessed only under the batcher mutex.",
		NotDecided: "Multiset conservation and the byte/item bound as numbers (needs the protobuf size arithmetic); the sizes themselves (whether a batch really is below min/max is arithmetic over protobuf sizes, e.g. seeded change C04-m2); exactly-once firing of callbacks is decided only in its structural form (ref-count = number of results, every result flushed or pending with the callback), not as a count over all interleavings of concurrent flushes; the partition/multi batcher above the default batcher is covered by R5/R7 only.",
		Assumes:    []string{"pdata MoveTo/CopyTo/RemoveIf semantics (C07)"},
		Technique:  "static analysis: API-derived attribute coverage with interprocedural value tracking (PCC), loop-structure classification, effect pairing, path-sensitive typestate over SSA with length intervals, must-lockset",
	})
}

func runC04(c *Ctx) {
	p := c.P
	c.Rule("R1", "PCC", "every fresh pdata container created by the exporter batch splitting code receives a whole source (MoveTo/CopyTo) or has every identity attribute of its type copied from its source", 12)
	n := runPCC(c, []string{pkgEH, pkgXEH})
	if n < 12 {
		c.Undecided("fresh container sites", "-", fmt.Sprintf("%d found (expected ≥ 12)", n))
	}

	// request types: structs in exporterhelper/xexporterhelper with a cachedSize field
	type reqT struct {
		T       *types.Named
		payload string
		memo    string // the field that memoises the size
	}
	var reqs []reqT
	for _, path := range []string{pkgEH, pkgXEH} {
		pk := p.ByPath[path]
		if pk == nil {
			c.Rule("R2", "TERM", "", 0)
			c.Anchor("package " + relPkg(path))
			continue
		}
		for _, nme := range pk.Types.Scope().Names() {
			tn, ok := pk.Types.Scope().Lookup(nme).(*types.TypeName)
			if !ok {
				continue
			}
			st, ok := tn.Type().Underlying().(*types.Struct)
			if !ok {
				continue
			}
			// the request types are recognised by their shape (a pdata payload and the memoised size next to it),
			// not by the names of their fields
			payload := ""
			for i := 0; i < st.NumFields(); i++ {
				if n := namedOf(st.Field(i).Type()); n != nil && n.Obj().Pkg() != nil && strings.HasPrefix(n.Obj().Pkg().Path(), pkgPdata+"/") {
					payload = st.Field(i).Name()
				}
			}
			if mi := requestMemoField(st); mi >= 0 && payload != "" {
				reqs = append(reqs, reqT{tn.Type().(*types.Named), payload, st.Field(mi).Name()})
			}
		}
	}
	c.Rule("R2", "TERM", "each split loop `for size > max` has a progress guard: a branch, dependent on the extraction result being empty, that leaves the loop or falls back to extracting a single indivisible item", 4)
	c.Rule("R3", "PAIR", "every request method that moves payload into or out of a request (MoveAndAppendTo on its top-level slice, an extract on its payload) updates the cached size of each request it changed", 8)
	c.Rule("R4", "PROV", "mergeTo applies MoveAndAppendTo to the source request's top-level resource slice with the destination request's top-level slice as target", 4)
	if len(reqs) != 4 {
		c.Rule("R2", "", "", 0)
		c.Undecided("request types", "-", fmt.Sprintf("expected 4 request types with a cached size, found %d", len(reqs)))
	}
	mergeCand, mergeSeen := map[*types.Named][]*ssa.Function{}, map[*types.Named]bool{}
	for _, r := range reqs {
		pk := p.ByPath[r.T.Obj().Pkg().Path()]
		tag := "[" + r.T.Obj().Name() + "] "
		for _, fn := range p.AllSrcFuncs(pk) {
			if fn.Parent() != nil || recvNamedOfFn(fn) != r.T {
				continue
			}
			// --- R2: split loops
			allInstrs(fn, func(in ssa.Instruction) {
				iff, ok := in.(*ssa.If)
				if !ok {
					return
				}
				// `req.size(sz) > max` in any equivalent spelling (swapped operands, negated with swapped branches);
				// the loop continues on the side where the size exceeds
				call, exceedsOnTrue := sizeExceedsCond(iff.Cond, func(cl *ssa.Call) bool {
					return staticCalleeFn(cl) != nil && recvNamedOfFn(staticCalleeFn(cl)) == r.T
				})
				if call == nil {
					return
				}
				hdr := iff.Block()
				h2, body := innermostLoop(hdr)
				if h2 != hdr {
					return
				}
				if cont := hdr.Succs[0]; (exceedsOnTrue && !body[cont]) || (!exceedsOnTrue && !body[hdr.Succs[1]]) {
					return
				}
				c.Rule("R2", "", "", 0)
				// extraction calls in the body – or in the helpers of the package the body calls (`req.extractNext(max, sz)`
				// holding the extraction and its fallback): a region is the loop body or the whole of such a helper
				type region struct {
					blocks map[*ssa.BasicBlock]bool
					inLoop bool
				}
				regions := []region{{body, true}}
				seenFn := map[*ssa.Function]bool{fn: true}
				for ri := 0; ri < len(regions) && ri < 6; ri++ {
					for b := range regions[ri].blocks {
						for _, bi := range b.Instrs {
							ec, ok := bi.(*ssa.Call)
							if !ok {
								continue
							}
							cf := staticCalleeFn(ec)
							if cf == nil || cf.Pkg != fn.Pkg || len(cf.Blocks) == 0 || seenFn[cf] || isExtractionFn(cf, fn.Pkg) {
								continue
							}
							if _, isClosure := ec.Call.Value.(*ssa.MakeClosure); isClosure {
								continue
							}
							seenFn[cf] = true
							hb := map[*ssa.BasicBlock]bool{}
							for _, b2 := range cf.Blocks {
								hb[b2] = true
							}
							regions = append(regions, region{hb, false})
						}
					}
				}
				guard := false
				for _, rg := range regions {
					var ext []*ssa.Call
					for b := range rg.blocks {
						for _, bi := range b.Instrs {
							if ec, ok := bi.(*ssa.Call); ok {
								if isExtractionFn(staticCalleeFn(ec), fn.Pkg) {
									ext = append(ext, ec)
								}
							}
						}
					}
					for b := range rg.blocks {
						bi, ok := b.Instrs[len(b.Instrs)-1].(*ssa.If)
						if !ok || bi == iff {
							continue
						}
						// the condition depends on an extraction result
						dep := false
						for v := range backSlice(bi.Cond) {
							for _, ec := range ext {
								if v == ssa.Value(ec) {
									dep = true
								}
							}
						}
						if !dep {
							continue
						}
						// one side leaves the loop, or contains a second extraction (fallback)
						for _, s := range b.Succs {
							if rg.inLoop && !rg.blocks[s] {
								guard = true
							}
							for _, ec := range ext {
								if s == ec.Block() || s.Dominates(ec.Block()) {
									if len(ext) > 1 {
										guard = true
									}
								}
							}
						}
					}
				}
				c.Check(guard, tag+"split loop in "+fnName(fn)+" makes progress", p.Pos(iff.Pos()), "has a progress guard on the extraction result", "the loop repeats while size > max but nothing handles an extraction that comes back empty: with the bytes sizer a single record larger than max_size extracts nothing and the loop never terminates")
			})
			// --- R3: cache pairing
			moves := calls(fn, func(ci ssa.CallInstruction) bool {
				f := calleeOf(ci)
				if f == nil {
					return false
				}
				if f.Name() == "MoveAndAppendTo" {
					return true
				}
				if isExtractionFn(staticCalleeFn(ci), fn.Pkg) {
					// extraction applied to this request's payload
					for _, a := range ci.Common().Args {
						if isFieldAccess(a, r.T, r.payload) {
							return true
						}
					}
				}
				return false
			})
			if len(moves) > 0 {
				c.Rule("R3", "", "", 0)
				direct := fieldStores(fn, r.T, r.memo)
				// which request objects are updated: by a setter called on them, or by a helper of the package that does
				// the bookkeeping for the objects it is handed (`req.moveCachedSizeTo(dst, sz)`)
				updated := map[ssa.Value]bool{}
				allInstrs(fn, func(in ssa.Instruction) {
					ci, ok := in.(*ssa.Call)
					if !ok {
						return
					}
					cf := staticCalleeFn(ci)
					if cf == nil || cf.Pkg != fn.Pkg || len(cf.Params) != len(ci.Call.Args) {
						return
					}
					for k := range memoUpdatedParams(cf, r.T, r.memo, 3, map[*ssa.Function]bool{}) {
						updated[strip(ci.Call.Args[k])] = true
					}
				})
				for _, s := range direct {
					if fa, ok := s.Addr.(*ssa.FieldAddr); ok {
						updated[strip(fa.X)] = true
					}
				}
				for _, mv := range moves {
					// request objects whose payload the move touches
					touched := map[ssa.Value]bool{}
					for _, a := range mv.Common().Args {
						for v := range backSlice(a) {
							if fa, ok := v.(*ssa.FieldAddr); ok && namedOf(fa.X.Type()) == r.T && derefStruct(fa.X.Type()).Field(fa.Field).Name() == r.payload {
								touched[strip(fa.X)] = true
							}
						}
					}
					okAll := len(touched) > 0
					for t := range touched {
						if !updated[t] {
							okAll = false
						}
					}
					c.Check(okAll, tag+"payload move in "+fnName(fn)+" updates the cached size", p.Pos(mv.Pos()), fmt.Sprintf("%d request(s) touched, all updated", len(touched)), "payload is moved into/out of a request whose cached size is not updated in this function: the memoised size no longer tracks the payload (wrong split decisions, wrong queue size)")
				}
			}
			// --- R3b: the memoised size is unit-less: it may only be consulted with the sizer threaded
			// through MergeSplit (a parameter of the caller), never with a freshly chosen sizer
			if len(fieldStores(fn, r.T, r.memo)) > 0 && fn.Signature.Results().Len() == 1 && len(fn.Params) == 2 {
				c.Rule("R3", "", "", 0)
				for _, caller := range p.AllSrcFuncs(pk) {
					for _, ci := range calls(caller, func(ci ssa.CallInstruction) bool { return staticCalleeFn(ci) == fn }) {
						arg := ci.Common().Args[1]
						_, isParam := strip(arg).(*ssa.Parameter)
						inMergeSplit := rootFn(caller).Name() == "MergeSplit" && caller.Parent() == nil
						c.Check(isParam || inMergeSplit, tag+"cached size consulted with the threaded sizer in "+fnName(caller), p.Pos(ci.Pos()), "sizer is the caller's parameter", "the unit-less memoised size is read with a sizer chosen at this site: it may have been written in another unit (items vs bytes) by MergeSplit, so sizes are misread and split() may never terminate")
					}
				}
			}
			// --- R3c: what is subtracted from the cached size was measured with the sizer the cache is read with
			for _, ci := range calls(fn, func(ci ssa.CallInstruction) bool {
				cf := staticCalleeFn(ci)
				return cf != nil && recvNamedOfFn(cf) == r.T && len(fieldStores(cf, r.T, r.memo)) > 0 && len(ci.Common().Args) == 2
			}) {
				arg := ci.Common().Args[1]
				bo, ok := arg.(*ssa.BinOp)
				if !ok || bo.Op != token.SUB {
					continue
				}
				var readSizer ssa.Value
				if rc, ok := bo.X.(*ssa.Call); ok && len(rc.Call.Args) == 2 {
					readSizer = strip(rc.Call.Args[1])
				}
				if readSizer == nil {
					continue
				}
				c.Rule("R3", "", "", 0)
				okUnit := true
				var walk func(v ssa.Value, seen map[ssa.Value]bool)
				walk = func(v ssa.Value, seen map[ssa.Value]bool) {
					if seen[v] {
						return
					}
					seen[v] = true
					switch x := v.(type) {
					case *ssa.Phi:
						for _, e := range x.Edges {
							walk(e, seen)
						}
					case *ssa.Extract:
						if ec, ok := x.Tuple.(*ssa.Call); ok {
							if cf := staticCalleeFn(ec); cf != nil && isExtractionFn(cf, cf.Pkg) {
								same := false
								for _, a := range ec.Call.Args {
									if strip(a) == readSizer {
										same = true
									}
								}
								if !same {
									okUnit = false
								}
							}
						}
					}
				}
				walk(bo.Y, map[ssa.Value]bool{})
				c.Check(okUnit, tag+"amount subtracted from the cached size in "+fnName(fn)+" is in the cache's unit", p.Pos(ci.Pos()), "measured by an extraction made with the threaded sizer", "the amount subtracted from the cached size was returned by an extraction made with a different sizer (e.g. the item-count fallback) than the one the cache is read with: units are mixed, the byte-sized cache shrinks by 1 per round and the split loop never ends")
			}
			// --- R4: merge
			// the merge method: the method of the request type that is handed another request of the same type
			isMerge := false
			for _, prm := range fn.Params[1:] {
				if _, isPtr := prm.Type().(*types.Pointer); isPtr && namedOf(prm.Type()) == r.T {
					isMerge = true
				}
			}
			if isMerge {
				// … and that moves payload; a type none of whose candidates moves anything is reported below
				mergeCand[r.T] = append(mergeCand[r.T], fn)
				isMerge = len(callsNamed(fn, func(f *types.Func) bool { return f.Name() == "MoveAndAppendTo" })) > 0
				if isMerge {
					mergeSeen[r.T] = true
				}
			}
			if isMerge {
				c.Rule("R4", "", "", 0)
				mv := callsNamed(fn, func(f *types.Func) bool { return f.Name() == "MoveAndAppendTo" })
				ok := false
				for _, m := range mv {
					a := m.Common().Args
					if len(a) != 2 {
						continue
					}
					top := func(v ssa.Value, recv ssa.Value) bool {
						call, isCall := strip(v).(*ssa.Call)
						if !isCall || len(call.Call.Args) != 1 {
							return false
						}
						// accessor on the payload field of recv: top-level resource slice
						pl := call.Call.Args[0]
						if !isFieldAccess(pl, r.T, r.payload) {
							return false
						}
						root, _ := fieldChain(pl)
						return sameValue(root, recv)
					}
					if top(a[0], fn.Params[0]) && len(fn.Params) > 1 && top(a[1], fn.Params[1]) {
						ok = true
					}
				}
				c.Check(ok, tag+"merge moves the whole top-level slice: "+fnName(fn), p.Pos(fn.Pos()), "src.payload.Resource*().MoveAndAppendTo(dst.payload.Resource*())", "merge does not move the source's whole top-level resource slice into the destination's")
				uncond := len(mv) == 1 && len(guardsOf(mv[0].Block())) == 0
				c.Check(uncond, tag+"merge appends the source behind the destination, always: "+fnName(fn), p.Pos(fn.Pos()), "one unconditional MoveAndAppendTo", fmt.Sprintf("%d MoveAndAppendTo calls / conditional: the order of the merged request's resources depends on the inputs, but the batcher relies on the pending batch's data being in front (its callbacks ride on the first split result only) – a parked request's callback fires while part of its data is still pending and reports the wrong outcome", len(mv)))
			}
		}
	}
	for _, r := range reqs {
		if !mergeSeen[r.T] {
			c.Rule("R4", "", "", 0)
			pos := "-"
			if len(mergeCand[r.T]) > 0 {
				pos = p.Pos(mergeCand[r.T][0].Pos())
			}
			c.Bad("["+r.T.Obj().Name()+"] merge moves the whole top-level slice", pos, "no method of the request type that is handed another request of its type moves that request's top-level slice (MoveAndAppendTo): merged data is lost")
		}
	}
	runC04Batcher(c)
	runC04Round4(c)
	runC04CtorBypass(c)
	{
		sub := NewCtx(p, "C06", c.Tier, c.Config)
		sub.Rule("R6", "DEP", "", 0)
		shareDepth++
		runC06Caps(sub)
		shareDepth--
		c.Rule("R8", "DEP", "an exporter that batches advertises MutatesData – unconditionally behind the exporter's own options (same obligations as the exporter-helper part of C06.R6): merging and splitting always work on data the exporter owns, never on a payload shared read-only with a sibling consumer", 2)
		for _, o := range sub.Obs {
			if strings.HasPrefix(o.Construct, "exporter helper") {
				c.add(o.Verdict, o.Construct, o.Pos, o.Detail)
			}
		}
	}
	// R5 shared with C03.R6
	sub := NewCtx(p, "C03", c.Tier, c.Config)
	runC03(sub)
	c.Rule("R5", "PAIR", "completion fan-in (same rule as C03.R6): the ref-counted done merges every partial outcome unconditionally and hands the aggregate to the original Done; the multi-done forwards to every element", 3)
	for _, o := range sub.Obs {
		if o.Rule == "C03.R6" {
			c.add(o.Verdict, o.Construct, o.Pos, o.Detail)
		}
	}
}
