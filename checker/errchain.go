package main

import (
	"go/token"
	"go/types"
	"strings"

	"golang.org/x/tools/go/ssa"
)

// variadicElems returns the element values of a slice value built in the same function:
// slice literal / variadic pack (Alloc array + stores + Slice), make + indexed stores, append chains.
func variadicElems(v ssa.Value) ([]ssa.Value, bool) {
	return variadicElemsRec(v, map[ssa.Value]bool{})
}

func variadicElemsRec(v ssa.Value, seen map[ssa.Value]bool) ([]ssa.Value, bool) {
	v = strip(v)
	if seen[v] {
		// loop-carried slice (x = append(x, …) inside a loop): the elements of the cycle are collected once
		return nil, true
	}
	seen[v] = true
	switch x := v.(type) {
	case *ssa.Slice:
		base := strip(x.X)
		if a, ok := base.(*ssa.Alloc); ok {
			return storesIntoIndexed(a), true
		}
		return variadicElemsRec(x.X, seen)
	case *ssa.MakeSlice:
		return storesIntoIndexed(x), true
	case *ssa.Const:
		if x.Value == nil {
			return nil, true
		}
	case *ssa.Call:
		if builtinName(x) == "append" {
			first, ok1 := variadicElemsRec(x.Call.Args[0], seen)
			rest, ok2 := variadicElemsRec(x.Call.Args[1], seen)
			return append(first, rest...), ok1 && ok2
		}
	case *ssa.Phi:
		var out []ssa.Value
		ok := true
		for _, e := range x.Edges {
			if e == v {
				continue
			}
			el, o := variadicElemsRec(e, seen)
			out = append(out, el...)
			ok = ok && o
		}
		return out, ok
	}
	return nil, false
}

func storesIntoIndexed(base ssa.Value) []ssa.Value {
	var out []ssa.Value
	refs := base.Referrers()
	if refs == nil {
		return nil
	}
	for _, r := range *refs {
		ia, ok := r.(*ssa.IndexAddr)
		if !ok {
			continue
		}
		if irefs := ia.Referrers(); irefs != nil {
			for _, rr := range *irefs {
				if s, ok := rr.(*ssa.Store); ok && s.Addr == ia {
					out = append(out, s.Val)
				}
			}
		}
	}
	return out
}

var chainWrappers = map[string]bool{
	"go.uber.org/multierr.Append":  true,
	"go.uber.org/multierr.Combine": true,
	"errors.Join":                  true,
	modPrefix + "/exporter/exporterhelper/internal/experr.NewShutdownErr": true,
	modPrefix + "/exporter/exporterhelper/internal.NewThrottleRetry":      true,
	modPrefix + "/consumer/consumererror.NewPermanent":                    true,
}

// errChainReaches: does error value v keep the error chain of a source value (identity, phi,
// multierr/Join, fmt.Errorf with %w, chain-preserving constructors)?
func errChainReaches(v ssa.Value, isSrc func(ssa.Value) bool, seen map[ssa.Value]bool) (bool, string) {
	if seen == nil {
		seen = map[ssa.Value]bool{}
	}
	if isSrc(v) {
		return true, ""
	}
	v = strip(v)
	if isSrc(v) {
		return true, ""
	}
	if seen[v] {
		return false, ""
	}
	seen[v] = true
	switch x := v.(type) {
	case *ssa.Phi:
		any := false
		for _, e := range x.Edges {
			if isNilConst(e) {
				continue
			}
			if strip(e) == v || seen[strip(e)] {
				continue
			}
			ok, why := errChainReaches(e, isSrc, seen)
			if !ok {
				return false, why
			}
			any = true
		}
		return any, "phi with no source edge"
	case *ssa.Extract:
		if call, isCall := x.Tuple.(*ssa.Call); isCall && !isSrc(call) {
			if f := calleeOf(call); f != nil && !chainWrappers[f.FullName()] && f.FullName() != "fmt.Errorf" {
				if ok, why, followed := errChainThroughCalleeA3(call, x.Index, isSrc, seen); followed {
					return ok, why
				}
			}
		}
		return errChainReaches(x.Tuple, isSrc, seen)
	case *ssa.Call:
		f := calleeOf(x)
		if f == nil {
			return false, "dynamic call result"
		}
		full := f.FullName()
		args := x.Call.Args
		if chainWrappers[full] {
			var flat []ssa.Value
			for _, a := range args {
				if _, isSlice := a.Type().Underlying().(*types.Slice); isSlice {
					if els, ok := variadicElems(a); ok {
						flat = append(flat, els...)
						continue
					}
				}
				flat = append(flat, a)
			}
			for _, a := range flat {
				if ok, _ := errChainReaches(a, isSrc, seen); ok {
					return true, ""
				}
			}
			return false, full + " without the source error among its arguments"
		}
		if full == "fmt.Errorf" {
			format, ok := constString(args[0])
			if !ok {
				return false, "fmt.Errorf with non-constant format"
			}
			if !strings.Contains(format, "%w") {
				return false, "fmt.Errorf without %w drops the error chain"
			}
			els, _ := variadicElems(args[1])
			for _, a := range els {
				if ok, _ := errChainReaches(a, isSrc, seen); ok {
					return true, ""
				}
			}
			return false, "fmt.Errorf %w does not wrap the source error"
		}
		// a helper of the collector with a body: followed (see errChainThroughCalleeA3)
		if ok, why, followed := errChainThroughCalleeA3(x, -1, isSrc, seen); followed {
			return ok, why
		}
		return false, "result of " + full + " does not preserve the error chain"
	case *ssa.UnOp:
		if x.Op == token.MUL {
			// load: all stores to the same address expression (same field of same struct type, or same alloc)
			var stores []ssa.Value
			fn := x.Parent()
			for _, g := range withAnon(rootFn(fn)) {
				allInstrs(g, func(in ssa.Instruction) {
					s, ok := in.(*ssa.Store)
					if !ok {
						return
					}
					if sameAddr(s.Addr, x.X) {
						stores = append(stores, s.Val)
					}
				})
			}
			any := false
			for _, sv := range stores {
				if isNilConst(sv) {
					continue
				}
				ok, why := errChainReaches(sv, isSrc, seen)
				if !ok {
					if seen[strip(sv)] {
						continue
					}
					return false, why
				}
				any = true
			}
			return any, "loaded value never stored from the source"
		}
	case *ssa.MakeClosure, *ssa.Const:
		return false, "constant"
	}
	return false, "value does not derive from the source error by a chain-preserving operation"
}

func rootFn(fn *ssa.Function) *ssa.Function {
	for fn.Parent() != nil {
		fn = fn.Parent()
	}
	return fn
}

// sameAddr: two address expressions denote the same location class: identical value, same
// Alloc (also via free variable binding), or the same field of the same struct type.
func sameAddr(a, b ssa.Value) bool {
	if a == b {
		return true
	}
	ra, rb := resolveFree(a), resolveFree(b)
	if ra == rb {
		return true
	}
	fa, ok1 := ra.(*ssa.FieldAddr)
	fb, ok2 := rb.(*ssa.FieldAddr)
	if ok1 && ok2 && fa.Field == fb.Field && namedOf(fa.X.Type()) != nil && namedOf(fa.X.Type()) == namedOf(fb.X.Type()) {
		return true
	}
	return false
}

func resolveFree(v ssa.Value) ssa.Value {
	for {
		fv, ok := v.(*ssa.FreeVar)
		if !ok {
			return v
		}
		b := freeVarBinding(fv)
		if b == nil {
			return v
		}
		v = b
	}
}
