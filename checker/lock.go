package main

import (
	"fmt"
	"go/token"
	"go/types"
	"sort"

	"golang.org/x/tools/go/packages"
	"golang.org/x/tools/go/ssa"
)

// LOCK family: type-based must-lockset analysis.
//
// A lock class is a set of mutex fields (struct type, field) that all stand for "the owner's
// mutex", optional sync.Locker alias fields (cond.L), and a set of guarded fields.
// Every read or write of a guarded field must happen at a program point where the class lock
// is must-held. Helper functions ("caller must hold the lock") are not named: a function's
// entry state is the conjunction of the lock state at all of its static call sites.

type fieldKey struct {
	T *types.Named
	F string
}

func (k fieldKey) String() string {
	if k.T == nil {
		return "?." + k.F
	}
	return k.T.Obj().Name() + "." + k.F
}

type LockClass struct {
	Name    string
	Pkgs    []*packages.Package
	Mutexes map[fieldKey]bool
	Aliases map[fieldKey]bool
	Guarded map[fieldKey]bool
	// NotGuarded: fields of the class's structs that are stored to outside constructors but are
	// deliberately not guarded, with the reason. Everything else that is mutable must be guarded.
	NotGuarded map[fieldKey]string
	// Structs whose fields are subject to the "unclassified mutable field" check.
	Structs []*types.Named
	// StartRoot: functions that are the root of the single-threaded start-up exemption.
	StartRoot func(fn *ssa.Function) bool
	// ExtraHeld: extra obligations: calls that must happen with the lock held.
	MustHoldCall func(call ssa.CallInstruction) (string, bool)
}

type lockAccess struct {
	Fn     *ssa.Function
	Instr  ssa.Instruction
	Key    string // field or call description
	Held   bool
	Exempt string
	Write  bool
}

type lockResult struct {
	Accesses     []lockAccess
	EntryHeld    map[*ssa.Function]bool
	Startup      map[*ssa.Function]bool
	Unclassified []string
	Funcs        int
}

type lockAnalyzer struct {
	p       *Prog
	lc      *LockClass
	funcs   []*ssa.Function
	inSet   map[*ssa.Function]bool
	entry   map[*ssa.Function]bool
	exit    map[*ssa.Function]bool // exit state given entry held
	sites   map[*ssa.Function][]callSite
	escapes map[*ssa.Function]bool
	dynName map[string]bool
	stateAt map[ssa.Instruction]bool
	startup map[*ssa.Function]bool
}

type callSite struct {
	caller *ssa.Function
	instr  ssa.Instruction
	kind   string // call | defer | go
}

func originFn(f *ssa.Function) *ssa.Function {
	if f == nil {
		return nil
	}
	if o := f.Origin(); o != nil {
		return o
	}
	return f
}

func runLock(p *Prog, lc *LockClass) *lockResult {
	a := &lockAnalyzer{p: p, lc: lc, inSet: map[*ssa.Function]bool{}, entry: map[*ssa.Function]bool{}, exit: map[*ssa.Function]bool{},
		sites: map[*ssa.Function][]callSite{}, escapes: map[*ssa.Function]bool{}, dynName: map[string]bool{}, startup: map[*ssa.Function]bool{}}
	a.funcs = p.AllSrcFuncs(lc.Pkgs...)
	for _, f := range a.funcs {
		a.inSet[f] = true
	}
	// collect call sites, escapes, dynamically invoked method names
	for _, f := range a.funcs {
		allInstrs(f, func(in ssa.Instruction) {
			if ci, ok := in.(ssa.CallInstruction); ok {
				cc := ci.Common()
				if cc.IsInvoke() {
					a.dynName[cc.Method.Name()] = true
				} else if callee := staticCalleeFn(ci); callee != nil && a.inSet[callee] {
					kind := "call"
					switch in.(type) {
					case *ssa.Defer:
						kind = "defer"
					case *ssa.Go:
						kind = "go"
					}
					a.sites[callee] = append(a.sites[callee], callSite{f, in, kind})
				}
				// args that are functions escape
				for _, arg := range cc.Args {
					a.markEscape(arg)
				}
				return
			}
			for _, op := range in.Operands(nil) {
				if *op != nil {
					a.markEscape(*op)
				}
			}
		})
	}
	// initial optimistic entry states
	for _, f := range a.funcs {
		a.entry[f] = a.candidateHelper(f)
		a.exit[f] = true
	}
	// fixpoint
	for iter := 0; iter < 50; iter++ {
		changed := false
		a.stateAt = map[ssa.Instruction]bool{}
		retHeld := map[*ssa.Function]bool{}
		for _, f := range a.funcs {
			retHeld[f] = a.flow(f, a.entry[f])
		}
		for _, f := range a.funcs {
			// exit summary given entry held
			ex := retHeld[f]
			if !a.entry[f] {
				// recompute under the assumption of held entry, for use as a call summary
				save := a.stateAt
				a.stateAt = map[ssa.Instruction]bool{}
				ex = a.flow(f, true)
				a.stateAt = save
			}
			if ex != a.exit[f] {
				a.exit[f] = ex
				changed = true
			}
		}
		for _, f := range a.funcs {
			if !a.entry[f] {
				continue
			}
			ne := a.computeEntry(f, retHeld)
			if ne != a.entry[f] {
				a.entry[f] = ne
				changed = true
			}
		}
		if !changed {
			break
		}
	}
	// start-up exemption: computed closure from StartRoot
	if lc.StartRoot != nil {
		for changed := true; changed; {
			changed = false
			for _, f := range a.funcs {
				if a.startup[f] {
					continue
				}
				if lc.StartRoot(f) {
					a.startup[f] = true
					changed = true
					continue
				}
				if f.Parent() != nil || a.escapes[f] || a.dynName[f.Name()] || len(a.sites[f]) == 0 {
					continue
				}
				all := true
				for _, s := range a.sites[f] {
					if !a.startup[s.caller] || s.kind == "go" {
						all = false
					}
				}
				if all {
					a.startup[f] = true
					changed = true
				}
			}
		}
	}
	res := &lockResult{EntryHeld: a.entry, Startup: a.startup, Funcs: len(a.funcs)}
	// final pass to collect accesses
	a.stateAt = map[ssa.Instruction]bool{}
	for _, f := range a.funcs {
		a.flow(f, a.entry[f])
	}
	stored := map[fieldKey][]string{}
	for _, f := range a.funcs {
		for _, b := range f.Blocks {
			for _, in := range b.Instrs {
				if ci, ok := in.(ssa.CallInstruction); ok && lc.MustHoldCall != nil {
					if desc, ok := lc.MustHoldCall(ci); ok {
						acc := lockAccess{Fn: f, Instr: in, Key: "call " + desc, Held: a.stateAt[in]}
						if _, isDefer := in.(*ssa.Defer); isDefer {
							acc.Held = a.heldAtReturns(f)
						}
						if a.startup[f] && !a.afterGo(f, in) {
							acc.Exempt = "single-threaded start-up"
						}
						res.Accesses = append(res.Accesses, acc)
					}
				}
				var x ssa.Value
				var idx int
				switch fa := in.(type) {
				case *ssa.FieldAddr:
					x, idx = fa.X, fa.Field
				case *ssa.Field:
					x, idx = fa.X, fa.Field
				default:
					continue
				}
				n := namedOf(x.Type())
				st := derefStruct(x.Type())
				if n == nil || st == nil {
					continue
				}
				k := fieldKey{n, st.Field(idx).Name()}
				isStore := false
				if v, ok := in.(ssa.Value); ok {
					if refs := v.Referrers(); refs != nil {
						for _, r := range *refs {
							if s, ok := r.(*ssa.Store); ok && s.Addr == v {
								isStore = true
							}
						}
					}
				}
				fresh := isFreshAlloc(x)
				if isStore && !fresh && !(a.startup[f] && !a.afterGo(f, in)) {
					stored[k] = append(stored[k], fnName(f))
				}
				if !lc.Guarded[k] {
					continue
				}
				acc := lockAccess{Fn: f, Instr: in, Key: k.String(), Held: a.stateAt[in], Write: isStore}
				if a.dead(f) {
					acc.Exempt = "unreachable: method of an unexported type with no call site and not invocable through an interface"
				} else if fresh {
					acc.Exempt = "object allocated in this function (constructor)"
				} else if a.startup[f] && !a.afterGo(f, in) {
					acc.Exempt = "single-threaded start-up (reachable only from Start, before any go statement)"
				}
				res.Accesses = append(res.Accesses, acc)
			}
		}
	}
	// unclassified mutable fields
	for _, s := range lc.Structs {
		st, _ := s.Underlying().(*types.Struct)
		if st == nil {
			continue
		}
		for i := 0; i < st.NumFields(); i++ {
			k := fieldKey{s.Origin(), st.Field(i).Name()}
			if lc.Guarded[k] || lc.Mutexes[k] {
				continue
			}
			if _, ok := lc.NotGuarded[k]; ok {
				continue
			}
			if fns, ok := stored[k]; ok {
				sort.Strings(fns)
				res.Unclassified = append(res.Unclassified, fmt.Sprintf("%s (stored in %s)", k, fns[0]))
			}
		}
	}
	sort.Strings(res.Unclassified)
	return res
}

func isFreshAlloc(x ssa.Value) bool {
	x = strip(x)
	if a, ok := x.(*ssa.Alloc); ok {
		// &T{} literal or new(T); spilled params are Allocs too – those have a Store of a Parameter
		if s := singleStore(a); s != nil {
			if _, isParam := s.Val.(*ssa.Parameter); isParam {
				return false
			}
		}
		_, isStruct := a.Type().Underlying().(*types.Pointer).Elem().Underlying().(*types.Struct)
		return isStruct
	}
	return false
}

func (a *lockAnalyzer) markEscape(v ssa.Value) {
	switch x := v.(type) {
	case *ssa.Function:
		if o := originFn(x); a.inSet[o] {
			a.escapes[o] = true
		}
	case *ssa.MakeClosure:
		// closures: handled through their use sites
	}
}

// afterGo: instruction may execute after a `go` statement of the same function.
func (a *lockAnalyzer) afterGo(f *ssa.Function, in ssa.Instruction) bool {
	found := false
	allInstrs(f, func(g ssa.Instruction) {
		if _, ok := g.(*ssa.Go); ok {
			if g == in || canReach(g, in, nil) {
				found = true
			}
		}
	})
	return found
}

// dead: a top-level function/method that cannot be called: unexported (or method of an
// unexported type), no static call sites, never used as a value, not invocable dynamically.
func (a *lockAnalyzer) dead(f *ssa.Function) bool {
	r := rootFn(f)
	if a.escapes[r] || a.dynName[r.Name()] || len(a.sites[r]) > 0 || r.Name() == "init" {
		return false
	}
	if obj := r.Object(); obj != nil && obj.Exported() {
		rn := recvNamedOfFn(r)
		if rn == nil || rn.Obj().Exported() {
			return false
		}
	}
	return true
}

func (a *lockAnalyzer) candidateHelper(f *ssa.Function) bool {
	if f.Parent() != nil {
		return true // anon: computed from use
	}
	if a.escapes[f] || a.dynName[f.Name()] {
		return false
	}
	if obj := f.Object(); obj != nil && obj.Exported() {
		// an exported name matters only when the receiver type is exported too (callable from
		// other packages); methods of unexported types are callable only from this package,
		// statically (exact) or through an interface (dynName).
		rn := recvNamedOfFn(f)
		if rn == nil || rn.Obj().Exported() {
			return false
		}
	}
	if f.Name() == "init" {
		return false
	}
	return len(a.sites[f]) > 0
}

func (a *lockAnalyzer) heldAtReturns(f *ssa.Function) bool {
	held := true
	n := 0
	for _, r := range returnsOf(f) {
		n++
		if !a.stateAt[r] {
			held = false
		}
	}
	return held && n > 0
}

func (a *lockAnalyzer) computeEntry(f *ssa.Function, retHeld map[*ssa.Function]bool) bool {
	if par := f.Parent(); par != nil {
		// closure: find MakeClosure uses
		ok := true
		n := 0
		allInstrs(par, func(in ssa.Instruction) {
			mc, isMC := in.(*ssa.MakeClosure)
			if !isMC || mc.Fn != f {
				return
			}
			refs := mc.Referrers()
			if refs == nil {
				ok = false
				return
			}
			for _, r := range *refs {
				n++
				switch u := r.(type) {
				case *ssa.Defer:
					if u.Call.Value == mc {
						if !a.heldAtReturns(par) {
							ok = false
						}
					} else {
						ok = false
					}
				case *ssa.Call:
					if u.Call.Value == mc {
						if !a.stateAt[u] {
							ok = false
						}
					} else {
						ok = false // passed as an argument: invoked at an unknown time
					}
				default:
					ok = false
				}
			}
		})
		return ok && n > 0
	}
	if len(a.sites[f]) == 0 {
		return false
	}
	for _, s := range a.sites[f] {
		switch s.kind {
		case "go":
			return false
		case "defer":
			if !a.heldAtReturns(s.caller) {
				return false
			}
		default:
			if !a.stateAt[s.instr] {
				return false
			}
		}
	}
	return true
}

// lockOp classifies a call as +1 (lock), -1 (unlock) or 0 for this class.
func (a *lockAnalyzer) lockOp(ci ssa.CallInstruction) int {
	cc := ci.Common()
	var name string
	var recv ssa.Value
	if cc.IsInvoke() {
		// sync.Locker interface
		if !typeIs(cc.Value.Type(), "sync", "Locker") {
			return 0
		}
		name = cc.Method.Name()
		recv = cc.Value
		// must be loaded from an alias field
		root := strip(recv)
		u, ok := root.(*ssa.UnOp)
		if !ok || u.Op != token.MUL {
			return 0
		}
		fa, ok := u.X.(*ssa.FieldAddr)
		if !ok {
			return 0
		}
		n := namedOf(fa.X.Type())
		st := derefStruct(fa.X.Type())
		if n == nil || st == nil || !a.lc.Aliases[fieldKey{n, st.Field(fa.Field).Name()}] {
			return 0
		}
	} else {
		f := calleeOf(ci)
		if f == nil || f.Pkg() == nil || f.Pkg().Path() != "sync" {
			return 0
		}
		rn := recvNamed(f)
		if rn == nil || (rn.Obj().Name() != "Mutex" && rn.Obj().Name() != "RWMutex") {
			return 0
		}
		name = f.Name()
		if len(cc.Args) == 0 {
			return 0
		}
		fa, ok := cc.Args[0].(*ssa.FieldAddr)
		if !ok {
			return 0
		}
		n := namedOf(fa.X.Type())
		st := derefStruct(fa.X.Type())
		if n == nil || st == nil || !a.lc.Mutexes[fieldKey{n, st.Field(fa.Field).Name()}] {
			return 0
		}
	}
	switch name {
	case "Lock", "RLock":
		return 1
	case "Unlock", "RUnlock":
		return -1
	}
	return 0
}

// flow runs the must-held dataflow on f and records the state before each instruction.
// Returns the conjunction of the states at the function's returns.
func (a *lockAnalyzer) flow(f *ssa.Function, entry bool) bool {
	if len(f.Blocks) == 0 {
		return entry
	}
	in := make([]int8, len(f.Blocks)) // -1 unknown(top), 0 not held, 1 held
	out := make([]int8, len(f.Blocks))
	for i := range in {
		in[i], out[i] = -1, -1
	}
	b2i := func(b bool) int8 {
		if b {
			return 1
		}
		return 0
	}
	transfer := func(b *ssa.BasicBlock, st bool, record bool) bool {
		for _, ins := range b.Instrs {
			if record {
				a.stateAt[ins] = st
			}
			ci, ok := ins.(ssa.CallInstruction)
			if !ok {
				continue
			}
			if _, isDefer := ins.(*ssa.Defer); isDefer {
				continue
			}
			if _, isGo := ins.(*ssa.Go); isGo {
				continue
			}
			switch a.lockOp(ci) {
			case 1:
				st = true
				continue
			case -1:
				st = false
				continue
			}
			if callee := staticCalleeFn(ci); callee != nil && a.inSet[callee] && st {
				st = a.exit[callee]
			}
		}
		return st
	}
	// round-robin must-analysis: top = held (1); entry block starts at `entry`.
	for i := range in {
		in[i], out[i] = 1, 1
	}
	reach := reachFrom([]*ssa.BasicBlock{f.Blocks[0]}, nil)
	for changed := true; changed; {
		changed = false
		for _, b := range f.Blocks {
			if !reach[b] {
				continue
			}
			ni := int8(1)
			if b.Index == 0 {
				ni = b2i(entry)
			}
			for _, p := range b.Preds {
				if reach[p] && out[p.Index] == 0 {
					ni = 0
				}
			}
			no := b2i(transfer(b, ni == 1, false))
			if ni != in[b.Index] || no != out[b.Index] {
				in[b.Index], out[b.Index] = ni, no
				changed = true
			}
		}
	}
	for _, b := range f.Blocks {
		if !reach[b] {
			in[b.Index] = -1
		}
	}
	ret := true
	nret := 0
	for _, b := range f.Blocks {
		if in[b.Index] == -1 {
			continue // unreachable
		}
		st := transfer(b, in[b.Index] == 1, true)
		if _, ok := b.Instrs[len(b.Instrs)-1].(*ssa.Return); ok {
			nret++
			// state before the Return instruction
			if !a.stateAt[b.Instrs[len(b.Instrs)-1]] {
				ret = false
			}
		}
		_ = st
	}
	if nret == 0 {
		return entry
	}
	return ret
}

// reportLock turns a lock result into obligations on ctx under the current rule.
func reportLock(c *Ctx, res *lockResult, lc *LockClass) {
	type agg struct {
		n    int
		bad  []lockAccess
		ex   int
		pos  string
		kind string
	}
	m := map[string]*agg{}
	for _, acc := range res.Accesses {
		key := fmt.Sprintf("%s: %s in %s", lc.Name, acc.Key, fnName(acc.Fn))
		g := m[key]
		if g == nil {
			g = &agg{pos: c.P.Pos(acc.Instr.Pos())}
			if g.pos == "-" {
				g.pos = c.P.Pos(acc.Fn.Pos())
			}
			m[key] = g
		}
		g.n++
		if acc.Exempt != "" {
			g.ex++
			g.kind = acc.Exempt
			continue
		}
		if !acc.Held {
			g.bad = append(g.bad, acc)
		}
	}
	for _, k := range sortedKeys(m) {
		g := m[k]
		if len(g.bad) > 0 {
			pos := c.P.Pos(g.bad[0].Instr.Pos())
			if pos == "-" {
				pos = g.pos
			}
			c.Bad(k, pos, fmt.Sprintf("%d of %d accesses are at a point where the %s lock is not must-held (function entry held=%v)", len(g.bad), g.n, lc.Name, res.EntryHeld[g.bad[0].Fn]))
		} else if g.ex == g.n {
			c.OK(k, g.pos, "exempt: "+g.kind)
		} else {
			c.OK(k, g.pos, fmt.Sprintf("%d accesses, lock must-held at each", g.n))
		}
	}
	for _, u := range res.Unclassified {
		c.Undecided(lc.Name+": unclassified mutable field "+u, "-", "field is stored to outside constructors/start-up but is neither in the guarded table nor in the reasoned not-guarded table")
	}
}
