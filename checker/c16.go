package main

import (
	"fmt"
	"go/token"
	"go/types"
	"sort"
	"strings"

	"golang.org/x/tools/go/ssa"
)

const pkgConfigCompression = modPrefix + "/config/configcompression"

func init() {
	register(&Property{
		ID:         "C16",
		Run:        runC16,
		Explain:    "Static structural necessary conditions of HTTP body compression: (R1) codec pairing, decided for every compression type the configuration accepts: the client's writer factory and the server's decoder table use the streaming API of the same codec package for each type (deflate→zlib alias included); the table has the identity entry; the default enabled list is a subset of the table's keys; a decoder is enabled only under the name it was listed with (constant alias keys only under a test for that very name); (R2) size limit after decompression: the decompressor assigns r.Body = MaxBytesReader(w, newBody, d.maxRequestBodySize) before calling the base handler whenever a decoder produced a body; that field comes from the server's limit after the default was applied; the interceptor for uncompressed bodies wraps unconditionally and is installed for every positive limit; (R3) the base handler is reached only when the decoder lookup/creation succeeded; an unknown encoding yields an error answered with 400; (R4) the client adds Content-Encoding with the configured type exactly on the path on which it compressed, and forwards an already-encoded request untouched; (R5) the compressed body buffer is request-local (freshly allocated in RoundTrip, never taken from a pool or shared variable), since the transport may read it after RoundTrip returned.",
		NotDecided: "That the third-party (de)compressors round-trip every byte string and frame boundary; exact-limit arithmetic inside http.MaxBytesReader.",
		Assumes:    []string{"compress/gzip, compress/zlib, klauspost zstd, golang/snappy, pierrec/lz4 streaming writers and readers are mutually inverse", "http.MaxBytesReader enforces its limit"},
		Technique:  "static analysis: switch/map table extraction with exhaustive pairing, dominance gating, value provenance",
	})
}

// pkgsCalled: packages (outside the repo and std io/bytes) whose New*-constructors are called in fn
// (including closures).
func codecPkgsCalled(fn *ssa.Function, kind string) map[string]bool {
	out := map[string]bool{}
	for _, g := range withAnon(fn) {
		allInstrs(g, func(in ssa.Instruction) {
			ci, ok := in.(ssa.CallInstruction)
			if !ok {
				return
			}
			f := calleeOf(ci)
			if f == nil || f.Pkg() == nil || !strings.HasPrefix(f.Name(), "New") || !strings.Contains(f.Name(), kind) {
				return
			}
			out[f.Pkg().Path()] = true
		})
	}
	return out
}

func runC16(c *Ctx) {
	p := c.P
	hpk := p.ByPath[pkgConfigHTTP]
	cpk := p.ByPath[pkgConfigCompression]
	c.Rule("R1", "TAB", "for every accepted compression type: writer and reader come from the same codec package (streaming API); identity entry present; default enabled list ⊆ table keys; decoders enabled only under their listed name", 10)
	c.Exhaustive()
	if hpk == nil || cpk == nil {
		c.Anchor("config/confighttp, config/configcompression")
		return
	}
	// accepted types: string constants compared in UnmarshalText
	accepted := map[string]bool{}
	if m := p.LookupMethod(relPkg(pkgConfigCompression), "Type", "UnmarshalText"); m != nil {
		allInstrs(p.SSAFunc(m), func(in ssa.Instruction) {
			if bo, ok := in.(*ssa.BinOp); ok && bo.Op == token.EQL {
				if s, ok := constString(bo.Y); ok {
					accepted[s] = true
				}
			}
		})
	}
	notCompressed := map[string]bool{}
	if m := p.LookupMethod(relPkg(pkgConfigCompression), "Type", "IsCompressed"); m != nil {
		allInstrs(p.SSAFunc(m), func(in ssa.Instruction) {
			if bo, ok := in.(*ssa.BinOp); ok && (bo.Op == token.NEQ || bo.Op == token.EQL) {
				if s, ok := constString(bo.Y); ok {
					notCompressed[s] = true
				}
			}
		})
	}
	if len(accepted) < 6 {
		c.Anchor("accepted compression types (UnmarshalText)")
		return
	}
	// writer factory: function with a string switch whose bodies create closures calling New*Writer*
	writers := map[string]map[string]bool{}
	for _, fn := range p.AllSrcFuncs(hpk) {
		if fn.Parent() != nil {
			continue
		}
		for _, cases := range stringSwitches(fn) {
			tmp := map[string]map[string]bool{}
			for _, cs := range cases {
				pk := map[string]bool{}
				reg := regionOf(cs.block)
				for _, cf := range reg.fns {
					for k := range codecPkgsCalled(cf, "Writer") {
						pk[k] = true
					}
				}
				if len(pk) > 0 {
					tmp[cs.key] = pk
				}
			}
			if len(tmp) >= 4 {
				writers = tmp
			}
		}
	}
	// decoder table: map[string]func(io.ReadCloser)... global
	readers := map[string]map[string]bool{}
	tableKeys := map[string]bool{}
	var tableGlobal *ssa.Global
	if sp := p.SSAPkgs[pkgConfigHTTP]; sp != nil {
		for _, m := range sp.Members {
			g, ok := m.(*ssa.Global)
			if !ok {
				continue
			}
			mt, ok := g.Type().(*types.Pointer).Elem().Underlying().(*types.Map)
			if !ok {
				continue
			}
			if _, isFn := mt.Elem().Underlying().(*types.Signature); !isFn {
				continue
			}
			if b, ok := mt.Key().Underlying().(*types.Basic); !ok || b.Kind() != types.String {
				continue
			}
			tableGlobal = g
		}
		if tableGlobal != nil {
			if init := sp.Func("init"); init != nil {
				allInstrs(init, func(in ssa.Instruction) {
					mu, ok := in.(*ssa.MapUpdate)
					if !ok {
						return
					}
					k, ok := constString(mu.Key)
					if !ok {
						return
					}
					// the map being updated is the one stored in the global
					stored := false
					if mk, ok := mu.Map.(*ssa.MakeMap); ok && mk.Referrers() != nil {
						for _, r := range *mk.Referrers() {
							if s, ok := r.(*ssa.Store); ok && s.Addr == tableGlobal {
								stored = true
							}
						}
					}
					if !stored {
						return
					}
					tableKeys[k] = true
					var f *ssa.Function
					switch v := strip(mu.Value).(type) {
					case *ssa.Function:
						f = v
					case *ssa.MakeClosure:
						f = v.Fn.(*ssa.Function)
					}
					if f != nil {
						readers[k] = codecPkgsCalled(f, "Reader")
					}
				})
			}
		}
	}
	if tableGlobal == nil || len(tableKeys) < 5 || len(writers) < 4 {
		c.Anchor(fmt.Sprintf("decoder table (%d keys) / writer factory (%d cases)", len(tableKeys), len(writers)))
		return
	}
	var types_ []string
	for t := range accepted {
		types_ = append(types_, t)
	}
	sort.Strings(types_)
	for _, t := range types_ {
		if notCompressed[t] {
			continue
		}
		w := writers[t]
		name := "codec pairing for " + t
		rkey := t
		if _, ok := readers[t]; !ok && t == "deflate" {
			rkey = "zlib" // alias installed by the decompressor constructor (checked below)
		}
		r := readers[rkey]
		if len(w) == 0 {
			c.Bad(name, "-", "the client cannot compress with this accepted type (no writer case)")
			continue
		}
		if len(r) == 0 {
			c.Bad(name, "-", "the server has no decoder for this accepted type")
			continue
		}
		same := fmt.Sprint(sortedKeys(w)) == fmt.Sprint(sortedKeys(r))
		c.Check(same, name, "-", fmt.Sprintf("writer and reader from %v", sortedKeys(w)), fmt.Sprintf("client compresses with %v but the server decodes %q with %v: bodies do not round-trip", sortedKeys(w), rkey, sortedKeys(r)))
	}
	c.Check(tableKeys[""], "identity decoder entry", "-", "present", "no entry for an empty Content-Encoding: uncompressed requests are rejected")
	// default enabled list ⊆ table keys ∪ {deflate alias}
	if sp := p.SSAPkgs[pkgConfigHTTP]; sp != nil {
		if init := sp.Func("init"); init != nil {
			var defaults []string
			allInstrs(init, func(in ssa.Instruction) {
				s, ok := in.(*ssa.Store)
				if !ok {
					return
				}
				g, ok := s.Addr.(*ssa.Global)
				if !ok || !strings.Contains(strings.ToLower(g.Name()), "compressionalgorithms") {
					return
				}
				els, _ := variadicElems(s.Val)
				for _, e := range els {
					if str, ok := constString(e); ok {
						defaults = append(defaults, str)
					}
				}
			})
			okSub := len(defaults) > 0
			for _, d := range defaults {
				if !tableKeys[d] && d != "deflate" {
					okSub = false
				}
			}
			c.Check(okSub, "default enabled decoders exist", "-", fmt.Sprintf("%v", defaults), fmt.Sprintf("default list %v names a decoder that is not in the table", defaults))
		}
	}
	// enabling: in the decompressor constructor every MapUpdate of the enabled map uses the listed
	// name as key, or a constant key under a test `name == that constant`
	var ctor *ssa.Function
	for _, fn := range p.AllSrcFuncs(hpk) {
		if fn.Parent() != nil {
			continue
		}
		uses := false
		allInstrs(fn, func(in ssa.Instruction) {
			if u, ok := in.(*ssa.UnOp); ok && u.X == ssa.Value(tableGlobal) {
				uses = true
			}
		})
		if uses && len(fn.Params) >= 4 {
			ctor = fn
		}
	}
	if ctor == nil {
		c.Anchor("decompressor constructor (reads the decoder table)")
	} else {
		n := 0
		allInstrs(ctor, func(in ssa.Instruction) {
			mu, ok := in.(*ssa.MapUpdate)
			if !ok {
				return
			}
			// value looked up from the table
			mv := strip(mu.Value)
			if ex, isEx := mv.(*ssa.Extract); isEx && ex.Index == 0 {
				mv = ex.Tuple // comma-ok form: v, ok := table[name]
			}
			lk, ok := mv.(*ssa.Lookup)
			if !ok {
				return
			}
			if u, ok := lk.X.(*ssa.UnOp); !ok || u.X != ssa.Value(tableGlobal) {
				return
			}
			n++
			if k, isC := constString(mu.Key); isC {
				guarded := false
				for _, g := range guardsOf(mu.Block()) {
					op, _, y, ok := cmpOf(g)
					if ok && op == token.EQL {
						if s, ok := constString(y); ok && s == k {
							guarded = true
						}
					}
				}
				c.Check(guarded, fmt.Sprintf("decoder enabled under constant name %q only when that name was listed", k), p.Pos(mu.Pos()), "guarded by name == "+k, "a decoder is registered under a name that was not listed in compression_algorithms: a request with a disabled Content-Encoding is accepted")
			} else {
				c.Check(sameValue(mu.Key, lk.Index), "decoder enabled under the name it was listed with", p.Pos(mu.Pos()), "enabled[name] = table[name]", "the enabled map's key differs from the looked-up name")
			}
		})
		if n == 0 {
			c.Bad("decoders are enabled from the table", p.Pos(ctor.Pos()), "no enabled[...] = table[...] update found")
		}
	}

	// ---------- R2
	c.Rule("R2", "ORD+PROV", "limit after decompression and on uncompressed bodies", 5)
	decT := p.LookupType(relPkg(pkgConfigHTTP), "decompressor")
	var serve *ssa.Function
	if decT != nil {
		for _, fn := range p.AllSrcFuncs(hpk) {
			if fn.Parent() == nil && fn.Name() == "ServeHTTP" && recvNamedOfFn(fn) == decT {
				serve = fn
			}
		}
	}
	if serve == nil {
		c.Anchor("decompressor.ServeHTTP")
	} else {
		mbr := callsNamed(serve, func(f *types.Func) bool { return f.FullName() == "net/http.MaxBytesReader" })
		base := calls(serve, func(ci ssa.CallInstruction) bool {
			return ci.Common().IsInvoke() && ci.Common().Method.Name() == "ServeHTTP" && isFieldAccess(ci.Common().Value, decT, "base")
		})
		nb := calls(serve, func(ci ssa.CallInstruction) bool {
			cf := staticCalleeFn(ci)
			return cf != nil && recvNamedOfFn(cf) == decT
		})
		if len(mbr) != 1 || len(base) == 0 || len(nb) == 0 {
			c.Bad("decompressed body is limited before the handler runs", p.Pos(serve.Pos()), "MaxBytesReader / base handler / body reader calls not found")
		} else {
			m := mbr[0]
			limField := isFieldAccess(m.Common().Args[2], decT, "maxRequestBodySize")
			bodyIsNew := valueIsResultOf(m.Common().Args[1], nb[0])
			// stored into r.Body
			stored := false
			var st *ssa.Store
			if refs := m.(ssa.Value).Referrers(); refs != nil {
				for _, r := range *refs {
					if s, ok := r.(*ssa.Store); ok {
						if _, path := fieldChain(s.Addr); len(path) > 0 && path[len(path)-1] == "Body" {
							stored, st = true, s
						}
					}
					if mi, ok := r.(*ssa.MakeInterface); ok && mi.Referrers() != nil {
						for _, rr := range *mi.Referrers() {
							if s, ok := rr.(*ssa.Store); ok {
								if _, path := fieldChain(s.Addr); len(path) > 0 && path[len(path)-1] == "Body" {
									stored, st = true, s
								}
							}
						}
					}
				}
			}
			// on the newBody != nil side only this guard; and every path from "newBody != nil" to base passes the store
			onlyNil := true
			for _, g := range guardsOf(m.Block()) {
				op, x, y, ok := cmpOf(g)
				if !ok || op != token.NEQ || !(isNilConst(x) || isNilConst(y)) {
					// err == nil guard of the reader is fine too
					if ok && op == token.EQL && (isNilConst(x) || isNilConst(y)) {
						continue
					}
					onlyNil = false
				}
			}
			// the handler may be called at several places (guard clause for "nothing to decompress" +
			// the decompressed path): every path from the body reader to any of them passes the store,
			// unless it took the "new body == nil" side of a test; and the store is never after a handler call
			before := st != nil
			reached := false
			isNewBody := func(v ssa.Value) bool { return resultIndexOf(v, nb[0]) == 0 && valueIsResultOf(m.Common().Args[1], nb[0]) }
			for _, b := range base {
				if st == nil {
					break
				}
				if canReach(st, b, nil) {
					reached = true
				}
				if canReach(b, st, nil) || canReachCutA7(nb[0], b, map[ssa.Instruction]bool{st: true}, nilSideCut(isNewBody, true)) {
					before = false
				}
			}
			before = before && reached
			c.Check(limField && bodyIsNew && stored && onlyNil && before, "decompressed body is limited before the handler runs", p.Pos(m.Pos()), "r.Body = MaxBytesReader(w, newBody, d.maxRequestBodySize) ≺ base.ServeHTTP, whenever newBody != nil", fmt.Sprintf("limit is the configured field=%v, wraps the decoder's body=%v, stored in r.Body=%v, only skipped when no new body=%v, before the handler=%v: a small compressed body can expand without bound", limField, bodyIsNew, stored, onlyNil, before))
		}
	}
	// field initialised from the constructor's parameter
	if ctor != nil && decT != nil {
		okInit := false
		for _, s := range fieldStores(ctor, decT, "maxRequestBodySize") {
			if _, isP := s.Val.(*ssa.Parameter); isP {
				okInit = true
			}
		}
		c.Check(okInit, "decompressor limit is the constructor's limit parameter", p.Pos(ctor.Pos()), "field := parameter", "the limit field is not initialised from the configured value")
	}
	// ToServer: default applied before the decompressor is built; interceptor installed under limit > 0
	if m := p.LookupMethod(relPkg(pkgConfigHTTP), "ServerConfig", "ToServer"); m != nil {
		fn := p.SSAFunc(m)
		scT := p.LookupType(relPkg(pkgConfigHTTP), "ServerConfig")
		dc := callsTo(fn, funcObj(ctor))
		var defStore *ssa.Store
		for _, s := range fieldStores(fn, scT, "MaxRequestBodySize") {
			defStore = s
		}
		okDef := false
		if len(dc) == 1 && defStore != nil {
			// the value passed is loaded after the default store on every path
			arg := dc[0].Common().Args[1]
			if u, ok := arg.(*ssa.UnOp); ok && isFieldAccess(u.X, scT, "MaxRequestBodySize") && canReach(defStore, u, nil) && !canReach(u, defStore, nil) {
				okDef = true
			}
		}
		c.Check(okDef, "the decompressor receives the limit after the default was applied", p.Pos(fn.Pos()), "default store precedes the read", "the decompressor is built with the raw (possibly zero) limit: MaxBytesReader(…, 0) / unlimited")
		// interceptor
		var icpt *ssa.Function
		for _, f2 := range p.AllSrcFuncs(hpk) {
			if f2.Parent() == nil && len(f2.Params) == 2 && f2 != ctor {
				has := false
				isMBR := func(f *types.Func) bool { return f.FullName() == "net/http.MaxBytesReader" }
				for _, g := range withAnon(f2) {
					if len(callsNamed(g, isMBR)) > 0 {
						has = true
					}
				}
				// the handler may be a named type with a ServeHTTP method instead of a closure
				for _, hb := range p.returnedHandlerBodies(f2) {
					if len(callsNamed(hb.Fn, isMBR)) > 0 {
						has = true
					}
				}
				if has && recvNamedOfFn(f2) == nil {
					icpt = f2
				}
			}
		}
		if icpt == nil {
			c.Bad("uncompressed bodies are limited", "-", "no interceptor wraps the body in MaxBytesReader")
		} else {
			ic := callsTo(fn, funcObj(icpt))
			okInst := false
			if len(ic) == 1 {
				okInst = true
				for _, g := range guardsOf(ic[0].Block()) {
					op, x, y, ok := cmpOf(g)
					if ok && op == token.EQL && (isNilConst(x) || isNilConst(y)) {
						continue // earlier steps succeeded (err == nil)
					}
					if ok && op == token.GTR {
						if k, isC := constInt(y); isC && k == 0 && len(sliceLoadsField(x, scT, "MaxRequestBodySize")) > 0 {
							continue
						}
					}
					// loop conditions over the middleware list are fine; a dependence on any other
					// server setting is not
					for v := range backSlice(g.Cond) {
						if fa, ok := v.(*ssa.FieldAddr); ok && namedOf(fa.X.Type()) == scT {
							if n := derefStruct(fa.X.Type()).Field(fa.Field).Name(); n != "Middlewares" && n != "MaxRequestBodySize" {
								okInst = false
							}
						}
					}
				}
			}
			c.Check(okInst, "the body-size interceptor is installed for every positive limit", p.Pos(fn.Pos()), "installed under MaxRequestBodySize > 0 only", "the interceptor for uncompressed bodies is missing or conditional on something else")
			// inside: unconditional wrap before next
			// the code that serves a request: closures of the interceptor or the methods of the handler it returns
			var bodies []handlerBody
			seenBody := map[*ssa.Function]bool{}
			for _, g := range icpt.AnonFuncs {
				bodies = append(bodies, handlerBody{Fn: g, Ctor: icpt})
				seenBody[g] = true
			}
			for _, hb := range p.returnedHandlerBodies(icpt) {
				if !seenBody[hb.Fn] {
					bodies = append(bodies, hb)
				}
			}
			for _, hb := range bodies {
				g := hb.Fn
				mb := callsNamed(g, func(f *types.Func) bool { return f.FullName() == "net/http.MaxBytesReader" })
				nx := calls(g, func(ci ssa.CallInstruction) bool {
					return ci.Common().IsInvoke() && ci.Common().Method.Name() == "ServeHTTP"
				})
				if len(mb) != 1 || len(nx) != 1 {
					continue
				}
				okW := len(guardsOf(mb[0].Block())) == 0 && instrDominates(mb[0], nx[0])
				limIsParam := false
				if cv := hb.configValue(mb[0].Common().Args[2]); cv != nil {
					if pa, ok := cv.(*ssa.Parameter); ok && pa.Parent() == icpt {
						limIsParam = true
					}
				}
				c.Check(okW && limIsParam, "uncompressed bodies are wrapped unconditionally", p.Pos(mb[0].Pos()), "r.Body = MaxBytesReader(w, r.Body, limit) on every request", fmt.Sprintf("unconditional and before the handler=%v, limit is the configured parameter=%v: e.g. chunked bodies (ContentLength −1) would be unlimited", okW, limIsParam))
			}
		}
	}

	// ---------- R3
	c.Rule("R3", "GATE", "the base handler runs only when the decoder lookup/creation succeeded; an unknown encoding produces an error answered with 400", 3)
	if serve != nil && decT != nil {
		nb := calls(serve, func(ci ssa.CallInstruction) bool {
			cf := staticCalleeFn(ci)
			return cf != nil && recvNamedOfFn(cf) == decT
		})
		base := calls(serve, func(ci ssa.CallInstruction) bool {
			return ci.Common().IsInvoke() && ci.Common().Method.Name() == "ServeHTTP" && isFieldAccess(ci.Common().Value, decT, "base")
		})
		if len(nb) == 1 && len(base) >= 1 {
			gated := true
			for _, b := range base {
				if !errGuardOn(b.Block(), nb[0], true) {
					gated = false
				}
			}
			c.Check(gated, "handler gated by a successful body reader", p.Pos(base[0].Pos()), "err == nil side", "the handler runs although decoding set-up failed / the encoding is not enabled")
			ok400 := false
			allInstrs(serve, func(in ssa.Instruction) {
				ci, ok := in.(ssa.CallInstruction)
				if !ok || !errGuardOn(in.Block(), nb[0], false) {
					return
				}
				for _, a := range ci.Common().Args {
					if k, isC := constInt(a); isC && k == 400 {
						ok400 = true
					}
				}
			})
			c.Check(ok400, "decoder failure is answered with 400", p.Pos(serve.Pos()), "400 on the failing side", "failing side does not answer with a client error")
			// the reader: lookup miss ⇒ error
			rd := staticCalleeFn(nb[0])
			okMiss := false
			allInstrs(rd, func(in ssa.Instruction) {
				lk, ok := in.(*ssa.Lookup)
				if !ok || !lk.CommaOk || !isFieldAccess(lk.X, decT, "decoders") {
					return
				}
				for _, r := range returnsOf(rd) {
					for _, g := range guardsOf(r.Block()) {
						v, br := boolOf(g)
						if ex, ok := v.(*ssa.Extract); ok && ex.Tuple == ssa.Value(lk) && !br && !isNilConst(resultsOf(r)[1]) {
							okMiss = true
						}
					}
				}
			})
			c.Check(okMiss, "an encoding that is not enabled yields an error", p.Pos(rd.Pos()), "lookup miss ⇒ error", "a Content-Encoding missing from the enabled decoders does not produce an error")
		}
	}

	// ---------- R4 / R5 client
	c.Rule("R4", "GATE", "client: Content-Encoding (the configured type) is added exactly on the path on which the body was compressed; an already-encoded request is forwarded untouched", 2)
	c.Rule("R5", "PROV", "the compressed body buffer is allocated in RoundTrip itself (request-local), never taken from a pool, field or package variable", 1)
	rtT := p.LookupType(relPkg(pkgConfigHTTP), "compressRoundTripper")
	var rt *ssa.Function
	if rtT != nil {
		for _, fn := range p.AllSrcFuncs(hpk) {
			if fn.Parent() == nil && fn.Name() == "RoundTrip" && recvNamedOfFn(fn) == rtT {
				rt = fn
			}
		}
	}
	if rt == nil {
		c.Rule("R4", "", "", 0)
		c.Anchor("compressRoundTripper.RoundTrip")
		return
	}
	comp := calls(rt, func(ci ssa.CallInstruction) bool {
		cf := staticCalleeFn(ci)
		return cf != nil && cf.Name() == "compress"
	})
	adds := calls(rt, func(ci ssa.CallInstruction) bool {
		f := calleeOf(ci)
		if f == nil || (f.Name() != "Add" && f.Name() != "Set") || len(ci.Common().Args) < 3 {
			return false
		}
		s, ok := constString(ci.Common().Args[1])
		return ok && strings.EqualFold(s, "Content-Encoding")
	})
	c.Rule("R4", "", "", 0)
	if len(comp) != 1 || len(adds) != 1 {
		c.Bad("Content-Encoding is set iff the client compressed", p.Pos(rt.Pos()), fmt.Sprintf("%d compress calls, %d header writes", len(comp), len(adds)))
	} else {
		okGate := errGuardOn(adds[0].Block(), comp[0], true)
		okType := len(sliceLoadsField(adds[0].Common().Args[2], rtT, "compressionType")) > 0
		c.Check(okGate && okType, "Content-Encoding is set iff the client compressed", p.Pos(adds[0].Pos()), "after successful compress, value = configured type", fmt.Sprintf("on the compress-succeeded path=%v, value is the configured type=%v", okGate, okType))
		// pass-through path forwards the original request
		okPass := false
		for _, ci := range calls(rt, func(ci ssa.CallInstruction) bool {
			return ci.Common().IsInvoke() && ci.Common().Method.Name() == "RoundTrip"
		}) {
			if _, isP := ci.Common().Args[0].(*ssa.Parameter); isP && !canReach(comp[0], ci, nil) {
				okPass = true
			}
		}
		c.Check(okPass, "an already encoded request is forwarded untouched", p.Pos(rt.Pos()), "rt.RoundTrip(req) before compressing", "no pass-through path for requests that already carry a Content-Encoding")
		// R5
		c.Rule("R5", "", "", 0)
		buf := comp[0].Common().Args[1]
		fresh := false
		if call, ok := strip(buf).(*ssa.Call); ok && calleeOf(call) != nil && calleeOf(call).FullName() == "bytes.NewBuffer" {
			fresh = true
		}
		if a, ok := strip(buf).(*ssa.Alloc); ok && a.Heap {
			fresh = true
		}
		if call, ok := strip(buf).(*ssa.Call); ok && calleeOf(call) != nil && (calleeOf(call).FullName() == "bytes.NewBufferString" || calleeOf(call).Name() == "new") {
			fresh = true
		}
		// no Put of the buffer
		put := false
		for _, g := range withAnon(rt) {
			for _, ci := range callsNamed(g, func(f *types.Func) bool {
				return isMethod(f, "sync", "Pool", "Put") || isMethod(f, "sync", "Pool", "Get")
			}) {
				_ = ci
				put = true
			}
		}
		c.Check(fresh && !put, "compressed body buffer is request-local", p.Pos(comp[0].Pos()), "freshly allocated in RoundTrip", "the buffer holding the compressed body is shared (pooled/reused) beyond RoundTrip: the transport may still be sending it when another request overwrites it")
	}
	runC16More(c)
}
