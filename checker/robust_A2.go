package main

import (
	"go/token"
	"go/types"
	"strings"

	"golang.org/x/tools/go/packages"
	"golang.org/x/tools/go/ssa"
)

// Helpers that let the C03/C04 rules recognise behaviour-preserving rewrites of the constructs they inspect
// (closure <-> method, swapped comparison operands, negated conditions with swapped branches, renamed helpers).

// goBodyFn: the source-level function whose body a `go` (or defer/call) instruction runs: a function literal, a
// package-level function, a method (`go x.m(...)`: on the generic origin body, so that methods of generic types
// have instructions to look at) or a bound method value (`f := x.m; go f()`). nil if the callee is dynamic.
func goBodyFn(ci ssa.CallInstruction) *ssa.Function {
	cc := ci.Common()
	if cc.IsInvoke() {
		return nil
	}
	var f *ssa.Function
	switch v := cc.Value.(type) {
	case *ssa.Function:
		f = v
	case *ssa.MakeClosure:
		f, _ = v.Fn.(*ssa.Function)
	}
	if f == nil {
		return nil
	}
	if o := f.Origin(); o != nil {
		f = o
	}
	if f.Synthetic != "" {
		// bound-method closure / thunk / instantiation wrapper: the declared function behind it
		if obj, ok := f.Object().(*types.Func); ok && f.Prog != nil {
			if m := f.Prog.FuncValue(obj.Origin()); m != nil && m != f {
				return m
			}
		}
	}
	return f
}

// isPdataType: a named type of one of the pdata packages.
func isPdataType(t types.Type) bool {
	n := namedOf(t)
	return n != nil && n.Obj().Pkg() != nil && strings.HasPrefix(n.Obj().Pkg().Path(), pkgPdata+"/")
}

// isExtractionFn: cf is one of the exporter helper's extraction functions, identified by what it does to which types,
// not by its name: a package-level function of package pkg that is handed a pdata container and a capacity and
// returns a pdata container together with the size (an int) of what it took out.
func isExtractionFn(cf *ssa.Function, pkg *ssa.Package) bool {
	if cf == nil || cf.Pkg != pkg || cf.Parent() != nil || cf.Signature.Recv() != nil {
		return false
	}
	res := cf.Signature.Results()
	if res.Len() != 2 || !isPdataType(res.At(0).Type()) {
		return false
	}
	if b, ok := res.At(1).Type().Underlying().(*types.Basic); !ok || b.Kind() != types.Int {
		return false
	}
	if _, isPtr := res.At(0).Type().(*types.Pointer); isPtr {
		return false
	}
	hasSrc, hasCap := false, false
	pr := cf.Signature.Params()
	for i := 0; i < pr.Len(); i++ {
		if isPdataType(pr.At(i).Type()) {
			hasSrc = true
		}
		if b, ok := pr.At(i).Type().Underlying().(*types.Basic); ok && b.Kind() == types.Int {
			hasCap = true
		}
	}
	return hasSrc && hasCap
}

// sizeExceedsCond: cond is `call > x`, written in any of its equivalent forms (`x < call`, and – with the branch
// sides swapped – `call <= x`, `x >= call`, `!(…)`), where call satisfies isCall. Returns the call and whether the
// true successor of the If is the side on which the size exceeds.
func sizeExceedsCond(cond ssa.Value, isCall func(*ssa.Call) bool) (*ssa.Call, bool) {
	trueSide := true
	for {
		u, ok := cond.(*ssa.UnOp)
		if !ok || u.Op != token.NOT {
			break
		}
		cond, trueSide = u.X, !trueSide
	}
	bo, ok := cond.(*ssa.BinOp)
	if !ok {
		return nil, false
	}
	asCall := func(v ssa.Value) *ssa.Call {
		if c, ok := v.(*ssa.Call); ok && isCall(c) {
			return c
		}
		return nil
	}
	switch bo.Op {
	case token.GTR: // call > x
		if c := asCall(bo.X); c != nil {
			return c, trueSide
		}
	case token.LSS: // x < call
		if c := asCall(bo.Y); c != nil {
			return c, trueSide
		}
	case token.LEQ: // call <= x: exceeds on the false side
		if c := asCall(bo.X); c != nil {
			return c, !trueSide
		}
	case token.GEQ: // x >= call
		if c := asCall(bo.Y); c != nil {
			return c, !trueSide
		}
	}
	return nil, false
}

// requestMemoField: st is the struct of one of the exporter helper's request types – a pdata payload (plog.Logs, …)
// together with exactly one integer field, the memoised size; returns the index of that field, -1 otherwise.
func requestMemoField(st *types.Struct) int {
	payload, memo, ints := false, -1, 0
	for i := 0; i < st.NumFields(); i++ {
		t := st.Field(i).Type()
		if _, isPtr := t.(*types.Pointer); !isPtr && isPdataType(t) {
			payload = true
		}
		if b, ok := t.Underlying().(*types.Basic); ok && b.Kind() == types.Int {
			memo = i
			ints++
		}
	}
	if !payload || ints != 1 {
		return -1
	}
	return memo
}

// pccSiteName: the name under which a fresh-container site is reported. The extraction functions of the exporter helper
// are unexported and come as near-identical siblings; they are named by what they cut (the type of their source), so that
// renaming one does not change the identity of the obligation (known findings are matched by it).
func pccSiteName(fn *ssa.Function) string {
	if fn != nil && fn.Pkg != nil && isExtractionFn(fn, fn.Pkg) {
		pr := fn.Signature.Params()
		for i := 0; i < pr.Len(); i++ {
			if n := namedOf(pr.At(i).Type()); n != nil && isPdataType(pr.At(i).Type()) {
				return relPkg(fn.Pkg.Pkg.Path()) + ".<extraction from " + n.Obj().Pkg().Name() + "." + n.Obj().Name() + ">"
			}
		}
	}
	return fnName(fn)
}

// wrapperOfNamedCall: cf is a thin wrapper around a call of method `name` on one of its parameters: it contains exactly
// one such call, and that call is made on every path through cf except the one on which the parameter is nil. Returns
// the index of the parameter, -1 if cf is no such wrapper.
func wrapperOfNamedCall(cf *ssa.Function, name string) int {
	if cf == nil || len(cf.Blocks) == 0 {
		return -1
	}
	found, n := -1, 0
	allInstrs(cf, func(in ssa.Instruction) {
		ci, ok := in.(ssa.CallInstruction)
		if !ok {
			return
		}
		if _, isDefer := in.(*ssa.Defer); isDefer {
			return
		}
		if _, isGo := in.(*ssa.Go); isGo {
			return
		}
		f := calleeOf(ci)
		if f == nil || f.Name() != name {
			return
		}
		var recv ssa.Value
		if ci.Common().IsInvoke() {
			recv = ci.Common().Value
		} else if len(ci.Common().Args) > 0 && recvNamed(f) != nil {
			recv = ci.Common().Args[0]
		}
		if recv == nil {
			return
		}
		n++
		prm, ok := strip(recv).(*ssa.Parameter)
		if !ok {
			return
		}
		for _, g := range guardsOf(ci.Block()) {
			op, x, y, ok := cmpOf(g)
			if !ok || op != token.NEQ || !(isNilConst(x) || isNilConst(y)) {
				return
			}
			other := x
			if isNilConst(x) {
				other = y
			}
			if strip(other) != ssa.Value(prm) {
				return
			}
		}
		for k, p := range cf.Params {
			if p == prm {
				found = k
			}
		}
	})
	if n != 1 {
		return -1
	}
	return found
}

// callsToThrough: the call instructions of fn that call target, or that call – statically, as plain calls – a function
// of fn's package which (through at most depth such calls) calls target. A rule about "where fn does X" then holds for
// the call of the helper that does X.
func callsToThrough(fn *ssa.Function, target *types.Func, depth int) []ssa.CallInstruction {
	if target == nil {
		return nil
	}
	pkg := rootFn(fn).Pkg
	var reaches func(f *ssa.Function, d int, seen map[*ssa.Function]bool) bool
	reaches = func(f *ssa.Function, d int, seen map[*ssa.Function]bool) bool {
		if f == nil || len(f.Blocks) == 0 || seen[f] || d < 0 || rootFn(f).Pkg != pkg {
			return false
		}
		seen[f] = true
		found := false
		allInstrs(f, func(in ssa.Instruction) {
			ci, ok := in.(*ssa.Call)
			if !ok || found {
				return
			}
			if calleeOf(ci) == target.Origin() {
				found = true
				return
			}
			if _, isClosure := ci.Call.Value.(*ssa.MakeClosure); isClosure {
				return
			}
			if reaches(staticCalleeFn(ci), d-1, seen) {
				found = true
			}
		})
		return found
	}
	return calls(fn, func(ci ssa.CallInstruction) bool {
		if calleeOf(ci) == target.Origin() {
			return true
		}
		call, ok := ci.(*ssa.Call)
		if !ok {
			return false
		}
		if _, isClosure := call.Call.Value.(*ssa.MakeClosure); isClosure {
			return false
		}
		cf := staticCalleeFn(call)
		return cf != nil && cf != fn && reaches(cf, depth-1, map[*ssa.Function]bool{fn: true})
	})
}

// memoUpdatedParams: the parameters (by index, the receiver is 0) of f on which f stores the field `memo` of struct type
// T – directly or by calling (depth ≤ 3) a function that does. Used to see through helpers that do the cached-size
// bookkeeping of a request on behalf of their caller.
func memoUpdatedParams(f *ssa.Function, T *types.Named, memo string, depth int, seen map[*ssa.Function]bool) map[int]bool {
	out := map[int]bool{}
	if f == nil || len(f.Blocks) == 0 || depth < 0 || seen[f] {
		return out
	}
	seen[f] = true
	defer delete(seen, f)
	idx := func(v ssa.Value) int {
		v = strip(v)
		for k, p := range f.Params {
			if v == ssa.Value(p) {
				return k
			}
		}
		return -1
	}
	for _, s := range fieldStores(f, T, memo) {
		if fa, ok := s.Addr.(*ssa.FieldAddr); ok {
			if k := idx(fa.X); k >= 0 {
				out[k] = true
			}
		}
	}
	allInstrs(f, func(in ssa.Instruction) {
		ci, ok := in.(*ssa.Call)
		if !ok {
			return
		}
		cf := staticCalleeFn(ci)
		if cf == nil || cf.Pkg != f.Pkg || len(cf.Params) != len(ci.Call.Args) {
			return
		}
		for k := range memoUpdatedParams(cf, T, memo, depth-1, seen) {
			if j := idx(ci.Call.Args[k]); j >= 0 {
				out[j] = true
			}
		}
	})
	return out
}

// stopFlagField: the name of the bool field of T that T's Shutdown method sets to true (the queue's stop flag),
// "stopped" – its name on the reference tree – if Shutdown does no such thing.
func stopFlagField(p *Prog, pk *packages.Package, T *types.Named) string {
	name := "stopped"
	if T == nil {
		return name
	}
	for _, fn := range p.AllSrcFuncs(pk) {
		if rootFn(fn).Name() != "Shutdown" || recvNamedOfFn(rootFn(fn)) != T {
			continue
		}
		allInstrs(fn, func(in ssa.Instruction) {
			st, ok := in.(*ssa.Store)
			if !ok {
				return
			}
			if b, ok := constBool(st.Val); !ok || !b {
				return
			}
			if fa, ok := st.Addr.(*ssa.FieldAddr); ok && namedOf(fa.X.Type()) == T {
				name = derefStruct(fa.X.Type()).Field(fa.Field).Name()
			}
		})
	}
	return name
}
