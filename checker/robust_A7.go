package main

// Helpers that make the C13..C16 rules robust against behaviour-preserving refactorings
// (extract/inline helper, closure <-> method, guard clause <-> nested if, default arm <-> initial
// value). Nothing here looks at identifiers introduced by a particular edit: helpers are found by
// following static calls, handlers by the method set of the returned value, tables by evaluating the
// function for a constant tag.

import (
	"go/constant"
	"go/token"
	"go/types"

	"golang.org/x/tools/go/ssa"
)

// ---------------------------------------------------------------------------------------------
// 1. Evaluating a "table function" for one constant value of its tag
// ---------------------------------------------------------------------------------------------

// cmpInts evaluates `a op b` for integer comparison operators.
func cmpInts(a int64, op token.Token, b int64) (bool, bool) {
	switch op {
	case token.EQL:
		return a == b, true
	case token.NEQ:
		return a != b, true
	case token.LSS:
		return a < b, true
	case token.LEQ:
		return a <= b, true
	case token.GTR:
		return a > b, true
	case token.GEQ:
		return a >= b, true
	}
	return false, false
}

// resolveOnPath resolves phis (and value-preserving wrappers) of v along the block path taken.
func resolveOnPath(path []*ssa.BasicBlock, v ssa.Value) ssa.Value {
	for n := 0; n < 32; n++ {
		phi, ok := v.(*ssa.Phi)
		if !ok {
			return v
		}
		idx := -1
		for i := len(path) - 1; i >= 1; i-- {
			if path[i] == phi.Block() {
				idx = i
				break
			}
		}
		if idx < 1 {
			return v
		}
		found := false
		for i, pr := range phi.Block().Preds {
			if pr == path[idx-1] && i < len(phi.Edges) {
				v = phi.Edges[i]
				// the edge value was computed on the path before the phi's block
				path = path[:idx]
				found = true
				break
			}
		}
		if !found {
			return v
		}
	}
	return v
}

// tagCond evaluates a branch condition under the assumption tag == k; ok=false when the condition
// does not (only) depend on the tag.
func tagCond(path []*ssa.BasicBlock, v ssa.Value, isTag func(ssa.Value) bool, k int64) (bool, bool) {
	v = resolveOnPath(path, v)
	switch x := v.(type) {
	case *ssa.Const:
		return constBool(x)
	case *ssa.UnOp:
		if x.Op == token.NOT {
			b, ok := tagCond(path, x.X, isTag, k)
			return !b, ok
		}
	case *ssa.BinOp:
		if isTag(x.X) {
			if cv, ok := constInt(x.Y); ok {
				return cmpInts(k, x.Op, cv)
			}
		}
		if isTag(x.Y) {
			if cv, ok := constInt(x.X); ok {
				return cmpInts(cv, x.Op, k)
			}
		}
	}
	return false, false
}

// tagWalk enumerates the entry→return paths of fn that are feasible when the tag has the constant
// value k (branches on the tag are decided, all others are followed on both sides; loops are cut).
func tagWalk(fn *ssa.Function, isTag func(ssa.Value) bool, k int64, visit func(path []*ssa.BasicBlock, ret *ssa.Return)) {
	if fn == nil || len(fn.Blocks) == 0 {
		return
	}
	budget := 4096
	var walk func(path []*ssa.BasicBlock)
	walk = func(path []*ssa.BasicBlock) {
		if budget <= 0 {
			return
		}
		budget--
		b := path[len(path)-1]
		if len(b.Instrs) == 0 {
			return
		}
		next := func(s *ssa.BasicBlock) {
			for _, q := range path {
				if q == s {
					return
				}
			}
			np := make([]*ssa.BasicBlock, len(path)+1)
			copy(np, path)
			np[len(path)] = s
			walk(np)
		}
		switch last := b.Instrs[len(b.Instrs)-1].(type) {
		case *ssa.Return:
			visit(path, last)
		case *ssa.Jump:
			next(b.Succs[0])
		case *ssa.If:
			if bv, ok := tagCond(path, last.Cond, isTag, k); ok {
				if bv {
					next(b.Succs[0])
				} else {
					next(b.Succs[1])
				}
			} else {
				next(b.Succs[0])
				next(b.Succs[1])
			}
		}
	}
	walk([]*ssa.BasicBlock{fn.Blocks[0]})
}

// sameTableValue: two resolved values denote the same table entry (identical value or equal constant).
func sameTableValue(a, b ssa.Value) bool {
	if a == b {
		return true
	}
	ca, ok1 := a.(*ssa.Const)
	cb, ok2 := b.(*ssa.Const)
	if !ok1 || !ok2 {
		return false
	}
	if ca.Value == nil || cb.Value == nil {
		return ca.Value == nil && cb.Value == nil
	}
	return constant.Compare(ca.Value, token.EQL, cb.Value)
}

// tagReturnValue: the idx-th result of fn when its tag equals k, if it is the same on every feasible
// path (nil otherwise). Works for switch, if-chain, guard-clause, result-variable and
// initial-value-instead-of-default forms alike.
func tagReturnValue(fn *ssa.Function, isTag func(ssa.Value) bool, k int64, idx int) ssa.Value {
	var res ssa.Value
	bad := false
	n := 0
	tagWalk(fn, isTag, k, func(path []*ssa.BasicBlock, ret *ssa.Return) {
		rs := resultsOf(ret)
		if idx >= len(rs) {
			bad = true
			return
		}
		v := resolveOnPath(path, rs[idx])
		n++
		if res == nil {
			res = v
		} else if !sameTableValue(res, v) {
			bad = true
		}
	})
	if bad || n == 0 {
		return nil
	}
	return res
}

// tagCallArg: the value of the (unique) call argument of a type accepted by `want` that is evaluated
// on the feasible paths of fn for tag == k (e.g. the codes.Code handed to status.New), nil if the
// paths disagree or there is none.
func tagCallArg(fn *ssa.Function, isTag func(ssa.Value) bool, k int64, want func(types.Type) bool) ssa.Value {
	var res ssa.Value
	bad := false
	n := 0
	tagWalk(fn, isTag, k, func(path []*ssa.BasicBlock, ret *ssa.Return) {
		found := false
		for i, b := range path {
			for _, in := range b.Instrs {
				ci, ok := in.(ssa.CallInstruction)
				if !ok {
					continue
				}
				for _, a := range ci.Common().Args {
					if !want(a.Type()) {
						continue
					}
					v := resolveOnPath(path[:i+1], a)
					found = true
					if res == nil {
						res = v
					} else if !sameTableValue(res, v) {
						bad = true
					}
				}
			}
		}
		if !found {
			bad = true
		}
		n++
	})
	if bad || n == 0 {
		return nil
	}
	return res
}

// ---------------------------------------------------------------------------------------------
// 2. Following static calls: helpers below a function, guards above a helper
// ---------------------------------------------------------------------------------------------

func samePkgFn(a, b *ssa.Function) bool {
	pa, pb := a, b
	for pa.Parent() != nil {
		pa = pa.Parent()
	}
	for pb.Parent() != nil {
		pb = pb.Parent()
	}
	return pa.Pkg != nil && pa.Pkg == pb.Pkg
}

// helpersBelow: root, its anonymous functions and the same-package functions it calls statically
// (transitively, up to depth), in discovery order.
func helpersBelow(root *ssa.Function, depth int) []*ssa.Function {
	var out []*ssa.Function
	seen := map[*ssa.Function]bool{}
	var add func(fn *ssa.Function, d int)
	add = func(fn *ssa.Function, d int) {
		if fn == nil || seen[fn] || fn.Blocks == nil {
			return
		}
		seen[fn] = true
		out = append(out, fn)
		for _, a := range fn.AnonFuncs {
			add(a, d)
		}
		if d == 0 {
			return
		}
		allInstrs(fn, func(in ssa.Instruction) {
			if ci, ok := in.(ssa.CallInstruction); ok {
				if cf := staticCalleeFn(ci); cf != nil && cf.Parent() == nil && samePkgFn(cf, root) {
					add(cf, d-1)
				}
			}
		})
	}
	add(root, depth)
	return out
}

// callsBelow: the calls matching pred in root or in the helpers below it.
func callsBelow(root *ssa.Function, depth int, pred func(ssa.CallInstruction) bool) []ssa.CallInstruction {
	var out []ssa.CallInstruction
	for _, fn := range helpersBelow(root, depth) {
		out = append(out, calls(fn, pred)...)
	}
	return out
}

func callsNamedBelow(root *ssa.Function, depth int, pred func(*types.Func) bool) []ssa.CallInstruction {
	return callsBelow(root, depth, func(c ssa.CallInstruction) bool { f := calleeOf(c); return f != nil && pred(f) })
}

// staticCallSites: the call instructions of f's package that call f statically; escapes reports a
// use of f as a value (stored, passed, deferred through a variable), in which case the list of call
// sites is not the whole story.
func (p *Prog) staticCallSites(f *ssa.Function) (sites []ssa.CallInstruction, escapes bool) {
	top := f
	for top.Parent() != nil {
		top = top.Parent()
	}
	if top.Pkg == nil || top.Pkg.Pkg == nil {
		return nil, true
	}
	pk := p.ByPath[top.Pkg.Pkg.Path()]
	if pk == nil {
		return nil, true
	}
	for _, g := range p.AllSrcFuncs(pk) {
		allInstrs(g, func(in ssa.Instruction) {
			if ci, ok := in.(ssa.CallInstruction); ok {
				if cf := staticCalleeFn(ci); cf == f {
					sites = append(sites, ci)
				}
				for _, a := range ci.Common().Args {
					if a == ssa.Value(f) {
						escapes = true
					}
				}
				return
			}
			for _, op := range in.Operands(nil) {
				if *op == ssa.Value(f) {
					escapes = true
				}
			}
		})
	}
	return sites, escapes
}

// guardChains: for an instruction located in root or in a helper below it, one list of guards per
// static call path root → … → in.Parent(): the guards of the instruction in its own function
// followed by the guards of the call sites above it (a closure counts as called where it is
// created). ok=false when some path to the instruction does not start in root (the helper escapes,
// is called from elsewhere, or the chain is deeper than depth): then nothing can be said about the
// conditions under which it runs.
func (p *Prog) guardChains(root *ssa.Function, in ssa.Instruction, depth int) ([][]Guard, bool) {
	fn := in.Parent()
	own := guardsOf(in.Block())
	if fn == root {
		return [][]Guard{own}, true
	}
	if depth <= 0 {
		return nil, false
	}
	var above []ssa.Instruction
	if par := fn.Parent(); par != nil {
		allInstrs(par, func(x ssa.Instruction) {
			if mc, ok := x.(*ssa.MakeClosure); ok && mc.Fn == ssa.Value(fn) {
				above = append(above, mc)
			}
		})
	} else {
		sites, esc := p.staticCallSites(fn)
		if esc {
			return nil, false
		}
		for _, s := range sites {
			above = append(above, s)
		}
	}
	if len(above) == 0 {
		return nil, false
	}
	var out [][]Guard
	for _, a := range above {
		sub, ok := p.guardChains(root, a, depth-1)
		if !ok {
			return nil, false
		}
		for _, ch := range sub {
			full := append(append([]Guard{}, own...), ch...)
			out = append(out, full)
		}
	}
	return out, true
}

// everyChain: the instruction runs, on every call path from root, under a guard satisfying pred.
func (p *Prog) everyChain(root *ssa.Function, in ssa.Instruction, pred func(Guard) bool) bool {
	chains, ok := p.guardChains(root, in, 3)
	if !ok || len(chains) == 0 {
		return false
	}
	for _, ch := range chains {
		hit := false
		for _, g := range ch {
			if pred(g) {
				hit = true
				break
			}
		}
		if !hit {
			return false
		}
	}
	return true
}

// ---------------------------------------------------------------------------------------------
// 3. Edge-sensitive reachability
// ---------------------------------------------------------------------------------------------

// canReachCut is canReach with, additionally, CFG edges removed: cut(b, i) reports that the edge
// from block b to its i-th successor must not be taken (e.g. the "x == nil" side of a test).
func canReachCutA7(a, b ssa.Instruction, avoid map[ssa.Instruction]bool, cut func(from *ssa.BasicBlock, succ int) bool) bool {
	ab := a.Block()
	ai := instrIndex(a)
	for i := ai + 1; i < len(ab.Instrs); i++ {
		in := ab.Instrs[i]
		if in == b {
			return true
		}
		if avoid[in] {
			return false
		}
	}
	seen := map[*ssa.BasicBlock]bool{}
	var st []*ssa.BasicBlock
	push := func(from *ssa.BasicBlock) {
		for i, s := range from.Succs {
			if cut != nil && cut(from, i) {
				continue
			}
			if !seen[s] {
				seen[s] = true
				st = append(st, s)
			}
		}
	}
	push(ab)
	for len(st) > 0 {
		blk := st[len(st)-1]
		st = st[:len(st)-1]
		blocked := false
		for _, in := range blk.Instrs {
			if in == b {
				return true
			}
			if avoid[in] {
				blocked = true
				break
			}
		}
		if !blocked {
			push(blk)
		}
	}
	return false
}

// nilSideCut returns an edge filter that removes, at every test of `v` against nil, the edge on
// which v is nil (wantNil=true) or non-nil (wantNil=false).
func nilSideCut(isV func(ssa.Value) bool, cutNilSide bool) func(*ssa.BasicBlock, int) bool {
	return func(from *ssa.BasicBlock, succ int) bool {
		if len(from.Instrs) == 0 || len(from.Succs) != 2 {
			return false
		}
		iff, ok := from.Instrs[len(from.Instrs)-1].(*ssa.If)
		if !ok {
			return false
		}
		// the edge taken is `succ`: 0 = condition true
		op, x, y, ok := cmpOf(Guard{Cond: iff.Cond, Branch: succ == 0, If: iff})
		if !ok {
			return false
		}
		var other ssa.Value
		if isNilConst(y) {
			other = x
		} else if isNilConst(x) {
			other = y
		} else {
			return false
		}
		if !isV(other) {
			return false
		}
		if cutNilSide {
			return op == token.EQL
		}
		return op == token.NEQ
	}
}

// ---------------------------------------------------------------------------------------------
// 4. The code behind a returned handler: closure or method of the returned type
// ---------------------------------------------------------------------------------------------

// handlerBody is one function that implements (a method of) the interface value returned by a
// constructor, with the way its configuration is reached from the constructor.
type handlerBody struct {
	Fn   *ssa.Function
	Ctor *ssa.Function
	// for a method of a struct built in the constructor: the struct allocation (nil for closures)
	obj ssa.Value
}

// returnedHandlerBodies: for every interface-typed result of ctor, the functions that run when a
// method of that result is called: the closure/function converted to a func-kinded named type
// (http.HandlerFunc(f)), or the methods of the concrete (pointer-to-)struct type returned.
func (p *Prog) returnedHandlerBodies(ctor *ssa.Function) []handlerBody {
	var out []handlerBody
	seen := map[*ssa.Function]bool{}
	add := func(fn *ssa.Function, obj ssa.Value) {
		if fn == nil || fn.Blocks == nil || seen[fn] {
			return
		}
		seen[fn] = true
		out = append(out, handlerBody{Fn: fn, Ctor: ctor, obj: obj})
	}
	for _, r := range returnsOf(ctor) {
		for _, rv := range resultsOf(r) {
			if !types.IsInterface(rv.Type()) {
				continue
			}
			var conc []ssa.Value
			var collect func(v ssa.Value, d int)
			collect = func(v ssa.Value, d int) {
				if d > 4 {
					return
				}
				switch x := v.(type) {
				case *ssa.MakeInterface:
					conc = append(conc, x.X)
				case *ssa.ChangeInterface:
					collect(x.X, d+1)
				case *ssa.Phi:
					for _, e := range x.Edges {
						collect(e, d+1)
					}
				}
			}
			collect(rv, 0)
			for _, cv := range conc {
				// func-kinded: the function itself
				v := cv
				for {
					if ct, ok := v.(*ssa.ChangeType); ok {
						v = ct.X
						continue
					}
					break
				}
				switch f := v.(type) {
				case *ssa.MakeClosure:
					if g, ok := f.Fn.(*ssa.Function); ok {
						add(g, nil)
						continue
					}
				case *ssa.Function:
					add(f, nil)
					continue
				}
				// methods of the concrete type, declared in the constructor's package
				if namedOf(cv.Type()) == nil {
					continue
				}
				ms := p.SSA.MethodSets.MethodSet(cv.Type())
				for i := 0; i < ms.Len(); i++ {
					sel := ms.At(i)
					mf := p.SSA.MethodValue(sel)
					if mf == nil || mf.Synthetic != "" && mf.Blocks == nil {
						continue
					}
					if o := mf.Origin(); o != nil {
						mf = o
					}
					if mf.Pkg == nil || !samePkgFn(mf, ctor) {
						continue
					}
					add(mf, strip(cv))
				}
			}
		}
	}
	return out
}

// configValue resolves a value read inside a handler body to what the constructor put there: a
// captured variable is mapped to its binding, a load of a receiver field to the value stored into
// that field of the object the constructor built. Returns nil when it cannot tell.
func (h handlerBody) configValue(v ssa.Value) ssa.Value {
	v = strip(v)
	if fv, ok := v.(*ssa.FreeVar); ok {
		if b := freeVarBinding(fv); b != nil {
			return strip(b)
		}
		return nil
	}
	if _, ok := v.(*ssa.Parameter); ok && h.obj == nil {
		return v
	}
	if h.obj == nil {
		return v
	}
	// load of recv.field
	var fieldIdx = -1
	var base ssa.Value
	switch x := v.(type) {
	case *ssa.UnOp:
		if x.Op == token.MUL {
			if fa, ok := x.X.(*ssa.FieldAddr); ok {
				fieldIdx, base = fa.Field, fa.X
			}
		}
	case *ssa.Field:
		fieldIdx, base = x.Field, x.X
	}
	if fieldIdx < 0 || len(h.Fn.Params) == 0 || strip(base) != ssa.Value(h.Fn.Params[0]) {
		return nil
	}
	var val ssa.Value
	n := 0
	allInstrs(h.Ctor, func(in ssa.Instruction) {
		s, ok := in.(*ssa.Store)
		if !ok {
			return
		}
		if fa, ok := s.Addr.(*ssa.FieldAddr); ok && fa.Field == fieldIdx && strip(fa.X) == h.obj {
			val = s.Val
			n++
		}
	})
	if n != 1 {
		return nil
	}
	return strip(val)
}

// resultIndexOf: v is the idx-th result of call (directly, through a local variable or a phi of
// such); -1 otherwise. A single-result call has index 0.
func resultIndexOf(v ssa.Value, call ssa.CallInstruction) int {
	cv, ok := call.(ssa.Value)
	if !ok {
		return -1
	}
	idxOf := func(x ssa.Value) int {
		x = strip(x)
		if x == cv {
			return 0
		}
		if ex, ok := x.(*ssa.Extract); ok && ex.Tuple == cv {
			return ex.Index
		}
		return -1
	}
	if i := idxOf(v); i >= 0 {
		return i
	}
	v = strip(v)
	if u, ok := v.(*ssa.UnOp); ok && u.Op == token.MUL {
		res := -1
		allInstrs(call.Parent(), func(in ssa.Instruction) {
			if s, ok := in.(*ssa.Store); ok && s.Addr == u.X {
				if i := idxOf(s.Val); i >= 0 {
					res = i
				}
			}
		})
		return res
	}
	if phi, ok := v.(*ssa.Phi); ok {
		for _, e := range phi.Edges {
			if i := idxOf(e); i >= 0 {
				return i
			}
		}
	}
	return -1
}

// returnedFuncs: the functions a constructor hands out as its result – a closure, a named
// function, either possibly converted to a func-kinded named type or boxed in an interface, or what
// a same-package constructor it delegates to returns.
func returnedFuncs(ctor *ssa.Function, depth int) []*ssa.Function {
	var out []*ssa.Function
	seen := map[*ssa.Function]bool{}
	var fromVal func(v ssa.Value, d int)
	fromVal = func(v ssa.Value, d int) {
		if v == nil || d > 6 {
			return
		}
		switch x := v.(type) {
		case *ssa.ChangeType:
			fromVal(x.X, d+1)
		case *ssa.MakeInterface:
			fromVal(x.X, d+1)
		case *ssa.ChangeInterface:
			fromVal(x.X, d+1)
		case *ssa.Phi:
			for _, e := range x.Edges {
				fromVal(e, d+1)
			}
		case *ssa.MakeClosure:
			if f, ok := x.Fn.(*ssa.Function); ok && !seen[f] {
				seen[f] = true
				out = append(out, f)
			}
		case *ssa.Function:
			if !seen[x] && x.Blocks != nil {
				seen[x] = true
				out = append(out, x)
			}
		case *ssa.Call:
			if cf := staticCalleeFn(x); cf != nil && depth > 0 && samePkgFn(cf, ctor) {
				for _, f := range returnedFuncs(cf, depth-1) {
					if !seen[f] {
						seen[f] = true
						out = append(out, f)
					}
				}
			}
		case *ssa.UnOp:
			if s := strip(x); s != ssa.Value(x) {
				fromVal(s, d+1)
			}
		}
	}
	for _, r := range returnsOf(ctor) {
		for _, rv := range resultsOf(r) {
			fromVal(rv, 0)
		}
	}
	return out
}

// heldAtOrAbove: pred holds for the block of the instruction, or – when the function is an
// unexported helper / closure that is only ever called statically – for every place it is called
// from (recursively, up to depth). This is how a condition is looked for when the guarded statement
// was extracted into a helper and the test stayed with the caller (or vice versa).
func (p *Prog) heldAtOrAbove(in ssa.Instruction, depth int, pred func(b *ssa.BasicBlock) bool) bool {
	if pred(in.Block()) {
		return true
	}
	if depth <= 0 {
		return false
	}
	fn := in.Parent()
	var above []ssa.Instruction
	if par := fn.Parent(); par != nil {
		allInstrs(par, func(x ssa.Instruction) {
			if mc, ok := x.(*ssa.MakeClosure); ok && mc.Fn == ssa.Value(fn) {
				above = append(above, mc)
			}
		})
	} else {
		if obj, _ := fn.Object().(*types.Func); obj == nil || obj.Exported() {
			return false
		}
		sites, esc := p.staticCallSites(fn)
		if esc {
			return false
		}
		for _, s := range sites {
			above = append(above, s)
		}
	}
	if len(above) == 0 {
		return false
	}
	for _, a := range above {
		if !p.heldAtOrAbove(a, depth-1, pred) {
			return false
		}
	}
	return true
}
