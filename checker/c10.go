package main

import (
	"fmt"
	"go/token"
	"go/types"

	"golang.org/x/tools/go/ssa"
)

func init() {
	register(&Property{
		ID:         "C10",
		Run:        runC10,
		Explain:    "Static structural necessary conditions of component lifecycle ordering: (R1) Service.Start runs extensions.Start ≺ NotifyConfig ≺ pipelines.StartAll ≺ NotifyPipelineReady, each gated by the success of the previous; Service.Shutdown runs NotifyPipelineNotReady ≺ pipelines.ShutdownAll ≺ extensions.Shutdown ≺ telemetry shutdown, all unconditionally, single return; (R2) StartAll walks the topological order (the unmodified result of topo.Sort) descending and ShutdownAll ascending; extensions start ascending over the computed dependency order and stop descending; the extension graph's edges go dependency→dependent and the order copy preserves positions; (R3) start loops return at the first failing Start; shutdown loops have no exit other than their condition and aggregate errors; (R4) a failed service start shuts the service down (shared with C20.R4); (R5) a shared component's wrapped Start/Shutdown are invoked only inside startOnce.Do/stopOnce.Do, the wrapped Shutdown and the map removal on every path of the stop closure; (R6) every lifecycle site brackets Start/Shutdown with status events (shared with C11.R6).",
		NotDecided: "Exactly-once across arbitrary failure positions as a count; correctness of gonum's topological sort; that graph edges point downstream for every topology (C09.R4 checks the edge classes).",
		Assumes:    []string{"gonum topo.Sort returns a topological order of the graph it is given", "sync.Once semantics"},
		Technique:  "static analysis: call ordering/gating by dominance on SSA, loop-direction classification, value provenance, who-may-call",
	})
}

// loopDir classifies an index value: +1 ascending, -1 descending, 0 unknown.
func loopDir(idx ssa.Value) int {
	idx = strip(idx)
	step := func(bo *ssa.BinOp, phi *ssa.Phi) int {
		k, ok := constInt(bo.Y)
		if !ok || bo.X != ssa.Value(phi) {
			return 0
		}
		if (bo.Op == token.ADD && k == 1) || (bo.Op == token.SUB && k == -1) {
			return 1
		}
		if (bo.Op == token.SUB && k == 1) || (bo.Op == token.ADD && k == -1) {
			return -1
		}
		return 0
	}
	switch x := idx.(type) {
	case *ssa.Phi:
		for _, e := range x.Edges {
			if bo, ok := e.(*ssa.BinOp); ok {
				if d := step(bo, x); d != 0 {
					return d
				}
			}
		}
	case *ssa.BinOp:
		if phi, ok := x.X.(*ssa.Phi); ok {
			for _, e := range phi.Edges {
				if e == ssa.Value(x) {
					return step(x, phi)
				}
			}
			// a constant offset of an induction variable (nodes[i-1]) moves in the same direction
			if _, isC := constInt(x.Y); isC && (x.Op == token.ADD || x.Op == token.SUB) {
				return loopDir(phi)
			}
		}
	}
	return 0
}

// indexedBy finds the IndexAddr/Index instructions over slice value `sl` in fn and returns the
// index values used.
func indexUses(fn *ssa.Function, isSlice func(ssa.Value) bool) []ssa.Value {
	var out []ssa.Value
	allInstrs(fn, func(in ssa.Instruction) {
		switch x := in.(type) {
		case *ssa.IndexAddr:
			if isSlice(x.X) {
				out = append(out, x.Index)
			}
		case *ssa.Index:
			if isSlice(x.X) {
				out = append(out, x.Index)
			}
		}
	})
	return out
}

func runC10(c *Ctx) {
	p := c.P
	// ---------- R1
	c.Rule("R1", "ORD+GATE", "Service.Start: extensions.Start ≺ NotifyConfig ≺ pipelines.StartAll ≺ NotifyPipelineReady, each reached only after the previous succeeded; Service.Shutdown: NotifyPipelineNotReady ≺ pipelines.ShutdownAll ≺ extensions.Shutdown ≺ telemetry shutdown, all on every path, single return", 8)
	find := func(fn *ssa.Function, pkg, typ, name string) ssa.CallInstruction {
		cs := callsNamed(fn, func(f *types.Func) bool { return isMethod(f, pkg, typ, name) })
		if len(cs) == 1 {
			return cs[0]
		}
		return nil
	}
	if m := p.LookupMethod("service", "Service", "Start"); m == nil {
		c.Anchor("service.Service.Start")
	} else {
		fn := p.SSAFunc(m)
		seq := []struct {
			name string
			ci   ssa.CallInstruction
		}{
			{"extensions.Start", find(fn, pkgExtensions, "Extensions", "Start")},
			{"extensions.NotifyConfig", find(fn, pkgExtensions, "Extensions", "NotifyConfig")},
			{"pipelines.StartAll", find(fn, pkgGraph, "Graph", "StartAll")},
			{"extensions.NotifyPipelineReady", find(fn, pkgExtensions, "Extensions", "NotifyPipelineReady")},
		}
		for i, s := range seq {
			if s.ci == nil {
				c.Bad("Service.Start calls "+s.name, p.Pos(fn.Pos()), "call missing or duplicated")
				continue
			}
			if i == 0 {
				c.Check(len(guardsOf(s.ci.Block())) == 0, "Service.Start: extensions are started first, unconditionally", p.Pos(s.ci.Pos()), "unconditional", "extensions start is conditional")
				continue
			}
			prev := seq[i-1].ci
			if prev == nil {
				continue
			}
			ord := instrDominates(prev, s.ci) || (canReach(prev, s.ci, nil) && !canReach(s.ci, prev, nil))
			// gating: s reachable only when prev's error was nil: no path from prev's err!=nil side
			gated := !reachableFromFailure(prev, s.ci)
			c.Check(ord && gated, fmt.Sprintf("Service.Start: %s before %s, which runs only after it succeeded", seq[i-1].name, s.name), p.Pos(s.ci.Pos()), "ordered and gated", fmt.Sprintf("ordered=%v, gated by success of previous step=%v", ord, gated))
		}
		// success return only after all
		for _, r := range returnsOf(fn) {
			if isNilConst(resultsOf(r)[0]) {
				ok := true
				for _, s := range seq {
					if s.ci != nil && s.name != "extensions.NotifyConfig" && !instrDominates(s.ci, r) {
						ok = false
					}
				}
				c.Check(ok, "Service.Start reports success only after all steps", p.Pos(r.Pos()), "all steps dominate return nil", "a start step is skipped on a path that reports success")
			}
		}
	}
	if m := p.LookupMethod("service", "Service", "Shutdown"); m == nil {
		c.Anchor("service.Service.Shutdown")
	} else {
		fn := p.SSAFunc(m)
		tel := callsNamed(fn, func(f *types.Func) bool {
			return recvNamed(f) != nil && recvNamed(f).Obj().Name() == "Service" && f.Pkg().Path() == pkgService && f.Name() != "Shutdown" && f.Name() != "Logger"
		})
		var telCall ssa.CallInstruction
		if len(tel) == 1 {
			telCall = tel[0]
		}
		seq := []struct {
			name string
			ci   ssa.CallInstruction
		}{
			{"extensions.NotifyPipelineNotReady", find(fn, pkgExtensions, "Extensions", "NotifyPipelineNotReady")},
			{"pipelines.ShutdownAll", find(fn, pkgGraph, "Graph", "ShutdownAll")},
			{"extensions.Shutdown", find(fn, pkgExtensions, "Extensions", "Shutdown")},
			{"telemetry shutdown", telCall},
		}
		for i, s := range seq {
			if s.ci == nil {
				c.Bad("Service.Shutdown calls "+s.name, p.Pos(fn.Pos()), "call missing or duplicated")
				continue
			}
			c.Check(len(guardsOf(s.ci.Block())) == 0, "Service.Shutdown: "+s.name+" runs on every path", p.Pos(s.ci.Pos()), "unconditional", "the step is skipped on some path (e.g. after an earlier failure): components stay running")
			if i > 0 && seq[i-1].ci != nil {
				c.Check(instrDominates(seq[i-1].ci, s.ci), fmt.Sprintf("Service.Shutdown: %s before %s", seq[i-1].name, s.name), p.Pos(s.ci.Pos()), "ordered", "shutdown order violated (pipelines must stop before extensions, extensions before telemetry)")
			}
		}
		c.Check(len(returnsOf(fn)) == 1, "Service.Shutdown has a single return", p.Pos(fn.Pos()), "single return", "early return skips remaining shutdown steps")
	}

	// ---------- R2 loop direction
	c.Rule("R2", "ORD", "StartAll indexes the unmodified topo.Sort result descending, ShutdownAll ascending; extensions Start ascends and Shutdown descends over the computed order; extension edges go dependency→dependent; the order copy preserves positions", 7)
	gpk := p.ByPath[pkgGraph]
	epk := p.ByPath[pkgExtensions]
	if gpk == nil || epk == nil {
		c.Anchor("packages service/internal/graph, service/extensions")
		return
	}
	for _, spec := range []struct {
		name string
		want int
	}{{"StartAll", -1}, {"ShutdownAll", 1}} {
		m := p.LookupMethod(relPkg(pkgGraph), "Graph", spec.name)
		if m == nil {
			c.Anchor("Graph." + spec.name)
			continue
		}
		fn := p.SSAFunc(m)
		sorts := callsNamed(fn, func(f *types.Func) bool { return f.FullName() == "gonum.org/v1/gonum/graph/topo.Sort" })
		if len(sorts) != 1 {
			c.Bad("Graph."+spec.name+" sorts the component graph", p.Pos(fn.Pos()), "no single topo.Sort call")
			continue
		}
		sortV := sorts[0].(ssa.Value)
		isNodes := func(v ssa.Value) bool {
			ex, ok := strip(v).(*ssa.Extract)
			return ok && ex.Tuple == sortV && ex.Index == 0
		}
		// argument is the graph field
		_, gpath := fieldChain(sorts[0].Common().Args[0])
		c.Check(len(gpath) > 0 && gpath[len(gpath)-1] == "componentGraph", "Graph."+spec.name+" sorts the component graph", p.Pos(sorts[0].Pos()), "topo.Sort(g.componentGraph)", "sorts something other than the component graph")
		// by index (`nodes[i]`, `range nodes`) or by range-over-func (`range slices.Backward(nodes)`): robust_A6.go
		idx := sliceWalksA6(fn, isNodes)
		if len(idx) == 0 {
			c.Bad("Graph."+spec.name+" walks the topological order", p.Pos(fn.Pos()), "the loop does not index the topo.Sort result (order replaced or recomputed)")
			continue
		}
		for _, ix := range idx {
			d := ix.dir
			why := "descending"
			if spec.want > 0 {
				why = "ascending"
			}
			if d == 0 {
				c.Undecided("Graph."+spec.name+" loop direction", p.Pos(fn.Pos()), "index is not a recognised counted-loop induction variable")
			} else {
				c.Check(d == spec.want, "Graph."+spec.name+" loop direction", p.Pos(ix.pos), why, "the topological order is walked in the wrong direction: components start before their consumers / stop before their producers")
			}
		}
		// the sorted slice is only read (len / index loads)
		clean := true
		var ex *ssa.Extract
		allInstrs(fn, func(in ssa.Instruction) {
			if e, ok := in.(*ssa.Extract); ok && e.Tuple == sortV && e.Index == 0 {
				ex = e
			}
		})
		if ex != nil && ex.Referrers() != nil {
			for _, r := range *ex.Referrers() {
				switch x := r.(type) {
				case *ssa.IndexAddr:
					if x.Referrers() != nil {
						for _, rr := range *x.Referrers() {
							if s, ok := rr.(*ssa.Store); ok && s.Addr == x {
								clean = false
							}
						}
					}
				case *ssa.Call:
					if builtinName(x) != "len" && !readOnlyIterA6(x) {
						clean = false
					}
				case *ssa.DebugRef:
				default:
					clean = false
				}
			}
		}
		c.Check(clean, "Graph."+spec.name+" uses the topological order unmodified", p.Pos(sorts[0].Pos()), "only len() and indexed reads", "the sorted node list is modified, re-sliced or handed to another function before the walk: the start/stop order is no longer the topological order")
	}
	// extensions
	extT := p.LookupType(relPkg(pkgExtensions), "Extensions")
	for _, spec := range []struct {
		name string
		want int
	}{{"Start", 1}, {"Shutdown", -1}} {
		m := p.LookupMethod(relPkg(pkgExtensions), "Extensions", spec.name)
		if m == nil || extT == nil {
			c.Anchor("Extensions." + spec.name)
			continue
		}
		fn := p.SSAFunc(m)
		// the lifecycle call may live in an extracted helper or in a range-over-func body (robust_A6.go)
		lc := lifecycleCallsDeepA6(fn, spec.name)
		if len(lc) != 1 {
			c.Bad("Extensions."+spec.name+" invokes each extension's "+spec.name, p.Pos(fn.Pos()), fmt.Sprintf("%d lifecycle call sites", len(lc)))
			continue
		}
		isIDs := func(v ssa.Value) bool { return isFieldAccess(v, extT, "extensionIDs") }
		idx := sliceWalksA6(fn, isIDs)
		if len(idx) == 0 {
			c.Bad("Extensions."+spec.name+" walks the computed order", p.Pos(fn.Pos()), "the loop does not index extensionIDs")
			continue
		}
		for _, ix := range idx {
			d := ix.dir
			if d == 0 {
				c.Undecided("Extensions."+spec.name+" loop direction", p.Pos(fn.Pos()), "unrecognised induction variable")
			} else {
				c.Check(d == spec.want, "Extensions."+spec.name+" loop direction", p.Pos(ix.pos), "as required", "extensions are walked in the wrong direction: a dependent extension starts before / stops after the extension it depends on")
			}
		}
		// the component invoked is the one looked up with the indexed id
		recv := lc[0].call.Common().Value
		okProv := false
		provVals, _ := deepSliceA6(recv, lc[0].chain)
		for v := range provVals {
			if lk, ok := v.(*ssa.Lookup); ok && isFieldAccess(lk.X, extT, "extMap") {
				keyVals, walked := deepSliceA6(lk.Index, lc[0].chain)
				for w := range keyVals {
					if ia, ok := w.(*ssa.IndexAddr); ok && isIDs(ia.X) {
						okProv = true
					}
				}
				for _, w := range walked {
					if isIDs(w) {
						okProv = true
					}
				}
			}
		}
		c.Check(okProv, "Extensions."+spec.name+" invokes the extension at the walked position", p.Pos(lc[0].call.Pos()), "extMap[extensionIDs[i]]", "the invoked extension is not the one at the walked position")
	}
	// computeOrder: edge direction and order copy
	{
		var co *ssa.Function
		for _, fn := range p.AllSrcFuncs(epk) {
			if fn.Parent() == nil && len(callsNamed(fn, func(f *types.Func) bool { return f.FullName() == "gonum.org/v1/gonum/graph/topo.Sort" })) == 1 {
				co = fn
			}
		}
		if co == nil {
			c.Anchor("extension order computation (calls topo.Sort)")
		} else {
			ne := calls(co, func(ci ssa.CallInstruction) bool {
				return ci.Common().IsInvoke() && ci.Common().Method.Name() == "NewEdge" || (calleeOf(ci) != nil && calleeOf(ci).Name() == "NewEdge")
			})
			if len(ne) != 1 {
				c.Bad("extension dependency edge", p.Pos(co.Pos()), fmt.Sprintf("%d NewEdge sites", len(ne)))
			} else {
				args := ne[0].Common().Args
				from, to := args[len(args)-2], args[len(args)-1]
				dep := func(v ssa.Value) bool {
					for x := range backSlice(v) {
						if call, ok := x.(*ssa.Call); ok && call.Call.IsInvoke() && call.Call.Method.Name() == "Dependencies" {
							return true
						}
					}
					return false
				}
				c.Check(dep(from) && !dep(to), "extension edge points dependency → dependent", p.Pos(ne[0].Pos()), "NewEdge(dependency, dependent)", "the dependency edge is reversed: dependents would start before their dependencies")
			}
			// order[i] = sorted[i]
			sortV := callsNamed(co, func(f *types.Func) bool { return f.FullName() == "gonum.org/v1/gonum/graph/topo.Sort" })[0].(ssa.Value)
			okCopy := false
			allInstrs(co, func(in ssa.Instruction) {
				s, ok := in.(*ssa.Store)
				if !ok {
					return
				}
				dst, ok := s.Addr.(*ssa.IndexAddr)
				if !ok {
					return
				}
				if _, isMk := strip(dst.X).(*ssa.MakeSlice); !isMk {
					return
				}
				for v := range backSlice(s.Val) {
					if src, ok := v.(*ssa.IndexAddr); ok {
						if ex, ok := strip(src.X).(*ssa.Extract); ok && ex.Tuple == sortV && sameValue(src.Index, dst.Index) {
							okCopy = true
						}
					}
				}
			})
			c.Check(okCopy, "extension order keeps the topological positions", p.Pos(co.Pos()), "order[i] derives from sorted[i]", "the computed order is not a position-preserving copy of the topological order")
			// the copy is the only writer of the order: the slice is not handed to anything that could permute it
			var mk *ssa.MakeSlice
			allInstrs(co, func(in ssa.Instruction) {
				if s, ok := in.(*ssa.Store); ok {
					if dst, ok := s.Addr.(*ssa.IndexAddr); ok {
						if m, ok := strip(dst.X).(*ssa.MakeSlice); ok {
							mk = m
						}
					}
				}
			})
			if mk != nil {
				elemStores, leak := 0, ""
				for _, r := range *mk.Referrers() {
					switch x := r.(type) {
					case *ssa.IndexAddr:
						for _, rr := range *x.Referrers() {
							if _, ok := rr.(*ssa.Store); ok {
								elemStores++
							}
						}
					case *ssa.Return, *ssa.DebugRef:
					case *ssa.Call:
						if builtinName(x) != "len" && builtinName(x) != "cap" {
							leak = "passed to a call at " + p.Pos(x.Pos())
						}
					case *ssa.Store:
						// spilled because a closure captures it
						if x.Val == ssa.Value(mk) {
							leak = "captured / stored at " + p.Pos(x.Pos())
						}
					default:
						leak = fmt.Sprintf("used by %T at %s", r, p.Pos(r.Pos()))
					}
				}
				c.Check(leak == "" && elemStores == 1, "extension order is written only by the position-preserving copy", p.Pos(mk.Pos()), "one element store, otherwise only returned",
					"the computed order is modified after it was copied from the topological sort ("+leak+fmt.Sprintf(", %d element stores", elemStores)+"): re-sorting or patching it can put a dependent extension before the extension it depends on")
			}
			// and the stored order is never permuted later: extensionIDs has a single writer and is never handed to sort/slices
			if extT != nil {
				for _, fn := range p.AllSrcFuncs(epk) {
					for _, ci := range calls(fn, func(ci ssa.CallInstruction) bool {
						f := calleeOf(ci)
						if f == nil || f.Pkg() == nil || (f.Pkg().Path() != "sort" && f.Pkg().Path() != "slices") {
							return false
						}
						if cl, isCall := ci.(*ssa.Call); isCall && readOnlyIterA6(cl) {
							return false // `range slices.Backward(ids)` reads the order
						}
						for _, a := range ci.Common().Args {
							v := strip(a)
							if mi, ok := v.(*ssa.MakeInterface); ok {
								v = strip(mi.X)
							}
							if u, ok := v.(*ssa.UnOp); ok && u.Op == token.MUL && isFieldAccess(u.X, extT, "extensionIDs") {
								return true
							}
						}
						return false
					}) {
						c.Bad("stored extension order is never re-sorted", p.Pos(ci.Pos()), "extensionIDs is handed to "+calleeOf(ci).FullName()+": the dependency order is lost")
					}
					for _, st := range fieldStores(fn, extT, "extensionIDs") {
						_, okSrc := strip(st.Val).(*ssa.MakeSlice) // the empty initial value
						for v := range backSlice(st.Val) {
							if call, ok := v.(*ssa.Call); ok && staticCalleeFn(call) == co {
								okSrc = true
							}
						}
						c.Check(okSrc, "Extensions.extensionIDs is assigned from the computed order in "+fnName(fn), p.Pos(st.Pos()), "value is computeOrder's result", "the stored extension order does not come from the dependency-order computation")
					}
				}
			}
		}
	}

	// ---------- R3 failure policy
	c.Rule("R3", "ORD", "start loops return the error at the first failing Start; shutdown loops have no exit other than their condition and aggregate every error into the returned value", 4)
	for _, spec := range []struct{ pkg, typ, name, life string }{
		{pkgGraph, "Graph", "StartAll", "Start"}, {pkgExtensions, "Extensions", "Start", "Start"},
		{pkgGraph, "Graph", "ShutdownAll", "Shutdown"}, {pkgExtensions, "Extensions", "Shutdown", "Shutdown"},
	} {
		m := p.LookupMethod(relPkg(spec.pkg), spec.typ, spec.name)
		if m == nil {
			continue
		}
		fn := p.SSAFunc(m)
		// the lifecycle call may live in an extracted helper or in the body of a range-over-func loop; the
		// policy is then judged level by level across the calls (robust_A6.go)
		lc := lifecycleCallsDeepA6(fn, spec.life)
		if len(lc) != 1 {
			c.Bad(spec.typ+"."+spec.name+" lifecycle call", p.Pos(fn.Pos()), "not exactly one call site")
			continue
		}
		call := lc[0].call
		if spec.life == "Start" {
			// failing side returns a non-nil error deriving from the Start error, without continuing:
			// innermost level first, then every helper call on the way out (a range-over-func body returns
			// for its parent, so the parent level needs no check of its own)
			var at ssa.CallInstruction = call
			for i := len(lc[0].chain); i >= 0; i-- {
				if i < len(lc[0].chain) {
					if lc[0].chain[i].yield {
						continue
					}
					at = lc[0].chain[i].at
				}
				cur := at
				found, chainOK, why, retPos, iff, again := startAbortA6(cur, func(v ssa.Value) bool { return valueIsResultOf(v, cur) })
				if !found {
					c.Bad(spec.typ+"."+spec.name+": a failing Start aborts start-up with that error", p.Pos(cur.Pos()), "no return on the err!=nil side of Start: start-up continues after a failure")
				} else {
					c.Check(chainOK, spec.typ+"."+spec.name+": a failing Start aborts start-up with that error", p.Pos(retPos), "returns the (wrapped) error", why)
				}
				// the loop cannot continue from the failing side
				if iff != nil {
					c.Check(!again, spec.typ+"."+spec.name+": no further Start after a failure", p.Pos(iff.Pos()), "failing side leaves the loop", "the loop keeps starting components after one failed")
				}
			}
		} else {
			c.Check(loopVisitsAllA6(lc[0]), spec.typ+"."+spec.name+": a failing Shutdown does not stop the remaining shutdowns", p.Pos(call.Pos()), "loop exits only at its condition", "the shutdown loop can exit early (return/break): remaining components are never shut down")
			// error aggregated into the returned value
			rs := returnsOf(fn)
			agg := false
			isFailure := failureValueA6(lc[0])
			for _, r := range rs {
				res := resultsOf(r)[0]
				if ok, _ := errChainReaches(res, isFailure, nil); ok {
					agg = true
				}
			}
			c.Check(agg, spec.typ+"."+spec.name+": shutdown failures are reported", p.Pos(call.Pos()), "aggregated into the returned error", "a component's shutdown error is dropped")
		}
	}

	// ---------- R4
	c.Rule("R4", "GATE", "a failed service.Start in the collector's set-up is followed by service.Shutdown (started components are shut down)", 1)
	{
		found := false
		if opk := p.ByPath[pkgOtelcol]; opk != nil {
			for _, fn := range p.AllSrcFuncs(opk) {
				if tf, ok := fn.Object().(*types.Func); ok && fn.Object() != nil && isServiceStartFn(p, tf) {
					// the collector's own wrapper around service.Start: its caller is judged
					continue
				}
				st := callsNamed(fn, func(f *types.Func) bool { return isServiceStartFn(p, f) })
				if len(st) != 1 {
					continue
				}
				found = true
				sd := callsNamed(fn, func(f *types.Func) bool { return isServiceShutdownFn(p, f) })
				ok := false
				for _, s := range sd {
					if errGuardOn(s.Block(), st[0], false) {
						ok = true
					}
				}
				c.Check(ok, "failed service.Start is followed by service.Shutdown in "+fnName(fn), p.Pos(st[0].Pos()), "Shutdown on err!=nil side", "a start failure leaves the already started components running")
			}
		}
		if !found {
			c.Anchor("otelcol set-up calling service.Start")
		}
	}

	// ---------- R5 shared component once
	c.Rule("R5", "WHO+ORD", "shared component: the wrapped component's Start is invoked only inside startOnce.Do and Shutdown only inside stopOnce.Do; inside the stop closure the wrapped Shutdown and the map removal happen on every path", 4)
	spk := p.ByPath[pkgShared]
	if spk == nil {
		c.Anchor("internal/sharedcomponent")
	} else {
		compT := p.LookupType(relPkg(pkgShared), "Component")
		for _, life := range []string{"Start", "Shutdown"} {
			n := 0
			for _, fn := range p.AllSrcFuncs(spk) {
				for _, call := range lifecycleCalls(fn, life) {
					// only calls on the wrapped component field
					if !isFieldAccess(call.Common().Value, compT, "component") {
						continue
					}
					n++
					onceField := "startOnce"
					if life == "Shutdown" {
						onceField = "stopOnce"
					}
					// the function handed to <once>.Do (closure or method value), or an unexported function that is
					// only ever called from it (robust_A6.go); links = the call sites from the Once body down to fn
					links, inOnce := onceBodyA6(p.AllSrcFuncs(spk), fn, func(ci ssa.CallInstruction) bool {
						return isMethod(calleeOf(ci), "sync", "Once", "Do") && len(ci.Common().Args) == 2 && isFieldAccess(ci.Common().Args[0], compT, onceField)
					}, 3)
					c.Check(inOnce, "wrapped "+life+" only inside "+onceField+".Do", p.Pos(call.Pos()), "inside the once closure", "the shared component's "+life+" can run more than once")
					if life == "Shutdown" {
						uncond := len(guardsOf(call.Block())) == 0
						body := []*ssa.Function{fn}
						for _, l := range links {
							uncond = uncond && len(guardsOf(l.Block())) == 0
							body = append(body, l.Parent())
						}
						c.Check(uncond, "wrapped Shutdown runs on every path of the stop closure", p.Pos(call.Pos()), "unconditional", "the wrapped component's Shutdown is skipped on some path (e.g. when it was never started): and stopOnce makes that permanent")
						// removeFunc call unconditional
						var rm []ssa.CallInstruction
						seenBody := map[*ssa.Function]bool{}
						for _, g := range body {
							if seenBody[g] {
								continue
							}
							seenBody[g] = true
							rm = append(rm, calls(g, func(ci ssa.CallInstruction) bool { return isFieldAccess(ci.Common().Value, compT, "removeFunc") })...)
						}
						c.Check(len(rm) == 1 && len(guardsOf(rm[0].Block())) == 0 && uncond, "shared component is removed from the map on shutdown", p.Pos(call.Pos()), "unconditional removeFunc()", "map entry is not removed on every path")
					}
				}
			}
			if n == 0 {
				c.Bad("wrapped "+life+" call in the shared component", "-", "not found")
			}
		}
	}

	// ---------- R7 service typestate (shared engine with C20)
	c.Rule("R7", "TS", "per service lifetime the service (hence every component of it) is shut down exactly once and only after it was created: in the collector's run loop service.Shutdown/Start are reached only with a live service and no return leaves a live service (typestate, same engine as C20.R2)", 1)
	{
		sub := NewCtx(p, "C20", c.Tier, c.Config)
		c20LastEngine = nil
		shareDepth++
		runC20(sub)
		shareDepth--
		if c20LastEngine == nil {
			c.Anchor("collector run loop typestate")
		} else {
			n := 0
			for _, k := range sortedKeys(c20LastEngine.viol) {
				if len(k) > 8 && k[:8] == "service " {
					c.Bad(k, c20LastEngine.violPos[k], c20LastEngine.viol[k])
					n++
				}
			}
			for _, o := range sub.Obs {
				if o.Verdict != VOK && len(o.Construct) > 10 && o.Construct[:10] == "Run return" && o.Rule == "C20.R2" {
					c.add(o.Verdict, o.Construct, o.Pos, o.Detail)
					n++
				}
			}
			if n == 0 {
				c.OK("service Start/Shutdown only on a live service; none left live", "-", fmt.Sprintf("%d lifecycle-relevant calls interpreted over all paths of Run", c20LastEngine.effects))
			}
		}
	}

	// ---------- R6 bracketing
	names, _ := statusConsts(p)
	sub := NewCtx(p, "C11", c.Tier, c.Config)
	runC11Lifecycle(sub, names)
	c.Rule("R6", "ORD", "every lifecycle site brackets Start/Shutdown with status events for the same instance (same rule as C11.R6)", 6)
	for _, o := range sub.Obs {
		if o.Rule != "C11.R6" {
			continue
		}
		c.add(o.Verdict, o.Construct, o.Pos, o.Detail)
	}
	runC10Round3(c)
	runC10ReentrantShutdown(c)
	runC10SharedStart(c)
}

// reachableFromFailure: target is reachable from the err!=nil side of the If testing call's result.
func reachableFromFailure(call, target ssa.CallInstruction) bool {
	iff := errIfOf(call)
	if iff == nil {
		return true
	}
	failSucc := iff.Block().Succs[0]
	if op, _, _, _ := cmpOf(Guard{Cond: iff.Cond, Branch: true, If: iff}); op == token.EQL {
		failSucc = iff.Block().Succs[1]
	}
	if len(failSucc.Instrs) == 0 {
		return false
	}
	first := failSucc.Instrs[0]
	return first == target.(ssa.Instruction) || canReach(first, target, nil)
}

// errIfOf finds the If that tests the (error) result of call against nil.
func errIfOf(call ssa.CallInstruction) *ssa.If {
	var found *ssa.If
	allInstrs(call.Parent(), func(in ssa.Instruction) {
		iff, ok := in.(*ssa.If)
		if !ok {
			return
		}
		op, x, y, ok := cmpOf(Guard{Cond: iff.Cond, Branch: true, If: iff})
		if !ok || (op != token.EQL && op != token.NEQ) {
			return
		}
		var other ssa.Value
		if isNilConst(y) {
			other = x
		} else if isNilConst(x) {
			other = y
		} else {
			return
		}
		if valueIsResultOf(other, call) && found == nil {
			found = iff
		}
	})
	return found
}
