package main

import (
	"fmt"
	"go/token"
	"go/types"
	"strings"

	"golang.org/x/tools/go/ssa"
)

const (
	pkgOpaque  = modPrefix + "/config/configopaque"
	pkgConfmap = modPrefix + "/confmap"
	pkgEncoder = modPrefix + "/confmap/internal/mapstructure"
)

func init() {
	register(&Property{
		ID:         "C14",
		Run:        runC14,
		Explain:    "What every rendering path prints for an opaque value is determined by its method set, so most of this property is decided statically: (R1) the VALUE type configopaque.String (not only its pointer) implements fmt.Stringer, fmt.GoStringer, encoding.TextMarshaler and encoding.BinaryMarshaler, and any additional rendering interface it implements (fmt.Formatter, json/yaml marshalers) is subject to R2; (R2) no receiver flow: in every rendering method the receiver has no use at all and every returned string/[]byte derives only from constants (so the output is the same fixed marker for every secret, including the empty one); (R3) the underlying type is string (the explicit conversion still yields the secret) and the package exports no other function returning a string/[]byte derived from a String; (R4) declassification taint, repo-wide: every conversion of an opaque value to string/[]byte is checked: its result never reaches a formatting, logging or error-construction call and is never stored into a field or map held by a struct (where it would survive as a plain copy that renders in the clear); (R5) the config-map encoder cannot bypass the redacting hook: only the leaf-hook function returns raw values; every other encoder function returns recursion results, containers it built, or nil; the hook list of Conf.Marshal contains the text-marshaler hook and that hook returns MarshalText's output for values implementing encoding.TextMarshaler.",
		NotDecided: "Behaviour of fmt, encoding/json, yaml and zap themselves (trusted: they render through the standard interfaces); JSON map keys of string kind (never passed through MarshalText by encoding/json).",
		Assumes:    []string{"fmt/encoding/json/yaml/zap render values through Stringer/GoStringer/TextMarshaler/BinaryMarshaler"},
		Technique:  "static analysis: method-set/type facts (go/types), SSA referrer analysis (no receiver use), local taint from declassifying conversions to formatting sinks and struct-held storage, return-provenance in the encoder",
	})
}

func ifaceOf(p *Prog, pkg, name string) *types.Interface {
	pk := p.ByPath[pkg]
	if pk == nil {
		return nil
	}
	tn, _ := pk.Types.Scope().Lookup(name).(*types.TypeName)
	if tn == nil {
		return nil
	}
	it, _ := tn.Type().Underlying().(*types.Interface)
	return it
}

func runC14(c *Ctx) {
	p := c.P
	opk := p.ByPath[pkgOpaque]
	c.Rule("R1", "TYP", "the value type configopaque.String implements Stringer, GoStringer, TextMarshaler, BinaryMarshaler and fmt.Formatter (only a Formatter intercepts the verbs that are invalid for a string – %d, %c, %e … – for which fmt otherwise prints `%!d(configopaque.String=<secret>)`)", 5)
	if opk == nil {
		c.Anchor("config/configopaque")
		return
	}
	S := p.LookupType(relPkg(pkgOpaque), "String")
	if S == nil {
		c.Anchor("configopaque.String")
		return
	}
	for _, it := range []struct{ pkg, name string }{{"fmt", "Stringer"}, {"fmt", "GoStringer"}, {"encoding", "TextMarshaler"}, {"encoding", "BinaryMarshaler"}, {"fmt", "Formatter"}} {
		iface := ifaceOf(p, it.pkg, it.name)
		if iface == nil {
			c.Undecided("interface "+it.pkg+"."+it.name, "-", "not loaded")
			continue
		}
		val := types.Implements(S, iface)
		ptr := types.Implements(types.NewPointer(S), iface)
		why := "the type does not implement it at all"
		if ptr && !val {
			why = "only *String implements it (pointer receiver): a String VALUE formatted/marshalled through this interface prints the secret"
		}
		c.Check(val, "String (value) implements "+it.pkg+"."+it.name, "-", "value method set", why)
	}

	// ---------- R2
	c.Rule("R2", "TAINT", "rendering methods of String never use the receiver; every returned string/[]byte derives only from constants", 4)
	renderNames := map[string]bool{"String": true, "GoString": true, "MarshalText": true, "MarshalBinary": true, "Format": true, "MarshalJSON": true, "MarshalYAML": true, "Error": true, "LogValue": true, "MarshalLogObject": true}
	nm := 0
	for _, fn := range p.AllSrcFuncs(opk) {
		if fn.Parent() != nil || recvNamedOfFn(fn) != S {
			continue
		}
		if strings.HasPrefix(fn.Name(), "Unmarshal") || strings.HasPrefix(fn.Name(), "Set") {
			continue
		}
		nm++
		recv := fn.Params[0]
		used := recv.Referrers() != nil && len(nonDebugRefs(*recv.Referrers())) > 0
		constOnly := true
		for _, r := range returnsOf(fn) {
			for _, res := range resultsOf(r) {
				if isErrorType(res.Type()) {
					continue
				}
				for v := range backSlice(res) {
					switch x := v.(type) {
					case *ssa.Parameter:
						constOnly = false
					case *ssa.Global:
						constOnly = false
					case *ssa.FreeVar:
						constOnly = false
					case *ssa.UnOp:
						if _, ok := x.X.(*ssa.Global); ok {
							constOnly = false
						}
					}
				}
			}
		}
		_ = renderNames
		c.Check(!used && constOnly, "method "+fn.Name()+" is independent of the secret", p.Pos(fn.Pos()), "receiver unused; result built from constants", fmt.Sprintf("receiver used=%v, result from constants only=%v: the rendering depends on the secret (leaks its content, length or emptiness)", used, constOnly))
	}
	if nm < 4 {
		c.Undecided("methods of String", "-", fmt.Sprintf("%d found", nm))
	}

	// ---------- R3
	c.Rule("R3", "TYP", "underlying type is string; the package exports nothing else that returns a string/[]byte derived from a String", 2)
	b, isBasic := S.Underlying().(*types.Basic)
	c.Check(isBasic && b.Kind() == types.String, "underlying type of String is string", "-", "string", "the explicit conversion string(v) no longer yields the secret for the code that needs it")
	leak := ""
	for _, fn := range p.AllSrcFuncs(opk) {
		if fn.Parent() != nil || recvNamedOfFn(fn) == S {
			continue
		}
		obj, _ := fn.Object().(*types.Func)
		if obj == nil || !obj.Exported() {
			continue
		}
		takes := false
		for _, pa := range fn.Params {
			if namedOf(pa.Type()) == S {
				takes = true
			}
		}
		if !takes {
			continue
		}
		for i := 0; i < fn.Signature.Results().Len(); i++ {
			t := fn.Signature.Results().At(i).Type()
			if bt, ok := t.Underlying().(*types.Basic); ok && bt.Kind() == types.String && namedOf(t) == nil {
				leak = fn.Name()
			}
			if sl, ok := t.Underlying().(*types.Slice); ok {
				if bt, ok := sl.Elem().Underlying().(*types.Basic); ok && bt.Kind() == types.Byte {
					leak = fn.Name()
				}
			}
		}
	}
	c.Check(leak == "", "no exported declassifier besides the explicit conversion", "-", "none", "exported function "+leak+" returns plain text derived from an opaque value")

	// ---------- R4 taint
	c.Rule("R4", "TAINT", "the result of every string()/[]byte() conversion of an opaque value never reaches a formatting/logging/error call and is never stored into struct-held storage", 4)
	nconv := 0
	for _, pk := range p.Pkgs {
		if !strings.HasPrefix(pk.PkgPath, modPrefix) || pk.PkgPath == pkgOpaque {
			continue
		}
		for _, fn := range p.AllSrcFuncs(pk) {
			for _, g := range []*ssa.Function{fn} {
				allInstrs(g, func(in ssa.Instruction) {
					var src ssa.Value
					switch x := in.(type) {
					case *ssa.ChangeType:
						src = x.X
					case *ssa.Convert:
						src = x.X
					default:
						return
					}
					if namedOf(src.Type()) != S {
						return
					}
					dst := in.(ssa.Value).Type()
					if namedOf(dst) == S {
						return
					}
					nconv++
					sink, pos := taintSink(in.(ssa.Value), g)
					name := fmt.Sprintf("declassification in %s (%s)", fnName(g), p.Pos(in.Pos()))
					name = fmt.Sprintf("declassification #%d in %s", countIn(c, "declassification", fnName(g))+1, fnName(g))
					c.Check(sink == "", name, p.Pos(in.Pos()), "flows only to protocol sinks (headers, credentials, parsers)", fmt.Sprintf("the plain-text copy of the secret reaches %s at %s", sink, p.Pos(pos)))
				})
			}
		}
	}
	if nconv < 4 {
		c.Undecided("declassification sites", "-", fmt.Sprintf("%d found (expected ≥ 4)", nconv))
	}

	// ---------- R5 encoder
	c.Rule("R5", "PROV", "config-map encoder: only the leaf-hook function returns raw values; every other encoder method returns recursion results, containers it built, or nil; Conf.Marshal installs the text-marshaler hook, which returns MarshalText's output for TextMarshaler values", 6)
	epk := p.ByPath[pkgEncoder]
	cpk := p.ByPath[pkgConfmap]
	if epk == nil || cpk == nil {
		c.Anchor("confmap encoder packages")
		return
	}
	encT := p.LookupType(relPkg(pkgEncoder), "Encoder")
	var leaf *ssa.Function
	var encFns []*ssa.Function
	for _, fn := range p.AllSrcFuncs(epk) {
		if fn.Parent() != nil || recvNamedOfFn(fn) != encT || fn.Signature.Results().Len() != 2 {
			continue
		}
		encFns = append(encFns, fn)
		if len(callsNamed(fn, func(f *types.Func) bool { return f.Name() == "DecodeHookExec" })) > 0 {
			leaf = fn
		}
	}
	if leaf == nil || len(encFns) < 5 {
		c.Anchor("encoder methods / leaf hook function")
	} else {
		isEnc := func(f *ssa.Function) bool {
			for _, e := range encFns {
				if e == f {
					return true
				}
			}
			return false
		}
		for _, fn := range encFns {
			if fn == leaf {
				continue
			}
			ok := true
			why := ""
			for _, r := range returnsOf(fn) {
				v := resultsOf(r)[0]
				if isNilConst(v) {
					continue
				}
				sv := strip(v)
				switch x := sv.(type) {
				case *ssa.MakeMap, *ssa.MakeSlice:
				case *ssa.Extract:
					call, isCall := x.Tuple.(*ssa.Call)
					cf := (*ssa.Function)(nil)
					if isCall {
						cf = staticCalleeFn(call)
					}
					if cf == nil || !isEnc(cf) {
						ok, why = false, "returns the result of a non-encoder call"
					} else if cf == leaf && !leafAllowedIn(fn, call) {
						ok, why = false, "returns the hook's output without walking it again (values inside it bypass the redacting hook)"
					}
				default:
					ok, why = false, fmt.Sprintf("returns a %T that is neither a recursion result nor a container built here", sv)
				}
			}
			c.Check(ok, "encoder method "+fn.Name()+" returns only walked values", p.Pos(fn.Pos()), "recursion results / own containers / nil", why)
		}
		// dispatcher: leaf call only in the default (scalar) case: leafAllowedIn handles
	}
	// Conf.Marshal hook list
	if f := p.LookupFunc(relPkg(pkgConfmap), "encoderConfig"); f != nil {
		fn := p.SSAFunc(f)
		has := len(callsNamed(fn, func(g *types.Func) bool { return g.Name() == "TextMarshalerHookFunc" })) == 1
		c.Check(has, "Conf.Marshal installs the text-marshaler hook", p.Pos(fn.Pos()), "TextMarshalerHookFunc in the encode hook list", "the encoder config no longer contains the text-marshaler hook: opaque values are written to the effective config in the clear")
		used := false
		if m := p.LookupMethod(relPkg(pkgConfmap), "Conf", "Marshal"); m != nil {
			used = len(callsTo(p.SSAFunc(m), f)) == 1
		}
		c.Check(used, "Conf.Marshal uses that encoder configuration", "-", "encoderConfig(rawVal)", "Marshal builds its encoder without the hook configuration")
	} else {
		c.Anchor("confmap.encoderConfig")
	}
	if f := p.LookupFunc(relPkg(pkgEncoder), "TextMarshalerHookFunc"); f != nil {
		fn := p.SSAFunc(f)
		ok := false
		// the hook is whatever function the constructor returns: a closure or a named function
		hookFns := append([]*ssa.Function{}, fn.AnonFuncs...)
		for _, g := range returnedFuncs(fn, 2) {
			dup := false
			for _, h := range hookFns {
				if h == g {
					dup = true
				}
			}
			if !dup {
				hookFns = append(hookFns, g)
			}
		}
		for _, g := range hookFns {
			var ta *ssa.TypeAssert
			allInstrs(g, func(in ssa.Instruction) {
				if t, isTA := in.(*ssa.TypeAssert); isTA && t.CommaOk {
					if n := namedOf(t.AssertedType); n != nil && n.Obj().Name() == "TextMarshaler" {
						ta = t
					}
				}
			})
			if ta == nil {
				continue
			}
			for _, r := range returnsOf(g) {
				onOK := false
				for _, gd := range guardsOf(r.Block()) {
					v, br := boolOf(gd)
					if ex, isEx := v.(*ssa.Extract); isEx && ex.Tuple == ssa.Value(ta) && br {
						onOK = true
					}
				}
				if !onOK {
					continue
				}
				if sliceHasCall(resultsOf(r)[0], func(f *types.Func) bool { return f.Name() == "MarshalText" }) {
					ok = true
				}
			}
		}
		c.Check(ok, "the text-marshaler hook returns MarshalText's output", p.Pos(fn.Pos()), "string(MarshalText()) on the TextMarshaler side", "the hook does not substitute the marshalled text for values implementing encoding.TextMarshaler")
	} else {
		c.Anchor("TextMarshalerHookFunc")
	}
	runConfSubProvenance(c, "R6")
	runC14Reflect(c)
	runC14Round3(c)
	runC14Round4(c)
	runC14NoMarshalInDecode(c)
}

func nonDebugRefs(refs []ssa.Instruction) []ssa.Instruction {
	var out []ssa.Instruction
	for _, r := range refs {
		if _, ok := r.(*ssa.DebugRef); !ok {
			out = append(out, r)
		}
	}
	return out
}

func countIn(c *Ctx, prefix, fn string) int {
	n := 0
	for _, o := range c.Obs {
		if o.Rule == c.cur && strings.HasPrefix(o.Construct, prefix) && strings.HasSuffix(o.Construct, " in "+fn) {
			n++
		}
	}
	return n
}

// leafAllowedIn: the leaf hook's result may be returned directly only by the dispatcher's scalar
// (default) case, i.e. from a function that does not itself inspect struct fields.
func leafAllowedIn(fn *ssa.Function, call *ssa.Call) bool {
	// a function that calls reflect.Value.NumField / Field walks structs: the hook output must be re-walked
	walksStruct := len(callsNamed(fn, func(f *types.Func) bool {
		return recvNamed(f) != nil && recvNamed(f).Obj().Pkg() != nil && recvNamed(f).Obj().Pkg().Path() == "reflect" && (f.Name() == "NumField" || f.Name() == "MapRange" || f.Name() == "Index")
	})) > 0
	return !walksStruct
}

// taintSink follows v forward inside fn and names the first forbidden sink reached.
var taintDepth int

func taintSink(v ssa.Value, fn *ssa.Function) (string, token.Pos) {
	seen := map[ssa.Value]bool{}
	work := []ssa.Value{v}
	for len(work) > 0 {
		x := work[len(work)-1]
		work = work[:len(work)-1]
		if seen[x] || x.Referrers() == nil {
			continue
		}
		seen[x] = true
		for _, r := range *x.Referrers() {
			switch u := r.(type) {
			case *ssa.Convert, *ssa.ChangeType, *ssa.MakeInterface, *ssa.Phi, *ssa.Slice, *ssa.BinOp:
				work = append(work, u.(ssa.Value))
			case *ssa.Store:
				if u.Val != x {
					continue
				}
				// stored into a local array (variadic pack / slice literal): follow the array
				if ia, ok := u.Addr.(*ssa.IndexAddr); ok {
					if a, ok := ia.X.(*ssa.Alloc); ok {
						work = append(work, a)
						continue
					}
					work = append(work, ia.X)
					continue
				}
				if _, ok := u.Addr.(*ssa.Alloc); ok {
					work = append(work, u.Addr)
					continue
				}
				if structHeld(u.Addr) {
					return "a struct field (a plain copy that outlives the call and renders in the clear)", u.Pos()
				}
			case *ssa.MapUpdate:
				if u.Value == x || u.Key == x {
					if structHeld(u.Map) {
						return "a map held by a struct field (a plain copy that renders in the clear)", u.Pos()
					}
					work = append(work, u.Map)
				}
			case *ssa.UnOp:
				work = append(work, u)
			case *ssa.IndexAddr:
				work = append(work, u)
			case ssa.CallInstruction:
				f := calleeOf(u)
				if b := builtinName(u); b == "append" || b == "copy" {
					if val, ok := r.(ssa.Value); ok {
						work = append(work, val)
					}
					continue
				}
				if f == nil {
					continue
				}
				full := f.FullName()
				pkgp := ""
				if f.Pkg() != nil {
					pkgp = f.Pkg().Path()
				}
				switch {
				case pkgp == "fmt" || pkgp == "log" || pkgp == "log/slog" || pkgp == "errors" || strings.HasPrefix(pkgp, "go.uber.org/zap"):
					return full + " (formatting / logging / error text)", u.Pos()
				case strings.Contains(strings.ToLower(f.Name()), "log") && strings.HasPrefix(pkgp, modPrefix):
					return full, u.Pos()
				}
				// one level into a function of the same package: the parameter that receives the value
				if sf := staticCalleeFn(u); sf != nil && sf.Pkg == fn.Pkg && sf.Blocks != nil && taintDepth < 1 {
					for i, a := range u.Common().Args {
						if a == x && i < len(sf.Params) {
							taintDepth++
							sink, _ := taintSink(sf.Params[i], sf)
							taintDepth--
							if sink != "" {
								return sink + " (inside " + fnName(sf) + ", which receives the value as its argument)", u.Pos()
							}
						}
					}
				}
			}
		}
	}
	return "", token.NoPos
}

// structHeld: the address/map expression is reached through a field of some struct (not a
// purely local variable).
func structHeld(v ssa.Value) bool {
	for i := 0; i < 12 && v != nil; i++ {
		switch x := v.(type) {
		case *ssa.FieldAddr:
			// only structs declared in the collector itself (configuration / component state); a field
			// of a protocol object (http.Request.Host, …) is a protocol sink
			n := namedOf(x.X.Type())
			return n != nil && n.Obj().Pkg() != nil && strings.HasPrefix(n.Obj().Pkg().Path(), modPrefix)
		case *ssa.Field:
			n := namedOf(x.X.Type())
			return n != nil && n.Obj().Pkg() != nil && strings.HasPrefix(n.Obj().Pkg().Path(), modPrefix)
		case *ssa.UnOp:
			v = x.X
		case *ssa.IndexAddr:
			v = x.X
		case *ssa.Global:
			return true
		default:
			return false
		}
	}
	return false
}
