package main

import (
	"fmt"
	"go/ast"
	"go/constant"
	"go/token"
	"go/types"
	"reflect"
	"sort"
	"strconv"
	"strings"

	"golang.org/x/tools/go/ssa"
)

const pkgPdataJSON = modPrefix + "/pdata/internal/json"

func init() {
	register(&Property{
		ID:         "C08",
		Run:        runC08,
		Explain:    "Static structural necessary conditions of codec agreement: (R1) JSON field coverage – for every switch over the JSON key in the hand-written decoders and the protobuf struct its cases fill, every field (and every one-of alternative) has a case for both its proto name and its lowerCamel JSON name, and that case writes that field; (R2) reader/type agreement – each case reads with the helper matching the field's Go type: 64-bit integers through the string-or-number helpers (never jsoniter's native reader), doubles through the NaN/Inf-aware helper, enums through ReadEnumValue with that enum's own name table; the 64-bit helpers never pass through floating point; (R3) wire-table agreement of the generated protobuf code – for every message the set of field numbers in the struct tags (including one-of alternatives) equals the set of case labels of its Unmarshal switch; (R4) migration of deprecated scope fields clears the deprecated field on every path on which it copied it (decode→encode reaches a fixed point); (R5) bounded ID decoding – every hex.Decode into a fixed-size ID is guarded by a length test against hex.DecodedLen.",
		NotDecided: "Byte-exact round trips, Size()==len(Marshal()), agreement of values (NaN, extremes), totality on arbitrary bytes (would need a bounds proof of ~20k lines of generated decoding code). That every decode path migrates deprecated fields is NOT claimed: the property statement does not require it (see DESIGN.md, correction of C08.R4).",
		Assumes:    []string{"jsoniter and gogo-proto runtime behave as documented", "the generated struct tags are the wire contract"},
		Technique:  "static analysis: switch-region extraction on SSA + field coverage against struct tags (types), reader/type table, AST table extraction of generated code, pairing on all paths",
	})
}

type jsonCase struct {
	key   string
	block *ssa.BasicBlock // body entry
	pos   token.Pos
}

// stringSwitches finds, per function, groups of `tag == "const"` tests on the same tag value.
func stringSwitches(fn *ssa.Function) map[ssa.Value][]jsonCase {
	out := map[ssa.Value][]jsonCase{}
	allInstrs(fn, func(in ssa.Instruction) {
		iff, ok := in.(*ssa.If)
		if !ok {
			return
		}
		bo, ok := iff.Cond.(*ssa.BinOp)
		if !ok || bo.Op != token.EQL {
			return
		}
		k, ok := constString(bo.Y)
		if !ok {
			return
		}
		if b, ok := bo.X.Type().Underlying().(*types.Basic); !ok || b.Kind() != types.String {
			return
		}
		out[bo.X] = append(out[bo.X], jsonCase{k, iff.Block().Succs[0], iff.Pos()})
	})
	return out
}

// regionFuncs: blocks dominated by b, plus closures created there (recursively, whole bodies).
type region struct {
	blocks []*ssa.BasicBlock
	fns    []*ssa.Function
}

func regionOf(b *ssa.BasicBlock) region {
	var r region
	for _, x := range b.Parent().Blocks {
		if x == b || b.Dominates(x) {
			r.blocks = append(r.blocks, x)
		}
	}
	var addFn func(f *ssa.Function)
	addFn = func(f *ssa.Function) {
		r.fns = append(r.fns, f)
		for _, a := range f.AnonFuncs {
			addFn(a)
		}
	}
	seenFn := map[*ssa.Function]bool{}
	for _, x := range r.blocks {
		for _, in := range x.Instrs {
			if mc, ok := in.(*ssa.MakeClosure); ok {
				if f := mc.Fn.(*ssa.Function); !seenFn[f] {
					seenFn[f] = true
					addFn(f)
				}
			}
			// closures without captured variables are plain function values
			for _, op := range in.Operands(nil) {
				if f, ok := (*op).(*ssa.Function); ok && f.Parent() != nil && !seenFn[f] {
					seenFn[f] = true
					addFn(f)
				}
			}
		}
	}
	return r
}

func (r region) instrs(f func(ssa.Instruction)) {
	for _, b := range r.blocks {
		for _, in := range b.Instrs {
			f(in)
		}
	}
	for _, fn := range r.fns {
		allInstrs(fn, f)
	}
}

func isProtogenStruct(n *types.Named) bool {
	if n == nil || n.Obj().Pkg() == nil {
		return false
	}
	if !strings.Contains(n.Obj().Pkg().Path(), "/pdata/internal/data/protogen") {
		return false
	}
	_, ok := n.Underlying().(*types.Struct)
	return ok
}

type protoField struct {
	name     string // Go field name
	num      int
	protoKey string
	jsonKey  string
	typ      types.Type
	oneofOf  string // Go name of the one-of interface field this alternative belongs to
	altType  *types.Named
}

func parseProtoTag(tag string) (num int, name, jsonName string, ok bool) {
	v := reflect.StructTag(tag).Get("protobuf")
	if v == "" {
		return 0, "", "", false
	}
	parts := strings.Split(v, ",")
	if len(parts) < 2 {
		return 0, "", "", false
	}
	num, _ = strconv.Atoi(parts[1])
	for _, p := range parts[2:] {
		if strings.HasPrefix(p, "name=") {
			name = strings.TrimPrefix(p, "name=")
		}
		if strings.HasPrefix(p, "json=") {
			jsonName = strings.TrimPrefix(p, "json=")
		}
	}
	if jsonName == "" {
		jsonName = name
	}
	return num, name, jsonName, name != ""
}

// protoFields lists the wire fields of a generated message struct, expanding one-ofs.
func protoFields(S *types.Named) []protoField {
	st := S.Underlying().(*types.Struct)
	var out []protoField
	for i := 0; i < st.NumFields(); i++ {
		f := st.Field(i)
		tag := st.Tag(i)
		if num, name, jn, ok := parseProtoTag(tag); ok {
			out = append(out, protoField{name: f.Name(), num: num, protoKey: name, jsonKey: jn, typ: f.Type()})
			continue
		}
		if reflect.StructTag(tag).Get("protobuf_oneof") != "" {
			iface, ok := f.Type().Underlying().(*types.Interface)
			if !ok {
				continue
			}
			scope := S.Obj().Pkg().Scope()
			for _, n := range scope.Names() {
				tn, ok := scope.Lookup(n).(*types.TypeName)
				if !ok {
					continue
				}
				alt, ok := tn.Type().(*types.Named)
				if !ok {
					continue
				}
				ast, ok := alt.Underlying().(*types.Struct)
				if !ok || ast.NumFields() != 1 {
					continue
				}
				if !types.Implements(types.NewPointer(alt), iface) {
					continue
				}
				if num, name, jn, ok := parseProtoTag(ast.Tag(0)); ok {
					out = append(out, protoField{name: ast.Field(0).Name(), num: num, protoKey: name, jsonKey: jn, typ: ast.Field(0).Type(), oneofOf: f.Name(), altType: alt})
				}
			}
		}
	}
	return out
}

func runC08(c *Ctx) {
	p := c.P
	pi := loadPdata(p)
	c.Rule("R1", "COV", "every JSON key switch of the hand-written decoders has, for every field and one-of alternative of the protobuf struct it fills, a case for the proto name and one for the lowerCamel JSON name, and that case writes that field", 40)
	c.Rule("R2", "TAB", "each JSON case reads with the helper matching the field's type (64-bit ints: string-or-number helpers; double: NaN/Inf-aware helper; enum: ReadEnumValue with that enum's table); the 64-bit helpers never go through floating point", 110)
	jpk := p.ByPath[pkgPdataJSON]
	if jpk == nil || len(pi.pkgs) < 9 {
		c.Anchor("pdata packages and pdata/internal/json")
		return
	}
	scope := append([]*ssa.Function{}, p.AllSrcFuncs(jpk)...)
	for _, pk := range pi.pkgs {
		scope = append(scope, p.AllSrcFuncs(pk)...)
	}
	nSwitch := 0
	for _, fn := range scope {
		sw := stringSwitches(fn)
		var tags []ssa.Value
		for t := range sw {
			tags = append(tags, t)
		}
		sort.Slice(tags, func(i, j int) bool { return tags[i].Pos() < tags[j].Pos() })
		for _, tag := range tags {
			cases := sw[tag]
			if len(cases) < 2 {
				continue
			}
			// fields touched per body block
			type touch struct {
				direct map[*types.Named]map[string]bool
				callee map[*types.Named]map[string]bool
				allocs map[*types.Named]bool
			}
			perBlock := map[*ssa.BasicBlock]*touch{}
			count := map[*types.Named]int{}
			for _, cs := range cases {
				if perBlock[cs.block] != nil {
					continue
				}
				t := &touch{direct: map[*types.Named]map[string]bool{}, callee: map[*types.Named]map[string]bool{}, allocs: map[*types.Named]bool{}}
				perBlock[cs.block] = t
				reg := regionOfFV(cs.block) // callbacks written as method values / named functions belong to the case (robust_A4.go)
				addTo := func(m map[*types.Named]map[string]bool, n *types.Named, f string) {
					if m[n] == nil {
						m[n] = map[string]bool{}
					}
					m[n][f] = true
				}
				reg.instrs(func(in ssa.Instruction) {
					switch x := in.(type) {
					case *ssa.FieldAddr:
						if n := namedOf(x.X.Type()); isProtogenStruct(n) {
							addTo(t.direct, n, derefStruct(x.X.Type()).Field(x.Field).Name())
							count[n]++
						}
					case *ssa.Alloc:
						if n := namedOf(x.Type().Underlying().(*types.Pointer).Elem()); isProtogenStruct(n) {
							t.allocs[n] = true
						}
					case ssa.CallInstruction:
						cf := staticCalleeFn(x)
						if cf == nil || !pi.inScope[cf] && (cf.Pkg == nil || cf.Pkg.Pkg.Path() != pkgPdataJSON) {
							return
						}
						// accessor / helper below the case (plain helpers are followed, nested decoders are not: robust_A4.go)
						walkHelper(func(f *ssa.Function) bool {
							return pi.inScope[f] || (f.Pkg != nil && f.Pkg.Pkg.Path() == pkgPdataJSON)
						}, cf, func(ci ssa.Instruction) {
							if fa, ok := ci.(*ssa.FieldAddr); ok {
								if n := namedOf(fa.X.Type()); isProtogenStruct(n) {
									addTo(t.callee, n, derefStruct(fa.X.Type()).Field(fa.Field).Name())
								}
							}
							if al, ok := ci.(*ssa.Alloc); ok {
								if n := namedOf(al.Type().Underlying().(*types.Pointer).Elem()); isProtogenStruct(n) {
									t.allocs[n] = true
								}
							}
						})
					}
				})
			}
			// the struct this switch fills: the protogen struct with the most direct field touches
			var S *types.Named
			for n, k := range count {
				if S == nil || k > count[S] || (k == count[S] && n.Obj().Name() < S.Obj().Name()) {
					// one-of alternative wrapper types are not message structs
					if n.Underlying().(*types.Struct).NumFields() == 1 && strings.Contains(n.Obj().Name(), "_") {
						continue
					}
					S = n
				}
			}
			if S == nil {
				// switches that only dispatch to accessors
				cnt := map[*types.Named]int{}
				for _, t := range perBlock {
					for n, fs := range t.callee {
						cnt[n] += len(fs)
					}
				}
				for n, k := range cnt {
					if n.Underlying().(*types.Struct).NumFields() == 1 && strings.Contains(n.Obj().Name(), "_") {
						continue
					}
					if S == nil || k > cnt[S] || (k == cnt[S] && n.Obj().Name() < S.Obj().Name()) {
						S = n
					}
				}
			}
			if S == nil {
				continue
			}
			nSwitch++
			keys := map[string]*touch{}
			for _, cs := range cases {
				keys[cs.key] = perBlock[cs.block]
			}
			swName := fmt.Sprintf("JSON switch for %s.%s in %s", S.Obj().Pkg().Name(), S.Obj().Name(), fnName(fn))
			c.Rule("R1", "", "", 0)
			var problems []string
			nf := 0
			for _, f := range protoFields(S) {
				if strings.HasPrefix(f.name, "Deprecated") || strings.HasPrefix(f.name, "XXX_") {
					continue
				}
				nf++
				for _, key := range uniq(f.protoKey, f.jsonKey) {
					t := keys[key]
					if t == nil {
						problems = append(problems, fmt.Sprintf("no case %q for field %s", key, f.name))
						continue
					}
					ok := false
					if f.oneofOf != "" {
						ok = t.allocs[f.altType] || t.direct[f.altType] != nil || t.callee[f.altType] != nil
					} else {
						ok = t.direct[S][f.name] || t.callee[S][f.name]
					}
					if !ok {
						problems = append(problems, fmt.Sprintf("case %q does not write field %s", key, f.name))
					}
				}
			}
			if len(problems) > 0 {
				c.Bad(swName, p.Pos(cases[0].pos), strings.Join(problems, "; ")+": the field is silently dropped (or misplaced) when decoding OTLP/JSON")
			} else {
				c.OK(swName, p.Pos(cases[0].pos), fmt.Sprintf("%d fields/alternatives × 2 spellings all present and write their field", nf))
			}
			// R2: reader/type agreement for every store into a protogen struct field in the bodies
			c.Rule("R2", "", "", 0)
			seenBlock := map[*ssa.BasicBlock]bool{}
			for _, cs := range cases {
				if seenBlock[cs.block] {
					continue
				}
				seenBlock[cs.block] = true
				regionOfFV(cs.block).instrs(func(in ssa.Instruction) {
					s, ok := in.(*ssa.Store)
					if !ok {
						return
					}
					fa, ok := s.Addr.(*ssa.FieldAddr)
					if !ok {
						return
					}
					n := namedOf(fa.X.Type())
					if !isProtogenStruct(n) {
						return
					}
					ft := derefStruct(fa.X.Type()).Field(fa.Field)
					want, enumT := readerFor(ft.Type())
					if want == "" {
						return
					}
					got, enumArg := readerOf(s.Val)
					name := fmt.Sprintf("reader for %s.%s (%s) under key %q in %s", n.Obj().Name(), ft.Name(), types.TypeString(ft.Type(), func(*types.Package) string { return "" }), cs.key, fnName(fn))
					okR := false
					for _, w := range strings.Split(want, "|") {
						if got == w {
							okR = true
						}
					}
					if okR && enumT != nil {
						okR = enumArg == enumT.Obj().Name()+"_value"
					}
					c.Check(okR, name, p.Pos(s.Pos()), "reads with "+got, fmt.Sprintf("field of type %s is read with %s (enum table %q); expected %s: values written as strings (or NaN/Infinity, or enum names) would be rejected or mis-decoded", ft.Type(), got, enumArg, want))
				})
			}
		}
	}
	if nSwitch < 40 {
		c.Rule("R1", "", "", 0)
		c.Undecided("JSON key switches found", "-", fmt.Sprintf("%d (expected ≥ 40)", nSwitch))
	}
	// 64-bit helpers never go through floating point
	c.Rule("R2", "", "", 0)
	for _, fn := range p.AllSrcFuncs(jpk) {
		if fn.Parent() != nil || fn.Signature.Results().Len() != 1 {
			continue
		}
		b, ok := fn.Signature.Results().At(0).Type().Underlying().(*types.Basic)
		if !ok || (b.Kind() != types.Int64 && b.Kind() != types.Uint64) {
			continue
		}
		bad := false
		allInstrs(fn, func(in ssa.Instruction) {
			if cv, ok := in.(*ssa.Convert); ok {
				if fb, ok := cv.X.Type().Underlying().(*types.Basic); ok && fb.Info()&types.IsFloat != 0 {
					bad = true
				}
			}
			if ci, ok := in.(ssa.CallInstruction); ok {
				if f := calleeOf(ci); f != nil && strings.Contains(f.Name(), "Float") {
					bad = true
				}
			}
		})
		c.Check(!bad, "64-bit integer helper "+fnName(fn)+" stays integral", p.Pos(fn.Pos()), "no float conversion", "a 64-bit integer is decoded through floating point: magnitudes above 2^53 are corrupted, so number and string spellings disagree")
	}

	runC08Wire(c)
	runC08Migrate(c)
	runC08Hex(c)
	runC08NoAlias(c)
	runC08Packed(c)
	runC08EnumLookup(c)
	runC08Bounds(c)
	runC08Buffers(c)
	runC08OneOfPresence(c)
	runC08Round4(c)
	runC08IDUnmarshal(c)
	runC08MigrateSiblings(c)
	runC08ByteSliceNonNil(c)
	runC08Round5(c)
	runC08Recursion(c)
}

func uniq(a, b string) []string {
	if a == b {
		return []string{a}
	}
	return []string{a, b}
}

// readerFor returns the accepted reader(s) for a field type.
func readerFor(t types.Type) (string, *types.Named) {
	if n := namedOf(t); n != nil {
		if _, isPtr := t.(*types.Pointer); !isPtr {
			if b, ok := n.Underlying().(*types.Basic); ok && b.Kind() == types.Int32 && isProtogenPkg(n) {
				return "json.ReadEnumValue", n
			}
		}
	}
	if sl, isSl := t.(*types.Slice); isSl {
		if eb, isB := sl.Elem().(*types.Basic); isB && eb.Kind() == types.Uint8 {
			// proto3 JSON: bytes are base64 text
			return "(*encoding/base64.Encoding).DecodeString", nil
		}
	}
	b, ok := t.Underlying().(*types.Basic)
	if !ok {
		return "", nil
	}
	if namedOf(t) != nil {
		return "", nil
	}
	switch b.Kind() {
	case types.Int64:
		return "json.ReadInt64", nil
	case types.Uint64:
		return "json.ReadUint64", nil
	case types.Float64:
		return "json.ReadFloat64", nil
	case types.Int32:
		return "json.ReadInt32|iter.ReadInt32", nil
	case types.Uint32:
		return "json.ReadUint32|iter.ReadUint32", nil
	case types.String:
		return "iter.ReadString", nil
	case types.Bool:
		return "iter.ReadBool", nil
	}
	return "", nil
}

func isProtogenPkg(n *types.Named) bool {
	return n.Obj().Pkg() != nil && strings.Contains(n.Obj().Pkg().Path(), "/pdata/internal/data/protogen")
}

// readerOf names the reader call that produced v and, for enums, the table argument.
func readerOf(v ssa.Value) (string, string) {
	for {
		switch x := v.(type) {
		case *ssa.Convert:
			v = x.X
			continue
		case *ssa.ChangeType:
			v = x.X
			continue
		case *ssa.Extract:
			v = x.Tuple
			continue
		}
		break
	}
	call, ok := v.(*ssa.Call)
	if !ok {
		return fmt.Sprintf("%T", v), ""
	}
	f := calleeOf(call)
	if f == nil {
		return "dynamic", ""
	}
	if f.Pkg() != nil && f.Pkg().Path() == pkgPdataJSON {
		enumArg := ""
		if f.Name() == "ReadEnumValue" && len(call.Call.Args) == 2 {
			if u, ok := call.Call.Args[1].(*ssa.UnOp); ok {
				if g, ok := u.X.(*ssa.Global); ok {
					enumArg = g.Name()
				}
			}
		}
		return "json." + f.Name(), enumArg
	}
	if rn := recvNamed(f); rn != nil && rn.Obj().Name() == "Iterator" {
		return "iter." + f.Name(), ""
	}
	// a local helper that only wraps a reader: classify by what it returns
	if cf := staticCalleeFn(call); cf != nil && cf.Blocks != nil && cf.Pkg != nil && strings.HasPrefix(cf.Pkg.Pkg.Path(), pkgPdata) {
		rs := returnsOf(cf)
		if len(rs) == 1 && len(rs[0].Results) == 1 {
			return readerOf(resultsOf(rs[0])[0])
		}
	}
	return f.FullName(), ""
}

// ---------- R3 wire tables of the generated code (AST) ----------

func runC08Wire(c *Ctx) {
	p := c.P
	c.Rule("R3", "TAB", "for every generated protobuf message, the set of field numbers in its struct tags (one-of alternatives included) equals the set of case labels of the field-number switch in its Unmarshal method", 50)
	n := 0
	for _, pk := range p.Pkgs {
		if !strings.Contains(pk.PkgPath, "/pdata/internal/data/protogen") {
			continue
		}
		for _, file := range pk.Syntax {
			for _, d := range file.Decls {
				fd, ok := d.(*ast.FuncDecl)
				if !ok || fd.Name.Name != "Unmarshal" || fd.Recv == nil || fd.Body == nil {
					continue
				}
				obj, _ := pk.TypesInfo.Defs[fd.Name].(*types.Func)
				S := recvNamed(obj)
				if S == nil || !isProtogenStruct(S) {
					continue
				}
				cases := map[int]bool{}
				found := false
				ast.Inspect(fd.Body, func(nd ast.Node) bool {
					sw, ok := nd.(*ast.SwitchStmt)
					if !ok {
						return true
					}
					id, ok := sw.Tag.(*ast.Ident)
					if !ok || id.Name != "fieldNum" {
						return true
					}
					found = true
					for _, st := range sw.Body.List {
						cc := st.(*ast.CaseClause)
						for _, e := range cc.List {
							if v, ok := constOfExpr(pk.TypesInfo, e); ok {
								if k, ok := constant.Int64Val(v); ok {
									cases[int(k)] = true
								}
							}
						}
					}
					return false
				})
				if !found {
					continue
				}
				n++
				tags := map[int]bool{}
				for _, f := range protoFields(S) {
					tags[f.num] = true
				}
				var missing, extra []int
				for k := range tags {
					if !cases[k] {
						missing = append(missing, k)
					}
				}
				for k := range cases {
					if !tags[k] {
						extra = append(extra, k)
					}
				}
				sort.Ints(missing)
				sort.Ints(extra)
				c.Check(len(missing) == 0 && len(extra) == 0, "wire table of "+S.Obj().Pkg().Name()+"."+S.Obj().Name(), p.Pos(fd.Pos()), fmt.Sprintf("%d field numbers agree", len(tags)), fmt.Sprintf("field numbers in tags but not decoded: %v; decoded but not in tags: %v", missing, extra))
			}
		}
	}
	if n < 50 {
		c.Undecided("generated Unmarshal methods found", "-", fmt.Sprintf("%d", n))
	}
}

// ---------- R4 migration pairing ----------

func runC08Migrate(c *Ctx) {
	p := c.P
	c.Rule("R4", "PAIR", "in the deprecated-scope migration, wherever a Deprecated* field is copied into its replacement it is set to nil afterwards on every path to the next iteration/return (otherwise a decoded legacy payload re-encodes both copies and decode→encode is not a fixed point)", 3)
	mpk := p.ByPath[pkgPdataInternal+"/otlp"]
	if mpk == nil {
		c.Anchor("pdata/internal/otlp")
		return
	}
	for _, fn := range p.AllSrcFuncs(mpk) {
		if fn.Parent() != nil || !strings.HasPrefix(fn.Name(), "Migrate") {
			continue
		}
		var copies, clears []*ssa.Store
		allInstrs(fn, func(in ssa.Instruction) {
			s, ok := in.(*ssa.Store)
			if !ok {
				return
			}
			fa, ok := s.Addr.(*ssa.FieldAddr)
			if !ok || !isProtogenStruct(namedOf(fa.X.Type())) {
				return
			}
			fname := derefStruct(fa.X.Type()).Field(fa.Field).Name()
			if strings.HasPrefix(fname, "Deprecated") {
				if isNilConst(s.Val) {
					clears = append(clears, s)
				}
				return
			}
			// value loaded from a Deprecated* field
			if u, ok := s.Val.(*ssa.UnOp); ok && u.Op == token.MUL {
				if sfa, ok := u.X.(*ssa.FieldAddr); ok && strings.HasPrefix(derefStruct(sfa.X.Type()).Field(sfa.Field).Name(), "Deprecated") {
					copies = append(copies, s)
				}
			}
		})
		if len(copies) == 0 {
			c.OK("migration "+fnName(fn), p.Pos(fn.Pos()), "no deprecated field is copied (nothing to migrate for this signal)")
			continue
		}
		via := map[ssa.Instruction]bool{}
		for _, cl := range clears {
			via[cl] = true
		}
		for _, cp := range copies {
			// every path from the copy to a return or back to the loop header passes a clear
			bad := false
			hdr, _ := innermostLoop(cp.Block())
			if esc, _ := reachesReturnWithout(fn, cp, via); esc {
				bad = true
			}
			if hdr != nil && len(hdr.Instrs) > 0 && canReach(cp, hdr.Instrs[0], via) {
				bad = true
			}
			c.Check(!bad, "migration "+fnName(fn)+": deprecated field cleared after the copy", p.Pos(cp.Pos()), "cleared on every path", "the deprecated field keeps its content after being copied: the data is encoded twice and a second decode differs")
		}
	}
}

// ---------- R5 bounded hex decode ----------

func runC08Hex(c *Ctx) {
	p := c.P
	c.Rule("R5", "GATE", "every encoding/hex.Decode into an ID buffer in pdata/internal/data is dominated by a guard comparing the destination length with hex.DecodedLen of the source length (hex.Decode does not bounds-check its destination)", 1)
	dpk := p.ByPath[pkgPdataInternal+"/data"]
	if dpk == nil {
		c.Anchor("pdata/internal/data")
		return
	}
	n := 0
	for _, fn := range p.AllSrcFuncs(dpk) {
		for _, ci := range callsNamed(fn, func(f *types.Func) bool { return f.FullName() == "encoding/hex.Decode" }) {
			n++
			dst := ci.Common().Args[0]
			guarded := false
			for _, g := range guardsOf(ci.Block()) {
				op, x, y, ok := cmpOf(g)
				if !ok || op != token.EQL {
					continue
				}
				isLenDst := func(v ssa.Value) bool {
					call, ok := v.(*ssa.Call)
					return ok && builtinName(call) == "len" && sameValue(call.Call.Args[0], dst)
				}
				isDecLen := func(v ssa.Value) bool {
					call, ok := v.(*ssa.Call)
					return ok && calleeOf(call) != nil && calleeOf(call).FullName() == "encoding/hex.DecodedLen"
				}
				if (isLenDst(x) && isDecLen(y)) || (isLenDst(y) && isDecLen(x)) {
					guarded = true
				}
			}
			c.Check(guarded, "hex.Decode in "+fnName(fn)+" is length-guarded", p.Pos(ci.Pos()), "len(dst) == hex.DecodedLen(len(src)) dominates the call", "an over-long hex ID makes hex.Decode write past the fixed-size ID: decoding arbitrary JSON panics")
		}
	}
	if n == 0 {
		c.Undecided("hex.Decode call sites", "-", "none found")
	}
}
