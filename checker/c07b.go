package main

import (
	"fmt"
	"go/token"
	"go/types"

	"golang.org/x/tools/go/ssa"
)

// ---------- R7: RemoveIf is an order-preserving, single-pass compaction ----------
//
// Shape conditions, each necessary for "removes exactly the matching elements, keeps the rest in order, calls the
// predicate once per element":
//   (a) the predicate parameter is called at exactly one site, inside the loop;
//   (b) the container's slice header is written (shrunk) only after the loop – shrinking while an `i++` loop runs
//       makes the loop skip the element that was moved into the hole;
//   (c) an element store inside the loop writes either the zero value or the element at the loop index `i` to
//       a position taken from the write cursor – never an element taken from elsewhere (e.g. the last one).

func runC07RemoveIf(c *Ctx, pi *pdataInfo) {
	p := c.P
	c.Rule("R7", "ORD", "every RemoveIf is a single-pass order-preserving compaction: the predicate is called at one site inside the loop, the container is shrunk only after the loop, and inside the loop an element slot receives only the zero value or the element at the loop index", 30)
	for _, pk := range pi.pkgs {
		for _, fn := range p.AllSrcFuncs(pk) {
			if fn.Parent() != nil || fn.Name() != "RemoveIf" || len(fn.Params) != 2 {
				continue
			}
			W := recvNamedOfFn(fn)
			if W == nil || !pi.wrappers[W] {
				continue
			}
			pred := fn.Params[1]
			name := "RemoveIf of " + W.Obj().Pkg().Name() + "." + W.Obj().Name()
			// (a)
			var predCalls []*ssa.Call
			allInstrs(fn, func(in ssa.Instruction) {
				if call, ok := in.(*ssa.Call); ok && call.Call.Value == ssa.Value(pred) {
					predCalls = append(predCalls, call)
				}
			})
			if len(predCalls) != 1 {
				c.Bad(name+": predicate called at one site", p.Pos(fn.Pos()), fmt.Sprintf("%d call sites of the predicate (also counts a predicate that escapes into a closure)", len(predCalls)))
				continue
			}
			hdr, body := innermostLoop(predCalls[0].Block())
			if hdr == nil {
				c.Bad(name+": predicate called inside the loop", p.Pos(predCalls[0].Pos()), "the predicate call is not inside a loop")
				continue
			}
			// loop index: the phi of the header that is compared with len(...)
			var idx *ssa.Phi
			if iff, ok := hdr.Instrs[len(hdr.Instrs)-1].(*ssa.If); ok {
				if bo, ok := iff.Cond.(*ssa.BinOp); ok {
					if ph, ok := bo.X.(*ssa.Phi); ok && ph.Block() == hdr {
						idx = ph
					}
				}
			}
			if idx == nil {
				c.Undecided(name+": loop index", p.Pos(fn.Pos()), "loop header does not compare an induction variable")
				continue
			}
			okShape, why := true, ""
			var at ssa.Instruction
			allInstrs(fn, func(in ssa.Instruction) {
				st, ok := in.(*ssa.Store)
				if !ok {
					return
				}
				// (b) header store: value is a slice expression (or append/nil) stored through the orig pointer
				if _, isSlice := st.Val.Type().Underlying().(*types.Slice); isSlice {
					if _, isAlloc := st.Addr.(*ssa.Alloc); !isAlloc && body[st.Block()] {
						okShape, why, at = false, "the container is re-sliced inside the loop", st
					}
					return
				}
				// (c) element store inside the loop
				ia, ok := st.Addr.(*ssa.IndexAddr)
				if !ok || !body[st.Block()] {
					return
				}
				_ = ia
				if isZeroValue(st.Val) {
					return
				}
				src, ok := st.Val.(*ssa.UnOp)
				if !ok || src.Op != token.MUL {
					okShape, why, at = false, "an element slot receives a value that is not an element of the container", st
					return
				}
				sia, ok := src.X.(*ssa.IndexAddr)
				if !ok || sia.Index != ssa.Value(idx) {
					okShape, why, at = false, "an element slot receives an element other than the one at the loop index", st
				}
			})
			pos := p.Pos(fn.Pos())
			if at != nil {
				pos = p.Pos(at.Pos())
			}
			c.Check(okShape, name+": order-preserving single-pass compaction", pos, "shrunk after the loop; moves only element i", why+": elements are skipped, re-ordered or examined twice (a matching entry can survive, the predicate is not called once per element)")
		}
	}
}

// ---------- R8: FromRaw copies what it is given ----------

func runC07FromRaw(c *Ctx, pi *pdataInfo) {
	p := c.P
	c.Rule("R8", "OWN", "FromRaw never stores a slice or map it was handed (directly or out of an `any`): raw []byte, []any, map[string]any and the typed raw slices are copied, so values filled from the same raw data stay independent of it and of each other", 11)
	for _, pk := range pi.pkgs {
		for _, fn := range p.AllSrcFuncs(pk) {
			if fn.Parent() != nil || fn.Name() != "FromRaw" || fn.Signature.Recv() == nil || len(fn.Params) != 2 {
				continue
			}
			raw := fn.Params[1]
			isRef := func(t types.Type) bool {
				switch t.Underlying().(type) {
				case *types.Slice, *types.Map:
					return true
				}
				return false
			}
			taint := map[ssa.Value]bool{}
			var work []ssa.Value
			add := func(v ssa.Value) {
				if !taint[v] {
					taint[v] = true
					work = append(work, v)
				}
			}
			add(raw)
			var bad ssa.Instruction
			for _, f := range withAnon(fn) {
				for _, fv := range f.FreeVars {
					if b := freeVarBinding(fv); b != nil && taint[b] {
						add(fv)
					}
				}
			}
			for len(work) > 0 {
				v := work[len(work)-1]
				work = work[:len(work)-1]
				refs := v.Referrers()
				if refs == nil {
					continue
				}
				for _, r := range *refs {
					switch x := r.(type) {
					case *ssa.TypeAssert:
						add(x)
					case *ssa.Extract:
						add(x)
					case *ssa.Phi:
						add(x)
					case *ssa.ChangeType:
						add(x)
					case *ssa.Slice:
						add(x)
					case *ssa.MakeInterface:
						add(x)
					case *ssa.Store:
						if x.Val != v {
							continue
						}
						if al, ok := x.Addr.(*ssa.Alloc); ok && !al.Heap {
							for _, rr := range *al.Referrers() {
								if u, ok := rr.(*ssa.UnOp); ok && u.Op == token.MUL {
									add(u)
								}
							}
							continue
						}
						if isRef(v.Type()) {
							bad = x
						}
					case *ssa.MapUpdate:
						if x.Value == v && isRef(v.Type()) {
							bad = x
						}
					}
				}
			}
			W := recvNamedOfFn(fn)
			name := "FromRaw"
			if W != nil {
				name = "FromRaw of " + W.Obj().Pkg().Name() + "." + W.Obj().Name()
			}
			c.Check(bad == nil, name+" copies its argument", p.Pos(fn.Pos()), "no slice/map taken from the argument is stored", fmt.Sprintf("a slice or map taken from the raw argument is stored as is at %s: the pdata value aliases the caller's data and every other value filled from it – a later in-place change of one shows up in the others", posOf(p, bad)))
		}
	}
}
