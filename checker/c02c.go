package main

import (
	"fmt"
	"go/types"

	"golang.org/x/tools/go/ssa"
)

// errNotSwallowed: on every path from `call` (which returns an error as its last result) to a return of fn,
// the returned error is the call's error, another non-constant error, or nil only where the call's error is
// known to be nil. Returns the offending return (nil if fine) and a description.
func errNotSwallowed(fn *ssa.Function, call ssa.CallInstruction) (*ssa.Return, string) {
	errIdx := fn.Signature.Results().Len() - 1
	if errIdx < 0 || !isErrorType(fn.Signature.Results().At(errIdx).Type()) {
		return nil, ""
	}
	for _, r := range returnsOf(fn) {
		if !canReach(call.(ssa.Instruction), r, nil) {
			continue
		}
		res := resultsOf(r)
		if len(res) <= errIdx {
			continue
		}
		if why := nilOnlyWhenNil(res[errIdx], r.Block(), call, map[ssa.Value]bool{}); why != "" {
			return r, why
		}
	}
	return nil, ""
}

func nilOnlyWhenNil(v ssa.Value, at *ssa.BasicBlock, call ssa.CallInstruction, seen map[ssa.Value]bool) string {
	if seen[v] {
		return ""
	}
	seen[v] = true
	switch x := v.(type) {
	case *ssa.Const:
		if x.Value == nil {
			if errGuardOn(at, call, true) {
				return ""
			}
			return "returns a constant nil error on a path where the callee's error is not known to be nil"
		}
	case *ssa.Phi:
		for i, e := range x.Edges {
			if why := nilOnlyWhenNil(e, x.Block().Preds[i], call, seen); why != "" {
				return why
			}
		}
	}
	return ""
}

// runC02Chain: R9 error transparency of the Offer chain, R10 the consumers do not live on the Start context.
func runC02Chain(c *Ctx, funcs []*ssa.Function) {
	p := c.P
	c.Rule("R9", "PROV", "every layer of the queue stack that forwards Offer (observability wrapper, async wrapper, queue-batch Send) returns the inner Offer's error: nil is returned only where the inner error is known to be nil – a refused request is never reported as accepted", 3)
	for _, fn := range funcs {
		if fn.Parent() != nil {
			continue
		}
		for i, ci := range calls(fn, func(ci ssa.CallInstruction) bool {
			cm := ci.Common()
			name := ""
			if cm.IsInvoke() {
				name = cm.Method.Name()
			} else if f := calleeOf(ci); f != nil && f.Type().(*types.Signature).Recv() != nil {
				name = f.Name()
			}
			if name != "Offer" {
				return false
			}
			sig := cm.Signature()
			return sig.Results().Len() == 1 && isErrorType(sig.Results().At(0).Type()) && sig.Params().Len() == 2
		}) {
			if _, isDefer := ci.(*ssa.Defer); isDefer {
				continue
			}
			if _, isGo := ci.(*ssa.Go); isGo {
				continue
			}
			bad, why := errNotSwallowed(fn, ci)
			c.Check(bad == nil, fmt.Sprintf("Offer forwarded in %s #%d keeps the inner error", fnName(fn), i+1), p.Pos(ci.Pos()), "every return after the call yields the inner error (or nil under err == nil)",
				why+fmt.Sprintf(" (return at %s): the queue refused the request but the caller is told it was accepted, so it is neither retried nor reported as dropped", posOf(p, bad)))
		}
	}

	c.Rule("R10", "GO", "goroutines started by a queue's Start do not capture Start's context (it is cancelled soon after start-up): the consumers' blocking Read and the consume function run on their own contexts", 1)
	for _, fn := range funcs {
		if fn.Parent() != nil || fn.Name() != "Start" || fn.Signature.Recv() == nil || len(fn.Params) < 2 {
			continue
		}
		ctxParam := fn.Params[1]
		if !typeIs(ctxParam.Type(), "context", "Context") {
			continue
		}
		n := 0
		for _, f := range withAnon(fn) {
			allInstrs(f, func(in ssa.Instruction) {
				g, ok := in.(*ssa.Go)
				if !ok {
					return
				}
				n++
				captured := false
				var vals []ssa.Value
				vals = append(vals, g.Call.Args...)
				if mc, ok := g.Call.Value.(*ssa.MakeClosure); ok {
					vals = append(vals, mc.Bindings...)
				}
				for _, v := range vals {
					for s := range backSlice(v) {
						if s == ssa.Value(ctxParam) {
							captured = true
						}
						// a binding that is the address of the spilled ctx parameter
						if al, ok := s.(*ssa.Alloc); ok {
							if st := singleStore(al); st != nil && st.Val == ssa.Value(ctxParam) {
								captured = true
							}
						}
					}
				}
				c.Check(!captured, fmt.Sprintf("goroutine #%d started by %s does not capture the Start context", n, fnName(fn)), p.Pos(g.Pos()), "no binding or argument derives from Start's ctx",
					"the goroutine captures the context passed to Start; component.Start documents that this context is cancelled once start-up is over, so a storage client that honours it makes every later Read fail and accepted requests are never handed to a consumer")
			})
		}
	}
}
