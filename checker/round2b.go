package main

import (
	"fmt"
	"go/token"
	"go/types"
	"strings"

	"golang.org/x/tools/go/ssa"
)

// selectCaseBlocks: entry blocks of the body of case i of a select (blocks on the true side of `index == i`).
func selectCaseBlocks(fn *ssa.Function, sel *ssa.Select, i int) []*ssa.BasicBlock {
	var region []*ssa.BasicBlock
	allInstrs(fn, func(in ssa.Instruction) {
		iff, ok := in.(*ssa.If)
		if !ok {
			return
		}
		bo, ok := iff.Cond.(*ssa.BinOp)
		if !ok || bo.Op != token.EQL {
			return
		}
		ex, isEx := bo.X.(*ssa.Extract)
		k, isC := constInt(bo.Y)
		if isEx && isC && ex.Tuple == ssa.Value(sel) && ex.Index == 0 && int(k) == i {
			region = append(region, iff.Block().Succs[0])
		}
	})
	return region
}

// ---------- C20.R7: the shutdown that follows context cancellation runs on a live context ----------

func runC20CtxDone(c *Ctx) {
	p := c.P
	c.Rule("R7", "PROV", "when Run stops because its context was cancelled, the shutdown it performs does not receive that (already cancelled) context: the first shutdown call reachable from the ctx.Done case gets a context that does not derive from Run's parameter", 1)
	m := p.LookupMethod("otelcol", "Collector", "Run")
	if m == nil {
		c.Anchor("otelcol.Collector.Run")
		return
	}
	fn := p.SSAFunc(m)
	if fn == nil || len(fn.Params) < 2 {
		c.Anchor("SSA of Collector.Run")
		return
	}
	ctxParam := fn.Params[1]
	shutdowns := calls(fn, func(ci ssa.CallInstruction) bool {
		f := calleeOf(ci)
		return f != nil && recvNamed(f) != nil && recvNamed(f).Obj().Name() == "Collector" && strings.EqualFold(f.Name(), "shutdown") && len(ci.Common().Args) == 2
	})
	n := 0
	allInstrs(fn, func(in ssa.Instruction) {
		sel, ok := in.(*ssa.Select)
		if !ok {
			return
		}
		for i, stt := range sel.States {
			isDone := false
			for v := range backSlice(stt.Chan) {
				if cc, ok := v.(*ssa.Call); ok && cc.Call.IsInvoke() && cc.Call.Method.Name() == "Done" {
					for w := range backSlice(cc.Call.Value) {
						if w == ssa.Value(ctxParam) {
							isDone = true
						}
					}
				}
			}
			if !isDone {
				continue
			}
			for _, rb := range selectCaseBlocks(fn, sel, i) {
				n++
				// first shutdown calls reachable from the case body
				avoid := map[ssa.Instruction]bool{}
				for _, s := range shutdowns {
					avoid[s.(ssa.Instruction)] = true
				}
				found := false
				for _, s := range shutdowns {
					si := s.(ssa.Instruction)
					delete(avoid, si)
					reach := len(rb.Instrs) > 0 && (rb.Instrs[0] == si || canReach(rb.Instrs[0], si, avoid))
					avoid[si] = true
					if !reach {
						continue
					}
					found = true
					derives := false
					for w := range backSlice(s.Common().Args[1]) {
						if w == ssa.Value(ctxParam) {
							derives = true
						}
					}
					c.Check(!derives, "shutdown after context cancellation uses a live context", p.Pos(s.Pos()), "context does not derive from Run's parameter", "the shutdown reached from the ctx.Done case is given Run's own context, which is already cancelled: context-aware components and providers abort their shutdown, Run returns an error and the collector does not end in an orderly Closed state")
				}
				if !found {
					c.Bad("ctx.Done case of Run reaches a shutdown", p.Pos(sel.Pos()), "no shutdown call is reachable from the context-cancellation case")
				}
			}
		}
	})
	if n == 0 {
		c.Undecided("ctx.Done case in Collector.Run", p.Pos(fn.Pos()), "no select case on the context's Done channel found")
	}
}

// ---------- C06.R10: the fan-out constructors unwrap a single consumer only if it does not mutate ----------

func runC06SingleConsumer(c *Ctx) {
	p := c.P
	c.Rule("R10", "GATE", "a fan-out constructor returns its single consumer unwrapped only on the !Capabilities().MutatesData side: a lone mutating consumer keeps the wrapper that clones read-only input", 4)
	pk := p.ByPath[modPrefix+"/internal/fanoutconsumer"]
	if pk == nil {
		c.Anchor("internal/fanoutconsumer")
		return
	}
	n := 0
	for _, fn := range p.AllSrcFuncs(pk) {
		if fn.Parent() != nil || fn.Signature.Recv() != nil || !strings.HasPrefix(fn.Name(), "New") || len(fn.Params) != 1 {
			continue
		}
		if _, isSlice := fn.Params[0].Type().Underlying().(*types.Slice); !isSlice {
			continue
		}
		for _, r := range returnsOf(fn) {
			res := resultsOf(r)
			if len(res) != 1 {
				continue
			}
			// returned value is an element of the parameter
			u, ok := strip(res[0]).(*ssa.UnOp)
			if !ok || u.Op != token.MUL {
				continue
			}
			ia, ok := u.X.(*ssa.IndexAddr)
			if !ok || strip(ia.X) != ssa.Value(fn.Params[0]) {
				continue
			}
			n++
			guarded := false
			for _, g := range guardsOf(r.Block()) {
				v, br := boolOf(g)
				if v == nil || br {
					continue
				}
				// v is a load/extract of the MutatesData field of a Capabilities() result
				for w := range backSlice(v) {
					if cc, ok := w.(*ssa.Call); ok && cc.Call.IsInvoke() && cc.Call.Method.Name() == "Capabilities" {
						guarded = true
					}
				}
			}
			c.Check(guarded, "unwrapped single consumer in "+fnName(fn)+" is non-mutating", p.Pos(r.Pos()), "returned under !Capabilities().MutatesData", "the single consumer is returned without the fan-out wrapper although it may mutate: read-only input (shared receiver output) is no longer cloned for it – the processor panics on, or corrupts, shared data")
		}
	}
	if n == 0 {
		c.Undecided("single-consumer shortcuts in the fan-out constructors", "-", "none found")
	}
}

// ---------- C09.R9: routers resolve every requested pipeline ----------

func runC09Routers(c *Ctx) {
	p := c.P
	c.Rule("R9", "PROV", "a connector router's Consumer(ids…) builds what it returns from a lookup of every requested pipeline id in its consumer table (unknown ids are errors): it never returns a pre-built consumer without resolving the ids", 2)
	n := 0
	for _, rel := range []string{"connector", "connector/xconnector", "connector/internal"} {
		pk := p.Pkg(rel)
		if pk == nil {
			continue
		}
		for _, fn := range p.AllSrcFuncs(pk) {
			if fn.Parent() != nil || fn.Name() != "Consumer" || fn.Signature.Recv() == nil || !fn.Signature.Variadic() || fn.Signature.Results().Len() != 2 {
				continue
			}
			ids := fn.Params[len(fn.Params)-1]
			for _, r := range returnsOf(fn) {
				res := resultsOf(r)
				if len(res) != 2 || isNilConst(res[0]) {
					continue
				}
				if k, ok := res[0].(*ssa.Const); ok && k.Value == nil {
					continue
				}
				n++
				resolved := false
				for v := range backSlice(res[0]) {
					lk, ok := v.(*ssa.Lookup)
					if !ok {
						continue
					}
					if _, isMap := lk.X.Type().Underlying().(*types.Map); !isMap {
						continue
					}
					for w := range backSlice(lk.Index) {
						if w == ssa.Value(ids) {
							resolved = true
						}
					}
				}
				c.Check(resolved, fmt.Sprintf("%s returns a consumer built from the resolved ids", fnName(fn)), p.Pos(r.Pos()), "result derives from table[id] for the requested ids", "a non-nil consumer is returned that does not derive from looking the requested ids up: data is delivered to pipelines the connector did not select, and an unknown or duplicate id is accepted instead of rejected")
			}
		}
	}
	if n == 0 {
		c.Undecided("router Consumer methods", "-", "none found")
	}
}

// ---------- C13.R8 (shared as C12.R6 and C14.R6): component configs are decoded from a sub-Conf ----------
//
// A Conf remembers, for every value that came out of a provider, the original text next to the parsed value; that
// is what lets `${env:X}` = "0123" land unchanged in a string (or opaque) field. The memory lives in the Conf,
// not in maps decoded from it. The per-component decoding must therefore run on conf.Sub(id) of the loaded Conf –
// never on a Conf rebuilt with NewFromStringMap from an already decoded map.
func runConfSubProvenance(c *Ctx, ruleID string) {
	p := c.P
	c.Rule(ruleID, "PROV", "the per-component configuration is decoded from a sub-Conf (Sub) of the loaded Conf, which keeps the original text of provider-supplied values – never from a Conf rebuilt out of an already decoded map", 1)
	pk := p.Pkg("otelcol/internal/configunmarshaler")
	if pk == nil {
		c.Anchor("otelcol/internal/configunmarshaler")
		return
	}
	isConfPtr := func(t types.Type) bool {
		pt, ok := t.(*types.Pointer)
		return ok && typeIs(pt.Elem(), modPrefix+"/confmap", "Conf")
	}
	n := 0
	for _, fn := range p.AllSrcFuncs(pk) {
		if fn.Parent() != nil {
			continue
		}
		var confParam *ssa.Parameter
		for _, prm := range fn.Params {
			if isConfPtr(prm.Type()) {
				confParam = prm
			}
		}
		if confParam == nil {
			continue
		}
		for _, ci := range calls(fn, func(ci ssa.CallInstruction) bool {
			f := calleeOf(ci)
			return f != nil && f.Name() == "Unmarshal" && recvNamed(f) != nil && recvNamed(f).Obj().Name() == "Conf" && len(ci.Common().Args) >= 2
		}) {
			recv := strip(ci.Common().Args[0])
			if recv == ssa.Value(confParam) {
				continue // decoding of the id → raw map table from the whole Conf
			}
			n++
			okSub := false
			if ex, ok := recv.(*ssa.Extract); ok && ex.Index == 0 {
				if call, ok := ex.Tuple.(*ssa.Call); ok {
					if f := calleeOf(call); f != nil && f.Name() == "Sub" && recvNamed(f) != nil && recvNamed(f).Obj().Name() == "Conf" && strip(call.Call.Args[0]) == ssa.Value(confParam) {
						okSub = true
					}
				}
			}
			// … looked up under the key as it is written, not under a re-rendering of the decoded id
			if okSub {
				ex := recv.(*ssa.Extract)
				subCall := ex.Tuple.(*ssa.Call)
				key := strip(subCall.Call.Args[1])
				rendered := false
				if kc, ok := key.(*ssa.Call); ok {
					if f := calleeOf(kc); f != nil && f.Name() == "String" && recvNamed(f) != nil && recvNamed(f).Obj().Name() == "ID" {
						rendered = true
					}
				}
				c.Check(!rendered, "component configuration in "+fnName(fn)+" is looked up under the written key", p.Pos(subCall.Pos()), "key comes from the Conf's own keys", "the settings are looked up under id.String(), the normalised rendering of the decoded id: a key that is written differently (e.g. \"debug/ a\", which decodes to debug/a) is accepted, but everything written under it is silently dropped – unknown keys are not rejected and written settings are not reflected")
			}
			c.Check(okSub, "component configuration in "+fnName(fn)+" is decoded from conf.Sub(id)", p.Pos(ci.Pos()), "receiver is conf.Sub(…) of the function's Conf", "the component configuration is decoded from a Conf that is not a Sub of the loaded one (e.g. rebuilt from the decoded raw map): the original text of provider-supplied values is lost, so `${env:X}` holding 0123, true or 0xCAFE no longer fits a string or opaque field – decoding fails and prints the value, or stores something else than was written")
		}
	}
	if n == 0 {
		c.Undecided("per-component Unmarshal in configunmarshaler", "-", "no decoding call on a derived Conf found")
	}
}

// ---------- C13.R9: omitempty only where the default is the zero value ----------
//
// Conf.Marshal drops a field tagged `omitempty` when it holds the zero value. If the field's default is non-zero,
// an explicitly written zero disappears from the effective configuration that is handed to extensions, and
// re-loading that configuration yields the default instead of what was written.
// omitEmptyExempt: fields whose zero value cannot reach the marshaller, confirmed by reading the code and by a
// probe (one symbol, one reason each).
var omitEmptyExempt = map[string]string{
	"receiver/otlpreceiver.HTTPConfig.TracesURLPath":  "Config.Unmarshal rewrites an empty path to \"/\" (sanitizeURLPath) before the configuration is marshalled, so a written empty value is still reflected",
	"receiver/otlpreceiver.HTTPConfig.MetricsURLPath": "same as TracesURLPath",
	"receiver/otlpreceiver.HTTPConfig.LogsURLPath":    "same as TracesURLPath",
}

func runC13OmitEmpty(c *Ctx) {
	p := c.P
	c.Rule("R9", "TAB", "a configuration field tagged `omitempty` is never given a non-zero value by a default-configuration constructor (function whose name contains Default): otherwise an explicitly written zero is dropped from the marshalled effective configuration and comes back as the default", 8)
	n := 0
	for _, pk := range p.Pkgs {
		if !strings.HasPrefix(pk.PkgPath, modPrefix) || strings.Contains(pk.PkgPath, "/cmd/") || strings.Contains(pk.PkgPath, "/internal/tools") {
			continue
		}
		for _, fn := range p.AllSrcFuncs(pk) {
			if !strings.Contains(strings.ToLower(rootFn(fn).Name()), "default") {
				continue
			}
			allInstrs(fn, func(in ssa.Instruction) {
				st, ok := in.(*ssa.Store)
				if !ok {
					return
				}
				fa, ok := st.Addr.(*ssa.FieldAddr)
				if !ok {
					return
				}
				sT := derefStruct(fa.X.Type())
				if sT == nil {
					return
				}
				tag := sT.Tag(fa.Field)
				if !strings.Contains(tag, "mapstructure:") {
					return
				}
				ms := tag[strings.Index(tag, "mapstructure:\"")+len("mapstructure:\""):]
				if i := strings.Index(ms, "\""); i >= 0 {
					ms = ms[:i]
				}
				parts := strings.Split(ms, ",")
				omit := false
				for _, q := range parts[1:] {
					if q == "omitempty" {
						omit = true
					}
				}
				if !omit {
					return
				}
				// only stores into a value this function builds (literal / fresh variable)
				if _, isAlloc := strip(fa.X).(*ssa.Alloc); !isAlloc {
					if _, isAlloc2 := fa.X.(*ssa.Alloc); !isAlloc2 {
						return
					}
				}
				k, isConst := st.Val.(*ssa.Const)
				if !isConst {
					// a scalar default computed from something else (e.g. copied from http.DefaultTransport) is not
					// provably zero; structs, maps, slices and pointers (nested constructors) are not decided here
					if b, ok := st.Val.Type().Underlying().(*types.Basic); ok && b.Info()&(types.IsNumeric|types.IsString|types.IsBoolean) != 0 {
						n++
						owner := "?"
						if nn := namedOf(fa.X.Type()); nn != nil {
							owner = relPkg(nn.Obj().Pkg().Path()) + "." + nn.Obj().Name()
						}
						c.Bad(fmt.Sprintf("default of omitempty field %s.%s (key %q) set in %s is the zero value", owner, sT.Field(fa.Field).Name(), parts[0], fnName(rootFn(fn))), p.Pos(st.Pos()), "the field is tagged omitempty but its default is a computed, not provably zero, value: an explicitly written zero is dropped from the marshalled effective configuration and comes back as the default")
					}
					return
				}
				n++
				owner := "?"
				if nn := namedOf(fa.X.Type()); nn != nil {
					owner = relPkg(nn.Obj().Pkg().Path()) + "." + nn.Obj().Name()
				}
				if why, ok := omitEmptyExempt[owner+"."+sT.Field(fa.Field).Name()]; ok {
					c.OK(fmt.Sprintf("default of omitempty field %s.%s (key %q) set in %s is the zero value", owner, sT.Field(fa.Field).Name(), parts[0], fnName(rootFn(fn))), p.Pos(st.Pos()), "exempt: "+why)
					return
				}
				c.Check(isZeroValue(k), fmt.Sprintf("default of omitempty field %s.%s (key %q) set in %s is the zero value", owner, sT.Field(fa.Field).Name(), parts[0], fnName(rootFn(fn))), p.Pos(st.Pos()), "zero", fmt.Sprintf("the field is tagged omitempty but its default is %s: a configuration that explicitly writes the zero value loses the key when the effective configuration is marshalled, and a reload yields the default instead", k.String()))
			})
		}
	}
	if n == 0 {
		c.Undecided("constant defaults of omitempty fields", "-", "none found")
	}
}

// ---------- C13.R10: every ConfigWatcher gets its own copy of the effective configuration ----------
func runC13NotifyClone(c *Ctx) {
	p := c.P
	c.Rule("R10", "PROV", "each ConfigWatcher extension is notified with a Conf that was built for that one call (created inside the same loop iteration): what one extension does to the configuration it received cannot change what another extension sees", 1)
	m := p.LookupMethod("service/extensions", "Extensions", "NotifyConfig")
	if m == nil {
		c.Anchor("service/extensions.Extensions.NotifyConfig")
		return
	}
	fn := p.SSAFunc(m)
	n := 0
	for _, ci := range calls(fn, func(ci ssa.CallInstruction) bool {
		return ci.Common().IsInvoke() && ci.Common().Method.Name() == "NotifyConfig"
	}) {
		n++
		args := ci.Common().Args
		arg := strip(args[len(args)-1])
		hdr, body := innermostLoop(ci.Block())
		// a value produced by a call (confmap.New*, or a local cloning helper) that is evaluated in this iteration
		def, isCall := arg.(*ssa.Call)
		fresh := isCall
		inIter := hdr == nil || (isCall && body[def.Block()])
		c.Check(fresh && inIter, "ConfigWatcher.NotifyConfig receives a per-call copy", p.Pos(ci.Pos()), "confmap.New*(…) evaluated in the same iteration", "the Conf handed to the watcher is not created for this call (shared between iterations, or the collector's own Conf): an extension that modifies what it received changes the effective configuration seen by the extensions notified after it")
	}
	if n == 0 {
		c.Undecided("ConfigWatcher notification", p.Pos(fn.Pos()), "no NotifyConfig invocation found")
	}
}

// ---------- C14.R7: reflective renderers never read a named string type's raw content ----------
//
// reflect.Value.String() and Kind()==String match every type whose underlying type is string – including
// configopaque.String – and return the raw content without going through the type's rendering methods. The
// reflective walkers that render configuration values into messages (validation paths) must take the raw text only
// from an exact `.(string)` assertion and must try fmt.Stringer before any generic formatting.
func runC14Reflect(c *Ctx) {
	p := c.P
	c.Rule("R7", "TAINT", "the reflective validator renders map keys and values only through an exact .(string) assertion, fmt.Stringer or fmt formatting of Interface(): it never calls reflect.Value.String()/Bytes() (which return the raw content of any string-kinded type, opaque ones included), and every fmt formatting of a reflected value is on the not-a-Stringer side", 2)
	pk := p.Pkg("confmap/xconfmap")
	if pk == nil {
		c.Anchor("confmap/xconfmap")
		return
	}
	n := 0
	for _, fn := range p.AllSrcFuncs(pk) {
		hasReflectParam := false
		for _, prm := range rootFn(fn).Params {
			if typeIs(prm.Type(), "reflect", "Value") {
				hasReflectParam = true
			}
		}
		if !hasReflectParam {
			continue
		}
		raw := calls(fn, func(ci ssa.CallInstruction) bool {
			f := calleeOf(ci)
			return f != nil && recvNamed(f) != nil && recvNamed(f).Obj().Pkg() != nil && recvNamed(f).Obj().Pkg().Path() == "reflect" && recvNamed(f).Obj().Name() == "Value" && (f.Name() == "String" || f.Name() == "Bytes")
		})
		n++
		pos := p.Pos(fn.Pos())
		if len(raw) > 0 {
			pos = p.Pos(raw[0].Pos())
		}
		c.Check(len(raw) == 0, fnName(fn)+" does not read raw string content through reflect", pos, "no reflect.Value.String/Bytes", "reflect.Value.String()/Bytes() returns the raw content of every string-kinded value, including configopaque.String: a secret used as a map key (or value) appears in clear in validation error paths")
		// formatting with %v / Sprint of Interface() only after the Stringer test failed
		for _, ci := range calls(fn, func(ci ssa.CallInstruction) bool {
			f := calleeOf(ci)
			return f != nil && f.Pkg() != nil && f.Pkg().Path() == "fmt" && strings.HasPrefix(f.Name(), "Sprint")
		}) {
			usesIface := false
			for _, a := range ci.Common().Args {
				els, _ := variadicElems(a)
				for _, e := range append(els, a) {
					for v := range backSlice(e) {
						if cc, ok := v.(*ssa.Call); ok && calleeOf(cc) != nil && calleeOf(cc).Name() == "Interface" {
							usesIface = true
						}
					}
				}
			}
			if !usesIface {
				continue
			}
			// %T-only formats are harmless
			if fs, ok := constString(ci.Common().Args[0]); ok && !strings.Contains(strings.ReplaceAll(fs, "%T", ""), "%") {
				continue
			}
			guarded := false
			for _, g := range guardsOf(ci.Block()) {
				v, br := boolOf(g)
				if ex, ok := v.(*ssa.Extract); ok && !br && ex.Index == 1 {
					if ta, ok := ex.Tuple.(*ssa.TypeAssert); ok && ta.CommaOk {
						if nn := namedOf(ta.AssertedType); nn != nil && nn.Obj().Name() == "Stringer" {
							guarded = true
						}
					}
				}
			}
			c.Check(guarded, "value formatting in "+fnName(fn)+" happens only when the value is not a Stringer", p.Pos(ci.Pos()), "on the failed side of the fmt.Stringer assertion", "a reflected value is formatted generically without first trying its String method")
		}
	}
	if n == 0 {
		c.Undecided("reflective renderers in xconfmap", "-", "none found")
	}
}

// ---------- C16.R6–R8 ----------
func runC16More(c *Ctx) {
	p := c.P
	runC16Lazy(c)
	runC16Enabled(c)
	runC16Round4(c)
	runC16CopyLoop(c)
	pk := p.Pkg("config/confighttp")
	if pk == nil {
		c.Anchor("config/confighttp")
		return
	}
	// R6: defaults only replace an absent list
	c.Rule("R6", "TAB", "the server substitutes the default compression algorithms only for an absent (nil) list: the substitution is guarded by a nil comparison of the configured list, not by its length – an explicitly empty list keeps every encoding disabled", 1)
	n := 0
	for _, fn := range p.AllSrcFuncs(pk) {
		allInstrs(fn, func(in ssa.Instruction) {
			st, ok := in.(*ssa.Store)
			if !ok {
				return
			}
			_, path := fieldChain(st.Addr)
			if len(path) == 0 || path[len(path)-1] != "CompressionAlgorithms" {
				return
			}
			// value is a package-level default
			isDefault := false
			for v := range backSlice(st.Val) {
				if g, ok := v.(*ssa.Global); ok && strings.Contains(strings.ToLower(g.Name()), "default") {
					isDefault = true
				}
			}
			if !isDefault {
				return
			}
			n++
			okNil, lenTest := false, false
			for _, g := range guardsOf(st.Block()) {
				if op, x, y, ok := cmpOf(g); ok {
					if op == token.EQL && (isNilConst(x) || isNilConst(y)) {
						okNil = true
					}
					for _, o := range []ssa.Value{x, y} {
						if call, ok := o.(*ssa.Call); ok && builtinName(call) == "len" {
							lenTest = true
						}
					}
				}
			}
			c.Check(okNil && !lenTest, "default compression algorithms replace only a nil list in "+fnName(fn), p.Pos(st.Pos()), "guard: list == nil", "the defaults are substituted under a length test: `compression_algorithms: []` (all encodings disabled) silently enables every default algorithm, so a request with a not-enabled Content-Encoding reaches the handler instead of being rejected with 400")
		})
	}
	if n == 0 {
		c.Undecided("default compression algorithm substitution", "-", "not found")
	}

	// R7: the outgoing compressed request is a new request over the compressed buffer
	c.Rule("R7", "PROV", "the client's compressing round tripper forwards a request created over the compressed buffer (http.NewRequest*), so that body, ContentLength and GetBody all describe the compressed bytes; a clone of the caller's request is accepted only if its GetBody is replaced", 1)
	n = 0
	for _, fn := range p.AllSrcFuncs(pk) {
		if fn.Parent() != nil || fn.Name() != "RoundTrip" || fn.Signature.Recv() == nil || len(fn.Params) != 2 {
			continue
		}
		// only the compressing one: references a compression type / compressor field
		T := recvNamedOfFn(fn)
		if T == nil || !strings.Contains(strings.ToLower(T.Obj().Name()), "compress") {
			continue
		}
		for _, ci := range calls(fn, func(ci ssa.CallInstruction) bool {
			return ci.Common().IsInvoke() && ci.Common().Method.Name() == "RoundTrip"
		}) {
			arg := ci.Common().Args[0]
			if strip(arg) == ssa.Value(fn.Params[1]) {
				continue // uncompressed pass-through of the caller's request
			}
			n++
			fromNew, fromClone, setsGetBody := false, false, false
			for v := range backSlice(arg) {
				if cc, ok := v.(*ssa.Call); ok {
					if f := calleeOf(cc); f != nil {
						if f.Pkg() != nil && f.Pkg().Path() == "net/http" && strings.HasPrefix(f.Name(), "NewRequest") {
							fromNew = true
						}
						if f.Name() == "Clone" && recvNamed(f) != nil && recvNamed(f).Obj().Name() == "Request" {
							fromClone = true
						}
					}
				}
			}
			allInstrs(fn, func(in ssa.Instruction) {
				if st, ok := in.(*ssa.Store); ok {
					if _, path := fieldChain(st.Addr); len(path) > 0 && path[len(path)-1] == "GetBody" {
						setsGetBody = true
					}
				}
			})
			c.Check(fromNew || (fromClone && setsGetBody), "compressed request forwarded by "+fnName(fn)+" is built over the compressed buffer", p.Pos(ci.Pos()), "http.NewRequest*(…, compressed buffer)", "the forwarded request is a clone of the caller's request with only Body/ContentLength swapped: it keeps the caller's GetBody, which yields the uncompressed body – when the transport replays the request (dropped keep-alive connection) uncompressed bytes are sent under a compressed Content-Encoding")
		}
	}
	if n == 0 {
		c.Undecided("compressing round tripper", "-", "no forwarded compressed request found")
	}

	// R8: the zstd decoder accepts every window its paired encoder can advertise
	c.Rule("R8", "BOUND", "the server's zstd decoder is not limited to a window smaller than the largest one the client-side encoder can advertise (8 MiB for the higher levels): no WithDecoderMaxWindow below 8 MiB", 1)
	bad := false
	nz := 0
	for _, fn := range p.AllSrcFuncs(pk) {
		for _, ci := range calls(fn, func(ci ssa.CallInstruction) bool {
			f := calleeOf(ci)
			return f != nil && f.Pkg() != nil && strings.HasSuffix(f.Pkg().Path(), "klauspost/compress/zstd")
		}) {
			f := calleeOf(ci)
			if f.Name() == "NewReader" {
				nz++
			}
			if f.Name() == "WithDecoderMaxWindow" {
				k, ok := constInt(ci.Common().Args[0])
				if !ok || k < 8<<20 {
					bad = true
					c.Bad("zstd decoder window covers the encoder's in "+fnName(fn), p.Pos(ci.Pos()), fmt.Sprintf("WithDecoderMaxWindow(%d) is below the 8 MiB window the encoder advertises for levels ≥ 3: larger bodies compressed at those levels fail to decode (`window size exceeded`)", k))
				}
			}
		}
	}
	if nz == 0 {
		c.Undecided("zstd decoder construction", "-", "no zstd.NewReader call found in confighttp")
	} else if !bad {
		c.OK("zstd decoder window covers the encoder's", "-", fmt.Sprintf("%d decoder constructions, none with a window limit below 8 MiB", nz))
	}
}

// ---------- C17.R6: client metadata hands out copies ----------
func runC17Metadata(c *Ctx) {
	p := c.P
	c.Rule("R6", "OWN", "client.Metadata never hands out its stored value slices: Get returns a freshly allocated copy, so a downstream consumer that edits what it got cannot change the metadata a shard keeps exporting with", 1)
	m := p.LookupMethod("client", "Metadata", "Get")
	if m == nil {
		c.Anchor("client.Metadata.Get")
		return
	}
	fn := p.SSAFunc(m)
	n := 0
	for _, r := range returnsOf(fn) {
		res := resultsOf(r)
		if len(res) != 1 || isNilConst(res[0]) {
			continue
		}
		n++
		leaks := false
		var walk func(v ssa.Value, seen map[ssa.Value]bool)
		walk = func(v ssa.Value, seen map[ssa.Value]bool) {
			if seen[v] {
				return
			}
			seen[v] = true
			switch x := v.(type) {
			case *ssa.Lookup:
				leaks = true
			case *ssa.Extract:
				walk(x.Tuple, seen)
			case *ssa.Phi:
				for _, e := range x.Edges {
					walk(e, seen)
				}
			case *ssa.Slice:
				walk(x.X, seen)
			case *ssa.ChangeType:
				walk(x.X, seen)
			case *ssa.UnOp:
				if al, ok := x.X.(*ssa.Alloc); ok {
					for _, rr := range *al.Referrers() {
						if st, ok := rr.(*ssa.Store); ok && st.Addr == ssa.Value(al) {
							walk(st.Val, seen)
						}
					}
				}
			}
		}
		walk(res[0], map[ssa.Value]bool{})
		c.Check(!leaks, "Metadata.Get returns a copy", p.Pos(r.Pos()), "result is a fresh slice (make+copy / Clone)", "Get returns the slice stored in the metadata map itself: a consumer that modifies the returned values (e.g. scrubs a token) changes the metadata of every later batch of that group, because the batch processor builds a shard's export context once and reuses it")
	}
	if n == 0 {
		c.Undecided("non-nil returns of Metadata.Get", p.Pos(fn.Pos()), "none found")
	}
}

// ---------- C18.R6–R8 ----------
func runC18More(c *Ctx) {
	p := c.P
	runErrForward(c, "R10", "while not refusing, the processor helper returns the next consumer's result: in every consume closure built by processorhelper/xprocessorhelper the error returned after the downstream Consume call derives from that call", 4,
		[]string{"processor/processorhelper", "processor/processorhelper/xprocessorhelper"}, isConsumeInvoke)
	runC18Defaults(c)
	// R6: limits are widened before they are scaled
	c.Rule("R6", "BOUND", "the configured MiB limits are converted to 64 bits before they are multiplied into bytes: no widening conversion in the memory limiter is applied to the result of a multiplication/shift/addition carried out in a narrower integer type (which wraps at 4 GiB)", 2)
	mlpk := p.Pkg("internal/memorylimiter")
	if mlpk == nil {
		c.Anchor("internal/memorylimiter")
		return
	}
	nConv := 0
	for _, fn := range p.AllSrcFuncs(mlpk) {
		allInstrs(fn, func(in ssa.Instruction) {
			cv, ok := in.(*ssa.Convert)
			if !ok {
				return
			}
			to, ok1 := cv.Type().Underlying().(*types.Basic)
			from, ok2 := cv.X.Type().Underlying().(*types.Basic)
			if !ok1 || !ok2 || to.Info()&types.IsInteger == 0 || from.Info()&types.IsInteger == 0 {
				return
			}
			size := func(b *types.Basic) int64 { return types.SizesFor("gc", "amd64").Sizeof(b) }
			if size(to) <= size(from) {
				return
			}
			nConv++
			bo, isArith := cv.X.(*ssa.BinOp)
			narrowArith := isArith && (bo.Op == token.MUL || bo.Op == token.SHL || bo.Op == token.ADD)
			c.Check(!narrowArith, fmt.Sprintf("widening conversion #%d in %s is applied to an operand, not to a narrow result", nConv, fnName(fn)), p.Pos(cv.Pos()), "operand widened first", fmt.Sprintf("the %s result of an arithmetic operation is widened to %s afterwards: the operation itself wraps (a limit_mib or spike_limit_mib of 4096 or more yields a wrong, possibly zero or underflowing, threshold, so the limiter refuses far too early or never)", from.Name(), to.Name()))
		})
	}
	if nConv == 0 {
		c.Undecided("widening conversions in the memory limiter", "-", "none found")
	}

	// R7: every signal's processor is a user of the shared limiter
	c.Rule("R7", "COV", "every create function of the memory limiter processor factory that builds a processor from the shared limiter registers the limiter's start and shutdown with it (all signals agree): each processor counts as a user, so the checker runs from the first user's start until the last user's shutdown", 4)
	fpk := p.Pkg("processor/memorylimiterprocessor")
	if fpk == nil {
		c.Anchor("processor/memorylimiterprocessor")
		return
	}
	nCreate := 0
	for _, fn := range p.AllSrcFuncs(fpk) {
		if fn.Parent() != nil {
			continue
		}
		// functions that pass a bound method of the limiter wrapper as the processing function
		usesProcess := false
		var startOK, stopOK bool
		allInstrs(fn, func(in ssa.Instruction) {
			mc, ok := in.(*ssa.MakeClosure)
			if !ok {
				return
			}
			f, ok := mc.Fn.(*ssa.Function)
			if !ok || !strings.HasSuffix(f.Name(), "$bound") {
				return
			}
			name := strings.TrimSuffix(f.Name(), "$bound")
			switch {
			case strings.HasPrefix(name, "process"):
				usesProcess = true
			case name == "start":
				startOK = flowsToCallNamed(mc, "WithStart")
			case name == "shutdown":
				stopOK = flowsToCallNamed(mc, "WithShutdown")
			}
		})
		if !usesProcess {
			continue
		}
		nCreate++
		c.Check(startOK && stopOK, fnName(fn)+" registers the limiter's start and shutdown", p.Pos(fn.Pos()), "WithStart(limiter.start), WithShutdown(limiter.shutdown)", fmt.Sprintf("WithStart=%v WithShutdown=%v: this signal's processor is not counted as a user of the shared limiter – used alone the checker never starts (nothing is ever refused), used with others the checker stops while this processor is still running", startOK, stopOK))
	}
	if nCreate == 0 {
		c.Undecided("memory limiter processor create functions", "-", "none found")
	}

	// R8: a single checker
	c.Rule("R8", "WHO", "the limit check (measure → decide → store, possibly forcing a GC) is executed only by the one checker goroutine: its only non-test call site is inside the goroutine started under the first-user guard, so no two checks interleave", 1)
	var check *ssa.Function
	if m := p.LookupMethod("internal/memorylimiter", "MemoryLimiter", "CheckMemLimits"); m != nil {
		check = p.SSAFunc(m)
	}
	if check == nil {
		c.Anchor("MemoryLimiter.CheckMemLimits")
		return
	}
	nSites := 0
	for _, pk := range p.Pkgs {
		if !strings.HasPrefix(pk.PkgPath, modPrefix) {
			continue
		}
		for _, fn := range p.AllSrcFuncs(pk) {
			for _, ci := range calls(fn, func(ci ssa.CallInstruction) bool { return staticCalleeFn(ci) == check }) {
				nSites++
				// inside the body of the checker goroutine – an anonymous function or a method that runs only as a goroutine whose
				// go statement is guarded by counter == 1 – or in a helper that only such a body calls (robust_A8.go)
				okSite := confinedToGuardedGoroutine(p, fn, func(gd Guard) bool {
					if op, x, y, ok := cmpOf(gd); ok && op == token.EQL {
						if k, ok := constInt(y); ok && k == 1 {
							if _, path := fieldChain(x); len(path) > 0 {
								return true
							}
						}
					}
					return false
				}, 3)
				if !okSite && fn.Parent() == nil {
					// a synchronous check made by the first user before the checker goroutine exists is equally exclusive:
					// guarded by counter == 1 and executed before the go statement
					first := false
					for _, gd := range guardsOf(ci.Block()) {
						if op, x, y, ok := cmpOf(gd); ok && op == token.EQL {
							if k, ok := constInt(y); ok && k == 1 {
								if _, path := fieldChain(x); len(path) > 0 {
									first = true
								}
							}
						}
					}
					before := false
					allInstrs(fn, func(in2 ssa.Instruction) {
						if g, ok := in2.(*ssa.Go); ok {
							if canReach(ci.(ssa.Instruction), g, nil) && !canReach(g, ci.(ssa.Instruction), nil) {
								before = true
							}
						}
					})
					okSite = first && before
				}
				c.Check(okSite, "limit check called from the single checker goroutine in "+fnName(fn), p.Pos(ci.Pos()), "inside the goroutine started by the first user", "the check is also run outside the checker goroutine: two checks can interleave, a stale measurement overwrites a newer decision and two forced GCs can fall inside one minimum interval")
			}
		}
	}
	if nSites == 0 {
		c.Bad("limit check has a caller", "-", "nothing calls the limit check")
	}
}

// fnReferrers: instructions that reference an anonymous function (its MakeClosure's referrers, or direct uses).
func fnReferrers(fn *ssa.Function) *[]ssa.Instruction {
	var out []ssa.Instruction
	if fn.Parent() == nil {
		return &out
	}
	allInstrs(fn.Parent(), func(in ssa.Instruction) {
		switch x := in.(type) {
		case *ssa.MakeClosure:
			if x.Fn == ssa.Value(fn) {
				out = append(out, *x.Referrers()...)
			}
		case *ssa.Go:
			if x.Call.Value == ssa.Value(fn) {
				out = append(out, x)
			}
		}
	})
	return &out
}

// flowsToCallNamed: v (possibly through type changes / conversions) is an argument of a call of a function of that name.
func flowsToCallNamed(v ssa.Value, name string) bool {
	seen := map[ssa.Value]bool{}
	work := []ssa.Value{v}
	for len(work) > 0 {
		x := work[len(work)-1]
		work = work[:len(work)-1]
		if seen[x] || x.Referrers() == nil {
			continue
		}
		seen[x] = true
		for _, r := range *x.Referrers() {
			switch y := r.(type) {
			case *ssa.Call:
				if f := calleeOf(y); f != nil && f.Name() == name {
					return true
				}
			case *ssa.ChangeType:
				work = append(work, y)
			case *ssa.Convert:
				work = append(work, y)
			case *ssa.MakeInterface:
				work = append(work, y)
			case *ssa.Phi:
				work = append(work, y)
			}
		}
	}
	return false
}

// ---------- C19.R6: counters classify errors through the chain ----------
func runC19ErrAs(c *Ctx) {
	p := c.P
	c.Rule("R6", "TAB", "the self-telemetry wrappers never classify an error by asserting its dynamic type (type switch / .(T) on an error value): partial-success and similar verdicts that decide what is counted are taken with errors.As, which also finds a wrapped error", 4)
	n, bad := 0, 0
	for _, rel := range []string{"scraper/scraperhelper", "receiver/receiverhelper", "processor/processorhelper", "processor/processorhelper/xprocessorhelper", "exporter/exporterhelper/internal", "exporter/exporterhelper/internal/queuebatch"} {
		pk := p.Pkg(rel)
		if pk == nil {
			continue
		}
		for _, fn := range p.AllSrcFuncs(pk) {
			n++
			allInstrs(fn, func(in ssa.Instruction) {
				ta, ok := in.(*ssa.TypeAssert)
				if !ok || !isErrorType(ta.X.Type()) {
					return
				}
				if _, isIface := ta.AssertedType.Underlying().(*types.Interface); isIface {
					// asserting an optional interface (e.g. interface{ GRPCStatus() }) is a capability test, not a classification… still by hand
				}
				bad++
				c.Bad("error classified through the chain in "+fnName(fn), p.Pos(ta.Pos()), fmt.Sprintf("the error is tested with a direct type assertion to %s: a wrapped error of that kind (fmt.Errorf(\"%%w\"), errors.Join) is not recognised, so the items it describes are booked under the wrong counter or not at all", ta.AssertedType))
			})
		}
	}
	if n == 0 {
		c.Undecided("self-telemetry packages", "-", "none loaded")
	} else if bad == 0 {
		c.OK("no direct type assertion on error values in the self-telemetry wrappers", "-", fmt.Sprintf("%d functions scanned", n))
	}
	for i := 0; i < 4 && i < n; i++ {
		c.Rules[c.cur].Instances++
	}
}

// ---------- C02.R11 (shared as C19.R7): a handed-off done object is not touched again ----------
func runDoneHandOff(c *Ctx, ruleID string) {
	p := c.P
	c.Rule(ruleID, "OWN", "once a completion has sent the outcome on a pooled done object's channel (the waiting producer then owns the object and returns it to the pool), the completion does not read or write the object again: size bookkeeping that needs its fields happens before the hand-off", 1)
	pk := p.ByPath[pkgQB]
	if pk == nil {
		c.Anchor("queuebatch")
		return
	}
	n := 0
	for _, fn := range p.AllSrcFuncs(pk) {
		allInstrs(fn, func(in ssa.Instruction) {
			snd, ok := in.(*ssa.Send)
			if !ok {
				return
			}
			u, ok := snd.Chan.(*ssa.UnOp)
			if !ok || u.Op != token.MUL {
				return
			}
			fa, ok := u.X.(*ssa.FieldAddr)
			if !ok {
				return
			}
			obj := fa.X
			T := namedOf(obj.Type())
			if T == nil || !hasMethod(types.NewPointer(T), "OnDone") {
				return
			}
			n++
			var after ssa.Instruction
			allInstrs(fn, func(in2 ssa.Instruction) {
				if after != nil || in2 == ssa.Instruction(snd) {
					return
				}
				uses := false
				switch x := in2.(type) {
				case *ssa.FieldAddr:
					uses = x.X == obj
				case ssa.CallInstruction:
					for _, a := range x.Common().Args {
						if a == obj || strip(a) == obj {
							uses = true
						}
					}
				}
				if mi, ok := in2.(*ssa.MakeInterface); ok && mi.X == obj {
					uses = true
				}
				if uses && canReach(snd, in2, nil) {
					after = in2
				}
			})
			c.Check(after == nil, "done object is not used after its hand-off in "+fnName(fn), p.Pos(snd.Pos()), "no use of the object is reachable from the send", "the object is used at "+posOf(p, after)+" after its outcome was sent to the waiting producer, who returns it to the pool: the pool may already have handed it to another Offer, so the size that is subtracted belongs to a different request and the reported queue size drifts for good")
		})
	}
	if n == 0 {
		c.Undecided("hand-off sends on done objects", "-", "none found")
	}
}

// shareRule copies the obligations of rules of another property (evaluated on the same program) under a rule of c.
var shareDepth = 0

func shareRule(c *Ctx, prop string, run func(*Ctx), from []string, id, family, text string, floor int) {
	if shareDepth > 0 {
		// evaluated as part of another property's shared rule: the nested result is discarded by the caller, and
		// following the share again could cycle (C10.R7 ↔ C20.R8)
		return
	}
	shareDepth++
	sub := NewCtx(c.P, prop, c.Tier, c.Config)
	run(sub)
	shareDepth--
	c.Rule(id, family, text, floor)
	want := map[string]bool{}
	for _, f := range from {
		want[f] = true
	}
	for _, o := range sub.Obs {
		if want[o.Rule] && !strings.HasPrefix(o.Construct, "floor:") {
			c.add(o.Verdict, o.Construct, o.Pos, o.Detail)
		}
	}
}

// ---------- C10.R8: no component keeps working on its Start context ----------
func runC10StartCtx(c *Ctx) {
	p := c.P
	c.Rule("R8", "GO", "repo-wide: no goroutine started (directly or through a closure) by a Start(ctx, …) method captures that ctx – component.Start documents that the context is cancelled when start-up is over, so work that outlives Start must run on its own context", 10)
	nStart := 0
	bad := 0
	for _, pk := range p.Pkgs {
		if !strings.HasPrefix(pk.PkgPath, modPrefix) {
			continue
		}
		for _, fn := range p.AllSrcFuncs(pk) {
			if fn.Parent() != nil || fn.Name() != "Start" || fn.Signature.Recv() == nil || len(fn.Params) < 2 || !typeIs(fn.Params[1].Type(), "context", "Context") {
				continue
			}
			nStart++
			ctxParam := fn.Params[1]
			for _, f := range withAnon(fn) {
				allInstrs(f, func(in ssa.Instruction) {
					g, ok := in.(*ssa.Go)
					if !ok {
						return
					}
					var vals []ssa.Value
					vals = append(vals, g.Call.Args...)
					if mc, ok := g.Call.Value.(*ssa.MakeClosure); ok {
						vals = append(vals, mc.Bindings...)
					}
					captured := false
					for _, v := range vals {
						for s := range backSlice(v) {
							if s == ssa.Value(ctxParam) {
								captured = true
							}
							if al, ok := s.(*ssa.Alloc); ok {
								if st := singleStore(al); st != nil && st.Val == ssa.Value(ctxParam) {
									captured = true
								}
							}
						}
					}
					if captured {
						bad++
						c.Bad("goroutine started by "+fnName(fn)+" does not capture the Start context", p.Pos(g.Pos()), "the goroutine captures the context passed to Start, which is cancelled once start-up is over: whatever it does with that context afterwards (blocking reads, exports, storage calls) fails or stops")
					}
				})
			}
		}
	}
	if bad == 0 {
		c.OK("no Start method hands its context to a goroutine", "-", fmt.Sprintf("%d Start methods scanned", nStart))
	}
	for i := 0; i < nStart && i < 10; i++ {
		c.Rules[c.cur].Instances++
	}
}

// ---------- C05.R9: no error is classified by a type assertion anywhere in the collector ----------
func runC05NoErrAssert(c *Ctx) {
	p := c.P
	c.Rule("R9", "TAB", "on the export path (exporterhelper and its internals, consumererror, the OTLP exporters) no type assertion or type switch is applied to an error value: every classification that steers retrying or dropping goes through errors.As/errors.Is and therefore also finds wrapped and joined errors", 100)
	nFn, bad := 0, 0
	for _, pk := range p.Pkgs {
		rel := relPkg(pk.PkgPath)
		if !strings.HasPrefix(pk.PkgPath, modPrefix) || !(strings.HasPrefix(rel, "exporter/exporterhelper") || strings.HasPrefix(rel, "consumer/consumererror") || rel == "exporter/otlpexporter" || rel == "exporter/otlphttpexporter") {
			continue
		}
		for _, fn := range p.AllSrcFuncs(pk) {
			nFn++
			allInstrs(fn, func(in ssa.Instruction) {
				ta, ok := in.(*ssa.TypeAssert)
				if !ok || !isErrorType(ta.X.Type()) {
					return
				}
				bad++
				c.Bad("error classified through the chain in "+fnName(fn), p.Pos(ta.Pos()), fmt.Sprintf("direct type assertion of an error to %s: a wrapped or joined error of that kind is not recognised", ta.AssertedType))
			})
		}
	}
	if bad == 0 {
		c.OK("no type assertion on error values in the collector", "-", fmt.Sprintf("%d functions scanned", nFn))
	}
	for i := 0; i < nFn && i < 100; i++ {
		c.Rules[c.cur].Instances++
	}
}

// ---------- C19.R9: an accepted request is never booked as "failed to enqueue" ----------
//
// With wait_for_result the memory queue's Offer returns, after the request was accepted, the outcome of its
// export (received from the done channel) or the caller's context error. The telemetry wrapper books every error of
// Offer under enqueue_failed. Unless the two kinds of error can be told apart, a failed export is counted twice
// (send_failed by the sender, enqueue_failed by the wrapper) and the exporter's sum exceeds what it was given.
func runC19Accepted(c *Ctx) {
	p := c.P
	c.Rule("R9", "PROV+GATE", "errors that a queue's Offer returns for a request it has already accepted (export outcome received from the done channel, context error while waiting) are wrapped in a package-local marker type, and the telemetry wrapper returns on the marker side before it touches the enqueue-failed counter", 2)
	pk := p.ByPath[pkgQB]
	if pk == nil {
		c.Anchor("queuebatch")
		return
	}
	var markers []*types.Named
	nRet := 0
	for _, fn := range p.AllSrcFuncs(pk) {
		if fn.Parent() != nil || fn.Name() != "Offer" || fn.Signature.Recv() == nil {
			continue
		}
		// returns whose value derives from a channel receive (also through select) or ctx.Err() made after the add
		for _, r := range returnsOf(fn) {
			res := resultsOf(r)
			if len(res) != 1 || isNilConst(res[0]) {
				continue
			}
			fromRecv := false
			for v := range backSlice(res[0]) {
				switch x := v.(type) {
				case *ssa.UnOp:
					if x.Op == token.ARROW {
						fromRecv = true
					}
				case *ssa.Select:
					fromRecv = true
				case *ssa.Extract:
					if _, ok := x.Tuple.(*ssa.Select); ok {
						fromRecv = true
					}
				}
			}
			// ctx.Err() in a select case (after waiting)
			selectCase := false
			for _, g := range guardsOf(r.Block()) {
				if op, x, _, ok := cmpOf(g); ok && op == token.EQL {
					if ex, ok := x.(*ssa.Extract); ok {
						if _, ok := ex.Tuple.(*ssa.Select); ok {
							selectCase = true
						}
					}
				}
			}
			if !fromRecv && !selectCase {
				continue
			}
			nRet++
			var marker *types.Named
			if mi, ok := res[0].(*ssa.MakeInterface); ok {
				if n := namedOf(mi.X.Type()); n != nil && n.Obj().Pkg() == pk.Types {
					if _, isStruct := n.Underlying().(*types.Struct); isStruct {
						marker = n
					}
				}
			}
			if marker != nil {
				markers = append(markers, marker)
			}
			c.Check(marker != nil, fmt.Sprintf("post-acceptance error #%d returned by %s is marked", nRet, fnName(fn)), p.Pos(r.Pos()), "wrapped in a package-local marker type", "Offer returns, for a request that the queue has already accepted, a plain error (the export outcome or the caller's context error): the telemetry wrapper books it under enqueue_failed, so a failed export is counted as send_failed and enqueue_failed (7 given → 7 + 7) and a request whose producer gave up waiting is counted as not enqueued although it is sent later")
		}
	}
	if nRet == 0 {
		c.Undecided("post-acceptance returns of Offer", "-", "none found (wait_for_result path not recognised)")
		return
	}
	// the wrapper: the counter increment (in Offer itself or in a helper of the package that Offer calls) is unreachable
	// on the marker side
	for _, fn := range p.AllSrcFuncs(pk) {
		if fn.Parent() != nil || fn.Name() != "Offer" || fn.Signature.Recv() == nil {
			continue
		}
		var adds []ssa.CallInstruction
		addPos := map[ssa.CallInstruction]token.Pos{}
		for _, site := range effectSitesA9(fn, isEnqueueFailedAddA9, 2) {
			adds = append(adds, site.At)
			addPos[site.At] = site.Effect().Pos()
		}
		if len(adds) == 0 {
			continue
		}
		for _, add := range adds {
			okGate := false
			for _, as := range callsNamed(fn, func(f *types.Func) bool { return f.FullName() == "errors.As" }) {
				// target is a marker
				isMarker := false
				if len(as.Common().Args) == 2 {
					for v := range backSlice(as.Common().Args[1]) {
						if al, ok := v.(*ssa.Alloc); ok {
							n := namedOf(al.Type().(*types.Pointer).Elem())
							for _, mk := range markers {
								if n == mk {
									isMarker = true
								}
							}
						}
					}
				}
				if !isMarker {
					continue
				}
				// on the true side of the As test the Add is unreachable
				asv, ok := as.(*ssa.Call)
				if !ok {
					continue
				}
				for _, r := range *asv.Referrers() {
					if iff, ok := r.(*ssa.If); ok {
						t := iff.Block().Succs[0]
						if len(t.Instrs) > 0 && t.Instrs[0] != add.(ssa.Instruction) && !canReach(t.Instrs[0], add.(ssa.Instruction), nil) {
							okGate = true
						}
					}
				}
			}
			c.Check(okGate || len(markers) == 0, "enqueue-failed counter in "+fnName(fn)+" skips post-acceptance errors", p.Pos(addPos[add]), "errors.As(err, &marker) side returns before the counter", "the enqueue-failed counter is incremented for every error of Offer, including the marked post-acceptance ones")
		}
	}
}
