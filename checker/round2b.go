package main

import (
	"fmt"
	"go/token"
	"go/types"
	"strings"

	"golang.org/x/tools/go/ssa"
)

// selectCaseBlocks: entry blocks of the body of case i of a select (blocks on the true side of `index == i`).
func selectCaseBlocks(fn *ssa.Function, sel *ssa.Select, i int) []*ssa.BasicBlock {
	var region []*ssa.BasicBlock
	allInstrs(fn, func(in ssa.Instruction) {
		iff, ok := in.(*ssa.If)
		if !ok {
			return
		}
		bo, ok := iff.Cond.(*ssa.BinOp)
		if !ok || bo.Op != token.EQL {
			return
		}
		ex, isEx := bo.X.(*ssa.Extract)
		k, isC := constInt(bo.Y)
		if isEx && isC && ex.Tuple == ssa.Value(sel) && ex.Index == 0 && int(k) == i {
			region = append(region, iff.Block().Succs[0])
		}
	})
	return region
}

// ---------- C20.R7: the shutdown that follows context cancellation runs on a live context ----------

func runC20CtxDone(c *Ctx) {
	p := c.P
	c.Rule("R7", "PROV", "when Run stops because its context was cancelled, the shutdown it performs does not receive that (already cancelled) context: the first shutdown call reachable from the ctx.Done case gets a context that does not derive from Run's parameter", 1)
	m := p.LookupMethod("otelcol", "Collector", "Run")
	if m == nil {
		c.Anchor("otelcol.Collector.Run")
		return
	}
	fn := p.SSAFunc(m)
	if fn == nil || len(fn.Params) < 2 {
		c.Anchor("SSA of Collector.Run")
		return
	}
	ctxParam := fn.Params[1]
	shutdowns := calls(fn, func(ci ssa.CallInstruction) bool {
		f := calleeOf(ci)
		return f != nil && recvNamed(f) != nil && recvNamed(f).Obj().Name() == "Collector" && strings.EqualFold(f.Name(), "shutdown") && len(ci.Common().Args) == 2
	})
	n := 0
	allInstrs(fn, func(in ssa.Instruction) {
		sel, ok := in.(*ssa.Select)
		if !ok {
			return
		}
		for i, stt := range sel.States {
			isDone := false
			for v := range backSlice(stt.Chan) {
				if cc, ok := v.(*ssa.Call); ok && cc.Call.IsInvoke() && cc.Call.Method.Name() == "Done" {
					for w := range backSlice(cc.Call.Value) {
						if w == ssa.Value(ctxParam) {
							isDone = true
						}
					}
				}
			}
			if !isDone {
				continue
			}
			for _, rb := range selectCaseBlocks(fn, sel, i) {
				n++
				// first shutdown calls reachable from the case body
				avoid := map[ssa.Instruction]bool{}
				for _, s := range shutdowns {
					avoid[s.(ssa.Instruction)] = true
				}
				found := false
				for _, s := range shutdowns {
					si := s.(ssa.Instruction)
					delete(avoid, si)
					reach := len(rb.Instrs) > 0 && (rb.Instrs[0] == si || canReach(rb.Instrs[0], si, avoid))
					avoid[si] = true
					if !reach {
						continue
					}
					found = true
					derives := false
					for w := range backSlice(s.Common().Args[1]) {
						if w == ssa.Value(ctxParam) {
							derives = true
						}
					}
					c.Check(!derives, "shutdown after context cancellation uses a live context", p.Pos(s.Pos()), "context does not derive from Run's parameter", "the shutdown reached from the ctx.Done case is given Run's own context, which is already cancelled: context-aware components and providers abort their shutdown, Run returns an error and the collector does not end in an orderly Closed state")
				}
				if !found {
					c.Bad("ctx.Done case of Run reaches a shutdown", p.Pos(sel.Pos()), "no shutdown call is reachable from the context-cancellation case")
				}
			}
		}
	})
	if n == 0 {
		c.Undecided("ctx.Done case in Collector.Run", p.Pos(fn.Pos()), "no select case on the context's Done channel found")
	}
}

// ---------- C06.R10: the fan-out constructors unwrap a single consumer only if it does not mutate ----------

func runC06SingleConsumer(c *Ctx) {
	p := c.P
	c.Rule("R10", "GATE", "a fan-out constructor returns its single consumer unwrapped only on the !Capabilities().MutatesData side: a lone mutating consumer keeps the wrapper that clones read-only input", 4)
	pk := p.ByPath[modPrefix+"/internal/fanoutconsumer"]
	if pk == nil {
		c.Anchor("internal/fanoutconsumer")
		return
	}
	n := 0
	for _, fn := range p.AllSrcFuncs(pk) {
		if fn.Parent() != nil || fn.Signature.Recv() != nil || !strings.HasPrefix(fn.Name(), "New") || len(fn.Params) != 1 {
			continue
		}
		if _, isSlice := fn.Params[0].Type().Underlying().(*types.Slice); !isSlice {
			continue
		}
		for _, r := range returnsOf(fn) {
			res := resultsOf(r)
			if len(res) != 1 {
				continue
			}
			// returned value is an element of the parameter
			u, ok := strip(res[0]).(*ssa.UnOp)
			if !ok || u.Op != token.MUL {
				continue
			}
			ia, ok := u.X.(*ssa.IndexAddr)
			if !ok || strip(ia.X) != ssa.Value(fn.Params[0]) {
				continue
			}
			n++
			guarded := false
			for _, g := range guardsOf(r.Block()) {
				v, br := boolOf(g)
				if v == nil || br {
					continue
				}
				// v is a load/extract of the MutatesData field of a Capabilities() result
				for w := range backSlice(v) {
					if cc, ok := w.(*ssa.Call); ok && cc.Call.IsInvoke() && cc.Call.Method.Name() == "Capabilities" {
						guarded = true
					}
				}
			}
			c.Check(guarded, "unwrapped single consumer in "+fnName(fn)+" is non-mutating", p.Pos(r.Pos()), "returned under !Capabilities().MutatesData", "the single consumer is returned without the fan-out wrapper although it may mutate: read-only input (shared receiver output) is no longer cloned for it – the processor panics on, or corrupts, shared data")
		}
	}
	if n == 0 {
		c.Undecided("single-consumer shortcuts in the fan-out constructors", "-", "none found")
	}
}

// ---------- C09.R9: routers resolve every requested pipeline ----------

func runC09Routers(c *Ctx) {
	p := c.P
	c.Rule("R9", "PROV", "a connector router's Consumer(ids…) builds what it returns from a lookup of every requested pipeline id in its consumer table (unknown ids are errors): it never returns a pre-built consumer without resolving the ids", 2)
	n := 0
	for _, rel := range []string{"connector", "connector/xconnector", "connector/internal"} {
		pk := p.Pkg(rel)
		if pk == nil {
			continue
		}
		for _, fn := range p.AllSrcFuncs(pk) {
			if fn.Parent() != nil || fn.Name() != "Consumer" || fn.Signature.Recv() == nil || !fn.Signature.Variadic() || fn.Signature.Results().Len() != 2 {
				continue
			}
			ids := fn.Params[len(fn.Params)-1]
			for _, r := range returnsOf(fn) {
				res := resultsOf(r)
				if len(res) != 2 || isNilConst(res[0]) {
					continue
				}
				if k, ok := res[0].(*ssa.Const); ok && k.Value == nil {
					continue
				}
				n++
				resolved := false
				for v := range backSlice(res[0]) {
					lk, ok := v.(*ssa.Lookup)
					if !ok {
						continue
					}
					if _, isMap := lk.X.Type().Underlying().(*types.Map); !isMap {
						continue
					}
					for w := range backSlice(lk.Index) {
						if w == ssa.Value(ids) {
							resolved = true
						}
					}
				}
				c.Check(resolved, fmt.Sprintf("%s returns a consumer built from the resolved ids", fnName(fn)), p.Pos(r.Pos()), "result derives from table[id] for the requested ids", "a non-nil consumer is returned that does not derive from looking the requested ids up: data is delivered to pipelines the connector did not select, and an unknown or duplicate id is accepted instead of rejected")
			}
		}
	}
	if n == 0 {
		c.Undecided("router Consumer methods", "-", "none found")
	}
}
