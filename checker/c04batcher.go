package main

import (
	"fmt"
	"go/token"
	"go/types"
	"sort"
	"strings"

	"golang.org/x/tools/go/packages"
	"golang.org/x/tools/go/ssa"
)

// C04.R6/R7: the exporter batcher's *pending slot* discipline.
//
// The default batcher keeps at most one not-yet-flushed batch in a pointer field (the slot). Conservation of
// telemetry and of completion callbacks has a structural core that is decided here by a small path-sensitive
// abstract interpretation of every method that stores to the slot:
//
//   state = ( slot ∈ {?, nil, non-nil},
//             owed: a batch was taken out of the slot and has not been handed to flush yet,
//             alias: SSA values that denote the batch that is / was in the slot,
//             nilness of *batch values, length interval of every list derived from a MergeSplit result,
//             headPlaced / tailOwed: which dropped list elements have been put into the slot )
//
// Paths are explored separately (no join), branch conditions on `slot == nil`, `saved != nil` and
// `len(list) ⋈ const` refine the state and prune infeasible paths; that is what relates "more than one result"
// to "the pending batch was taken out" in Consume.
//
// Nothing is executed; the domain is finite (lengths are capped), so the exploration terminates.

type batcherAnchors struct {
	pk        *packages.Package
	T         *types.Named // the batcher
	B         *types.Named // the pending batch struct
	slot      string
	slotIdx   int
	mutex     string
	reqField  int
	doneField int
	flushFns  map[*ssa.Function]bool
	refCount  *ssa.Function // newRefCountDone
	reqIface  types.Type
	doneIface types.Type
}

func findBatcher(c *Ctx) *batcherAnchors {
	p := c.P
	pk := p.ByPath[pkgQB]
	if pk == nil {
		c.Anchor("package " + relPkg(pkgQB))
		return nil
	}
	a := &batcherAnchors{pk: pk, flushFns: map[*ssa.Function]bool{}}
	reqT := p.LookupType("exporter/exporterhelper/internal/request", "Request")
	if reqT == nil {
		c.Anchor("request.Request")
		return nil
	}
	a.reqIface = types.Type(reqT)
	scope := pk.Types.Scope()
	for _, nme := range scope.Names() {
		tn, ok := scope.Lookup(nme).(*types.TypeName)
		if !ok {
			continue
		}
		st, ok := tn.Type().Underlying().(*types.Struct)
		if !ok {
			continue
		}
		for i := 0; i < st.NumFields(); i++ {
			pt, ok := st.Field(i).Type().(*types.Pointer)
			if !ok {
				continue
			}
			bn := namedOf(pt.Elem())
			if bn == nil || bn.Obj().Pkg() != pk.Types {
				continue
			}
			bs, ok := bn.Underlying().(*types.Struct)
			if !ok {
				continue
			}
			rq, dn := -1, -1
			for j := 0; j < bs.NumFields(); j++ {
				ft := bs.Field(j).Type()
				if types.Identical(ft, a.reqIface) {
					rq = j
				}
				if hasMethod(ft, "OnDone") {
					dn = j
				}
			}
			if rq < 0 || dn < 0 {
				continue
			}
			mu := ""
			for j := 0; j < st.NumFields(); j++ {
				if typeIs(st.Field(j).Type(), "sync", "Mutex") {
					mu = st.Field(j).Name()
				}
			}
			if mu == "" {
				continue
			}
			a.T, a.B, a.slot, a.slotIdx, a.mutex, a.reqField, a.doneField = tn.Type().(*types.Named), bn, st.Field(i).Name(), i, mu, rq, dn
		}
	}
	if a.T == nil {
		c.Anchor("batcher: struct in " + relPkg(pkgQB) + " with a mutex and a pointer to a pending batch {request.Request, done}")
		return nil
	}
	if d := scope.Lookup("Done"); d != nil {
		a.doneIface = d.Type()
	} else {
		c.Anchor("queuebatch.Done")
		return nil
	}
	// flush functions: methods of T that (also through their closures) call a func-typed field of T with a request
	for _, fn := range p.AllSrcFuncs(pk) {
		if fn.Parent() != nil || recvNamedOfFn(fn) != a.T {
			continue
		}
		for _, f := range withAnon(fn) {
			allInstrs(f, func(in ssa.Instruction) {
				ci, ok := in.(ssa.CallInstruction)
				if !ok || ci.Common().IsInvoke() {
					return
				}
				v := strip(ci.Common().Value)
				if u, ok := v.(*ssa.UnOp); ok && u.Op == token.MUL {
					if fa, ok := u.X.(*ssa.FieldAddr); ok && namedOf(fa.X.Type()) == a.T {
						if _, isSig := fa.Type().(*types.Pointer).Elem().Underlying().(*types.Signature); isSig {
							for _, arg := range ci.Common().Args {
								if types.Identical(arg.Type(), a.reqIface) {
									a.flushFns[fn] = true
								}
							}
						}
					}
				}
			})
		}
	}
	if len(a.flushFns) == 0 {
		c.Anchor("batcher flush method (calls the send function field with a request)")
		return nil
	}
	// the ref-counting Done constructor: package function (Done, integer) -> Done
	for _, fn := range p.AllSrcFuncs(pk) {
		if fn.Parent() != nil || fn.Signature.Recv() != nil || len(fn.Params) != 2 || fn.Signature.Results().Len() != 1 {
			continue
		}
		if types.Identical(fn.Params[0].Type(), a.doneIface) && types.Identical(fn.Signature.Results().At(0).Type(), a.doneIface) {
			if b, ok := fn.Params[1].Type().Underlying().(*types.Basic); ok && b.Info()&types.IsInteger != 0 {
				a.refCount = fn
			}
		}
	}
	if a.refCount == nil {
		c.Anchor("ref-counting Done constructor func(Done, int) Done")
		return nil
	}
	return a
}

func hasMethod(t types.Type, name string) bool {
	ms := types.NewMethodSet(t)
	for i := 0; i < ms.Len(); i++ {
		if ms.At(i).Obj().Name() == name {
			return true
		}
	}
	return false
}

const (
	nUnk int8 = iota
	nNil
	nNon
)

type ival struct{ lo, hi int } // hi < 0: unbounded

const lenCap = 4

func (i ival) dec() ival {
	r := ival{i.lo - 1, i.hi}
	if r.lo < 0 {
		r.lo = 0
	}
	if i.hi > 0 {
		r.hi = i.hi - 1
	}
	return r
}

func (i ival) meet(lo, hi int) (ival, bool) {
	r := i
	if lo > r.lo {
		r.lo = lo
	}
	if hi >= 0 && (r.hi < 0 || hi < r.hi) {
		r.hi = hi
	}
	if r.lo > lenCap {
		r.lo = lenCap
	}
	if r.hi >= 0 && r.lo > r.hi {
		return r, false
	}
	return r, true
}

type bState struct {
	slot       int8
	owed       bool
	owedAt     ssa.Instruction
	alias      map[ssa.Value]bool // values denoting the batch currently in the slot
	saved      map[ssa.Value]bool // values denoting the batch that was taken out of the slot
	nilv       map[ssa.Value]int8
	lens       map[ssa.Value]ival
	headPlaced map[ssa.Value]int8 // 1: req stored, 2: done appended, 3: both
	tailOwed   ssa.Value
	tailAt     ssa.Instruction
}

func (s *bState) clone() *bState {
	n := &bState{slot: s.slot, owed: s.owed, owedAt: s.owedAt, tailOwed: s.tailOwed, tailAt: s.tailAt,
		alias: map[ssa.Value]bool{}, saved: map[ssa.Value]bool{}, nilv: map[ssa.Value]int8{}, lens: map[ssa.Value]ival{}, headPlaced: map[ssa.Value]int8{}}
	for k, v := range s.alias {
		n.alias[k] = v
	}
	for k, v := range s.saved {
		n.saved[k] = v
	}
	for k, v := range s.nilv {
		n.nilv[k] = v
	}
	for k, v := range s.lens {
		n.lens[k] = v
	}
	for k, v := range s.headPlaced {
		n.headPlaced[k] = v
	}
	return n
}

func (s *bState) key() string {
	var parts []string
	parts = append(parts, fmt.Sprintf("s%d o%v t%p", s.slot, s.owed, s.tailOwed))
	for k, v := range s.alias {
		if v {
			parts = append(parts, fmt.Sprintf("a%p", k))
		}
	}
	for k, v := range s.saved {
		if v {
			parts = append(parts, fmt.Sprintf("v%p", k))
		}
	}
	for k, v := range s.nilv {
		parts = append(parts, fmt.Sprintf("n%p=%d", k, v))
	}
	for k, v := range s.lens {
		parts = append(parts, fmt.Sprintf("l%p=%d:%d", k, v.lo, v.hi))
	}
	for k, v := range s.headPlaced {
		parts = append(parts, fmt.Sprintf("h%p=%d", k, v))
	}
	sort.Strings(parts[1:])
	return strings.Join(parts, ",")
}

type batcherEngine struct {
	c       *Ctx
	a       *batcherAnchors
	fn      *ssa.Function
	lenOf   map[ssa.Value]ssa.Value // len(v) call -> v
	lastIdx map[ssa.Value]ssa.Value // len(v)-1 -> v
	doneCur map[ssa.Value]bool
	// results (deduplicated by construct)
	bad      map[string][2]string
	okSites  map[string]string
	visited  map[string]bool
	steps    int
	tailSrcM map[ssa.Value]ssa.Value
}

func (e *batcherEngine) isSlotAddr(v ssa.Value) bool {
	fa, ok := v.(*ssa.FieldAddr)
	return ok && namedOf(fa.X.Type()) == e.a.T && fa.Field == e.a.slotIdx
}

func (e *batcherEngine) isBatchField(v ssa.Value, idx int) (ssa.Value, bool) {
	fa, ok := v.(*ssa.FieldAddr)
	if !ok || namedOf(fa.X.Type()) != e.a.B || fa.Field != idx {
		return nil, false
	}
	return fa.X, true
}

// elemOf: v is a load of &list[idx]; returns the list and "first"/"last"/"" (other index)
func (e *batcherEngine) elemOf(v ssa.Value) (ssa.Value, string, bool) {
	u, ok := v.(*ssa.UnOp)
	if !ok || u.Op != token.MUL {
		return nil, "", false
	}
	ia, ok := u.X.(*ssa.IndexAddr)
	if !ok {
		return nil, "", false
	}
	if k, ok := constInt(ia.Index); ok && k == 0 {
		return ia.X, "first", true
	}
	if l, ok := e.lastIdx[ia.Index]; ok && l == ia.X {
		return ia.X, "last", true
	}
	return ia.X, "", true
}

func (e *batcherEngine) report(ok bool, construct string, at ssa.Instruction, good, bad string) {
	pos := "-"
	if at != nil {
		pos = e.c.P.Pos(at.Pos())
	}
	if ok {
		if _, isBad := e.bad[construct]; !isBad {
			e.okSites[construct] = pos + "\x00" + good
		}
		return
	}
	delete(e.okSites, construct)
	e.bad[construct] = [2]string{pos, bad}
}

// ord: 1-based ordinal of a slot store / re-slice among the function's instructions of that kind, in source order
func (e *batcherEngine) ord(in ssa.Instruction) string {
	var same []ssa.Instruction
	allInstrs(e.fn, func(o ssa.Instruction) {
		switch x := o.(type) {
		case *ssa.Store:
			if _, ok := in.(*ssa.Store); ok && e.isSlotAddr(x.Addr) && !isNilConst(x.Val) {
				same = append(same, o)
			}
		case *ssa.Slice:
			if y, ok := in.(*ssa.Slice); ok && (x.Low == nil) == (y.Low == nil) {
				if sl, ok := x.Type().(*types.Slice); ok && types.Identical(sl.Elem(), e.a.reqIface) {
					same = append(same, o)
				}
			}
		}
	})
	sort.Slice(same, func(i, j int) bool { return same[i].Pos() < same[j].Pos() })
	for i, o := range same {
		if o == in {
			return fmt.Sprintf(" #%d", i+1)
		}
	}
	return ""
}

func (e *batcherEngine) prepare() {
	e.lenOf, e.lastIdx, e.doneCur = map[ssa.Value]ssa.Value{}, map[ssa.Value]ssa.Value{}, map[ssa.Value]bool{}
	allInstrs(e.fn, func(in ssa.Instruction) {
		if call, ok := in.(*ssa.Call); ok && builtinName(call) == "len" {
			e.lenOf[call] = call.Call.Args[0]
		}
	})
	allInstrs(e.fn, func(in ssa.Instruction) {
		if bo, ok := in.(*ssa.BinOp); ok && bo.Op == token.SUB {
			if k, ok := constInt(bo.Y); ok && k == 1 {
				if l, ok := e.lenOf[bo.X]; ok {
					e.lastIdx[bo] = l
				}
			}
		}
	})
}

func (e *batcherEngine) run() {
	e.visited = map[string]bool{}
	init := &bState{alias: map[ssa.Value]bool{}, saved: map[ssa.Value]bool{}, nilv: map[ssa.Value]int8{}, lens: map[ssa.Value]ival{}, headPlaced: map[ssa.Value]int8{}}
	e.walk(e.fn.Blocks[0], nil, init)
}

func (e *batcherEngine) walk(b *ssa.BasicBlock, from *ssa.BasicBlock, s *bState) {
	e.steps++
	if e.steps > 200000 {
		e.report(false, "exploration of "+fnName(e.fn), nil, "", "state space exceeded the bound; undecided")
		return
	}
	// phis
	if from != nil {
		idx := -1
		for i, p := range b.Preds {
			if p == from {
				idx = i
			}
		}
		type upd struct {
			phi *ssa.Phi
			v   ssa.Value
		}
		var ups []upd
		for _, in := range b.Instrs {
			phi, ok := in.(*ssa.Phi)
			if !ok {
				break
			}
			ups = append(ups, upd{phi, phi.Edges[idx]})
		}
		ns := s.clone()
		for _, u := range ups {
			if _, ok := s.lens[u.v]; ok {
				ns.lens[u.phi] = s.lens[u.v]
				if h, ok := s.headPlaced[u.v]; ok {
					ns.headPlaced[u.phi] = h
				} else {
					delete(ns.headPlaced, u.phi)
				}
				if s.tailOwed == u.v {
					ns.tailOwed = u.phi
				}
			} else {
				delete(ns.lens, u.phi)
			}
			if pt, ok := u.phi.Type().(*types.Pointer); ok && namedOf(pt.Elem()) == e.a.B {
				if isNilConst(u.v) {
					ns.nilv[u.phi] = nNil
					ns.alias[u.phi], ns.saved[u.phi] = false, false
				} else {
					ns.nilv[u.phi] = s.nilv[u.v]
					ns.alias[u.phi], ns.saved[u.phi] = s.alias[u.v], s.saved[u.v]
				}
			}
		}
		s = ns
	}
	k := fmt.Sprintf("%d|%s", b.Index, s.key())
	if e.visited[k] {
		return
	}
	e.visited[k] = true
	for _, in := range b.Instrs {
		switch x := in.(type) {
		case *ssa.UnOp:
			if x.Op == token.MUL && e.isSlotAddr(x.X) {
				s.alias[x] = true
				s.nilv[x] = s.slot
			}
		case *ssa.Extract:
			if sl, ok := x.Type().(*types.Slice); ok && types.Identical(sl.Elem(), e.a.reqIface) {
				if call, ok := x.Tuple.(*ssa.Call); ok && call.Call.IsInvoke() && call.Call.Method.Name() == "MergeSplit" {
					s.lens[x] = ival{0, -1}
				}
			}
		case *ssa.Slice:
			l, tracked := s.lens[x.X]
			if !tracked {
				break
			}
			lowOne := false
			if x.Low != nil {
				if kk, ok := constInt(x.Low); ok && kk == 1 {
					lowOne = true
				}
			}
			switch {
			case lowOne && x.High == nil:
				e.report(s.headPlaced[x.X] == 3, "first result of the merged list is put into the pending batch (request and callback) before it is dropped from the list in "+fnName(e.fn), x,
					"slot.req = list[0] and slot.done = append(slot.done, done) precede list[1:]",
					"list[1:] drops the first MergeSplit result on a path where it was not stored into the pending batch together with the incoming request's completion callback: the data (or its callback) is lost")
				s.lens[x] = l.dec()
			case x.Low == nil && x.High != nil && e.lastIdx[x.High] == x.X:
				if s.tailOwed != nil {
					e.report(false, "last result dropped twice in "+fnName(e.fn), x, "", "a second list[:len-1] while the previously dropped element has not been placed")
				}
				s.tailOwed, s.tailAt = x, x
				// the dropped element is list[len-1] of x.X; remember the source list through the new value
				s.lens[x] = l.dec()
				s.headPlaced[x] = s.headPlaced[x.X]
				e.tailSrc()[x] = x.X
			default:
				e.report(false, "unrecognised re-slicing of the MergeSplit result in "+fnName(e.fn), x, "", "re-slice of the result list that is neither list[1:] nor list[:len-1]; undecided")
			}
		case *ssa.Store:
			if e.isSlotAddr(x.Addr) {
				if isNilConst(x.Val) {
					if s.slot != nNil {
						s.owed, s.owedAt = true, x
						// the values that denoted the slot's batch now denote the batch that was taken out
						s.saved = s.alias
					}
					s.alias = map[ssa.Value]bool{}
					s.slot = nNil
				} else {
					e.report(s.slot == nNil, "pending batch overwritten only when the slot is empty in "+fnName(e.fn)+e.ord(x), x,
						"every path reaching the store has the slot nil (tested or just flushed)",
						"a new pending batch is stored while the slot may still hold a batch that was neither flushed nor saved: that batch and its completion callbacks are lost")
					s.slot = nNon
					s.alias = map[ssa.Value]bool{}
					// does the new batch hold the dropped tail element and the current done?
					if al, ok := strip(x.Val).(*ssa.Alloc); ok {
						reqV, doneV := e.fieldInit(al, e.a.reqField), e.fieldInit(al, e.a.doneField)
						if s.tailOwed != nil {
							lst, which, ok := e.elemOf(reqV)
							src := e.tailSrc()[s.tailOwed]
							if ok && which == "last" && lst == src {
								s.tailOwed = nil
							}
						}
						els, ok := variadicElems(doneV)
						good := ok && len(els) > 0
						for _, el := range els {
							if !e.doneCur[strip(el)] {
								good = false
							}
						}
						e.report(good, "new pending batch carries the current request's (ref-counted) completion callback in "+fnName(e.fn)+e.ord(x), x,
							"done list literal holds the done value that is also handed to the flushes",
							"the new pending batch's done list does not consist of the request's current completion callback (the one that is ref-counted when the request is split): the callback fires early, twice or never")
					} else {
						e.report(false, "pending batch construction in "+fnName(e.fn), x, "", "the stored batch is not built at this site; undecided")
					}
				}
				break
			}
			if base, ok := e.isBatchField(x.Addr, e.a.reqField); ok && s.alias[base] {
				if lst, which, ok := e.elemOf(x.Val); ok && which == "first" {
					s.headPlaced[lst] |= 1
				}
			}
			if base, ok := e.isBatchField(x.Addr, e.a.doneField); ok && s.alias[base] {
				// append(load alias.done, doneCur...)
				if call, ok := x.Val.(*ssa.Call); ok && builtinName(call) == "append" {
					firstOK := false
					if u, ok := call.Call.Args[0].(*ssa.UnOp); ok && u.Op == token.MUL {
						if b2, ok := e.isBatchField(u.X, e.a.doneField); ok && s.alias[b2] {
							firstOK = true
						}
					}
					els, ok2 := variadicElems(call.Call.Args[1])
					good := firstOK && ok2 && len(els) > 0
					for _, el := range els {
						if !e.doneCur[strip(el)] {
							good = false
						}
					}
					if good {
						for l := range s.lens {
							s.headPlaced[l] |= 2
						}
					} else {
						e.report(false, "pending batch's callback list is extended, not replaced, in "+fnName(e.fn), x, "", "the store to the pending batch's done list is not append(<its own done list>, <current done>): earlier requests' callbacks are dropped or the new one is missing")
					}
				} else {
					e.report(false, "pending batch's callback list is extended, not replaced, in "+fnName(e.fn), x, "", "the pending batch's done list is overwritten with something that is not an append to itself")
				}
			}
		case *ssa.Call:
			if cf := staticCalleeFn(x); cf != nil && e.a.flushFns[cf] {
				var reqA, doneA ssa.Value
				for _, a := range x.Call.Args {
					if types.Identical(a.Type(), e.a.reqIface) {
						reqA = a
					}
					if types.Identical(a.Type(), e.a.doneIface) {
						doneA = a
					}
				}
				if reqA == nil || doneA == nil {
					break
				}
				if u, ok := reqA.(*ssa.UnOp); ok && u.Op == token.MUL {
					if base, ok := e.isBatchField(u.X, e.a.reqField); ok && s.saved[base] {
						// flush of the saved batch: its own done list must go with it
						dOK := false
						dv := strip(doneA)
						if mi, ok := doneA.(*ssa.MakeInterface); ok {
							dv = mi.X
						}
						if du, ok := dv.(*ssa.UnOp); ok && du.Op == token.MUL {
							if b2, ok := e.isBatchField(du.X, e.a.doneField); ok && b2 == base {
								dOK = true
							}
						}
						e.report(dOK, "the saved batch is flushed with its own callback list in "+fnName(e.fn), x, "flush(saved.req, saved.done)", "the batch taken out of the slot is flushed with a completion callback other than its own accumulated list: callbacks of the merged requests never fire")
						s.owed = false
					}
				}
			}
		case *ssa.Return:
			e.report(!s.owed, "a batch taken out of the slot is handed to flush on every path in "+fnName(e.fn), s.owedAt,
				"every path from the slot being cleared reaches flush(saved…) before returning",
				"the slot is cleared and a path reaches return without flushing the batch that was in it: accepted data is dropped")
			e.report(s.tailOwed == nil, "the last result dropped from the list becomes the pending batch in "+fnName(e.fn), s.tailAt,
				"list[:len-1] is followed by storing a batch built from list[len-1] into the slot",
				"list[:len-1] drops the last MergeSplit result on a path where it is not stored as the new pending batch")
			return
		}
	}
	// branch
	last := b.Instrs[len(b.Instrs)-1]
	iff, ok := last.(*ssa.If)
	if !ok {
		for _, sc := range b.Succs {
			e.walk(sc, b, s.clone())
		}
		return
	}
	for side, sc := range b.Succs {
		ns := s.clone()
		if e.refine(ns, iff.Cond, side == 0) {
			e.walk(sc, b, ns)
		}
	}
}

func (e *batcherEngine) tailSrc() map[ssa.Value]ssa.Value {
	if e.tailSrcM == nil {
		e.tailSrcM = map[ssa.Value]ssa.Value{}
	}
	return e.tailSrcM
}

// fieldInit: the value stored into field idx of a freshly allocated batch
func (e *batcherEngine) fieldInit(al *ssa.Alloc, idx int) ssa.Value {
	var out ssa.Value
	for _, r := range *al.Referrers() {
		if fa, ok := r.(*ssa.FieldAddr); ok && fa.Field == idx {
			for _, rr := range *fa.Referrers() {
				if st, ok := rr.(*ssa.Store); ok && st.Addr == fa {
					out = st.Val
				}
			}
		}
	}
	return out
}

// refine applies the branch condition (taken = true edge); false = infeasible.
func (e *batcherEngine) refine(s *bState, cond ssa.Value, taken bool) bool {
	if u, ok := cond.(*ssa.UnOp); ok && u.Op == token.NOT {
		return e.refine(s, u.X, !taken)
	}
	bo, ok := cond.(*ssa.BinOp)
	if !ok {
		return true
	}
	// nil tests of *batch values
	if bo.Op == token.EQL || bo.Op == token.NEQ {
		var v ssa.Value
		if isNilConst(bo.Y) {
			v = bo.X
		} else if isNilConst(bo.X) {
			v = bo.Y
		}
		if v != nil {
			if pt, ok := v.Type().(*types.Pointer); ok && namedOf(pt.Elem()) == e.a.B {
				isNil := (bo.Op == token.EQL) == taken
				cur, known := s.nilv[v]
				if known && cur != nUnk {
					if (cur == nNil) != isNil {
						return false
					}
					return true
				}
				if isNil {
					s.nilv[v] = nNil
				} else {
					s.nilv[v] = nNon
				}
				if s.alias[v] {
					// v denotes the batch in the slot now
					if isNil {
						s.slot = nNil
					} else {
						s.slot = nNon
					}
				}
				if s.saved[v] && isNil {
					// the slot was empty when it was "taken out": nothing is owed
					s.owed = false
				}
				return true
			}
		}
	}
	// len(list) ⋈ const
	x, y, op := bo.X, bo.Y, bo.Op
	if _, ok := e.lenOf[y]; ok {
		x, y = y, x
		switch op {
		case token.LSS:
			op = token.GTR
		case token.GTR:
			op = token.LSS
		case token.LEQ:
			op = token.GEQ
		case token.GEQ:
			op = token.LEQ
		}
	}
	lst, ok := e.lenOf[x]
	if !ok {
		return true
	}
	kk, ok := constInt(y)
	if !ok {
		return true
	}
	k := int(kk)
	l, tracked := s.lens[lst]
	if !tracked {
		return true
	}
	if !taken {
		switch op {
		case token.LSS:
			op = token.GEQ
		case token.GTR:
			op = token.LEQ
		case token.LEQ:
			op = token.GTR
		case token.GEQ:
			op = token.LSS
		case token.EQL:
			op = token.NEQ
		case token.NEQ:
			op = token.EQL
		}
	}
	var r ival
	feasible := true
	switch op {
	case token.GTR:
		r, feasible = l.meet(k+1, -1)
	case token.GEQ:
		r, feasible = l.meet(k, -1)
	case token.LSS:
		r, feasible = l.meet(0, k-1)
	case token.LEQ:
		r, feasible = l.meet(0, k)
	case token.EQL:
		r, feasible = l.meet(k, k)
	case token.NEQ:
		r = l
		if l.lo == k && l.hi == k {
			feasible = false
		} else if l.lo == k {
			r.lo = k + 1
		} else if l.hi == k {
			r.hi = k - 1
		}
	default:
		return true
	}
	if !feasible {
		return false
	}
	s.lens[lst] = r
	return true
}

func runC04Batcher(c *Ctx) {
	p := c.P
	c.Rule("R6", "TS", "pending-slot discipline of the exporter batcher, decided per path: a new pending batch is stored only when the slot is empty; a batch taken out of the slot is flushed with its own callback list before the function returns; every MergeSplit result dropped from the list (first, last) has been put into the pending batch together with the request's completion callback; the remaining results are all flushed (index loop 0..len) with the current callback; the ref-count equals the number of results and the raw callback is not used once the request has been split", 12)
	c.Rule("R7", "LOCK", "the batcher's pending slot is read and written only with the batcher mutex held", 2)
	a := findBatcher(c)
	if a == nil {
		return
	}
	c.Rule("R6", "", "", 0)
	var slotFns []*ssa.Function
	for _, fn := range p.AllSrcFuncs(a.pk) {
		if fn.Parent() != nil {
			continue
		}
		stores := false
		allInstrs(fn, func(in ssa.Instruction) {
			if st, ok := in.(*ssa.Store); ok {
				if fa, ok := st.Addr.(*ssa.FieldAddr); ok && namedOf(fa.X.Type()) == a.T && fa.Field == a.slotIdx {
					stores = true
				}
			}
		})
		if stores {
			slotFns = append(slotFns, fn)
		}
	}
	if len(slotFns) < 2 {
		c.Undecided("functions that store to the pending slot", "-", fmt.Sprintf("%d found (expected ≥ 2: consume and timed flush)", len(slotFns)))
	}
	for _, fn := range slotFns {
		e := &batcherEngine{c: c, a: a, fn: fn, bad: map[string][2]string{}, okSites: map[string]string{}}
		// the "current" done values: phis merging the raw Done parameter with a ref-counted one, and, where the
		// function never splits (no MergeSplit), nothing
		var rawDone *ssa.Parameter
		for _, prm := range fn.Params {
			if types.Identical(prm.Type(), a.doneIface) {
				rawDone = prm
			}
		}
		e.prepare()
		var rcCalls []*ssa.Call
		allInstrs(fn, func(in ssa.Instruction) {
			if call, ok := in.(*ssa.Call); ok && staticCalleeFn(call) == a.refCount {
				rcCalls = append(rcCalls, call)
			}
		})
		for rci, rc := range rcCalls {
			for _, r := range *rc.Referrers() {
				if phi, ok := r.(*ssa.Phi); ok {
					hasRaw := false
					for _, ed := range phi.Edges {
						if ed == ssa.Value(rawDone) {
							hasRaw = true
						}
					}
					if hasRaw {
						e.doneCur[phi] = true
					}
				}
			}
			// count = number of results of the unsliced MergeSplit result, raw done wrapped
			cnt := strip(rc.Call.Args[1])
			if cv, ok := cnt.(*ssa.Convert); ok {
				cnt = cv.X
			}
			lst, isLen := e.lenOf[cnt]
			_, direct := lst.(*ssa.Extract)
			c.Check(isLen && direct && rc.Call.Args[0] == ssa.Value(rawDone), fmt.Sprintf("ref-count of a split request equals the number of MergeSplit results in %s #%d", fnName(fn), rci+1), p.Pos(rc.Pos()),
				"newRefCountDone(done, len(<MergeSplit result>))", "the ref-counted callback is not created from the raw callback with the length of the complete result list: the original callback fires before all parts are done, or never")
			// guarded by len > 1 (or unconditional)
			// raw done must not be used after the split decision
			var decision *ssa.If
			for _, g := range guardsOf(rc.Block()) {
				if op, x, y, ok := cmpOf(g); ok {
					if l2, isL := e.lenOf[x]; isL && l2 == lst {
						if k, ok := constInt(y); ok && ((op == token.GTR && k == 1) || (op == token.GEQ && k == 2)) {
							decision = g.If
						}
					}
				}
			}
			if decision == nil {
				c.Bad(fmt.Sprintf("ref-counting is applied exactly when the request was split in %s #%d", fnName(fn), rci+1), p.Pos(rc.Pos()), "the ref-counted callback is not created under `len(results) > 1`")
				continue
			}
			okRaw := true
			var where ssa.Instruction
			if rawDone != nil {
				for _, r := range *rawDone.Referrers() {
					if r == ssa.Instruction(rc) {
						continue
					}
					if _, isPhi := r.(*ssa.Phi); isPhi {
						continue
					}
					if decision.Block().Dominates(r.Block()) {
						okRaw = false
						where = r
					}
				}
			}
			pos := p.Pos(rc.Pos())
			if where != nil {
				pos = p.Pos(where.Pos())
			}
			c.Check(okRaw, fmt.Sprintf("the raw callback is not used once the split decision has been taken in %s #%d", fnName(fn), rci+1), pos, "only the merged (possibly ref-counted) callback is used afterwards", "the incoming request's raw completion callback is used after the point where it may have been replaced by the ref-counted one: it fires once per part or too early")
		}
		e.run()
		for _, k := range sortedKeys(e.okSites) {
			v := strings.SplitN(e.okSites[k], "\x00", 2)
			c.OK(k, v[0], v[1])
		}
		for _, k := range sortedKeys(e.bad) {
			c.Bad(k, e.bad[k][0], e.bad[k][1])
		}
		// every final version of a result list is flushed by a complete index loop with the current callback
		lists := map[ssa.Value]bool{}
		allInstrs(fn, func(in ssa.Instruction) {
			if x, ok := in.(*ssa.Extract); ok {
				if sl, ok := x.Type().(*types.Slice); ok && types.Identical(sl.Elem(), a.reqIface) {
					lists[x] = true
				}
			}
		})
		for changed := true; changed; {
			changed = false
			allInstrs(fn, func(in ssa.Instruction) {
				switch x := in.(type) {
				case *ssa.Slice:
					if lists[x.X] && !lists[x] {
						lists[x], changed = true, true
					}
				case *ssa.Phi:
					for _, ed := range x.Edges {
						if lists[ed] && !lists[x] {
							lists[x], changed = true, true
						}
					}
				}
			})
		}
		var finals []ssa.Value
		for l := range lists {
			final := true
			for _, r := range *l.Referrers() {
				switch rr := r.(type) {
				case *ssa.Slice:
					final = false
				case *ssa.Phi:
					_ = rr
					final = false
				}
			}
			if final {
				finals = append(finals, l)
			}
		}
		sort.Slice(finals, func(i, j int) bool { return finals[i].Pos() < finals[j].Pos() })
		for i, l := range finals {
			okLoop, why := false, "no flush loop over this list"
			for _, r := range *l.Referrers() {
				ia, ok := r.(*ssa.IndexAddr)
				if !ok {
					continue
				}
				// induction variable: `for i := 0; i < len(l); i++` (index = phi[0, phi+1], test phi < len)
				// or `for i := range l` (go/ssa: index = phi[-1, index]+1, test index < len)
				var phi *ssa.Phi
				var tested ssa.Value
				start := int64(0)
				if ph, ok := ia.Index.(*ssa.Phi); ok {
					phi, tested = ph, ph
				} else if bo, ok := ia.Index.(*ssa.BinOp); ok && bo.Op == token.ADD {
					if ph, ok := bo.X.(*ssa.Phi); ok {
						if k, ok := constInt(bo.Y); ok && k == 1 {
							phi, tested, start = ph, bo, -1
						}
					}
				}
				if phi == nil || len(phi.Edges) != 2 {
					continue
				}
				zero, inc := false, false
				for _, ed := range phi.Edges {
					if k, ok := constInt(ed); ok && k == start {
						zero = true
					}
					if bo, ok := ed.(*ssa.BinOp); ok && bo.Op == token.ADD && bo.X == ssa.Value(phi) {
						if k, ok := constInt(bo.Y); ok && k == 1 {
							inc = true
						}
					}
				}
				// loop condition <index> < len(l), true side is the body
				condOK := false
				if iff, ok := phi.Block().Instrs[len(phi.Block().Instrs)-1].(*ssa.If); ok {
					if bo, ok := iff.Cond.(*ssa.BinOp); ok && bo.Op == token.LSS && bo.X == tested && e.lenOf[bo.Y] == l && phi.Block().Succs[0] == ia.Block() {
						condOK = true
					}
				}
				// element handed to flush with the current done
				flushed := false
				for _, r2 := range *ia.Referrers() {
					u, ok := r2.(*ssa.UnOp)
					if !ok {
						continue
					}
					for _, r3 := range *u.Referrers() {
						call, ok := r3.(*ssa.Call)
						if !ok || !a.flushFns[staticCalleeFn(call)] {
							continue
						}
						for _, arg := range call.Call.Args {
							if types.Identical(arg.Type(), a.doneIface) && (e.doneCur[strip(arg)] || len(rcCalls) == 0) {
								flushed = true
							}
						}
					}
				}
				if zero && inc && condOK && flushed && loopHasOnlyConditionExit(ia.Block()) {
					okLoop = true
				} else {
					why = fmt.Sprintf("loop shape: starts at 0=%v, step +1=%v, condition i<len(list)=%v, flush(list[i], current done)=%v", zero, inc, condOK, flushed)
				}
			}
			c.Check(okLoop, fmt.Sprintf("remaining results #%d are all flushed in %s", i+1, fnName(fn)), p.Pos(l.Pos()), "for i := 0; i < len(list); i++ { flush(list[i], done) }", "the final version of a MergeSplit result list is not flushed completely with the current callback ("+why+"): results are dropped or their part of the ref-count never completes")
		}
	}
	// R7 lock
	c.Rule("R7", "", "", 0)
	lc := &LockClass{Name: a.T.Obj().Name() + "." + a.mutex, Pkgs: []*packages.Package{a.pk},
		Mutexes:    map[fieldKey]bool{{a.T, a.mutex}: true},
		Guarded:    map[fieldKey]bool{{a.T, a.slot}: true},
		NotGuarded: map[fieldKey]string{{a.T, "timer"}: "created in Start before the flushing goroutine exists; time.Timer is safe for concurrent Reset"},
		Structs:    []*types.Named{a.T},
	}
	reportLock(c, runLock(p, lc), lc)
}
