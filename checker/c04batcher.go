package main

import (
	"fmt"
	"go/token"
	"go/types"
	"sort"
	"strings"

	"golang.org/x/tools/go/packages"
	"golang.org/x/tools/go/ssa"
)

// C04.R6/R7: the exporter batcher's *pending slot* discipline.
//
// The default batcher keeps at most one not-yet-flushed batch in a pointer field (the slot). Conservation of
// telemetry and of completion callbacks has a structural core that is decided here by a small path-sensitive
// abstract interpretation of every method that stores to the slot:
//
//   state = ( slot ∈ {?, nil, non-nil},
//             owed: a batch was taken out of the slot and has not been handed to flush yet,
//             alias: SSA values that denote the batch that is / was in the slot,
//             nilness of *batch values, length interval of every list derived from a MergeSplit result,
//             headPlaced / tailOwed: which dropped list elements have been put into the slot )
//
// Paths are explored separately (no join), branch conditions on `slot == nil`, `saved != nil` and
// `len(list) ⋈ const` refine the state and prune infeasible paths; that is what relates "more than one result"
// to "the pending batch was taken out" in Consume.
//
// Nothing is executed; the domain is finite (lengths are capped), so the exploration terminates.
//
// Helpers. The discipline does not depend on how the code is cut into functions: a static call of a function of the
// package that (transitively) touches the slot or flushes is walked as part of the caller's path (parameters bound to
// the caller's values, the returned value a new name of what the helper returned; depth ≤ 4, no recursion). A function
// that stores to the slot is first decided on its own; if that fails and it is an unexported function whose only uses
// are direct calls from the package (`takeCurrentBatch() *batch`, `keepLastIfSmall(ctx, list, done) list`), its
// obligations are decided in the context of each of its callers instead. List versions are followed through helpers
// that return (a re-slice of) the list they were given, and the flush loop may live in a helper that is handed the list.

type batcherAnchors struct {
	pk        *packages.Package
	T         *types.Named // the batcher
	B         *types.Named // the pending batch struct
	slot      string
	slotIdx   int
	mutex     string
	reqField  int
	doneField int
	flushFns  map[*ssa.Function]bool
	refCount  *ssa.Function // newRefCountDone
	reqIface  types.Type
	doneIface types.Type
}

func findBatcher(c *Ctx) *batcherAnchors {
	p := c.P
	pk := p.ByPath[pkgQB]
	if pk == nil {
		c.Anchor("package " + relPkg(pkgQB))
		return nil
	}
	a := &batcherAnchors{pk: pk, flushFns: map[*ssa.Function]bool{}}
	reqT := p.LookupType("exporter/exporterhelper/internal/request", "Request")
	if reqT == nil {
		c.Anchor("request.Request")
		return nil
	}
	a.reqIface = types.Type(reqT)
	scope := pk.Types.Scope()
	for _, nme := range scope.Names() {
		tn, ok := scope.Lookup(nme).(*types.TypeName)
		if !ok {
			continue
		}
		st, ok := tn.Type().Underlying().(*types.Struct)
		if !ok {
			continue
		}
		for i := 0; i < st.NumFields(); i++ {
			pt, ok := st.Field(i).Type().(*types.Pointer)
			if !ok {
				continue
			}
			bn := namedOf(pt.Elem())
			if bn == nil || bn.Obj().Pkg() != pk.Types {
				continue
			}
			bs, ok := bn.Underlying().(*types.Struct)
			if !ok {
				continue
			}
			rq, dn := -1, -1
			for j := 0; j < bs.NumFields(); j++ {
				ft := bs.Field(j).Type()
				if types.Identical(ft, a.reqIface) {
					rq = j
				}
				if hasMethod(ft, "OnDone") {
					dn = j
				}
			}
			if rq < 0 || dn < 0 {
				continue
			}
			mu := ""
			for j := 0; j < st.NumFields(); j++ {
				if typeIs(st.Field(j).Type(), "sync", "Mutex") {
					mu = st.Field(j).Name()
				}
			}
			if mu == "" {
				continue
			}
			a.T, a.B, a.slot, a.slotIdx, a.mutex, a.reqField, a.doneField = tn.Type().(*types.Named), bn, st.Field(i).Name(), i, mu, rq, dn
		}
	}
	if a.T == nil {
		c.Anchor("batcher: struct in " + relPkg(pkgQB) + " with a mutex and a pointer to a pending batch {request.Request, done}")
		return nil
	}
	if d := scope.Lookup("Done"); d != nil {
		a.doneIface = d.Type()
	} else {
		c.Anchor("queuebatch.Done")
		return nil
	}
	// flush functions: methods of T that (also through their closures) call a func-typed field of T with a request
	for _, fn := range p.AllSrcFuncs(pk) {
		if fn.Parent() != nil || recvNamedOfFn(fn) != a.T {
			continue
		}
		for _, f := range withAnon(fn) {
			allInstrs(f, func(in ssa.Instruction) {
				ci, ok := in.(ssa.CallInstruction)
				if !ok || ci.Common().IsInvoke() {
					return
				}
				v := strip(ci.Common().Value)
				if u, ok := v.(*ssa.UnOp); ok && u.Op == token.MUL {
					if fa, ok := u.X.(*ssa.FieldAddr); ok && namedOf(fa.X.Type()) == a.T {
						if _, isSig := fa.Type().(*types.Pointer).Elem().Underlying().(*types.Signature); isSig {
							for _, arg := range ci.Common().Args {
								if types.Identical(arg.Type(), a.reqIface) {
									a.flushFns[fn] = true
								}
							}
						}
					}
				}
			})
		}
	}
	// … and the methods that pass their own request on to such a method (`flush` starting `go qb.export(ctx, req, done)`)
	for changed := true; changed; {
		changed = false
		for _, fn := range p.AllSrcFuncs(pk) {
			if fn.Parent() != nil || recvNamedOfFn(fn) != a.T || a.flushFns[fn] {
				continue
			}
			var own []ssa.Value
			for _, prm := range fn.Params {
				if types.Identical(prm.Type(), a.reqIface) {
					own = append(own, prm)
				}
			}
			if len(own) == 0 {
				continue
			}
			for _, f := range withAnon(fn) {
				allInstrs(f, func(in ssa.Instruction) {
					ci, ok := in.(ssa.CallInstruction)
					if !ok || !a.flushFns[goBodyFn(ci)] {
						return
					}
					for _, arg := range ci.Common().Args {
						for _, o := range own {
							if strip(arg) == o && !a.flushFns[fn] {
								a.flushFns[fn], changed = true, true
							}
						}
					}
				})
			}
		}
	}
	if len(a.flushFns) == 0 {
		c.Anchor("batcher flush method (calls the send function field with a request)")
		return nil
	}
	// the ref-counting Done constructor: package function (Done, integer) -> Done
	for _, fn := range p.AllSrcFuncs(pk) {
		if fn.Parent() != nil || fn.Signature.Recv() != nil || len(fn.Params) != 2 || fn.Signature.Results().Len() != 1 {
			continue
		}
		if types.Identical(fn.Params[0].Type(), a.doneIface) && types.Identical(fn.Signature.Results().At(0).Type(), a.doneIface) {
			if b, ok := fn.Params[1].Type().Underlying().(*types.Basic); ok && b.Info()&types.IsInteger != 0 {
				a.refCount = fn
			}
		}
	}
	if a.refCount == nil {
		c.Anchor("ref-counting Done constructor func(Done, int) Done")
		return nil
	}
	return a
}

func hasMethod(t types.Type, name string) bool {
	ms := types.NewMethodSet(t)
	for i := 0; i < ms.Len(); i++ {
		if ms.At(i).Obj().Name() == name {
			return true
		}
	}
	return false
}

const (
	nUnk int8 = iota
	nNil
	nNon
)

type ival struct{ lo, hi int } // hi < 0: unbounded

const lenCap = 4

func (i ival) dec() ival {
	r := ival{i.lo - 1, i.hi}
	if r.lo < 0 {
		r.lo = 0
	}
	if i.hi > 0 {
		r.hi = i.hi - 1
	}
	return r
}

func (i ival) meet(lo, hi int) (ival, bool) {
	r := i
	if lo > r.lo {
		r.lo = lo
	}
	if hi >= 0 && (r.hi < 0 || hi < r.hi) {
		r.hi = hi
	}
	if r.lo > lenCap {
		r.lo = lenCap
	}
	if r.hi >= 0 && r.lo > r.hi {
		return r, false
	}
	return r, true
}

type bState struct {
	slot       int8
	owed       bool
	owedAt     ssa.Instruction
	alias      map[ssa.Value]bool // values denoting the batch currently in the slot
	saved      map[ssa.Value]bool // values denoting the batch that was taken out of the slot
	nilv       map[ssa.Value]int8
	lens       map[ssa.Value]ival
	headPlaced map[ssa.Value]int8 // 1: req stored, 2: done appended, 3: both
	tailOwed   ssa.Value
	tailAt     ssa.Instruction
	tailSrc    ssa.Value // the list whose last element the pending drop (tailOwed) removed
	// tailPlaced: the list whose last element already sits in the batch that was stored into the slot, while the
	// list itself has not been shortened yet (store first, list[:len-1] afterwards – the order a helper written with
	// guard clauses uses)
	tailPlaced ssa.Value
	// interprocedural part: parameters of the helpers being walked, bound to the (resolved) caller-side values,
	// and the values returned by a helper with several results
	bind map[ssa.Value]ssa.Value
	rets map[ssa.Value][]ssa.Value
}

func (s *bState) clone() *bState {
	n := &bState{slot: s.slot, owed: s.owed, owedAt: s.owedAt, tailOwed: s.tailOwed, tailAt: s.tailAt, tailSrc: s.tailSrc, tailPlaced: s.tailPlaced,
		alias: map[ssa.Value]bool{}, saved: map[ssa.Value]bool{}, nilv: map[ssa.Value]int8{}, lens: map[ssa.Value]ival{}, headPlaced: map[ssa.Value]int8{},
		bind: map[ssa.Value]ssa.Value{}, rets: map[ssa.Value][]ssa.Value{}}
	for k, v := range s.bind {
		n.bind[k] = v
	}
	for k, v := range s.rets {
		n.rets[k] = v
	}
	for k, v := range s.alias {
		n.alias[k] = v
	}
	for k, v := range s.saved {
		n.saved[k] = v
	}
	for k, v := range s.nilv {
		n.nilv[k] = v
	}
	for k, v := range s.lens {
		n.lens[k] = v
	}
	for k, v := range s.headPlaced {
		n.headPlaced[k] = v
	}
	return n
}

func (s *bState) key() string {
	var parts []string
	parts = append(parts, fmt.Sprintf("s%d o%v t%p/%p/%p", s.slot, s.owed, s.tailOwed, s.tailSrc, s.tailPlaced))
	for k, v := range s.bind {
		parts = append(parts, fmt.Sprintf("b%p=%p", k, v))
	}
	for k, v := range s.rets {
		r := fmt.Sprintf("r%p=", k)
		for _, x := range v {
			r += fmt.Sprintf("%p;", x)
		}
		parts = append(parts, r)
	}
	for k, v := range s.alias {
		if v {
			parts = append(parts, fmt.Sprintf("a%p", k))
		}
	}
	for k, v := range s.saved {
		if v {
			parts = append(parts, fmt.Sprintf("v%p", k))
		}
	}
	for k, v := range s.nilv {
		parts = append(parts, fmt.Sprintf("n%p=%d", k, v))
	}
	for k, v := range s.lens {
		parts = append(parts, fmt.Sprintf("l%p=%d:%d", k, v.lo, v.hi))
	}
	for k, v := range s.headPlaced {
		parts = append(parts, fmt.Sprintf("h%p=%d", k, v))
	}
	sort.Strings(parts[1:])
	return strings.Join(parts, ",")
}

type batcherEngine struct {
	c       *Ctx
	a       *batcherAnchors
	fn      *ssa.Function
	lenOf   map[ssa.Value]ssa.Value // len(v) call -> v
	lastIdx map[ssa.Value]ssa.Value // len(v)-1 -> v
	doneCur map[ssa.Value]bool
	// curPhi: in any function of the package, a phi that merges the function's raw Done parameter with the ref-counted
	// callback made from it (`if len(list) > 1 { done = newRefCountDone(done, …) }`) -> that parameter
	curPhi map[ssa.Value]*ssa.Parameter
	// results (deduplicated by construct)
	bad     map[string][2]string
	okSites map[string]string
	visited map[string]bool
	steps   int
	// interprocedural part: the package's functions, and those of them that (transitively, through static calls)
	// touch the slot or flush – a call of such a function is walked as part of the caller's path
	pkgFns   []*ssa.Function
	relevant map[*ssa.Function]bool
}

// bFrame: one pending call of a helper that is being walked as part of its caller's path.
type bFrame struct {
	call   *ssa.Call
	callee *ssa.Function
	blk    *ssa.BasicBlock
	idx    int // index (in blk) of the instruction that follows the call
	up     *bFrame
	depth  int
	key    string
}

func (f *bFrame) k() string {
	if f == nil {
		return ""
	}
	return f.key
}

const batcherInlineDepth = 4

// res: the caller-side value a helper's parameter stands for on the current path (v itself otherwise).
func (e *batcherEngine) res(s *bState, v ssa.Value) ssa.Value {
	for i := 0; i < 2*batcherInlineDepth; i++ {
		w, ok := s.bind[v]
		if !ok {
			break
		}
		v = w
	}
	return v
}

// rs: res modulo the value-preserving wrappers strip() removes.
func (e *batcherEngine) rs(s *bState, v ssa.Value) ssa.Value {
	if v == nil {
		return nil
	}
	return strip(e.res(s, strip(v)))
}

// isCur: v is the current (possibly ref-counted) completion callback of the request being consumed.
func (e *batcherEngine) isCur(s *bState, v ssa.Value) bool {
	v = e.rs(s, v)
	for i := 0; i < 2*batcherInlineDepth; i++ {
		if e.doneCur[v] {
			return true
		}
		if prm, ok := e.curPhi[v]; ok {
			// current inside a helper if the callback the helper was handed is the current one of its caller
			v = e.rs(s, prm)
			continue
		}
		// the raw callback of the function under analysis, handed on to a helper that takes the split decision itself
		// (that it is not used any more once the function has taken a split decision of its own is a separate obligation)
		prm, ok := v.(*ssa.Parameter)
		return ok && prm.Parent() == e.fn && types.Identical(prm.Type(), e.a.doneIface)
	}
	return false
}

func (e *batcherEngine) isBatchPtr(t types.Type) bool {
	pt, ok := t.(*types.Pointer)
	return ok && namedOf(pt.Elem()) == e.a.B
}

// copyInfo: `to` is a new name of the value `from` (phi edge, value returned by a helper).
func (e *batcherEngine) copyInfo(s *bState, src *bState, from, to ssa.Value) {
	if l, ok := src.lens[from]; ok {
		s.lens[to] = l
		if h, ok := src.headPlaced[from]; ok {
			s.headPlaced[to] = h
		} else {
			delete(s.headPlaced, to)
		}
		if src.tailOwed == from {
			s.tailOwed = to
		}
	} else {
		delete(s.lens, to)
	}
	if e.isBatchPtr(to.Type()) {
		if isNilConst(from) {
			s.nilv[to] = nNil
			s.alias[to], s.saved[to] = false, false
		} else {
			s.nilv[to] = src.nilv[from]
			s.alias[to], s.saved[to] = src.alias[from], src.saved[from]
		}
	}
}

func (e *batcherEngine) isSlotAddr(v ssa.Value) bool {
	fa, ok := v.(*ssa.FieldAddr)
	return ok && namedOf(fa.X.Type()) == e.a.T && fa.Field == e.a.slotIdx
}

func (e *batcherEngine) isBatchField(v ssa.Value, idx int) (ssa.Value, bool) {
	fa, ok := v.(*ssa.FieldAddr)
	if !ok || namedOf(fa.X.Type()) != e.a.B || fa.Field != idx {
		return nil, false
	}
	return fa.X, true
}

// elemOf: v is a load of &list[idx]; returns the (resolved) list and "first"/"last"/"" (other index)
func (e *batcherEngine) elemOf(s *bState, v ssa.Value) (ssa.Value, string, bool) {
	u, ok := e.rs(s, v).(*ssa.UnOp)
	if !ok || u.Op != token.MUL {
		return nil, "", false
	}
	ia, ok := u.X.(*ssa.IndexAddr)
	if !ok {
		return nil, "", false
	}
	lst := e.res(s, ia.X)
	if k, ok := constInt(ia.Index); ok && k == 0 {
		return lst, "first", true
	}
	if l, ok := e.lastIdx[ia.Index]; ok && e.res(s, l) == lst {
		return lst, "last", true
	}
	return lst, "", true
}

func (e *batcherEngine) report(ok bool, construct string, at ssa.Instruction, good, bad string) {
	pos := "-"
	if at != nil {
		pos = e.c.P.Pos(at.Pos())
	}
	if ok {
		if _, isBad := e.bad[construct]; !isBad {
			e.okSites[construct] = pos + "\x00" + good
		}
		return
	}
	delete(e.okSites, construct)
	e.bad[construct] = [2]string{pos, bad}
}

// ord: 1-based ordinal of a slot store / re-slice among the instructions of that kind of the function that contains
// it, in source order
func (e *batcherEngine) ord(in ssa.Instruction) string {
	var same []ssa.Instruction
	allInstrs(in.Parent(), func(o ssa.Instruction) {
		switch x := o.(type) {
		case *ssa.Store:
			if _, ok := in.(*ssa.Store); ok && e.isSlotAddr(x.Addr) && !isNilConst(x.Val) {
				same = append(same, o)
			}
		case *ssa.Slice:
			if y, ok := in.(*ssa.Slice); ok && (x.Low == nil) == (y.Low == nil) {
				if sl, ok := x.Type().(*types.Slice); ok && types.Identical(sl.Elem(), e.a.reqIface) {
					same = append(same, o)
				}
			}
		}
	})
	sort.Slice(same, func(i, j int) bool { return same[i].Pos() < same[j].Pos() })
	for i, o := range same {
		if o == in {
			return fmt.Sprintf(" #%d", i+1)
		}
	}
	return ""
}

// prepare indexes len(v) and len(v)-1 in the function and in every function of the package (helpers are walked too).
func (e *batcherEngine) prepare() {
	e.lenOf, e.lastIdx, e.doneCur = map[ssa.Value]ssa.Value{}, map[ssa.Value]ssa.Value{}, map[ssa.Value]bool{}
	fns := append([]*ssa.Function{e.fn}, e.pkgFns...)
	for _, fn := range fns {
		allInstrs(fn, func(in ssa.Instruction) {
			if call, ok := in.(*ssa.Call); ok && builtinName(call) == "len" {
				e.lenOf[call] = call.Call.Args[0]
			}
		})
	}
	e.curPhi = map[ssa.Value]*ssa.Parameter{}
	for _, fn := range fns {
		if fn == e.fn {
			continue // the function under analysis: doneCur, filled by the caller together with the ref-count obligations
		}
		allInstrs(fn, func(in ssa.Instruction) {
			call, ok := in.(*ssa.Call)
			if !ok || staticCalleeFn(call) != e.a.refCount || len(call.Call.Args) == 0 {
				return
			}
			raw, ok := call.Call.Args[0].(*ssa.Parameter)
			if !ok || call.Referrers() == nil {
				return
			}
			for _, r := range *call.Referrers() {
				if phi, ok := r.(*ssa.Phi); ok {
					for _, ed := range phi.Edges {
						if ed == ssa.Value(raw) {
							e.curPhi[phi] = raw
						}
					}
				}
			}
		})
	}
	for _, fn := range fns {
		allInstrs(fn, func(in ssa.Instruction) {
			if bo, ok := in.(*ssa.BinOp); ok && bo.Op == token.SUB {
				if k, ok := constInt(bo.Y); ok && k == 1 {
					if l, ok := e.lenOf[bo.X]; ok {
						e.lastIdx[bo] = l
					}
				}
			}
		})
	}
}

func (e *batcherEngine) run() {
	e.visited = map[string]bool{}
	init := &bState{alias: map[ssa.Value]bool{}, saved: map[ssa.Value]bool{}, nilv: map[ssa.Value]int8{}, lens: map[ssa.Value]ival{}, headPlaced: map[ssa.Value]int8{},
		bind: map[ssa.Value]ssa.Value{}, rets: map[ssa.Value][]ssa.Value{}}
	e.walk(e.fn.Blocks[0], 0, nil, init, nil)
}

// inlinable: the call is a plain static call of a function of the batcher's package that (transitively) touches the
// slot or flushes, is not already being walked and is not nested too deeply; such a call is walked as part of the path.
func (e *batcherEngine) inlinable(call *ssa.Call, st *bFrame) *ssa.Function {
	if _, isClosure := call.Call.Value.(*ssa.MakeClosure); isClosure {
		return nil
	}
	cf := staticCalleeFn(call)
	if cf == nil || len(cf.Blocks) == 0 || !e.relevant[cf] || e.a.flushFns[cf] || cf == e.a.refCount {
		return nil
	}
	if cf == e.fn {
		e.report(false, "exploration of "+fnName(e.fn), call, "", "recursive function that touches the pending slot; undecided")
		return nil
	}
	if len(cf.Params) != len(call.Call.Args) {
		return nil
	}
	if st != nil && st.depth >= batcherInlineDepth {
		e.report(false, "exploration of "+fnName(e.fn), call, "", "helpers that touch the pending slot are nested deeper than the exploration follows; undecided")
		return nil
	}
	for f := st; f != nil; f = f.up {
		if f.callee == cf {
			e.report(false, "exploration of "+fnName(e.fn), call, "", "recursive helper that touches the pending slot; undecided")
			return nil
		}
	}
	return cf
}

// walk explores the path that continues with instruction number `start` of block b. from: the predecessor block when
// b is entered through a CFG edge (start == 0), nil when the walk (re-)enters the block after a helper returned or
// at a function's entry. st: the helper calls in progress.
func (e *batcherEngine) walk(b *ssa.BasicBlock, start int, from *ssa.BasicBlock, s *bState, st *bFrame) {
	e.steps++
	if e.steps > 200000 {
		e.report(false, "exploration of "+fnName(e.fn), nil, "", "state space exceeded the bound; undecided")
		return
	}
	// phis
	if from != nil && start == 0 {
		idx := -1
		for i, p := range b.Preds {
			if p == from {
				idx = i
			}
		}
		ns := s.clone()
		for _, in := range b.Instrs {
			phi, ok := in.(*ssa.Phi)
			if !ok {
				break
			}
			e.copyInfo(ns, s, e.res(s, phi.Edges[idx]), phi)
		}
		s = ns
	}
	k := fmt.Sprintf("%p|%d|%d|%s|%s", b.Parent(), b.Index, start, st.k(), s.key())
	if e.visited[k] {
		return
	}
	e.visited[k] = true
	for i := start; i < len(b.Instrs); i++ {
		in := b.Instrs[i]
		site := fnName(in.Parent())
		switch x := in.(type) {
		case *ssa.UnOp:
			if x.Op == token.MUL && e.isSlotAddr(x.X) {
				s.alias[x] = true
				s.saved[x] = false
				s.nilv[x] = s.slot
			}
		case *ssa.Extract:
			if rv, ok := s.rets[x.Tuple]; ok && x.Index < len(rv) {
				e.copyInfo(s, s, rv[x.Index], x)
				break
			}
			if sl, ok := x.Type().(*types.Slice); ok && types.Identical(sl.Elem(), e.a.reqIface) {
				if call, ok := x.Tuple.(*ssa.Call); ok && call.Call.IsInvoke() && call.Call.Method.Name() == "MergeSplit" {
					s.lens[x] = ival{0, -1}
				}
			}
		case *ssa.Slice:
			src := e.res(s, x.X)
			l, tracked := s.lens[src]
			if !tracked {
				break
			}
			lowOne := false
			if x.Low != nil {
				if kk, ok := constInt(x.Low); ok && kk == 1 {
					lowOne = true
				}
			}
			switch {
			case lowOne && x.High == nil:
				e.report(s.headPlaced[src] == 3, "first result of the merged list is put into the pending batch (request and callback) before it is dropped from the list in "+site, x,
					"slot.req = list[0] and slot.done = append(slot.done, done) precede list[1:]",
					"list[1:] drops the first MergeSplit result on a path where it was not stored into the pending batch together with the incoming request's completion callback: the data (or its callback) is lost")
				s.lens[x] = l.dec()
				delete(s.headPlaced, x)
			case x.Low == nil && x.High != nil && e.lastIdx[x.High] != nil && e.res(s, e.lastIdx[x.High]) == src:
				if s.tailOwed != nil {
					e.report(false, "last result dropped twice in "+site, x, "", "a second list[:len-1] while the previously dropped element has not been placed")
				}
				s.lens[x] = l.dec()
				s.headPlaced[x] = s.headPlaced[src]
				if s.tailPlaced != nil && s.tailPlaced == src && s.slot == nNon {
					// the dropped element was put into the pending batch just before
					s.tailPlaced = nil
					break
				}
				// the dropped element is list[len-1] of the source list
				s.tailOwed, s.tailAt, s.tailSrc = x, x, src
			default:
				e.report(false, "unrecognised re-slicing of the MergeSplit result in "+site, x, "", "re-slice of the result list that is neither list[1:] nor list[:len-1]; undecided")
			}
		case *ssa.Store:
			if e.isSlotAddr(x.Addr) {
				val := e.rs(s, x.Val)
				if isNilConst(val) {
					if s.slot != nNil {
						s.owed, s.owedAt = true, x
						// the values that denoted the slot's batch now denote the batch that was taken out
						s.saved = s.alias
					}
					s.alias = map[ssa.Value]bool{}
					s.slot = nNil
					s.tailPlaced = nil
				} else {
					e.report(s.slot == nNil, "pending batch overwritten only when the slot is empty in "+site+e.ord(x), x,
						"every path reaching the store has the slot nil (tested or just flushed)",
						"a new pending batch is stored while the slot may still hold a batch that was neither flushed nor saved: that batch and its completion callbacks are lost")
					s.slot = nNon
					s.alias = map[ssa.Value]bool{}
					s.tailPlaced = nil
					// does the new batch hold the dropped tail element and the current done?
					if al, ok := val.(*ssa.Alloc); ok {
						reqV, doneV := e.fieldInit(al, e.a.reqField), e.fieldInit(al, e.a.doneField)
						if lst, which, ok := e.elemOf(s, reqV); ok && which == "last" {
							if s.tailOwed != nil && lst == s.tailSrc {
								s.tailOwed, s.tailSrc = nil, nil
							} else if s.tailOwed == nil {
								if _, tracked := s.lens[lst]; tracked {
									s.tailPlaced = lst
								}
							}
						}
						els, ok := variadicElems(doneV)
						good := ok && len(els) > 0
						for _, el := range els {
							if !e.isCur(s, el) {
								good = false
							}
						}
						e.report(good, "new pending batch carries the current request's (ref-counted) completion callback in "+site+e.ord(x), x,
							"done list literal holds the done value that is also handed to the flushes",
							"the new pending batch's done list does not consist of the request's current completion callback (the one that is ref-counted when the request is split): the callback fires early, twice or never")
					} else {
						e.report(false, "pending batch construction in "+site, x, "", "the stored batch is not built at this site; undecided")
					}
				}
				break
			}
			if base, ok := e.isBatchField(x.Addr, e.a.reqField); ok && s.alias[e.res(s, base)] {
				if lst, which, ok := e.elemOf(s, x.Val); ok && which == "first" {
					s.headPlaced[lst] |= 1
				}
			}
			if base, ok := e.isBatchField(x.Addr, e.a.doneField); ok && s.alias[e.res(s, base)] {
				// append(load alias.done, doneCur...)
				if call, ok := x.Val.(*ssa.Call); ok && builtinName(call) == "append" {
					firstOK := false
					if u, ok := call.Call.Args[0].(*ssa.UnOp); ok && u.Op == token.MUL {
						if b2, ok := e.isBatchField(u.X, e.a.doneField); ok && s.alias[e.res(s, b2)] {
							firstOK = true
						}
					}
					els, ok2 := variadicElems(call.Call.Args[1])
					good := firstOK && ok2 && len(els) > 0
					for _, el := range els {
						if !e.isCur(s, el) {
							good = false
						}
					}
					if good {
						for l := range s.lens {
							s.headPlaced[l] |= 2
						}
					} else {
						e.report(false, "pending batch's callback list is extended, not replaced, in "+site, x, "", "the store to the pending batch's done list is not append(<its own done list>, <current done>): earlier requests' callbacks are dropped or the new one is missing")
					}
				} else {
					e.report(false, "pending batch's callback list is extended, not replaced, in "+site, x, "", "the pending batch's done list is overwritten with something that is not an append to itself")
				}
			}
		case *ssa.Call:
			if cf := staticCalleeFn(x); cf != nil && e.a.flushFns[cf] {
				var reqA, doneA ssa.Value
				for _, a := range x.Call.Args {
					if types.Identical(a.Type(), e.a.reqIface) {
						reqA = a
					}
					if types.Identical(a.Type(), e.a.doneIface) {
						doneA = a
					}
				}
				if reqA == nil || doneA == nil {
					break
				}
				if u, ok := e.res(s, reqA).(*ssa.UnOp); ok && u.Op == token.MUL {
					if base, ok := e.isBatchField(u.X, e.a.reqField); ok && s.saved[e.res(s, base)] {
						// flush of the saved batch: its own done list must go with it
						dOK := false
						dv := e.rs(s, doneA)
						if mi, ok := e.res(s, doneA).(*ssa.MakeInterface); ok {
							dv = mi.X
						}
						if du, ok := dv.(*ssa.UnOp); ok && du.Op == token.MUL {
							if b2, ok := e.isBatchField(du.X, e.a.doneField); ok && e.res(s, b2) == e.res(s, base) {
								dOK = true
							}
						}
						e.report(dOK, "the saved batch is flushed with its own callback list in "+site, x, "flush(saved.req, saved.done)", "the batch taken out of the slot is flushed with a completion callback other than its own accumulated list: callbacks of the merged requests never fire")
						s.owed = false
					}
				}
				break
			}
			if cf := e.inlinable(x, st); cf != nil {
				// a helper that touches the slot or flushes: its body is part of this path
				for pi, prm := range cf.Params {
					s.bind[prm] = e.res(s, x.Call.Args[pi])
				}
				fr := &bFrame{call: x, callee: cf, blk: b, idx: i + 1, up: st, depth: 1}
				if st != nil {
					fr.depth = st.depth + 1
				}
				fr.key = fmt.Sprintf("%s>%p", st.k(), x)
				e.walk(cf.Blocks[0], 0, nil, s, fr)
				return
			}
		case *ssa.Return:
			if st != nil {
				// back in the caller: the call's value is a new name of what the helper returned
				rv := resultsOf(x)
				for ri := range rv {
					rv[ri] = e.res(s, rv[ri])
				}
				if len(rv) == 1 {
					e.copyInfo(s, s, rv[0], st.call)
				} else if len(rv) > 1 {
					s.rets[st.call] = rv
				}
				e.walk(st.blk, st.idx, nil, s, st.up)
				return
			}
			e.report(!s.owed, "a batch taken out of the slot is handed to flush on every path in "+fnName(e.fn), s.owedAt,
				"every path from the slot being cleared reaches flush(saved…) before returning",
				"the slot is cleared and a path reaches return without flushing the batch that was in it: accepted data is dropped")
			e.report(s.tailOwed == nil, "the last result dropped from the list becomes the pending batch in "+fnName(e.fn), s.tailAt,
				"list[:len-1] is followed by storing a batch built from list[len-1] into the slot",
				"list[:len-1] drops the last MergeSplit result on a path where it is not stored as the new pending batch")
			if s.tailPlaced != nil && s.slot == nNon {
				e.report(false, "a result kept as the pending batch is dropped from the list in "+fnName(e.fn), in, "", "the last MergeSplit result was stored as the new pending batch on a path where it is not removed from the list of results to flush: it is sent twice")
			}
			return
		}
	}
	// branch
	last := b.Instrs[len(b.Instrs)-1]
	iff, ok := last.(*ssa.If)
	if !ok {
		for _, sc := range b.Succs {
			e.walk(sc, 0, b, s.clone(), st)
		}
		return
	}
	for side, sc := range b.Succs {
		ns := s.clone()
		if e.refine(ns, iff.Cond, side == 0) {
			e.walk(sc, 0, b, ns, st)
		}
	}
}

// fieldInit: the value stored into field idx of a freshly allocated batch
func (e *batcherEngine) fieldInit(al *ssa.Alloc, idx int) ssa.Value {
	var out ssa.Value
	for _, r := range *al.Referrers() {
		if fa, ok := r.(*ssa.FieldAddr); ok && fa.Field == idx {
			for _, rr := range *fa.Referrers() {
				if st, ok := rr.(*ssa.Store); ok && st.Addr == fa {
					out = st.Val
				}
			}
		}
	}
	return out
}

// refine applies the branch condition (taken = true edge); false = infeasible.
func (e *batcherEngine) refine(s *bState, cond ssa.Value, taken bool) bool {
	if u, ok := cond.(*ssa.UnOp); ok && u.Op == token.NOT {
		return e.refine(s, u.X, !taken)
	}
	bo, ok := cond.(*ssa.BinOp)
	if !ok {
		return true
	}
	// nil tests of *batch values
	if bo.Op == token.EQL || bo.Op == token.NEQ {
		var v ssa.Value
		if isNilConst(bo.Y) {
			v = bo.X
		} else if isNilConst(bo.X) {
			v = bo.Y
		}
		if v != nil {
			if pt, ok := v.Type().(*types.Pointer); ok && namedOf(pt.Elem()) == e.a.B {
				isNil := (bo.Op == token.EQL) == taken
				cur, known := s.nilv[v]
				if known && cur != nUnk {
					if (cur == nNil) != isNil {
						return false
					}
					return true
				}
				if isNil {
					s.nilv[v] = nNil
				} else {
					s.nilv[v] = nNon
				}
				if s.alias[v] {
					// v denotes the batch in the slot now
					if isNil {
						s.slot = nNil
					} else {
						s.slot = nNon
					}
				}
				if s.saved[v] && isNil {
					// the slot was empty when it was "taken out": nothing is owed
					s.owed = false
				}
				return true
			}
		}
	}
	// len(list) ⋈ const
	x, y, op := bo.X, bo.Y, bo.Op
	if _, ok := e.lenOf[y]; ok {
		x, y = y, x
		switch op {
		case token.LSS:
			op = token.GTR
		case token.GTR:
			op = token.LSS
		case token.LEQ:
			op = token.GEQ
		case token.GEQ:
			op = token.LEQ
		}
	}
	shift := 0
	if _, isLast := e.lastIdx[y]; isLast {
		x, y = y, x
		switch op {
		case token.LSS:
			op = token.GTR
		case token.GTR:
			op = token.LSS
		case token.LEQ:
			op = token.GEQ
		case token.GEQ:
			op = token.LEQ
		}
	}
	lst, ok := e.lenOf[x]
	if !ok {
		// `last := len(list) - 1; last ⋈ k` is `len(list) ⋈ k+1`
		if lst, ok = e.lastIdx[x]; !ok {
			return true
		}
		shift = 1
	}
	kk, ok := constInt(y)
	if !ok {
		return true
	}
	k := int(kk) + shift
	lst = e.res(s, lst)
	l, tracked := s.lens[lst]
	if !tracked {
		return true
	}
	if !taken {
		switch op {
		case token.LSS:
			op = token.GEQ
		case token.GTR:
			op = token.LEQ
		case token.LEQ:
			op = token.GTR
		case token.GEQ:
			op = token.LSS
		case token.EQL:
			op = token.NEQ
		case token.NEQ:
			op = token.EQL
		}
	}
	var r ival
	feasible := true
	switch op {
	case token.GTR:
		r, feasible = l.meet(k+1, -1)
	case token.GEQ:
		r, feasible = l.meet(k, -1)
	case token.LSS:
		r, feasible = l.meet(0, k-1)
	case token.LEQ:
		r, feasible = l.meet(0, k)
	case token.EQL:
		r, feasible = l.meet(k, k)
	case token.NEQ:
		r = l
		if l.lo == k && l.hi == k {
			feasible = false
		} else if l.lo == k {
			r.lo = k + 1
		} else if l.hi == k {
			r.hi = k - 1
		}
	default:
		return true
	}
	if !feasible {
		return false
	}
	s.lens[lst] = r
	return true
}

func runC04Batcher(c *Ctx) {
	p := c.P
	c.Rule("R6", "TS", "pending-slot discipline of the exporter batcher, decided per path: a new pending batch is stored only when the slot is empty; a batch taken out of the slot is flushed with its own callback list before the function returns; every MergeSplit result dropped from the list (first, last) has been put into the pending batch together with the request's completion callback; the remaining results are all flushed (index loop 0..len) with the current callback; the ref-count equals the number of results and the raw callback is not used once the request has been split", batcherFloor)
	c.Rule("R7", "LOCK", "the batcher's pending slot is read and written only with the batcher mutex held", 2)
	a := findBatcher(c)
	if a == nil {
		return
	}
	c.Rule("R6", "", "", 0)
	var slotFns []*ssa.Function
	for _, fn := range p.AllSrcFuncs(a.pk) {
		if fn.Parent() != nil {
			continue
		}
		stores := false
		allInstrs(fn, func(in ssa.Instruction) {
			if st, ok := in.(*ssa.Store); ok {
				if fa, ok := st.Addr.(*ssa.FieldAddr); ok && namedOf(fa.X.Type()) == a.T && fa.Field == a.slotIdx {
					stores = true
				}
			}
		})
		if stores {
			slotFns = append(slotFns, fn)
		}
	}
	if len(slotFns) < 1 {
		c.Undecided("functions that store to the pending slot", "-", "none found")
	}
	pkgFns := p.AllSrcFuncs(a.pk)
	relevant := batcherRelevant(a, pkgFns)
	// analyse: the obligations of fn. loc receives those that are decided inside fn whatever its callers do (the
	// ref-count of a split, the flush loops over the lists fn obtains), c those of the path exploration
	analyse := func(c, loc *Ctx, fn *ssa.Function) {
		e := &batcherEngine{c: c, a: a, fn: fn, bad: map[string][2]string{}, okSites: map[string]string{}, pkgFns: pkgFns, relevant: relevant}
		// the "current" done values: phis merging the raw Done parameter with a ref-counted one, and, where the
		// function never splits (no MergeSplit), nothing
		var rawDone *ssa.Parameter
		for _, prm := range fn.Params {
			if types.Identical(prm.Type(), a.doneIface) {
				rawDone = prm
			}
		}
		e.prepare()
		var rcCalls []*ssa.Call
		allInstrs(fn, func(in ssa.Instruction) {
			if call, ok := in.(*ssa.Call); ok && staticCalleeFn(call) == a.refCount {
				rcCalls = append(rcCalls, call)
			}
		})
		for rci, rc := range rcCalls {
			for _, r := range *rc.Referrers() {
				if phi, ok := r.(*ssa.Phi); ok {
					hasRaw := false
					for _, ed := range phi.Edges {
						if ed == ssa.Value(rawDone) {
							hasRaw = true
						}
					}
					if hasRaw {
						e.doneCur[phi] = true
					}
				}
			}
			// count = number of results of the unsliced MergeSplit result, raw done wrapped
			cnt := strip(rc.Call.Args[1])
			if cv, ok := cnt.(*ssa.Convert); ok {
				cnt = cv.X
			}
			lst, isLen := e.lenOf[cnt]
			_, direct := lst.(*ssa.Extract)
			loc.Check(isLen && direct && rc.Call.Args[0] == ssa.Value(rawDone), fmt.Sprintf("ref-count of a split request equals the number of MergeSplit results in %s #%d", fnName(fn), rci+1), p.Pos(rc.Pos()),
				"newRefCountDone(done, len(<MergeSplit result>))", "the ref-counted callback is not created from the raw callback with the length of the complete result list: the original callback fires before all parts are done, or never")
			// guarded by len > 1 (or unconditional)
			// raw done must not be used after the split decision
			var decision *ssa.If
			for _, g := range guardsOf(rc.Block()) {
				if op, x, y, ok := cmpOf(g); ok {
					if l2, isL := e.lenOf[x]; isL && l2 == lst {
						if k, ok := constInt(y); ok && ((op == token.GTR && k == 1) || (op == token.GEQ && k == 2)) {
							decision = g.If
						}
					}
				}
			}
			if decision == nil {
				loc.Bad(fmt.Sprintf("ref-counting is applied exactly when the request was split in %s #%d", fnName(fn), rci+1), p.Pos(rc.Pos()), "the ref-counted callback is not created under `len(results) > 1`")
				continue
			}
			okRaw := true
			var where ssa.Instruction
			if rawDone != nil {
				for _, r := range *rawDone.Referrers() {
					if r == ssa.Instruction(rc) {
						continue
					}
					if _, isPhi := r.(*ssa.Phi); isPhi {
						continue
					}
					if decision.Block().Dominates(r.Block()) {
						okRaw = false
						where = r
					}
				}
			}
			pos := p.Pos(rc.Pos())
			if where != nil {
				pos = p.Pos(where.Pos())
			}
			loc.Check(okRaw, fmt.Sprintf("the raw callback is not used once the split decision has been taken in %s #%d", fnName(fn), rci+1), pos, "only the merged (possibly ref-counted) callback is used afterwards", "the incoming request's raw completion callback is used after the point where it may have been replaced by the ref-counted one: it fires once per part or too early")
		}
		e.run()
		for _, k := range sortedKeys(e.okSites) {
			v := strings.SplitN(e.okSites[k], "\x00", 2)
			c.OK(k, v[0], v[1])
		}
		for _, k := range sortedKeys(e.bad) {
			c.Bad(k, e.bad[k][0], e.bad[k][1])
		}
		// every final version of a result list is flushed by a complete index loop with the current callback
		lists := map[ssa.Value]bool{}
		allInstrs(fn, func(in ssa.Instruction) {
			if x, ok := in.(*ssa.Extract); ok {
				if sl, ok := x.Type().(*types.Slice); ok && types.Identical(sl.Elem(), a.reqIface) {
					lists[x] = true
				}
			}
		})
		// a call that hands a list to a helper of the package which returns (a re-slice of) that list yields the
		// next version of the list: `list = qb.helper(ctx, list, done)`
		nextVersion := func(call *ssa.Call, l ssa.Value) []ssa.Value {
			cf := staticCalleeFn(call)
			if cf == nil || len(cf.Blocks) == 0 || cf.Pkg != rootFn(fn).Pkg || len(cf.Params) != len(call.Call.Args) {
				return nil
			}
			var out []ssa.Value
			for k, arg := range call.Call.Args {
				if arg != l {
					continue
				}
				ri := batcherDerivedResult(a, cf, k)
				if ri < 0 {
					continue
				}
				if cf.Signature.Results().Len() == 1 {
					out = append(out, call)
					continue
				}
				for _, r := range *call.Referrers() {
					if x, ok := r.(*ssa.Extract); ok && x.Index == ri {
						out = append(out, x)
					}
				}
			}
			return out
		}
		for changed := true; changed; {
			changed = false
			allInstrs(fn, func(in ssa.Instruction) {
				switch x := in.(type) {
				case *ssa.Slice:
					if lists[x.X] && !lists[x] {
						lists[x], changed = true, true
					}
				case *ssa.Phi:
					for _, ed := range x.Edges {
						if lists[ed] && !lists[x] {
							lists[x], changed = true, true
						}
					}
				case *ssa.Call:
					for _, arg := range x.Call.Args {
						if !lists[arg] {
							continue
						}
						for _, nv := range nextVersion(x, arg) {
							if !lists[nv] {
								lists[nv], changed = true, true
							}
						}
					}
				}
			})
		}
		var finals []ssa.Value
		for l := range lists {
			final := true
			for _, r := range *l.Referrers() {
				switch rr := r.(type) {
				case *ssa.Slice:
					final = false
				case *ssa.Phi:
					final = false
				case *ssa.Call:
					if len(nextVersion(rr, l)) > 0 {
						final = false
					}
				}
			}
			if final {
				finals = append(finals, l)
			}
		}
		sort.Slice(finals, func(i, j int) bool { return finals[i].Pos() < finals[j].Pos() })
		for i, l := range finals {
			okLoop, why := e.flushLoopOver(l, func(v ssa.Value) bool { return e.doneCur[strip(v)] || len(rcCalls) == 0 }, 0)
			loc.Check(okLoop, fmt.Sprintf("remaining results #%d are all flushed in %s", i+1, fnName(fn)), p.Pos(l.Pos()), "for i := 0; i < len(list); i++ { flush(list[i], done) }", "the final version of a MergeSplit result list is not flushed completely with the current callback ("+why+"): results are dropped or their part of the ref-count never completes")
		}
	}
	// A function is decided on its own where that is possible. A helper that exchanges state with its callers
	// (it is handed the result list, returns the batch it took out of the slot, relies on the caller having tested
	// the slot, …) cannot be: if it is an unexported function that is only ever called directly by functions of the
	// package, its obligations are decided in the context of each caller instead – the caller's walk goes through
	// the helper's body.
	done := map[*ssa.Function]bool{}
	work := append([]*ssa.Function(nil), slotFns...)
	for len(work) > 0 {
		fn := work[0]
		work = work[1:]
		if done[fn] {
			continue
		}
		done[fn] = true
		sub, loc := NewCtx(p, c.Prop, c.Tier, c.Config), NewCtx(p, c.Prop, c.Tier, c.Config)
		sub.Rule("R6", "TS", "", 0)
		loc.Rule("R6", "TS", "", 0)
		analyse(sub, loc, fn)
		for _, o := range loc.Obs {
			c.add(o.Verdict, o.Construct, o.Pos, o.Detail)
		}
		clean := true
		for _, o := range sub.Obs {
			if o.Verdict != VOK {
				clean = false
			}
		}
		if !clean {
			if callers := batcherHelperCallers(fn, pkgFns); len(callers) > 0 {
				work = append(work, callers...)
				continue
			}
		}
		for _, o := range sub.Obs {
			c.add(o.Verdict, o.Construct, o.Pos, o.Detail)
		}
	}
	// R7 lock
	c.Rule("R7", "", "", 0)
	lc := &LockClass{Name: a.T.Obj().Name() + "." + a.mutex, Pkgs: []*packages.Package{a.pk},
		Mutexes:    map[fieldKey]bool{{a.T, a.mutex}: true},
		Guarded:    map[fieldKey]bool{{a.T, a.slot}: true},
		NotGuarded: map[fieldKey]string{{a.T, "timer"}: "created in Start before the flushing goroutine exists; time.Timer is safe for concurrent Reset"},
		Structs:    []*types.Named{a.T},
	}
	reportLock(c, runLock(p, lc), lc)
}

// batcherFloor: the number of R6 obligations that shows the rule is not blind. The reference tree has 17, but most
// of them come in pairs because Consume is written as two near-identical branches (slot empty / slot occupied);
// merging the duplicated code into helpers is behaviour-preserving and must not trip the floor.
const batcherFloor = 6

// batcherRelevant: the functions of the package that touch the pending slot or flush, directly or through static calls.
func batcherRelevant(a *batcherAnchors, fns []*ssa.Function) map[*ssa.Function]bool {
	rel := map[*ssa.Function]bool{}
	for _, fn := range fns {
		allInstrs(fn, func(in ssa.Instruction) {
			switch x := in.(type) {
			case *ssa.FieldAddr:
				if namedOf(x.X.Type()) == a.T && x.Field == a.slotIdx {
					rel[fn] = true
				}
			case *ssa.Call:
				if a.flushFns[staticCalleeFn(x)] {
					rel[fn] = true
				}
			}
		})
	}
	for changed := true; changed; {
		changed = false
		for _, fn := range fns {
			if rel[fn] {
				continue
			}
			allInstrs(fn, func(in ssa.Instruction) {
				if x, ok := in.(*ssa.Call); ok && !rel[fn] {
					if cf := staticCalleeFn(x); cf != nil && rel[cf] && !a.flushFns[cf] {
						if _, isClosure := x.Call.Value.(*ssa.MakeClosure); !isClosure {
							rel[fn], changed = true, true
						}
					}
				}
			})
		}
	}
	return rel
}

// batcherHelperCallers: fn is an unexported package-level function or method whose every use in the package is a
// plain static call (no method value, no go/defer, not callable through an interface): returns the calling
// functions, nil if fn is not such a helper.
func batcherHelperCallers(fn *ssa.Function, fns []*ssa.Function) []*ssa.Function {
	if fn.Parent() != nil || token.IsExported(fn.Name()) || fn.Name() == "init" || fn.Name() == "main" {
		return nil
	}
	var recvT types.Type
	if r := fn.Signature.Recv(); r != nil {
		recvT = r.Type()
	}
	var callers []*ssa.Function
	seen := map[*ssa.Function]bool{}
	escapes := false
	for _, g := range fns {
		allInstrs(g, func(in ssa.Instruction) {
			var ops []*ssa.Value
			for _, op := range in.Operands(ops) {
				f, ok := (*op).(*ssa.Function)
				if !ok {
					continue
				}
				if o := f.Origin(); o != nil {
					f = o
				}
				if f != fn {
					continue
				}
				call, isCall := in.(*ssa.Call)
				if !isCall || call.Call.IsInvoke() || op != &call.Call.Value {
					escapes = true
					continue
				}
				if !seen[g] {
					seen[g] = true
					callers = append(callers, g)
				}
			}
			// a dynamic call through an interface the receiver implements
			if ci, ok := in.(ssa.CallInstruction); ok && ci.Common().IsInvoke() && recvT != nil && ci.Common().Method.Name() == fn.Name() {
				if it, ok := ci.Common().Value.Type().Underlying().(*types.Interface); ok && types.Implements(recvT, it) {
					escapes = true
				}
			}
		})
	}
	if escapes {
		return nil
	}
	return callers
}

// batcherDerivedResult: the index of the []Request result of cf that is, at every return, parameter k itself or a
// re-slice of it; -1 if there is no such result.
func batcherDerivedResult(a *batcherAnchors, cf *ssa.Function, k int) int {
	if k >= len(cf.Params) {
		return -1
	}
	sl, ok := cf.Params[k].Type().(*types.Slice)
	if !ok || !types.Identical(sl.Elem(), a.reqIface) {
		return -1
	}
	ri := -1
	res := cf.Signature.Results()
	for i := 0; i < res.Len(); i++ {
		if types.Identical(res.At(i).Type(), cf.Params[k].Type()) {
			if ri >= 0 {
				return -1
			}
			ri = i
		}
	}
	if ri < 0 {
		return -1
	}
	var derived func(v ssa.Value, seen map[ssa.Value]bool) bool
	derived = func(v ssa.Value, seen map[ssa.Value]bool) bool {
		if v == ssa.Value(cf.Params[k]) {
			return true
		}
		if seen[v] {
			return true
		}
		seen[v] = true
		switch x := v.(type) {
		case *ssa.Slice:
			return derived(x.X, seen)
		case *ssa.Phi:
			for _, ed := range x.Edges {
				if !derived(ed, seen) {
					return false
				}
			}
			return true
		}
		return false
	}
	rets := returnsOf(cf)
	if len(rets) == 0 {
		return -1
	}
	for _, r := range rets {
		rv := resultsOf(r)
		if ri >= len(rv) || !derived(rv[ri], map[ssa.Value]bool{}) {
			return -1
		}
	}
	return ri
}

// flushLoopOver: list l is flushed completely with the current callback: by an index loop 0..len(l) (or a range loop)
// whose body hands l[i] and the current callback to flush – in the function that holds l or in a helper of the package
// that l and the callback are passed to.
func (e *batcherEngine) flushLoopOver(l ssa.Value, cur func(ssa.Value) bool, depth int) (bool, string) {
	a := e.a
	okLoop, why := false, "no flush loop over this list"
	for _, r := range *l.Referrers() {
		if call, ok := r.(*ssa.Call); ok && depth < batcherInlineDepth {
			cf := staticCalleeFn(call)
			if cf == nil || len(cf.Blocks) == 0 || a.flushFns[cf] || !e.relevant[cf] || len(cf.Params) != len(call.Call.Args) {
				continue
			}
			for k, arg := range call.Call.Args {
				if arg != l {
					continue
				}
				curIn := func(v ssa.Value) bool {
					v = strip(v)
					for j, prm := range cf.Params {
						if v == ssa.Value(prm) {
							return cur(call.Call.Args[j])
						}
					}
					return false
				}
				if ok2, _ := e.flushLoopOver(cf.Params[k], curIn, depth+1); ok2 {
					okLoop = true
				}
			}
			continue
		}
		ia, ok := r.(*ssa.IndexAddr)
		if !ok {
			continue
		}
		// induction variable: `for i := 0; i < len(l); i++` (index = phi[0, phi+1], test phi < len)
		// or `for i := range l` (go/ssa: index = phi[-1, index]+1, test index < len)
		var phi *ssa.Phi
		var tested ssa.Value
		start := int64(0)
		if ph, ok := ia.Index.(*ssa.Phi); ok {
			phi, tested = ph, ph
		} else if bo, ok := ia.Index.(*ssa.BinOp); ok && bo.Op == token.ADD {
			if ph, ok := bo.X.(*ssa.Phi); ok {
				if k, ok := constInt(bo.Y); ok && k == 1 {
					phi, tested, start = ph, bo, -1
				}
			}
		}
		if phi == nil || len(phi.Edges) != 2 {
			continue
		}
		zero, inc := false, false
		for _, ed := range phi.Edges {
			if k, ok := constInt(ed); ok && k == start {
				zero = true
			}
			if bo, ok := ed.(*ssa.BinOp); ok && bo.Op == token.ADD && bo.X == ssa.Value(phi) {
				if k, ok := constInt(bo.Y); ok && k == 1 {
					inc = true
				}
			}
		}
		// loop condition <index> < len(l) (or len(l) > <index>), true side is the body
		condOK := false
		if iff, ok := phi.Block().Instrs[len(phi.Block().Instrs)-1].(*ssa.If); ok {
			if bo, ok := iff.Cond.(*ssa.BinOp); ok && phi.Block().Succs[0] == ia.Block() {
				if bo.Op == token.LSS && bo.X == tested && e.lenOf[bo.Y] == l {
					condOK = true
				}
				if bo.Op == token.GTR && bo.Y == tested && e.lenOf[bo.X] == l {
					condOK = true
				}
			}
		}
		// element handed to flush with the current done
		flushed := false
		for _, r2 := range *ia.Referrers() {
			u, ok := r2.(*ssa.UnOp)
			if !ok {
				continue
			}
			for _, r3 := range *u.Referrers() {
				call, ok := r3.(*ssa.Call)
				if !ok || !a.flushFns[staticCalleeFn(call)] {
					continue
				}
				for _, arg := range call.Call.Args {
					if types.Identical(arg.Type(), a.doneIface) && cur(arg) {
						flushed = true
					}
				}
			}
		}
		if zero && inc && condOK && flushed && loopHasOnlyConditionExit(ia.Block()) {
			okLoop = true
		} else {
			why = fmt.Sprintf("loop shape: starts at 0=%v, step +1=%v, condition i<len(list)=%v, flush(list[i], current done)=%v", zero, inc, condOK, flushed)
		}
	}
	return okLoop, why
}
