package main

import (
	"fmt"
	"go/types"
	"sort"
	"strings"

	"golang.org/x/tools/go/packages"
	"golang.org/x/tools/go/ssa"
)

const (
	pkgBuilders  = modPrefix + "/service/internal/builders"
	pkgAttribute = modPrefix + "/service/internal/attribute"
	pkgConnector = modPrefix + "/connector"
)

func init() {
	register(&Property{
		ID:         "C09",
		Run:        runC09,
		Explain:    "Static structural necessary conditions of pipeline-graph routing: (R1) signal dispatch – in the graph, builders and connector packages every member of a signal family (Create<A>To<B>, consumer.<S>, New<S>Router, <A>To<B>Stability, …; families are computed from the code) used under `case pipeline.Signal<X>` or inside a family-member function is the member for that signal, ordered from/to pairs included; (R2) node identity – the attribute-key set of each node constructor is exactly {kind, signal, component id} for receivers/exporters (no pipeline id: shared across pipelines), {kind, signal, pipeline id, component id} for processors, {kind, signal, output signal, component id} for connectors, {kind, pipeline id} for capabilities/fan-out nodes, and the node id is a hash over all attribute pairs with case preserved; (R3) receiver/exporter/connector creators add a node only when the lookup missed and otherwise return the existing node, the processor creator always adds; (R4) edges: receiver→capabilities, capabilities/processor→processor in slice order, last→fan-out, fan-out→exporter; (R5) reject before build: components are built only after a successful topological sort whose failure returns the cycle error; unsupported connector uses return an error before that connector's nodes are created; Build tests createNodes' error before building; (R6) processors receive exactly one next consumer, receivers/connectors the list of all next consumers; (R7) the exporter-side signal/pipeline of a connector always feeds the first (from) argument and the receiver-side the second (to) argument of the stability check and the connector node constructor.",
		NotDecided: "Per-path delivery counts for arbitrary topologies (graph reachability is computed by gonum at run time), correctness of gonum's topological sort and cycle search.",
		Assumes:    []string{"gonum simple.DirectedGraph/topo semantics", "fnv hash collisions are not considered"},
		Technique:  "static analysis: signal-family dispatch consistency (families computed from the code), constant/attribute-key table extraction, dominance gating, value provenance",
	})
}

func runC09(c *Ctx) {
	p := c.P
	gpk := p.ByPath[pkgGraph]
	bpk := p.ByPath[pkgBuilders]
	cpk := p.ByPath[pkgConnector]
	apk := p.ByPath[pkgAttribute]
	c.Rule("R1", "SD", "every signal-family member used inside a signal context (case pipeline.Signal<X>, or a family-member function/receiver) in service/internal/graph, service/internal/builders and connector is the member for that signal (ordered from/to pairs for two-signal names)", 150)
	if gpk == nil || bpk == nil || cpk == nil || apk == nil {
		c.Anchor("graph / builders / connector / attribute packages")
		return
	}
	sd := newSD(p)
	pk2 := []*packages.Package{gpk, bpk, cpk}
	if x := p.ByPath[pkgConnector+"/xconnector"]; x != nil {
		pk2 = append(pk2, x)
	}
	if x := p.ByPath[pkgConnector+"/internal"]; x != nil {
		pk2 = append(pk2, x)
	}
	uses := sd.scan(pk2, nil)
	reportSD(c, uses)

	// ---------- R2 node identity
	c.Rule("R2", "TAB", "attribute-key sets of the node constructors and hash over all attribute pairs", 8)
	want := map[string][]string{
		"Receiver":     {"ComponentIDKey", "ComponentKindKey", "SignalKey"},
		"Exporter":     {"ComponentIDKey", "ComponentKindKey", "SignalKey"},
		"Processor":    {"ComponentIDKey", "ComponentKindKey", "PipelineIDKey", "SignalKey"},
		"Connector":    {"ComponentIDKey", "ComponentKindKey", "SignalKey", "SignalOutputKey"},
		"Capabilities": {"ComponentKindKey", "PipelineIDKey"},
		"Fanout":       {"ComponentKindKey", "PipelineIDKey"},
	}
	// resolve the key constants by value
	keyName := map[string]string{}
	if kp := p.ByPath[modPrefix+"/internal/telemetry/componentattribute"]; kp != nil {
		for _, n := range kp.Types.Scope().Names() {
			if cst, ok := kp.Types.Scope().Lookup(n).(*types.Const); ok && strings.HasSuffix(n, "Key") {
				keyName[strings.Trim(cst.Val().ExactString(), "\"")] = n
			}
		}
	}
	var newAttrs *ssa.Function
	for _, fn := range p.AllSrcFuncs(apk) {
		if fn.Parent() == nil && fn.Signature.Variadic() && recvNamedOfFn(fn) == nil {
			newAttrs = fn
		}
	}
	for _, name := range sortedKeys(want) {
		f := p.LookupFunc(relPkg(pkgAttribute), name)
		if f == nil {
			c.Bad("node identity of "+name, "-", "constructor not found")
			continue
		}
		fn := p.SSAFunc(f)
		var keys []string
		depParam := map[string]bool{}
		for _, ci := range callsNamed(fn, func(g *types.Func) bool {
			return g.Pkg() != nil && g.Pkg().Path() == "go.opentelemetry.io/otel/attribute" && g.Name() == "String"
		}) {
			if k, ok := constString(ci.Common().Args[0]); ok {
				kn := keyName[k]
				if kn == "" {
					kn = k
				}
				keys = append(keys, kn)
				// value depends on a parameter?
				for v := range backSlice(ci.Common().Args[1]) {
					if pa, ok := v.(*ssa.Parameter); ok {
						depParam[kn+"<-"+pa.Name()] = true
					}
				}
			}
		}
		sort.Strings(keys)
		ok := fmt.Sprint(keys) == fmt.Sprint(want[name])
		c.Check(ok, "node identity of "+name, p.Pos(fn.Pos()), fmt.Sprintf("%v", keys), fmt.Sprintf("attribute keys %v, expected %v: instances would be shared/duplicated differently than configured (e.g. a receiver per pipeline, or processors merged across pipelines)", keys, want[name]))
		// every identity parameter feeds some attribute
		for _, pa := range fn.Params {
			fed := false
			for k := range depParam {
				if strings.HasSuffix(k, "<-"+pa.Name()) {
					fed = true
				}
			}
			c.Check(fed, fmt.Sprintf("node identity of %s depends on parameter %s", name, pa.Name()), p.Pos(fn.Pos()), "feeds an attribute", "an identity parameter does not enter the attributes: distinct components would get the same node")
		}
	}
	if newAttrs == nil {
		c.Bad("node id hash", "-", "attribute constructor not found")
	} else {
		// id derives from every kv (loop over the variadic slice, no early exit) with key and value, no case folding
		var write ssa.CallInstruction
		for _, ci := range calls(newAttrs, func(ci ssa.CallInstruction) bool {
			return ci.Common().IsInvoke() && ci.Common().Method.Name() == "Write"
		}) {
			write = ci
		}
		okLoop := write != nil && loopHasOnlyConditionExit(write.Block())
		depKey, depVal, folded := false, false, ""
		if write != nil {
			for v := range backSlice(write.Common().Args[0]) {
				if call, ok := v.(*ssa.Call); ok {
					if f := calleeOf(call); f != nil {
						if f.Name() == "AsString" {
							depVal = true
						}
						if f.Pkg() != nil && f.Pkg().Path() == "strings" && (strings.HasPrefix(f.Name(), "ToLower") || strings.HasPrefix(f.Name(), "ToUpper") || f.Name() == "EqualFold" || strings.HasPrefix(f.Name(), "Trim")) {
							folded = f.FullName()
						}
					}
				}
				if fa, ok := v.(*ssa.FieldAddr); ok && derefStruct(fa.X.Type()).Field(fa.Field).Name() == "Key" {
					depKey = true
				}
				if f, ok := v.(*ssa.Field); ok && derefStruct(f.X.Type()).Field(f.Field).Name() == "Key" {
					depKey = true
				}
			}
		}
		c.Check(okLoop && depKey && depVal && folded == "", "node id is a hash over every attribute key/value pair, case preserved", p.Pos(newAttrs.Pos()), "loop over all pairs; key and value hashed verbatim", fmt.Sprintf("loop over all=%v, key hashed=%v, value hashed=%v, normalisation=%q: components whose ids differ only by what is dropped/normalised collapse into one node", okLoop, depKey, depVal, folded))
		// set stored is built from the same attrs
		usesAll := false
		for _, ci := range callsNamed(newAttrs, func(g *types.Func) bool { return g.Name() == "NewSet" }) {
			if _, isParam := strip(ci.Common().Args[0]).(*ssa.Parameter); isParam {
				usesAll = true
			}
		}
		c.Check(usesAll, "node attribute set contains all attributes", p.Pos(newAttrs.Pos()), "NewSet(attrs...)", "the attribute set is not built from the constructor's attributes")
	}

	// ---------- R3 lookup-before-add
	c.Rule("R3", "GATE", "receiver/exporter/connector node creators add a node only on the lookup-miss side and otherwise return the existing node; the processor creator always adds a new node", 4)
	graphT := p.LookupType(relPkg(pkgGraph), "Graph")
	for _, fn := range p.AllSrcFuncs(gpk) {
		if fn.Parent() != nil || recvNamedOfFn(fn) != graphT || !strings.HasPrefix(fn.Name(), "create") || fn.Signature.Results().Len() != 1 {
			continue
		}
		adds := calls(fn, func(ci ssa.CallInstruction) bool {
			return ci.Common().IsInvoke() && ci.Common().Method.Name() == "AddNode" || (calleeOf(ci) != nil && calleeOf(ci).Name() == "AddNode")
		})
		if len(adds) == 0 {
			continue
		}
		lookups := calls(fn, func(ci ssa.CallInstruction) bool {
			f := calleeOf(ci)
			return f != nil && f.Name() == "Node" && len(ci.Common().Args) >= 1
		})
		rt := namedOf(fn.Signature.Results().At(0).Type())
		kind := ""
		if rt != nil {
			kind = rt.Obj().Name()
		}
		if strings.Contains(strings.ToLower(kind), "processor") {
			c.Check(len(lookups) == 0 && len(guardsOf(adds[0].Block())) == 0, "processor nodes are always new: "+fnName(fn), p.Pos(adds[0].Pos()), "unconditional AddNode", "processor nodes are looked up / conditionally added: processors would be shared between pipelines")
			continue
		}
		if len(lookups) != 1 {
			c.Bad("shared node lookup in "+fnName(fn), p.Pos(fn.Pos()), fmt.Sprintf("%d lookups of an existing node: a component referenced by several pipelines would be instantiated once per pipeline", len(lookups)))
			continue
		}
		lk := lookups[0]
		// AddNode on the nil side of the lookup
		okAdd := false
		for _, g := range guardsOf(adds[0].Block()) {
			if guardIsNilTest(g, lk.(ssa.Value), true) {
				okAdd = true
			}
		}
		// the non-nil side returns the found node
		okRet := false
		for _, r := range returnsOf(fn) {
			for _, g := range guardsOf(r.Block()) {
				if guardIsNilTest(g, lk.(ssa.Value), false) {
					for v := range backSlice(resultsOf(r)[0]) {
						if v == lk.(ssa.Value) {
							okRet = true
						}
					}
				}
			}
		}
		// the lookup key is the candidate's id
		c.Check(okAdd && okRet, "lookup-before-add in "+fnName(fn), p.Pos(lk.Pos()), "AddNode on miss; existing node returned on hit", fmt.Sprintf("add only on miss=%v, existing node returned on hit=%v", okAdd, okRet))
	}

	// ---------- R4 edges
	c.Rule("R4", "TAB", "edge classes: (receiver→capabilities), (capabilities|processor→processor) chained in slice order, (last→fan-out), (fan-out→exporter)", 1)
	// the edge builder is found by effect: the method of Graph with ≥3 edge-creation sites. A site is a NewEdge
	// call or – when the endpoints of that call are bare parameters of a helper (`g.connect(from, to)`) – a call of
	// the helper; the endpoints are then the helper's arguments (robust_A5.go).
	isNewEdge := func(ci ssa.CallInstruction) bool { f := calleeOf(ci); return f != nil && f.Name() == "NewEdge" }
	edgeSites := map[*ssa.Function][]a5Site{}
	for _, s := range a5SitesThroughWrappers(a5Index(p, gpk), isNewEdge, func(ci ssa.CallInstruction) []ssa.Value {
		a := ci.Common().Args
		return []ssa.Value{a[len(a)-2], a[len(a)-1]}
	}) {
		edgeSites[s.Fn] = append(edgeSites[s.Fn], s)
	}
	var ce *ssa.Function
	for _, fn := range p.AllSrcFuncs(gpk) {
		if fn.Parent() == nil && recvNamedOfFn(fn) == graphT && len(edgeSites[fn]) >= 3 {
			ce = fn
		}
	}
	if ce == nil {
		c.Anchor("edge builder (≥3 NewEdge calls)")
	} else {
		classOf := func(v ssa.Value) string {
			set := map[string]bool{}
			for w := range backSlice(v) {
				var name string
				switch f := w.(type) {
				case *ssa.FieldAddr:
					name = derefStruct(f.X.Type()).Field(f.Field).Name()
				case *ssa.Field:
					name = derefStruct(f.X.Type()).Field(f.Field).Name()
				}
				switch name {
				case "receivers", "exporters", "processors", "capabilitiesNode", "fanOutNode":
					set[name] = true
				}
			}
			return strings.Join(sortedKeys(set), "|")
		}
		var got []string
		for _, s := range edgeSites[ce] {
			got = append(got, classOf(s.Args[0])+" -> "+classOf(s.Args[1]))
		}
		sort.Strings(got)
		wantE := []string{"capabilitiesNode|processors -> fanOutNode", "capabilitiesNode|processors -> processors", "fanOutNode -> exporters", "receivers -> capabilitiesNode"}
		c.Check(fmt.Sprint(got) == fmt.Sprint(wantE), "edge classes of "+fnName(ce), p.Pos(ce.Pos()), fmt.Sprint(got), fmt.Sprintf("edges %v, expected %v: data would bypass processors / reach the wrong stage", got, wantE))
	}

	// ---------- R5 reject before build
	c.Rule("R5", "GATE", "components are built only after a successful topo.Sort (its failure returns the cycle error); an unsupported connector use returns an error before that connector's nodes are created; Build tests createNodes' error before building components", 3)
	// anchors by effect, seen through closures and helpers (robust_A5.go): bc = the method of Graph that sorts
	// topologically and from which buildComponent is called (possibly inside a range-over-func body or a helper);
	// build = the function that calls bc and a function from which createConnector is reached; cn = that function.
	var bc, cn, build *ssa.Function
	isTopoSort := func(ci ssa.CallInstruction) bool {
		f := calleeOf(ci)
		return f != nil && f.FullName() == "gonum.org/v1/gonum/graph/topo.Sort"
	}
	isBuildComponent := func(ci ssa.CallInstruction) bool { f := calleeOf(ci); return f != nil && f.Name() == "buildComponent" }
	createConnectorFn := mustFn(p, gpk, graphT, "createConnector")
	isCreateConnector := func(ci ssa.CallInstruction) bool {
		return createConnectorFn != nil && staticCalleeFn(ci) == createConnectorFn
	}
	for _, fn := range p.AllSrcFuncs(gpk) {
		if fn.Parent() != nil {
			continue
		}
		if recvNamedOfFn(fn) == graphT && len(calls(fn, isTopoSort)) == 1 && len(a5ReachingSites(p, fn, isBuildComponent, 2)) > 0 {
			bc = fn
		}
	}
	for _, fn := range p.AllSrcFuncs(gpk) {
		if fn.Parent() != nil || bc == nil || fn == bc || len(callsTo(fn, funcObj(bc))) == 0 {
			continue
		}
		for _, ci := range calls(fn, func(ci ssa.CallInstruction) bool { return true }) {
			g := staticCalleeFn(ci)
			if g == nil || g == bc || g == createConnectorFn || g.Pkg != fn.Pkg || g.Blocks == nil {
				continue
			}
			if len(a5ReachingSites(p, g, isCreateConnector, 2)) > 0 {
				build, cn = fn, g
			}
		}
	}
	if bc == nil || cn == nil || build == nil {
		c.Anchor(fmt.Sprintf("buildComponents/createNodes/Build (found %v %v %v)", bc != nil, cn != nil, build != nil))
	} else {
		srt := calls(bc, isTopoSort)[0]
		okAll := true
		for _, b := range a5ReachingSites(p, bc, isBuildComponent, 2) {
			if !errGuardOn(b.Block(), srt, true) {
				okAll = false
			}
		}
		okCycle := false
		for _, r := range returnsOf(bc) {
			if errGuardOn(r.Block(), srt, false) && !isNilConst(resultsOf(r)[0]) {
				okCycle = true
			}
		}
		c.Check(okAll && okCycle, "components are built only after a successful topological sort", p.Pos(srt.Pos()), "buildComponent gated by Sort success; failure returns an error", fmt.Sprintf("gated=%v, cycle error returned=%v: a cyclic configuration is started", okAll, okCycle))
		// createNodes: every createConnector call is preceded (dominated) by the unsupported-use checks: the error
		// returns under `!supportedUse` dominate... structural: each return of a non-nil fmt.Errorf inside the connector
		// loop is not reachable from createConnector within one iteration, and createConnector is not reachable
		// without passing the blocks that test supportedUse.
		ccalls := a5ReachingSites(p, cn, isCreateConnector, 2)
		nChecks := 0
		okBefore := true
		allInstrs(cn, func(in ssa.Instruction) {
			iff, ok := in.(*ssa.If)
			if !ok {
				return
			}
			// range-over-map value test: `if supportedUse { continue }` – cond is an Extract of a Next on a map[Signal]bool
			ex, ok := iff.Cond.(*ssa.Extract)
			if !ok {
				return
			}
			nx, ok := ex.Tuple.(*ssa.Next)
			if !ok || nx.IsString {
				return
			}
			// false side returns an error
			fs := iff.Block().Succs[1]
			ret := false
			for _, in2 := range fs.Instrs {
				if r, ok := in2.(*ssa.Return); ok && !isNilConst(resultsOf(r)[0]) {
					ret = true
				}
			}
			if !ret {
				return
			}
			nChecks++
			for _, cc := range ccalls {
				if !canReach(iff, cc, nil) || canReach(cc, iff, nil) && false {
					okBefore = false
				}
			}
		})
		c.Check(nChecks >= 2 && okBefore && len(ccalls) > 0, "unsupported connector uses are rejected before that connector's nodes are created", p.Pos(cn.Pos()), fmt.Sprintf("%d supported-use tests return an error and precede createConnector", nChecks), fmt.Sprintf("supported-use tests=%d, each returns an error and precedes node creation=%v", nChecks, okBefore))
		// Build: createNodes error tested before buildComponents
		cnCall := callsTo(build, funcObj(cn))[0]
		bcCall := callsTo(build, funcObj(bc))[0]
		c.Check(errGuardOn(bcCall.Block(), cnCall, true), "Build stops when node creation fails", p.Pos(bcCall.Pos()), "buildComponents gated by createNodes success", "components are built although node creation (connector validation) failed")
	}

	// ---------- R6 next consumers
	c.Rule("R6", "PROV", "processors are built with exactly one next consumer (element 0 of the next-consumer list), receivers and connectors with the whole list", 3)
	if bc != nil {
		for _, b := range a5DeepCalls(bc, func(ci ssa.CallInstruction) bool { f := calleeOf(ci); return f != nil && f.Name() == "buildComponent" }) {
			rn := recvNamed(calleeOf(b))
			if rn == nil {
				continue
			}
			args := b.Common().Args
			last := args[len(args)-1]
			kind := rn.Obj().Name()
			switch {
			case strings.Contains(kind, "processor"):
				// Index of nextConsumers(...) at 0
				ok := false
				if u, isU := strip(last).(*ssa.UnOp); isU {
					if ia, isIA := u.X.(*ssa.IndexAddr); isIA {
						if k, isC := constInt(ia.Index); isC && k == 0 {
							if call, isCall := strip(ia.X).(*ssa.Call); isCall && calleeOf(call) != nil && calleeOf(call).Name() == "nextConsumers" {
								ok = true
							}
						}
					}
				}
				c.Check(ok, "processor node gets exactly its single next consumer", p.Pos(b.Pos()), "nextConsumers(id)[0]", "a processor is not wired to the first (only) next node")
			case strings.Contains(kind, "receiver"), strings.Contains(kind, "connector"):
				call, isCall := strip(last).(*ssa.Call)
				ok := isCall && calleeOf(call) != nil && calleeOf(call).Name() == "nextConsumers"
				// the id passed is the node's own id
				c.Check(ok, kind+" gets all its next consumers", p.Pos(b.Pos()), "nextConsumers(id)", "the node is not wired to the full list of its next consumers")
			}
		}
	}

	// ---------- R8 fan-out delivers to every consumer (shared with C06.R4)
	{
		sub := NewCtx(p, "C06", c.Tier, c.Config)
		runC06(sub)
		c.Rule("R8", "ORD+DEP", "the fan-out consumer placed before exporters and behind receivers/connectors invokes every consumer and aggregates every result (same rules as C06.R4/R9/R10): per-path delivery does not depend on an earlier consumer's outcome; receivers always emit into the fan-out wrapper and a lone mutating consumer keeps it", 8)
		for _, o := range sub.Obs {
			if (o.Rule == "C06.R4" || o.Rule == "C06.R10" || o.Rule == "C06.R9") && !strings.HasPrefix(o.Construct, "floor:") {
				c.add(o.Verdict, o.Construct, o.Pos, o.Detail)
			}
		}
	}
	runC09Routers(c)
	runC09Round3(c)

	// ---------- R7 from/to provenance
	c.Rule("R7", "PROV", "the signal/pipeline taken from the connector's exporter-side uses feeds the first (from) argument and the one from its receiver-side uses the second (to) argument of connectorStability and createConnector", 3)
	if cn != nil {
		// the two usage maps: MakeMap values updated inside loops over the Exporters / Receivers config fields
		role := map[ssa.Value]string{}
		allInstrs(cn, func(in ssa.Instruction) {
			mu, ok := in.(*ssa.MapUpdate)
			if !ok {
				return
			}
			mk, ok := strip(mu.Map).(*ssa.MakeMap)
			if !ok {
				return
			}
			if _, isSlice := mk.Type().Underlying().(*types.Map).Elem().Underlying().(*types.Slice); !isSlice {
				return
			}
			for v := range backSlice(mu.Key) {
				if fa, ok := v.(*ssa.FieldAddr); ok {
					switch derefStruct(fa.X.Type()).Field(fa.Field).Name() {
					case "Exporters":
						role[mk] = "F"
					case "Receivers":
						role[mk] = "T"
					}
				}
			}
		})
		// provenance is followed across helpers (a parameter of an unexported helper stands for the arguments at its
		// call sites), and the call sites are looked for in everything reachable from cn inside the package, so that
		// the node-creation loop may live in a helper and the stability check behind a wrapper (robust_A5.go)
		ix := a5Index(p, gpk)
		sideOf := func(v ssa.Value) string {
			set := map[string]bool{}
			for w := range a5BackSliceIP(ix, v) {
				if r, ok := role[w]; ok {
					set[r] = true
				}
			}
			return strings.Join(sortedKeys(set), "")
		}
		within := a5ReachableInPkg(cn, 3)
		n, nStab, nCreate := 0, 0, 0
		var stabFn *ssa.Function
		for _, fn := range ix.funcs {
			if !within[rootFn(fn)] {
				continue
			}
			for _, ci := range calls(fn, func(ci ssa.CallInstruction) bool {
				f := calleeOf(ci)
				return f != nil && (f.Name() == "connectorStability" || f.Name() == "createConnector")
			}) {
				args := ci.Common().Args
				a1, a2 := args[1], args[2]
				n++
				if calleeOf(ci).Name() == "connectorStability" {
					nStab++
					stabFn = staticCalleeFn(ci)
				} else {
					nCreate++
				}
				s1, s2 := sideOf(a1), sideOf(a2)
				c.Check(s1 == "F" && s2 == "T", fmt.Sprintf("from/to argument order of %s #%d", calleeOf(ci).Name(), n), p.Pos(ci.Pos()), "first from exporter-side uses, second from receiver-side uses", fmt.Sprintf("first argument derives from %q uses, second from %q uses (F=as exporter, T=as receiver): the connector's supported signal pair is checked/instantiated in the wrong direction, so legs of asymmetric connectors are silently dropped", s1, s2))
			}
		}
		if nStab < 1 || nCreate < 1 || len(role) != 2 {
			c.Undecided("connector from/to call sites", "-", fmt.Sprintf("%d stability checks, %d node creations, %d usage maps", nStab, nCreate, len(role)))
		}
		// "supported" means: the declared stability level is not Undefined – the only constant the level may be
		// compared with when deciding whether a pair of pipelines gets a connector node (a wrapper that returns the
		// level unchanged is looked through)
		if stabFn != nil {
			okCmp, nCmp := true, 0
			where := "-"
			var visit func(v ssa.Value, d int)
			visit = func(v ssa.Value, d int) {
				ks, _ := a5ComparedConsts(v)
				for _, k := range ks {
					nCmp++
					if k != 0 {
						okCmp = false
						if in, ok := v.(ssa.Instruction); ok {
							where = p.Pos(in.Pos())
						}
					}
				}
				if v.Referrers() == nil || d == 0 {
					return
				}
				for _, r := range *v.Referrers() {
					// the level handed on unchanged: returned by a wrapper
					if ret, ok := r.(*ssa.Return); ok {
						if cs, exact := ix.exactCallers(ret.Parent()); exact {
							for _, cc := range cs {
								if cv, ok := cc.(ssa.Value); ok {
									visit(cv, d-1)
								}
							}
						}
					}
				}
			}
			for _, fn := range ix.funcs {
				for _, ci := range calls(fn, func(ci ssa.CallInstruction) bool { return staticCalleeFn(ci) == stabFn }) {
					if cv, ok := ci.(ssa.Value); ok && within[rootFn(fn)] {
						visit(cv, 2)
					}
				}
			}
			c.Check(okCmp && nCmp >= 1, "a connector pair is supported exactly when its stability level is not Undefined", where, fmt.Sprintf("%d comparisons, all with StabilityLevelUndefined", nCmp), fmt.Sprintf("the declared stability level is compared with a level other than Undefined (%d comparisons): pairs declared at another level (e.g. Deprecated) are treated as unsupported and get no connector node", nCmp))
		}
	}
	runRouterReadOnly(c, "R12")
	runC09Round4(c)
	runC09ValidateReadOnly(c)
	runC09EntryForwards(c)
	runC09CycleTime(c)
}

func mustFn(p *Prog, pk *packages.Package, T *types.Named, name string) *ssa.Function {
	for _, fn := range p.AllSrcFuncs(pk) {
		if fn.Parent() == nil && fn.Name() == name && recvNamedOfFn(fn) == T {
			return fn
		}
	}
	return nil
}

// backSliceMaps: backSlice that additionally flows through locally built maps: a lookup/range on a
// MakeMap depends on everything stored into that map.
func backSliceMaps(v ssa.Value) map[ssa.Value]bool {
	seen := map[ssa.Value]bool{}
	var work []ssa.Value
	push := func(x ssa.Value) {
		if x != nil && !seen[x] {
			seen[x] = true
			work = append(work, x)
		}
	}
	push(v)
	for len(work) > 0 {
		x := work[len(work)-1]
		work = work[:len(work)-1]
		for y := range backSlice(x) {
			push(y)
		}
		if mk, ok := x.(*ssa.MakeMap); ok && mk.Referrers() != nil {
			for _, r := range *mk.Referrers() {
				if mu, ok := r.(*ssa.MapUpdate); ok {
					push(mu.Key)
					push(mu.Value)
				}
			}
		}
		if rg, ok := x.(*ssa.Range); ok {
			push(rg.X)
		}
		if nx, ok := x.(*ssa.Next); ok {
			push(nx.Iter)
		}
	}
	return seen
}
