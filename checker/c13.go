package main

import (
	"fmt"
	"go/token"
	"go/types"
	"reflect"
	"sort"
	"strings"

	"golang.org/x/tools/go/ssa"
)

const pkgXConfmap = modPrefix + "/confmap/xconfmap"

func init() {
	register(&Property{
		ID:         "C13",
		Run:        runC13,
		Explain:    "Static structural necessary conditions of strict and faithful configuration loading: (R1) strict decoding knobs – the mapstructure DecoderConfig sets ErrorUnused from the caller's flag, no weak typing, the case-sensitive matcher and the Unmarshaler hooks; Conf.Unmarshal passes !ignoreUnused; nothing outside cmd/mdatagen (tooling for metadata.yaml) calls WithIgnoreUnused; (R2) custom Unmarshalers stay strict – for every type implementing confmap.Unmarshaler (outside cmd/mdatagen) every return is a known non-nil error or is dominated by the success of a strict conf.Unmarshal (no options) on the method's own conf; (R3) the reflective validation walk is exhaustive – Ptr/Interface, Struct, Slice/Array and Map kinds each recurse into all children (fields/elements/keys and values), call the value's own Validate, collect instead of short-circuiting, and skip struct fields only when unexported; (R4) in every struct with mapstructure tags the effective keys (own tags plus squashed fields) are unique and squash is only used on struct-valued fields; (R5) reference and shape checks – each reference loop of Config.Validate returns an error on the lookup-miss side, connector ids are checked against both receivers and exporters, the pipeline config rejects empty receivers/exporters and repeated processors; (R6) the effective configuration handed to extensions is the marshalled loaded configuration; (R7) default configurations are fresh – a factory's default-config function never returns data read from package-level variables holding maps/slices/pointers (defaults would be shared and mutated across instances and reloads).",
		NotDecided: "Per-field faithfulness of every component's decoding (defaults overlaid by exactly the written keys), error message contents.",
		Assumes:    []string{"mapstructure honours its DecoderConfig"},
		Technique:  "static analysis: struct-literal/knob extraction, who-may-call, dominance gating over Unmarshaler methods, kind-switch coverage, struct-tag tables (go/types), provenance of returned defaults",
	})
}

func runC13(c *Ctx) {
	p := c.P
	cpk := p.ByPath[pkgConfmap]
	c.Rule("R1", "TAB+WHO", "strict decoding knobs and no lenient decoding outside tooling", 6)
	if cpk == nil {
		c.Anchor("confmap")
		return
	}
	// decodeConfig: function storing into a mapstructure.DecoderConfig
	var dec *ssa.Function
	for _, fn := range p.AllSrcFuncs(cpk) {
		if fn.Parent() != nil {
			continue
		}
		allInstrs(fn, func(in ssa.Instruction) {
			if a, ok := in.(*ssa.Alloc); ok {
				if n := namedOf(a.Type()); n != nil && n.Obj().Name() == "DecoderConfig" {
					dec = fn
				}
			}
		})
	}
	if dec == nil {
		c.Anchor("decoder configuration site")
		return
	}
	fieldVal := map[string]ssa.Value{}
	allInstrs(dec, func(in ssa.Instruction) {
		s, ok := in.(*ssa.Store)
		if !ok {
			return
		}
		fa, ok := s.Addr.(*ssa.FieldAddr)
		if !ok {
			return
		}
		if n := namedOf(fa.X.Type()); n == nil || n.Obj().Name() != "DecoderConfig" {
			return
		}
		fieldVal[derefStruct(fa.X.Type()).Field(fa.Field).Name()] = s.Val
	})
	_, euParam := fieldVal["ErrorUnused"].(*ssa.Parameter)
	c.Check(euParam, "ErrorUnused is the caller's strictness flag", p.Pos(dec.Pos()), "parameter", "ErrorUnused is not wired to the caller's flag (unknown keys would be ignored, or the flag is constant)")
	wk := fieldVal["WeaklyTypedInput"]
	wkOK := wk == nil
	if b, ok := constBool(wk); ok && !b {
		wkOK = true
	}
	c.Check(wkOK, "no weakly typed input", p.Pos(dec.Pos()), "false", "WeaklyTypedInput is enabled: a string silently becomes a number/bool/list")
	mnOK := false
	if mn, ok := strip(fieldVal["MatchName"]).(*ssa.Function); ok {
		for _, r := range returnsOf(mn) {
			if bo, ok := resultsOf(r)[0].(*ssa.BinOp); ok && bo.Op == token.EQL {
				_, p1 := bo.X.(*ssa.Parameter)
				_, p2 := bo.Y.(*ssa.Parameter)
				mnOK = p1 && p2
			}
		}
	}
	c.Check(mnOK, "keys are matched case-sensitively", p.Pos(dec.Pos()), "a == b", "MatchName is missing or not exact equality (keys differing in case hit the same field)")
	hookOK := sliceHasCall(fieldVal["DecodeHook"], func(f *types.Func) bool { return f.Name() == "unmarshalerHookFunc" })
	c.Check(hookOK, "Unmarshaler hook installed", p.Pos(dec.Pos()), "present", "custom Unmarshalers are not invoked")
	// Conf.Unmarshal passes !ignoreUnused
	if m := p.LookupMethod(relPkg(pkgConfmap), "Conf", "Unmarshal"); m != nil {
		fn := p.SSAFunc(m)
		ok := false
		for _, ci := range callsTo(fn, funcObj(dec)) {
			for i, pa := range dec.Params {
				if pa == fieldVal["ErrorUnused"] {
					if u, isU := ci.Common().Args[i].(*ssa.UnOp); isU && u.Op == token.NOT {
						if _, path := fieldChain(u.X); len(path) > 0 && strings.Contains(strings.ToLower(path[len(path)-1]), "ignoreunused") {
							ok = true
						}
					}
				}
			}
		}
		c.Check(ok, "Conf.Unmarshal is strict unless ignore-unused was requested", p.Pos(fn.Pos()), "errorUnused = !ignoreUnused", "Conf.Unmarshal does not pass the negated ignore-unused option")
	}
	// WHO: WithIgnoreUnused callers
	wiu := p.LookupFunc(relPkg(pkgConfmap), "WithIgnoreUnused")
	if wiu == nil {
		c.Anchor("confmap.WithIgnoreUnused")
	} else {
		n := 0
		for _, pk := range p.Pkgs {
			if !strings.HasPrefix(pk.PkgPath, modPrefix) {
				continue
			}
			for _, fn := range p.AllSrcFuncs(pk) {
				for _, ci := range callsTo(fn, wiu) {
					n++
					allowed := strings.HasPrefix(pk.PkgPath, modPrefix+"/cmd/mdatagen")
					c.Check(allowed, "lenient decoding (WithIgnoreUnused) in "+fnName(fn), p.Pos(ci.Pos()), "tooling only (cmd/mdatagen decodes metadata.yaml, not collector configuration)", "collector configuration is decoded with unknown keys ignored: a misspelt or misplaced setting is silently dropped instead of rejected")
				}
			}
		}
		c.Note("C13.R1: %d WithIgnoreUnused call sites", n)
	}

	// ---------- R2
	c.Rule("R2", "GATE", "every return of a confmap.Unmarshaler implementation (outside cmd/mdatagen) is a known non-nil error or dominated by the success side of a strict conf.Unmarshal on the method's own conf", 6)
	umIface := ifaceOf(p, pkgConfmap, "Unmarshaler")
	unm := p.LookupMethod(relPkg(pkgConfmap), "Conf", "Unmarshal")
	nU := 0
	if umIface == nil || unm == nil {
		c.Anchor("confmap.Unmarshaler / Conf.Unmarshal")
	} else {
		for _, pk := range p.Pkgs {
			if !strings.HasPrefix(pk.PkgPath, modPrefix) || strings.HasPrefix(pk.PkgPath, modPrefix+"/cmd/mdatagen") || strings.HasSuffix(pk.PkgPath, "test") || strings.Contains(pk.PkgPath, "/internal/e2e") || strings.Contains(pk.PkgPath, "testutil") {
				continue
			}
			for _, fn := range p.AllSrcFuncs(pk) {
				if fn.Parent() != nil || fn.Name() != "Unmarshal" || len(fn.Params) != 2 {
					continue
				}
				rt := fn.Signature.Recv()
				if rt == nil || !types.Implements(rt.Type(), umIface) && !types.Implements(types.NewPointer(rt.Type()), umIface) {
					continue
				}
				nU++
				conf := fn.Params[1]
				strict := calls(fn, func(ci ssa.CallInstruction) bool {
					if calleeOf(ci) != unm.Origin() {
						return false
					}
					a := ci.Common().Args
					if len(a) < 3 {
						return false
					}
					// receiver is the method's conf (or a sub-conf derived from it); no options
					opts, ok := variadicElems(a[2])
					if !ok || len(opts) != 0 {
						return false
					}
					for v := range backSlice(a[0]) {
						if v == ssa.Value(conf) {
							return true
						}
					}
					return false
				})
				okAll := true
				why := ""
				for _, r := range returnsOf(fn) {
					res := resultsOf(r)[0]
					if !isNilConst(res) {
						// known error: result of a failed call on its failing side, or constructed error
						continue
					}
					gated := false
					for _, s := range strict {
						if errGuardOn(r.Block(), s, true) {
							gated = true
						}
					}
					if !gated {
						okAll = false
						why = "a success return at " + p.Pos(r.Pos()) + " is not dominated by a successful strict Unmarshal of the method's own conf"
					}
				}
				// also: `return conf.Unmarshal(x)` directly is fine (value is the strict call's result)
				for _, r := range returnsOf(fn) {
					res := resultsOf(r)[0]
					if isNilConst(res) {
						continue
					}
					_ = res
				}
				c.Check(okAll, "strictness of "+fnName(fn), p.Pos(fn.Pos()), fmt.Sprintf("%d strict decode(s) gate every success return", len(strict)), why+": the custom Unmarshaler can report success having decoded leniently or not at all (unknown keys ignored)")
			}
		}
		if nU < 6 {
			c.Undecided("Unmarshaler implementations", "-", fmt.Sprintf("%d found", nU))
		}
	}

	runC13Validate(c)
	runC13Tags(c)
	runC13Refs(c)
	runC13Defaults(c)
	runConfSubProvenance(c, "R8")
	runC13OmitEmpty(c)
	runC13NotifyClone(c)
	runC13Hooks(c)
	runC13Alias(c)
	runC13Round4(c)
	runC13TextMarshal(c)
	runC13Round5(c)
	runC13Batch2(c)
}

// ---------- R3 validation walk ----------

func runC13Validate(c *Ctx) {
	p := c.P
	c.Rule("R3", "COV", "the reflective validator handles Ptr/Interface, Struct, Slice/Array and Map, recursing into all children and calling the value's own Validate; struct fields are skipped only when unexported; errors are collected, not short-circuited", 6)
	xpk := p.ByPath[pkgXConfmap]
	if xpk == nil {
		c.Anchor("confmap/xconfmap")
		return
	}
	var walk *ssa.Function
	for _, fn := range p.AllSrcFuncs(xpk) {
		if fn.Parent() == nil && len(fn.Params) == 1 && typeIs(fn.Params[0].Type(), "reflect", "Value") && len(callsTo(fn, funcObj(fn))) >= 3 {
			walk = fn
		}
	}
	if walk == nil {
		c.Anchor("recursive validator")
		return
	}
	// kinds handled: constants compared with v.Kind()
	kindNames := map[int64]string{int64(reflect.Ptr): "Ptr", int64(reflect.Interface): "Interface", int64(reflect.Struct): "Struct", int64(reflect.Slice): "Slice", int64(reflect.Array): "Array", int64(reflect.Map): "Map"}
	cases, _ := switchCases(walk, func(v ssa.Value) bool {
		call, ok := v.(*ssa.Call)
		return ok && calleeOf(call) != nil && calleeOf(call).Name() == "Kind"
	})
	rec := callsTo(walk, funcObj(walk))
	var validateCalls []ssa.CallInstruction
	for _, ci := range calls(walk, func(ci ssa.CallInstruction) bool {
		cf := staticCalleeFn(ci)
		return cf != nil && cf != walk && cf.Pkg == walk.Pkg && len(cf.Params) == 1 && typeIs(cf.Params[0].Type(), "reflect", "Value") && cf.Signature.Results().Len() == 1 && isErrorType(cf.Signature.Results().At(0).Type())
	}) {
		validateCalls = append(validateCalls, ci)
	}
	var ks []int64
	for k := range kindNames {
		ks = append(ks, k)
	}
	sort.Slice(ks, func(i, j int) bool { return ks[i] < ks[j] })
	for _, k := range ks {
		name := kindNames[k]
		b := cases[k]
		if b == nil {
			c.Bad("validator handles kind "+name, p.Pos(walk.Pos()), "no case for this kind: values nested inside it are never validated")
			continue
		}
		inRegion := func(in ssa.Instruction) bool { return in.Block() == b || b.Dominates(in.Block()) }
		// shared bodies (Ptr,Interface / Slice,Array) have two predecessors: region by reachability
		reach := reachFrom([]*ssa.BasicBlock{b}, nil)
		inRegion = func(in ssa.Instruction) bool { return reach[in.Block()] }
		nrec := 0
		childOps := map[string]bool{}
		for _, r := range rec {
			if inRegion(r) {
				nrec++
				for v := range backSlice(r.Common().Args[0]) {
					if call, ok := v.(*ssa.Call); ok && calleeOf(call) != nil && recvNamed(calleeOf(call)) != nil {
						childOps[calleeOf(call).Name()] = true
					}
				}
			}
		}
		var need []string
		switch name {
		case "Ptr", "Interface":
			need = []string{"Elem"}
		case "Struct":
			need = []string{"Field", "NumField"}
		case "Slice", "Array":
			need = []string{"Index", "Len"}
		case "Map":
			need = []string{"Key", "Value"}
		}
		// loop bounds live in the loop condition, not in the argument slice
		allInstrs(walk, func(in ssa.Instruction) {
			if call, ok := in.(*ssa.Call); ok && inRegion(in) && calleeOf(call) != nil && recvNamed(calleeOf(call)) != nil {
				childOps[calleeOf(call).Name()] = true
			}
		})
		missing := []string{}
		for _, n := range need {
			if !childOps[n] {
				missing = append(missing, n)
			}
		}
		okVal := name == "Ptr" || name == "Interface"
		for _, vc := range validateCalls {
			if inRegion(vc) {
				okVal = true
			}
		}
		c.Check(nrec > 0 && len(missing) == 0 && okVal, "validator handles kind "+name, p.Pos(b.Instrs[0].Pos()), "recurses into all children and validates the value itself", fmt.Sprintf("recursive calls=%d, child accessors missing=%v, own Validate called=%v", nrec, missing, okVal))
	}
	// struct-field skip conditions: inside the Struct case, every If on whose true side the loop continues without
	// recursing must depend on IsExported only
	if b := cases[int64(reflect.Struct)]; b != nil {
		reach := reachFrom([]*ssa.BasicBlock{b}, nil)
		okSkip := true
		detail := ""
		for _, blk := range walk.Blocks {
			if !reach[blk] {
				continue
			}
			iff, ok := blk.Instrs[len(blk.Instrs)-1].(*ssa.If)
			if !ok {
				continue
			}
			// does one side bypass the recursive call of this iteration?
			h, body := innermostLoop(blk)
			if h == nil {
				continue
			}
			var recIn ssa.CallInstruction
			for _, r := range rec {
				if body[r.Block()] {
					recIn = r
				}
			}
			if recIn == nil || blk == h {
				continue
			}
			bypass := false
			for _, s := range blk.Succs {
				if len(s.Instrs) > 0 && !(s == recIn.Block() || canReach(s.Instrs[0], recIn, map[ssa.Instruction]bool{h.Instrs[len(h.Instrs)-1]: true})) && canReach(iff, h.Instrs[0], nil) {
					bypass = true
				}
			}
			if !bypass || !canReach(iff, recIn, nil) {
				continue
			}
			dep := false
			other := false
			for v := range backSlice(iff.Cond) {
				if call, ok := v.(*ssa.Call); ok && calleeOf(call) != nil {
					switch calleeOf(call).Name() {
					case "IsExported":
						dep = true
					}
				}
				if f, ok := v.(*ssa.Field); ok && derefStruct(f.X.Type()).Field(f.Field).Name() != "" {
					n := derefStruct(f.X.Type()).Field(f.Field).Name()
					if n == "Anonymous" || n == "Tag" || n == "Name" || n == "Type" {
						other = true
						detail = "StructField." + n
					}
				}
				if f, ok := v.(*ssa.FieldAddr); ok {
					n := derefStruct(f.X.Type()).Field(f.Field).Name()
					if n == "Anonymous" || n == "Tag" || n == "Name" || n == "Type" {
						other = true
						detail = "StructField." + n
					}
				}
			}
			if !dep || other {
				okSkip = false
			}
		}
		c.Check(okSkip, "struct fields are skipped only when unexported", p.Pos(b.Instrs[0].Pos()), "skip condition is IsExported() only", "a field is skipped depending on "+detail+": validation rules of such (e.g. embedded) fields are never evaluated")
	}
	// no short circuit: the only returns inside Struct/Slice/Map cases come after the child loop
	for _, vc := range validateCalls {
		// a return reachable from the failing side of the own-Validate call without passing a recursive call in
		// container cases would short-circuit
		h := false
		for _, r := range returnsOf(walk) {
			if errGuardOn(r.Block(), vc, false) {
				// allowed only in the default (leaf) case: no recursion reachable from vc
				for _, rc := range rec {
					if canReach(vc, rc, nil) {
						h = true
					}
				}
			}
		}
		if h {
			c.Bad("validation errors are collected, not short-circuited", p.Pos(vc.Pos()), "a failing Validate returns before the children are visited")
		}
	}
	c.OK("validator structure analysed", p.Pos(walk.Pos()), fmt.Sprintf("%d recursive calls, %d own-Validate calls", len(rec), len(validateCalls)))
}

// ---------- R4 mapstructure keys ----------

func runC13Tags(c *Ctx) {
	p := c.P
	c.Rule("R4", "TYP", "in every struct with mapstructure tags the effective keys (own tags plus keys of squashed fields) are unique and squash is used only on struct-valued (non-pointer) fields", 60)
	type keyInfo struct{ keys map[string]string }
	var effective func(st *types.Struct, depth int) (map[string]string, []string)
	effective = func(st *types.Struct, depth int) (map[string]string, []string) {
		keys := map[string]string{}
		var problems []string
		if depth > 4 {
			return keys, nil
		}
		for i := 0; i < st.NumFields(); i++ {
			f := st.Field(i)
			tag, ok := reflect.StructTag(st.Tag(i)).Lookup("mapstructure")
			if !ok {
				continue
			}
			parts := strings.Split(tag, ",")
			name := parts[0]
			squash := false
			for _, o := range parts[1:] {
				if o == "squash" {
					squash = true
				}
			}
			if squash {
				ft := f.Type()
				if _, isPtr := ft.(*types.Pointer); isPtr {
					problems = append(problems, "squash on pointer field "+f.Name())
					continue
				}
				sub, ok := ft.Underlying().(*types.Struct)
				if !ok {
					// interface-typed squash (component.Config) is resolved at run time
					continue
				}
				sk, sp := effective(sub, depth+1)
				problems = append(problems, sp...)
				for k, from := range sk {
					if prev, dup := keys[k]; dup {
						problems = append(problems, fmt.Sprintf("key %q from %s and %s", k, prev, f.Name()+"."+from))
					}
					keys[k] = f.Name() + "." + from
				}
				continue
			}
			if name == "" || name == "-" {
				continue
			}
			if prev, dup := keys[name]; dup {
				problems = append(problems, fmt.Sprintf("key %q on %s and %s", name, prev, f.Name()))
			}
			keys[name] = f.Name()
		}
		return keys, problems
	}
	n := 0
	for _, pk := range p.Pkgs {
		if !strings.HasPrefix(pk.PkgPath, modPrefix) {
			continue
		}
		for _, nme := range pk.Types.Scope().Names() {
			tn, ok := pk.Types.Scope().Lookup(nme).(*types.TypeName)
			if !ok || tn.IsAlias() {
				continue
			}
			st, ok := tn.Type().Underlying().(*types.Struct)
			if !ok {
				continue
			}
			has := false
			for i := 0; i < st.NumFields(); i++ {
				if _, ok := reflect.StructTag(st.Tag(i)).Lookup("mapstructure"); ok {
					has = true
				}
			}
			if !has {
				continue
			}
			n++
			_, problems := effective(st, 0)
			c.Check(len(problems) == 0, "mapstructure keys of "+relPkg(pk.PkgPath)+"."+nme, p.Pos(tn.Pos()), "unique", strings.Join(problems, "; ")+": writing one setting changes a sibling setting / the embedded-Unmarshaler hook cannot address the field")
		}
	}
	if n < 60 {
		c.Undecided("tagged config structs", "-", fmt.Sprintf("%d found", n))
	}
}

// ---------- R5/R6 reference checks ----------

func runC13Refs(c *Ctx) {
	p := c.P
	c.Rule("R5", "GATE", "Config.Validate: the extension, receiver, processor and exporter reference loops return an error on the lookup-miss side; connector ids are checked against both exporters and receivers; the pipeline config rejects empty receivers/exporters and repeated processors", 7)
	m := p.LookupMethod("otelcol", "Config", "Validate")
	if m == nil {
		c.Anchor("otelcol.Config.Validate")
	} else {
		fn := p.SSAFunc(m)
		cfgT := p.LookupType("otelcol", "Config")
		// each Lookup on a component map inside a loop: the miss side must be able to reach an error return
		// before the next iteration, and must not fall through to `return nil` without it.
		type lk struct {
			field string
			in    ssa.Instruction
			miss  *ssa.BasicBlock
		}
		var lks []lk
		allInstrs(fn, func(in ssa.Instruction) {
			l, ok := in.(*ssa.Lookup)
			if !ok {
				return
			}
			_, path := fieldChain(l.X)
			if len(path) == 0 || namedOf(derefFieldOwner(l.X)) != cfgT {
				return
			}
			field := path[len(path)-1]
			// find the If testing this lookup (comma-ok or == nil)
			var iff *ssa.If
			missTrue := false
			allInstrs(fn, func(in2 ssa.Instruction) {
				i2, ok := in2.(*ssa.If)
				if !ok {
					return
				}
				v, _ := boolOf(Guard{Cond: i2.Cond, Branch: true})
				if ex, ok := v.(*ssa.Extract); ok && ex.Tuple == ssa.Value(l) && ex.Index == 1 {
					iff, missTrue = i2, false
				}
				if op, x, y, ok := cmpOf(Guard{Cond: i2.Cond, Branch: true}); ok && (op == token.EQL || op == token.NEQ) && (isNilConst(x) || isNilConst(y)) {
					o := x
					if isNilConst(x) {
						o = y
					}
					if o == ssa.Value(l) {
						iff, missTrue = i2, op == token.EQL
					}
				}
			})
			if iff == nil {
				return
			}
			ms := iff.Block().Succs[1]
			if missTrue {
				ms = iff.Block().Succs[0]
			}
			lks = append(lks, lk{field, in, ms})
		})
		want := map[string]int{}
		for _, l := range lks {
			want[l.field]++
		}
		// per-field expectation: Extensions ≥1, Processors ≥1, Receivers ≥2 (pipeline ref + connector ambiguity), Exporters ≥2, Connectors ≥2
		for _, f := range []struct {
			name string
			min  int
		}{{"Extensions", 1}, {"Processors", 1}, {"Receivers", 2}, {"Exporters", 2}, {"Connectors", 2}} {
			c.Check(want[f.name] >= f.min, "Config.Validate looks references up in "+f.name, p.Pos(fn.Pos()), fmt.Sprintf("%d lookups", want[f.name]), fmt.Sprintf("%d lookups (expected ≥ %d): a dangling or ambiguous reference is not detected", want[f.name], f.min))
		}
		// miss of the LAST alternative in each reference check must lead to an error return: for every loop containing
		// lookups, there is an error return inside the loop body reachable only when all lookups of that body missed.
		nerr := 0
		for _, r := range returnsOf(fn) {
			if isNilConst(resultsOf(r)[0]) {
				continue
			}
			// error returns leave the loop: count those dominated by a loop header
			for _, b := range fn.Blocks {
				if hh, _ := innermostLoop(b); hh == b && b.Dominates(r.Block()) {
					nerr++
					break
				}
			}
		}
		c.Check(nerr >= 6, "reference loops return errors", p.Pos(fn.Pos()), fmt.Sprintf("%d error returns inside loops", nerr), fmt.Sprintf("only %d error returns inside the reference loops (expected ≥ 6: extension, receiver, processor, exporter references and the two connector ambiguities)", nerr))
		// each miss side can reach an error return without leaving its loop; each hit side cannot reach that same return
		for i, l := range lks {
			h, body := innermostLoop(l.in.Block())
			if h == nil {
				continue
			}
			reaches := false
			_ = body
			for _, r := range returnsOf(fn) {
				if isNilConst(resultsOf(r)[0]) {
					continue
				}
				if l.miss == r.Block() || (len(l.miss.Instrs) > 0 && canReach(l.miss.Instrs[0], r, map[ssa.Instruction]bool{h.Instrs[0]: true})) {
					reaches = true
				}
			}
			isAmbig := l.field != "Connectors" && strings.Contains(fmt.Sprint(lookupKeyOrigin(l.in.(*ssa.Lookup))), "Connectors")
			if isAmbig {
				// ambiguity check: the HIT side errors
				continue
			}
			c.Check(reaches, fmt.Sprintf("lookup #%d in %s: a miss is reported", i+1, l.field), p.Pos(l.in.Pos()), "miss side reaches an error return within the iteration", "a reference that is not configured does not produce an error")
		}
		// no success return bypasses a reference check: every `return nil` is reachable from the entry only through
		// the (outermost) loop of every reference lookup
		seenHdr := map[*ssa.BasicBlock]bool{}
		for _, l := range lks {
			var outer *ssa.BasicBlock
			for _, b := range fn.Blocks {
				hh, body := innermostLoop(b)
				if hh != b || !body[l.in.Block()] {
					continue
				}
				if outer == nil || b.Dominates(outer) {
					outer = b
				}
			}
			if outer == nil || seenHdr[outer] {
				continue
			}
			seenHdr[outer] = true
			bypass := ""
			for _, r := range returnsOf(fn) {
				if !isNilConst(resultsOf(r)[0]) {
					continue
				}
				e := entryInstr(fn)
				if e != nil && canReach(e, r, map[ssa.Instruction]bool{outer.Instrs[0]: true}) {
					bypass = p.Pos(r.Pos())
				}
			}
			c.Check(bypass == "", fmt.Sprintf("no successful return of Config.Validate bypasses the reference check on %s (loop #%d)", l.field, len(seenHdr)), p.Pos(l.in.Pos()), "every `return nil` lies behind the loop", "the success return at "+bypass+" can be reached without running this reference check: under that condition (e.g. a feature gate and an empty pipeline list) a dangling or ambiguous reference is accepted silently")
		}
	}
	// pipelines config
	if pm := p.LookupMethod("service/pipelines", "PipelineConfig", "Validate"); pm != nil {
		fn := p.SSAFunc(pm)
		empties := 0
		dup := false
		allInstrs(fn, func(in ssa.Instruction) {
			iff, ok := in.(*ssa.If)
			if !ok {
				return
			}
			op, x, y, ok := cmpOf(Guard{Cond: iff.Cond, Branch: true})
			if ok && op == token.EQL {
				if k, isC := constInt(y); isC && k == 0 {
					if call, ok := x.(*ssa.Call); ok && builtinName(call) == "len" {
						if _, path := fieldChain(call.Call.Args[0]); len(path) > 0 && (path[len(path)-1] == "Receivers" || path[len(path)-1] == "Exporters") {
							if r, ok := iff.Block().Succs[0].Instrs[len(iff.Block().Succs[0].Instrs)-1].(*ssa.Return); ok && !isNilConst(resultsOf(r)[0]) {
								empties++
							}
						}
					}
				}
			}
			// duplicate processor: comma-ok lookup in a local set on the hit side returns an error
			v, _ := boolOf(Guard{Cond: iff.Cond, Branch: true})
			if ex, ok := v.(*ssa.Extract); ok && ex.Index == 1 {
				if lk, ok := ex.Tuple.(*ssa.Lookup); ok {
					if _, isMk := strip(lk.X).(*ssa.MakeMap); isMk {
						for _, in2 := range iff.Block().Succs[0].Instrs {
							if r, ok := in2.(*ssa.Return); ok && !isNilConst(resultsOf(r)[0]) {
								dup = true
							}
						}
					}
				}
			}
		})
		c.Check(empties >= 2 && dup, "pipeline shape checks", p.Pos(fn.Pos()), "empty receivers, empty exporters and repeated processors are rejected", fmt.Sprintf("empty-list rejections=%d (need 2), repeated-processor rejection=%v", empties, dup))
	} else {
		c.Anchor("pipelines.PipelineConfig.Validate")
	}

	// R6 effective config
	c.Rule("R6", "PROV", "the CollectorConf handed to the service (and on to ConfigWatcher extensions) is a Conf into which the loaded configuration was marshalled", 1)
	if opk := p.ByPath[pkgOtelcol]; opk != nil {
		found := false
		for _, fn := range p.AllSrcFuncs(opk) {
			nw := callsNamed(fn, func(f *types.Func) bool { return isFunc(f, pkgService, "New") })
			if len(nw) != 1 {
				continue
			}
			found = true
			ms := callsNamed(fn, func(f *types.Func) bool { return isMethod(f, pkgConfmap, "Conf", "Marshal") })
			ok := false
			if len(ms) == 1 {
				confV := ms[0].Common().Args[0]
				// the marshalled value derives from the configuration provider's result; the same Conf is stored in Settings.CollectorConf
				fromGet := sliceHasCall(ms[0].Common().Args[1], func(f *types.Func) bool { return isMethod(f, pkgOtelcol, "ConfigProvider", "Get") })
				stored := false
				allInstrs(fn, func(in ssa.Instruction) {
					if s, isS := in.(*ssa.Store); isS {
						if fa, isFA := s.Addr.(*ssa.FieldAddr); isFA && derefStruct(fa.X.Type()).Field(fa.Field).Name() == "CollectorConf" && sameValue(s.Val, confV) {
							stored = true
						}
					}
				})
				gated := errGuardOn(nw[0].Block(), ms[0], true)
				ok = fromGet && stored && gated
			}
			c.Check(ok, "effective configuration is the marshalled loaded configuration", p.Pos(nw[0].Pos()), "conf.Marshal(cfg) ≺ service.New(CollectorConf: conf)", "the configuration shown to extensions is not the marshalled loaded configuration")
		}
		if !found {
			c.Anchor("otelcol set-up (service.New)")
		}
	}
}

func derefFieldOwner(v ssa.Value) types.Type {
	v = strip(v)
	if u, ok := v.(*ssa.UnOp); ok {
		v = u.X
	}
	switch x := v.(type) {
	case *ssa.FieldAddr:
		return x.X.Type()
	case *ssa.Field:
		return x.X.Type()
	}
	return nil
}

func lookupKeyOrigin(l *ssa.Lookup) []string {
	var out []string
	for v := range backSlice(l.Index) {
		if fa, ok := v.(*ssa.FieldAddr); ok {
			out = append(out, derefStruct(fa.X.Type()).Field(fa.Field).Name())
		}
	}
	sort.Strings(out)
	return out
}

// ---------- R7 fresh defaults ----------

func runC13Defaults(c *Ctx) {
	p := c.P
	c.Rule("R7", "PROV", "default-configuration functions return freshly built values: nothing is copied out of a package-level variable that holds maps, slices or pointers", 8)
	n := 0
	for _, pk := range p.Pkgs {
		if !strings.HasPrefix(pk.PkgPath, modPrefix) || strings.Contains(pk.PkgPath, "test") {
			continue
		}
		for _, fn := range p.AllSrcFuncs(pk) {
			if fn.Parent() != nil {
				continue
			}
			nm := fn.Name()
			if !(strings.EqualFold(nm, "createDefaultConfig") || strings.HasPrefix(nm, "NewDefault") && strings.HasSuffix(nm, "Config")) {
				continue
			}
			n++
			shared := ""
			for _, r := range returnsOf(fn) {
				for _, res := range resultsOf(r) {
					for v := range backSlice(res) {
						u, ok := v.(*ssa.UnOp)
						if !ok || u.Op != token.MUL {
							continue
						}
						g, ok := u.X.(*ssa.Global)
						if !ok || g.Pkg == nil || !strings.HasPrefix(g.Pkg.Pkg.Path(), modPrefix) {
							continue
						}
						if holdsRefs(g.Type().(*types.Pointer).Elem(), 0) {
							shared = g.Name()
						}
					}
				}
			}
			c.Check(shared == "", "fresh defaults from "+fnName(fn), p.Pos(fn.Pos()), "no package-level reference data", "the default configuration is copied from package variable "+shared+", which holds maps/slices/pointers: all instances (and reloads) share and mutate the same default data, so one component's written settings appear in another's configuration")
		}
	}
	if n < 8 {
		c.Undecided("default-config functions", "-", fmt.Sprintf("%d found", n))
	}
}

func holdsRefs(t types.Type, depth int) bool {
	if depth > 4 {
		return false
	}
	switch u := t.Underlying().(type) {
	case *types.Map, *types.Slice, *types.Pointer, *types.Chan:
		return true
	case *types.Struct:
		for i := 0; i < u.NumFields(); i++ {
			if holdsRefs(u.Field(i).Type(), depth+1) {
				return true
			}
		}
	case *types.Array:
		return holdsRefs(u.Elem(), depth+1)
	}
	return false
}
