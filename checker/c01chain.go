package main

import (
	"go/token"
	"go/types"

	"golang.org/x/tools/go/ssa"
)

// isSendLike: invoke of sender.Sender.Send, or a dynamic call of a value of named type
// sender.SendFunc (also generic instantiations).
func isSendLike(ci ssa.CallInstruction) bool {
	cc := ci.Common()
	if cc.IsInvoke() {
		if cc.Method.Name() == "Send" && cc.Method.Pkg() != nil && cc.Method.Pkg().Path() == pkgSender {
			return true
		}
		return false
	}
	if _, isFn := cc.Value.(*ssa.Function); isFn {
		return false
	}
	if _, isB := cc.Value.(*ssa.Builtin); isB {
		return false
	}
	if n := namedOf(cc.Value.Type()); n != nil && n.Obj().Pkg() != nil && n.Obj().Pkg().Path() == pkgSender && n.Obj().Name() == "SendFunc" {
		return true
	}
	return false
}

var errorType = types.Universe.Lookup("error").Type()

func isErrorType(t types.Type) bool { return types.Identical(t, errorType) }

func runC01Chain(c *Ctx, a *pqAnchors) {
	p := c.P
	c.Rule("R5", "TAB+CHAIN", "the retry sender's stop-channel branch returns experr.NewShutdownErr(last error); every function between the retry sender and Done.OnDone forwards the error value itself or wraps it chain-preservingly (%w, multierr, errors.Join) so that IsShutdownErr still recognises it in the queue's completion callback", 10)
	ipk := p.ByPath[pkgEHI]
	if ipk == nil {
		c.Anchor("package exporterhelper/internal")
		return
	}
	// retry sender: struct with configretry.BackOffConfig field and a chan struct{} field
	var retryT *types.Named
	var stopField string
	for _, n := range ipk.Types.Scope().Names() {
		tn, ok := ipk.Types.Scope().Lookup(n).(*types.TypeName)
		if !ok {
			continue
		}
		st, ok := tn.Type().Underlying().(*types.Struct)
		if !ok {
			continue
		}
		hasCfg := false
		ch := ""
		for i := 0; i < st.NumFields(); i++ {
			if typeIs(st.Field(i).Type(), modPrefix+"/config/configretry", "BackOffConfig") {
				hasCfg = true
			}
			if _, ok := st.Field(i).Type().Underlying().(*types.Chan); ok {
				ch = st.Field(i).Name()
			}
		}
		if hasCfg && ch != "" {
			retryT, _ = tn.Type().(*types.Named)
			stopField = ch
		}
	}
	if retryT == nil {
		c.Anchor("retry sender struct (BackOffConfig + stop channel)")
		return
	}
	var send *ssa.Function
	for _, fn := range p.AllSrcFuncs(ipk) {
		if fn.Parent() == nil && fn.Name() == "Send" && recvNamedOfFn(fn) == retryT {
			send = fn
		}
	}
	if send == nil {
		c.Anchor("retry sender Send")
		return
	}
	// source: result of next.Send
	var sendCalls []ssa.CallInstruction
	allInstrs(send, func(in ssa.Instruction) {
		if ci, ok := in.(ssa.CallInstruction); ok && isSendLike(ci) {
			sendCalls = append(sendCalls, ci)
		}
	})
	isSrc := func(calls []ssa.CallInstruction, params bool) func(ssa.Value) bool {
		return func(v ssa.Value) bool {
			for _, sc := range calls {
				if cv, ok := sc.(ssa.Value); ok && (v == cv) {
					return true
				}
				if ex, ok := v.(*ssa.Extract); ok {
					if cv, ok := sc.(ssa.Value); ok && ex.Tuple == cv {
						return true
					}
				}
			}
			if params {
				if pa, ok := v.(*ssa.Parameter); ok && isErrorType(pa.Type()) {
					return true
				}
			}
			return false
		}
	}
	// select stop case. The wait may live in Send itself or in a same-package helper that Send calls: the stop
	// case's returns are then the helper's, the "last error" is the helper's parameter that receives it, and Send
	// has to return what the helper returned.
	ws := findWaitSiteA3(send)
	if ws == nil {
		c.Bad("retry wait select", p.Pos(send.Pos()), "the retry wait has no select: shutdown cannot interrupt a back-off")
	} else {
		sel := ws.sel
		stopIdx := -1
		for i, st := range sel.States {
			if st.Dir == types.RecvOnly && (isFieldAccess(st.Chan, retryT, stopField) || isFieldAccess(ws.toOuter(st.Chan), retryT, stopField)) {
				stopIdx = i
			}
		}
		if stopIdx < 0 {
			c.Bad("retry wait: stop-channel case", p.Pos(sel.Pos()), "the wait select has no case on the stop channel")
		} else {
			// the last attempt's error, as seen inside the function that contains the select
			lastErr := isSrc(sendCalls, false)
			if ws.call != nil {
				lastErr = func(v ssa.Value) bool {
					if _, isP := v.(*ssa.Parameter); !isP {
						return false
					}
					o := ws.toOuter(v)
					if o == v {
						return false
					}
					ok, _ := errChainReaches(o, isSrc(sendCalls, false), nil)
					return ok
				}
			}
			// blocks guarded by index == stopIdx
			n := 0
			for _, r := range returnsOf(ws.fn) {
				for _, g := range guardsOf(r.Block()) {
					op, x, y, ok := cmpOf(g)
					if !ok || op != token.EQL {
						continue
					}
					ex, isEx := x.(*ssa.Extract)
					k, isC := constInt(y)
					if !isEx || !isC || ex.Tuple != sel || ex.Index != 0 || int(k) != stopIdx {
						continue
					}
					// not also guarded by an earlier index (nested else-if chain): fine
					n++
					// the returned error keeps a NewShutdownErr(last error) in its chain (directly or wrapped
					// chain-preservingly: IsShutdownErr matches with errors.As)
					var res ssa.Value
					for _, rv := range resultsOf(r) {
						if isErrorType(rv.Type()) || isNilConst(rv) {
							res = rv
						}
					}
					okShut := false
					if res != nil {
						okShut, _ = errChainReaches(res, func(v ssa.Value) bool {
							call, ok := v.(*ssa.Call)
							if !ok || !isFunc(calleeOf(call), pkgExperr, "NewShutdownErr") {
								return false
							}
							ok2, _ := errChainReaches(call.Call.Args[0], lastErr, nil)
							return ok2
						}, nil)
					}
					c.Check(okShut, "retry wait: stop-channel case returns a shutdown-classified error", p.Pos(r.Pos()), "returns experr.NewShutdownErr(err of the last attempt)", "a retry wait interrupted by shutdown does not return experr.NewShutdownErr(err): the persistent queue would delete the request")
				}
			}
			if n == 0 {
				c.Bad("retry wait: stop-channel case returns", p.Pos(sel.Pos()), "no return under the stop-channel case: shutdown does not end the wait")
			}
			if ws.call != nil {
				// Send gives its caller what the interrupted wait returned: every return Send can reach after a
				// failed (non-nil) wait without another attempt keeps the chain of the wait's error
				classes := make([]int, ws.fn.Signature.Results().Len())
				for i := range classes {
					classes[i] = resNonZeroA3
				}
				avoid := map[ssa.Instruction]bool{}
				for _, sc := range sendCalls {
					avoid[sc.(ssa.Instruction)] = true
				}
				okFwd, nFwd := true, 0
				for _, r := range returnsOf(send) {
					if !canReachEdgesA3(ws.call.(ssa.Instruction), r, avoid, edgesAssumingResultA3(ws.call, classes)) {
						continue
					}
					nFwd++
					for _, rv := range resultsOf(r) {
						if !isErrorType(rv.Type()) {
							continue
						}
						if ok, _ := errChainReaches(rv, func(v ssa.Value) bool { return resultIndexA3(v, ws.call) >= 0 }, nil); !ok {
							okFwd = false
						}
					}
				}
				c.Check(okFwd && nFwd > 0, "retry wait: Send returns the error of the interrupted wait", p.Pos(ws.call.Pos()), "the wait helper's error is returned chain-preservingly", "the error returned by the wait helper (which carries the shutdown classification) is not what Send returns")
			}
		}
	}
	// IsShutdownErr recognises the wrapper through the chain: uses errors.As
	if f := p.LookupFunc(relPkg(pkgExperr), "IsShutdownErr"); f != nil {
		fn := p.SSAFunc(f)
		usesAs := len(callsNamed(fn, func(g *types.Func) bool { return g.FullName() == "errors.As" })) > 0
		c.Check(usesAs, "IsShutdownErr matches through the error chain", p.Pos(fn.Pos()), "errors.As", "IsShutdownErr does not use errors.As: a wrapped shutdown error would not be recognised")
	} else {
		c.Anchor("experr.IsShutdownErr")
	}
	if f := p.LookupType(relPkg(pkgExperr), "shutdownErr"); f != nil {
		hasUnwrap := false
		for i := 0; i < f.NumMethods(); i++ {
			if f.Method(i).Name() == "Unwrap" {
				hasUnwrap = true
			}
		}
		c.Check(hasUnwrap, "shutdown error type keeps the chain (Unwrap)", "-", "has Unwrap", "shutdownErr has no Unwrap")
	}

	// chain functions: every function in exporterhelper/internal and queuebatch that contains a
	// send-like call: each error Return must chain-reach the send result; every OnDone argument
	// must chain-reach a send result / error parameter / MergeSplit error.
	var fns []*ssa.Function
	fns = append(fns, p.AllSrcFuncs(ipk)...)
	fns = append(fns, p.AllSrcFuncs(a.pk)...)
	for _, fn := range fns {
		var sc []ssa.CallInstruction
		var ms []ssa.CallInstruction
		allInstrs(fn, func(in ssa.Instruction) {
			if ci, ok := in.(ssa.CallInstruction); ok {
				if isSendLike(ci) {
					sc = append(sc, ci)
				}
				if ci.Common().IsInvoke() && ci.Common().Method.Name() == "MergeSplit" {
					ms = append(ms, ci)
				}
			}
		})
		if len(sc) > 0 {
			for _, r := range returnsOf(fn) {
				for _, res := range resultsOf(r) {
					if !isErrorType(res.Type()) || isNilConst(res) {
						continue
					}
					ok, why := errChainReaches(res, isSrc(sc, false), nil)
					c.Check(ok, "error return of "+fnName(fn)+" keeps the chain of the send error", p.Pos(r.Pos()), "identity or chain-preserving wrap", why)
				}
			}
		}
		// OnDone sinks
		allInstrs(fn, func(in ssa.Instruction) {
			ci, ok := in.(ssa.CallInstruction)
			if !ok || !ci.Common().IsInvoke() || ci.Common().Method.Name() != "OnDone" {
				return
			}
			arg := ci.Common().Args[0]
			if isNilConst(arg) {
				return
			}
			all := append(append([]ssa.CallInstruction{}, sc...), ms...)
			ok2, why := errChainReaches(arg, isSrc(all, true), nil)
			c.Check(ok2, "OnDone argument in "+fnName(fn)+" keeps the error chain", p.Pos(ci.Pos()), "send result / parameter forwarded chain-preservingly", why)
		})
	}
}
