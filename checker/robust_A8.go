package main

// Helpers that make rules robust against behaviour-preserving rewrites: anchors found by type, struct tag
// or effect instead of by unexported name; facts followed across same-package helper calls (a wrapper is
// the call when the call is in it), guards looked at through boolean helpers, callers of a helper looked
// at for the guard that the helper's body no longer carries.

import (
	"fmt"
	"go/token"
	"go/types"
	"os"
	"reflect"
	"strings"

	"golang.org/x/tools/go/packages"
	"golang.org/x/tools/go/ssa"
)

// a8dbg prints to stderr when A8DBG is set (development aid).
func a8dbg(format string, a ...any) {
	if os.Getenv("A8DBG") != "" {
		fmt.Fprintf(os.Stderr, "A8DBG "+format+"\n", a...)
	}
}

// ---------- anchors by shape ----------

// structFieldIndex returns the index of the only field of T for which pred holds (-1: none or several).
func structFieldIndex(T *types.Named, pred func(f *types.Var) bool) int {
	if T == nil {
		return -1
	}
	st, ok := T.Underlying().(*types.Struct)
	if !ok {
		return -1
	}
	idx := -1
	for i := 0; i < st.NumFields(); i++ {
		if pred(st.Field(i)) {
			if idx >= 0 {
				return -1
			}
			idx = i
		}
	}
	return idx
}

func structFieldName(T *types.Named, idx int) string {
	if T == nil || idx < 0 {
		return ""
	}
	st, ok := T.Underlying().(*types.Struct)
	if !ok || idx >= st.NumFields() {
		return ""
	}
	return st.Field(idx).Name()
}

// structTypesOf lists the named struct types declared in a package (generic origins), in name order.
func structTypesOf(pk *packages.Package) []*types.Named {
	var out []*types.Named
	if pk == nil || pk.Types == nil {
		return nil
	}
	sc := pk.Types.Scope()
	for _, name := range sc.Names() {
		tn, ok := sc.Lookup(name).(*types.TypeName)
		if !ok || tn.IsAlias() {
			continue
		}
		n, ok := tn.Type().(*types.Named)
		if !ok {
			continue
		}
		if _, isStruct := n.Underlying().(*types.Struct); isStruct {
			out = append(out, n.Origin())
		}
	}
	return out
}

// structTypeWith returns the only struct type of the package having a field for which pred holds.
func structTypeWith(pk *packages.Package, pred func(f *types.Var) bool) *types.Named {
	var found *types.Named
	for _, n := range structTypesOf(pk) {
		st := n.Underlying().(*types.Struct)
		for i := 0; i < st.NumFields(); i++ {
			if pred(st.Field(i)) {
				if found != nil && found != n {
					return nil
				}
				found = n
				break
			}
		}
	}
	return found
}

func isPtrTo(t types.Type, pkgPath, name string) bool {
	p, ok := types.Unalias(t).(*types.Pointer)
	return ok && typeIs(p.Elem(), pkgPath, name) && !isPtr(p.Elem())
}

func isPtr(t types.Type) bool {
	_, ok := types.Unalias(t).(*types.Pointer)
	return ok
}

// isValueOf: t is exactly the named type pkgPath.name (not a pointer to it).
func isValueOf(t types.Type, pkgPath, name string) bool {
	return !isPtr(t) && typeIs(t, pkgPath, name)
}

// fieldWithTag returns the index of the field of struct type T whose tag has key:"value" (value up to a comma).
func fieldWithTag(T *types.Named, key, value string) int {
	if T == nil {
		return -1
	}
	st, ok := T.Underlying().(*types.Struct)
	if !ok {
		return -1
	}
	for i := 0; i < st.NumFields(); i++ {
		v := reflect.StructTag(st.Tag(i)).Get(key)
		if j := strings.Index(v, ","); j >= 0 {
			v = v[:j]
		}
		if v == value {
			return i
		}
	}
	return -1
}

// fieldFedBy returns the field of owner that some function among funcs stores a value into which derives from
// a load of field srcIdx of srcT (e.g. the unexported copy of a configuration setting). -1 if none or ambiguous.
func fieldFedBy(funcs []*ssa.Function, owner *types.Named, srcT *types.Named, srcIdx int) int {
	if owner == nil || srcT == nil || srcIdx < 0 {
		return -1
	}
	isSrc := func(v ssa.Value) bool {
		switch y := v.(type) {
		case *ssa.FieldAddr:
			return namedOf(y.X.Type()) == srcT && y.Field == srcIdx
		case *ssa.Field:
			return namedOf(y.X.Type()) == srcT && y.Field == srcIdx
		}
		return false
	}
	// direct: the stored value is the setting itself, possibly converted; derived: the setting is somewhere in the slice
	direct, derived := -1, -1
	note := func(cur *int, f int) {
		if *cur >= 0 && *cur != f {
			*cur = -2
		} else if *cur != -2 {
			*cur = f
		}
	}
	for _, fn := range funcs {
		allInstrs(fn, func(in ssa.Instruction) {
			s, ok := in.(*ssa.Store)
			if !ok {
				return
			}
			fa, ok := s.Addr.(*ssa.FieldAddr)
			if !ok || namedOf(fa.X.Type()) != owner {
				return
			}
			v := s.Val
			for {
				switch y := v.(type) {
				case *ssa.Convert:
					v = y.X
					continue
				case *ssa.ChangeType:
					v = y.X
					continue
				}
				break
			}
			if u, ok := v.(*ssa.UnOp); ok && u.Op == token.MUL {
				v = u.X
			}
			if isSrc(v) {
				note(&direct, fa.Field)
			}
			for w := range backSlice(s.Val) {
				if isSrc(w) {
					note(&derived, fa.Field)
				}
			}
		})
	}
	if direct >= 0 {
		return direct
	}
	if direct == -1 && derived >= 0 {
		return derived
	}
	return -1
}

// isFieldIdx: v is (a load of) field idx of T.
func isFieldIdx(v ssa.Value, T *types.Named, idx int) bool {
	if T == nil || idx < 0 {
		return false
	}
	v = strip(v)
	if u, ok := v.(*ssa.UnOp); ok && u.Op == token.MUL {
		v = u.X
	}
	switch fa := v.(type) {
	case *ssa.FieldAddr:
		return fa.Field == idx && namedOf(fa.X.Type()) == T.Origin()
	case *ssa.Field:
		return fa.Field == idx && namedOf(fa.X.Type()) == T.Origin()
	}
	return false
}

// ---------- whole-program call index ----------

type callIndexA8 struct {
	sites   map[*ssa.Function][]ssa.CallInstruction // static call / go / defer sites by (origin) callee
	asValue map[*ssa.Function]bool                  // the function is also used as a value (bound method, argument, stored)
}

var (
	callIndexProg *Prog
	callIndexVal  *callIndexA8
)

// callIndexOf indexes every static call site in the collector's packages.
func callIndexOf(p *Prog) *callIndexA8 {
	if callIndexProg == p && callIndexVal != nil {
		return callIndexVal
	}
	ix := &callIndexA8{sites: map[*ssa.Function][]ssa.CallInstruction{}, asValue: map[*ssa.Function]bool{}}
	var pkgs []*packages.Package
	for _, pk := range p.Pkgs {
		if strings.HasPrefix(pk.PkgPath, modPrefix) {
			pkgs = append(pkgs, pk)
		}
	}
	markValue := func(f *ssa.Function) {
		if f == nil {
			return
		}
		if f.Synthetic != "" && f.Parent() == nil && len(f.Blocks) > 0 {
			// bound-method closure / thunk: the method it forwards to is what escapes
			allInstrs(f, func(in ssa.Instruction) {
				if ci, ok := in.(ssa.CallInstruction); ok {
					if cf := staticCalleeFn(ci); cf != nil {
						ix.asValue[originFn(cf)] = true
					}
				}
			})
			return
		}
		ix.asValue[originFn(f)] = true
	}
	for _, fn := range p.AllSrcFuncs(pkgs...) {
		allInstrs(fn, func(in ssa.Instruction) {
			var callee ssa.Value
			if ci, ok := in.(ssa.CallInstruction); ok {
				callee = ci.Common().Value
				if !ci.Common().IsInvoke() {
					if cf := staticCalleeFn(ci); cf != nil {
						ix.sites[originFn(cf)] = append(ix.sites[originFn(cf)], ci)
					}
				}
			}
			for _, op := range in.Operands(nil) {
				if *op == nil || *op == callee {
					continue
				}
				switch f := (*op).(type) {
				case *ssa.Function:
					if _, isMC := in.(*ssa.MakeClosure); isMC && f.Parent() != nil {
						continue // an ordinary closure being made; its uses are the MakeClosure's referrers
					}
					markValue(f)
				}
			}
		})
	}
	callIndexProg, callIndexVal = p, ix
	return ix
}

// closureUses: the instructions that use the closure value of anonymous function fn.
func closureUses(fn *ssa.Function) []ssa.Instruction {
	var out []ssa.Instruction
	if fn.Parent() == nil {
		return nil
	}
	allInstrs(fn.Parent(), func(in ssa.Instruction) {
		if mc, ok := in.(*ssa.MakeClosure); ok && mc.Fn == ssa.Value(fn) {
			if mc.Referrers() != nil {
				out = append(out, *mc.Referrers()...)
			}
		}
		if ci, ok := in.(ssa.CallInstruction); ok && ci.Common().Value == ssa.Value(fn) {
			out = append(out, in)
		}
	})
	return out
}

// useSitesOf returns the call/go/defer instructions that run fn and whether every use of fn is such a site
// (closed = nothing else can run it: it is not exported, not used as a value, not called dynamically).
func useSitesOf(p *Prog, fn *ssa.Function) (sites []ssa.CallInstruction, closed bool) {
	closed = true
	if fn.Parent() != nil {
		for _, u := range closureUses(fn) {
			ci, ok := u.(ssa.CallInstruction)
			if ok && closureIsCallee(ci, fn) {
				sites = append(sites, ci)
			} else {
				closed = false
			}
		}
		return sites, closed
	}
	ix := callIndexOf(p)
	fn = originFn(fn)
	sites = ix.sites[fn]
	if ix.asValue[fn] {
		closed = false
	}
	if obj, ok := fn.Object().(*types.Func); ok && obj.Exported() {
		// an exported method can be called by anybody, also through an interface
		closed = false
	}
	return sites, closed
}

func closureIsCallee(ci ssa.CallInstruction, fn *ssa.Function) bool {
	switch v := ci.Common().Value.(type) {
	case *ssa.MakeClosure:
		return v.Fn == ssa.Value(fn)
	case *ssa.Function:
		return v == fn
	}
	return false
}

// guardedDeep: instruction in executes only where pred holds for one of its guards – in its own function, or, when
// its function is closed (see useSitesOf) and every site that runs it is a plain call, at every one of those sites.
func guardedDeep(p *Prog, in ssa.Instruction, pred func(Guard) bool, depth int) bool {
	for _, g := range guardsOf(in.Block()) {
		if pred(g) {
			return true
		}
	}
	if depth <= 0 {
		return false
	}
	fn := in.Parent()
	sites, closed := useSitesOf(p, fn)
	if !closed || len(sites) == 0 {
		return false
	}
	for _, s := range sites {
		if _, isCall := s.(*ssa.Call); !isCall {
			return false
		}
		if !guardedDeep(p, s, pred, depth-1) {
			return false
		}
	}
	return true
}

// ---------- effects followed into same-package helpers ----------

// deepSite: an effect of root function fn – the instruction itself, or a chain of calls of same-package
// functions that leads to it (Chain[0] is in fn, the last element is the effect).
type deepSite struct {
	Chain []ssa.Instruction
}

func (s deepSite) Top() ssa.Instruction  { return s.Chain[0] }
func (s deepSite) Leaf() ssa.Instruction { return s.Chain[len(s.Chain)-1] }

// deepSites finds the instructions satisfying pred in fn and, through plain calls (not go, not defer), in the
// same-package functions it calls, up to the given depth.
func deepSites(fn *ssa.Function, pred func(ssa.Instruction) bool, depth int) []deepSite {
	var out []deepSite
	var walk func(f *ssa.Function, prefix []ssa.Instruction, d int, onStack map[*ssa.Function]bool)
	walk = func(f *ssa.Function, prefix []ssa.Instruction, d int, onStack map[*ssa.Function]bool) {
		allInstrs(f, func(in ssa.Instruction) {
			if pred(in) {
				out = append(out, deepSite{Chain: append(append([]ssa.Instruction(nil), prefix...), in)})
				return
			}
			call, ok := in.(*ssa.Call)
			if !ok || d <= 0 {
				return
			}
			cf := staticCalleeFn(call)
			if cf == nil || len(cf.Blocks) == 0 || onStack[cf] || !samePackageFn(cf, fn) {
				return
			}
			onStack[cf] = true
			walk(cf, append(append([]ssa.Instruction(nil), prefix...), in), d-1, onStack)
			delete(onStack, cf)
		})
	}
	walk(fn, nil, depth, map[*ssa.Function]bool{fn: true})
	return out
}

func pkgOfFn(fn *ssa.Function) *ssa.Package {
	for f := fn; f != nil; f = f.Parent() {
		if f.Pkg != nil {
			return f.Pkg
		}
		if o := f.Origin(); o != nil && o.Pkg != nil {
			return o.Pkg
		}
	}
	return nil
}

func samePackageFn(a, b *ssa.Function) bool {
	pa, pb := pkgOfFn(a), pkgOfFn(b)
	return pa != nil && pa == pb
}

// deepGuards: the guards of every level of the chain (the call in fn, the call inside the helper, … the effect).
func deepGuards(s deepSite) []Guard {
	var out []Guard
	for _, in := range s.Chain {
		out = append(out, guardsOf(in.Block())...)
	}
	return out
}

// deepBefore: effect a always comes before effect b and never after it, judged at the first level at which their
// chains part.
func deepBefore(a, b deepSite) bool {
	i := 0
	for i < len(a.Chain)-1 && i < len(b.Chain)-1 && a.Chain[i] == b.Chain[i] {
		i++
	}
	x, y := a.Chain[i], b.Chain[i]
	if x == y {
		return false
	}
	return canReach(x, y, nil) && !canReach(y, x, nil)
}

// ---------- values followed across calls ----------

// backSliceDeep: backSlice that continues from a parameter of a closed function (see useSitesOf) to the
// corresponding argument at every call site, and from the result of a same-package call into the callee's returns.
func backSliceDeep(p *Prog, v ssa.Value, depth int) map[ssa.Value]bool {
	out := map[ssa.Value]bool{}
	var walk func(v ssa.Value, d int)
	walk = func(v ssa.Value, d int) {
		for x := range backSlice(v) {
			if out[x] {
				continue
			}
			out[x] = true
			if d <= 0 {
				continue
			}
			switch y := x.(type) {
			case *ssa.Parameter:
				fn := y.Parent()
				idx := -1
				for i, pp := range fn.Params {
					if pp == y {
						idx = i
					}
				}
				sites, _ := useSitesOf(p, fn)
				for _, s := range sites {
					args := s.Common().Args
					if idx >= 0 && idx < len(args) {
						walk(args[idx], d-1)
					}
				}
			case *ssa.Call:
				cf := staticCalleeFn(y)
				if cf == nil || len(cf.Blocks) == 0 || !samePackageFn(cf, y.Parent()) {
					continue
				}
				for _, r := range returnsOf(cf) {
					for _, res := range resultsOf(r) {
						walk(res, d-1)
					}
				}
			}
		}
	}
	walk(v, depth)
	return out
}

// confinedToGuardedGoroutine: fn runs only as the body of goroutines whose go statement executes where pred holds
// (see guardedDeep), or is only called from functions of which that is true. Nothing else can run fn: it is closed
// (see useSitesOf).
func confinedToGuardedGoroutine(p *Prog, fn *ssa.Function, pred func(Guard) bool, depth int) bool {
	sites, closed := useSitesOf(p, fn)
	if !closed || len(sites) == 0 {
		return false
	}
	for _, s := range sites {
		switch s.(type) {
		case *ssa.Go:
			if !guardedDeep(p, s, pred, 2) {
				return false
			}
		case *ssa.Call:
			if depth <= 0 || !confinedToGuardedGoroutine(p, s.Parent(), pred, depth-1) {
				return false
			}
		default:
			return false
		}
	}
	return true
}

// c17SplitHelpers: the package-level functions (no receiver) that are reached by static calls from the `split` methods
// of the pending-batch implementations (recognised by signature, see batchMethodKind).
func c17SplitHelpers(funcs []*ssa.Function) map[*ssa.Function]bool {
	out := map[*ssa.Function]bool{}
	inSet := map[*ssa.Function]bool{}
	for _, fn := range funcs {
		inSet[fn] = true
	}
	var visit func(fn *ssa.Function, d int)
	visit = func(fn *ssa.Function, d int) {
		if d > 6 {
			return
		}
		for _, f := range withAnon(fn) {
			allInstrs(f, func(in ssa.Instruction) {
				ci, ok := in.(ssa.CallInstruction)
				if !ok {
					return
				}
				cf := staticCalleeFn(ci)
				if cf == nil || !inSet[cf] || cf.Parent() != nil || recvNamedOfFn(cf) != nil || out[cf] {
					return
				}
				out[cf] = true
				visit(cf, d+1)
			})
		}
	}
	for _, fn := range funcs {
		if fn.Parent() == nil && recvNamedOfFn(fn) != nil && funcObj(fn) != nil && batchMethodKind(funcObj(fn)) == "split" {
			visit(fn, 0)
		}
	}
	return out
}
