package main

import (
	"encoding/json"
	"fmt"
	"os"
	"os/exec"
	"path/filepath"
	"sort"
	"strings"
	"sync"
)

// Mutant is a seeded edit applied in memory (packages overlay); nothing on disk changes.
type Mutant struct {
	Name  string `json:"name"`
	File  string `json:"file"` // repo-relative
	Old   string `json:"old"`
	New   string `json:"new"`
	Edits []struct {
		File string `json:"file"`
		Old  string `json:"old"`
		New  string `json:"new"`
	} `json:"edits,omitempty"`
	Patch  string `json:"patch,omitempty"` // unified diff (path relative to the mutant file or absolute) applied in memory
	Expect string `json:"expect"`          // "catch" | "silent"
	Rule   string `json:"rule,omitempty"`  // rule expected to report (prefix match), for catch
	Why    string `json:"why,omitempty"`
}

func loadMutants(verifDir, prop string) ([]string, error) {
	var out []string
	dir := filepath.Join(verifDir, "mutants", prop)
	ents, err := os.ReadDir(dir)
	if err != nil && !os.IsNotExist(err) {
		return nil, err
	}
	for _, e := range ents {
		if strings.HasSuffix(e.Name(), ".json") {
			out = append(out, filepath.Join(dir, e.Name()))
		}
	}
	// seeded changes confirmed in a scratch worktree (/verif/seeded/<id>/{patch.diff,meta.json}): those that the
	// checks of this property are recorded to catch are replayed as in-memory overlays
	sdir := filepath.Join(verifDir, "seeded")
	sents, _ := os.ReadDir(sdir)
	for _, e := range sents {
		mf := filepath.Join(sdir, e.Name(), "meta.json")
		data, err := os.ReadFile(mf)
		if err != nil {
			continue
		}
		var meta struct {
			CaughtBy []string `json:"caught_by"`
		}
		if json.Unmarshal(data, &meta) != nil {
			continue
		}
		for _, r := range meta.CaughtBy {
			if strings.HasPrefix(r, prop+".") {
				out = append(out, mf)
				break
			}
		}
	}
	sort.Strings(out)
	return out, nil
}

// runSelftest runs every mutant of prop (or all props) in its own process.
func runSelftest(repo, verifDir, prop string, verbose bool) SelftestResult {
	var res SelftestResult
	var props []string
	if prop == "" {
		for id := range registry {
			props = append(props, id)
		}
		sort.Strings(props)
	} else {
		props = []string{prop}
	}
	type job struct{ prop, file string }
	var jobs []job
	for _, id := range props {
		files, err := loadMutants(verifDir, id)
		if err != nil {
			res.Failed = append(res.Failed, fmt.Sprintf("%s: %v", id, err))
			continue
		}
		for _, f := range files {
			jobs = append(jobs, job{id, f})
		}
	}
	self, _ := os.Executable()
	var mu sync.Mutex
	var wg sync.WaitGroup
	sem := make(chan struct{}, 6)
	for _, j := range jobs {
		wg.Add(1)
		go func(j job) {
			defer wg.Done()
			sem <- struct{}{}
			defer func() { <-sem }()
			cmd := exec.Command(self, "--mutant", j.prop, j.file)
			cmd.Env = append(os.Environ(), "VERIF_REPO="+repo, "VERIF_DIR="+verifDir)
			out, err := cmd.CombinedOutput()
			code := 0
			if err != nil {
				if ee, ok := err.(*exec.ExitError); ok {
					code = ee.ExitCode()
				} else {
					code = 99
				}
			}
			mu.Lock()
			defer mu.Unlock()
			res.Run++
			name := j.prop + "/" + strings.TrimSuffix(filepath.Base(j.file), ".json")
			if filepath.Base(j.file) == "meta.json" {
				name = j.prop + "/seeded-" + filepath.Base(filepath.Dir(j.file))
			}
			last := lastLine(string(out))
			switch code {
			case 0:
				if strings.Contains(last, "silent-ok") {
					res.Silent++
				} else {
					res.Caught++
				}
				res.Details = append(res.Details, name+": "+last)
			case 3:
				res.Skipped++
				res.Details = append(res.Details, name+": skipped (old text not present in current tree)")
			default:
				res.Failed = append(res.Failed, name+": "+last)
			}
			if verbose {
				fmt.Printf("%s -> exit %d: %s\n", name, code, last)
			}
		}(j)
	}
	wg.Wait()
	sort.Strings(res.Details)
	sort.Strings(res.Failed)
	return res
}

func lastLine(s string) string {
	s = strings.TrimSpace(s)
	if i := strings.LastIndex(s, "\n"); i >= 0 {
		return s[i+1:]
	}
	return s
}

// runOneMutant: exit 0 = behaved as expected; 3 = skipped; 1 = not as expected.
func runOneMutant(repo, verifDir, prop, file string) int {
	data, err := os.ReadFile(file)
	if err != nil {
		fmt.Printf("mutant: %v\n", err)
		return 1
	}
	var m Mutant
	if err := json.Unmarshal(data, &m); err != nil {
		fmt.Printf("mutant %s: %v\n", file, err)
		return 1
	}
	if filepath.Base(file) == "meta.json" {
		// a seeded change: replay its patch, expect one of the recorded rules of this property
		var meta struct {
			Seed     string   `json:"seed"`
			CaughtBy []string `json:"caught_by"`
		}
		_ = json.Unmarshal(data, &meta)
		m = Mutant{Name: "seeded/" + meta.Seed, Patch: "patch.diff", Expect: "catch"}
		for _, r := range meta.CaughtBy {
			if strings.HasPrefix(r, prop+".") {
				m.Rule = r
				break
			}
		}
	}
	pr, ok := registry[prop]
	if !ok {
		fmt.Printf("mutant: unknown property %s\n", prop)
		return 1
	}
	type edit struct{ File, Old, New string }
	var edits []edit
	if m.File != "" {
		edits = append(edits, edit{m.File, m.Old, m.New})
	}
	for _, e := range m.Edits {
		edits = append(edits, edit{e.File, e.Old, e.New})
	}
	overlay := map[string][]byte{}
	if m.Patch != "" {
		pp := m.Patch
		if !filepath.IsAbs(pp) {
			pp = filepath.Join(filepath.Dir(file), pp)
		}
		ov, err := overlayFromPatch(repo, pp)
		if err != nil {
			fmt.Printf("skipped: %v\n", err)
			return 3
		}
		overlay = ov
	}
	for _, e := range edits {
		abs := filepath.Join(repo, e.File)
		src, ok := overlay[abs]
		if !ok {
			src, err = os.ReadFile(abs)
			if err != nil {
				fmt.Printf("skipped: %v\n", err)
				return 3
			}
		}
		if strings.Count(string(src), e.Old) != 1 {
			fmt.Printf("skipped: old text occurs %d times in %s\n", strings.Count(string(src), e.Old), e.File)
			return 3
		}
		overlay[abs] = []byte(strings.Replace(string(src), e.Old, e.New, 1))
	}
	known, _ := loadKnown(filepath.Join(verifDir, "known_findings.json"))
	kn := map[string]bool{}
	for _, k := range known {
		if k.Status == "known" {
			kn[k.Rule+"|"+k.Construct] = true
		}
	}
	p, err := Load(LoadOpts{Repo: repo, GOOS: "linux", GOARCH: "amd64", Overlay: overlay})
	if err != nil {
		fmt.Printf("mutant %s does not load (edit must compile): %v\n", m.Name, err)
		return 1
	}
	c := NewCtx(p, prop, "quick", "linux/amd64")
	if code := safeRun(pr, c); code != 0 {
		return 1
	}
	c.finish()
	var viol []Oblig
	for _, o := range c.Obs {
		if o.Verdict != VOK && !kn[obKey(o)] {
			viol = append(viol, o)
		}
	}
	switch m.Expect {
	case "catch":
		if len(viol) == 0 {
			fmt.Printf("RULE-BLIND: breaking edit %q not reported\n", m.Name)
			return 1
		}
		if m.Rule != "" {
			hit := false
			for _, o := range viol {
				if strings.HasPrefix(o.Rule, m.Rule) {
					hit = true
				}
			}
			if !hit {
				fmt.Printf("RULE-BLIND: breaking edit %q reported only by other rules (%s), expected %s\n", m.Name, viol[0].Rule, m.Rule)
				return 1
			}
		}
		fmt.Printf("caught by %s: %s\n", viol[0].Rule, viol[0].Construct)
		return 0
	case "silent":
		if len(viol) > 0 {
			fmt.Printf("FALSE-ALARM: behaviour-preserving edit %q reported by %s: %s (%s)\n", m.Name, viol[0].Rule, viol[0].Construct, viol[0].Detail)
			return 1
		}
		fmt.Printf("silent-ok\n")
		return 0
	}
	fmt.Printf("mutant %s: bad expect %q\n", m.Name, m.Expect)
	return 1
}

// overlayFromPatch applies a unified diff to copies of the touched files in a scratch directory
// (outside /repo) and returns the patched contents keyed by their path in the repo.
func overlayFromPatch(repo, patch string) (map[string][]byte, error) {
	data, err := os.ReadFile(patch)
	if err != nil {
		return nil, err
	}
	var files []string
	for _, l := range strings.Split(string(data), "\n") {
		if strings.HasPrefix(l, "+++ b/") {
			files = append(files, strings.TrimSpace(strings.TrimPrefix(l, "+++ b/")))
		}
	}
	if len(files) == 0 {
		return nil, fmt.Errorf("no files in patch %s", patch)
	}
	tmp, err := os.MkdirTemp("", "verifpatch")
	if err != nil {
		return nil, err
	}
	defer os.RemoveAll(tmp)
	for _, f := range files {
		dst := filepath.Join(tmp, f)
		if err := os.MkdirAll(filepath.Dir(dst), 0o755); err != nil {
			return nil, err
		}
		src, err := os.ReadFile(filepath.Join(repo, f))
		if err == nil {
			if err := os.WriteFile(dst, src, 0o644); err != nil {
				return nil, err
			}
		}
	}
	cmd := exec.Command("git", "apply", "--unsafe-paths", "--directory="+tmp, patch)
	cmd.Dir = tmp
	cmd.Env = append(os.Environ(), "GIT_CEILING_DIRECTORIES=/", "GIT_DIR=/nonexistent")
	if out, err := cmd.CombinedOutput(); err != nil {
		// fall back to patch(1)
		cmd2 := exec.Command("patch", "-p1", "-s", "-d", tmp, "-i", patch)
		if out2, err2 := cmd2.CombinedOutput(); err2 != nil {
			return nil, fmt.Errorf("patch does not apply to the current tree: %s / %s", strings.TrimSpace(string(out)), strings.TrimSpace(string(out2)))
		}
	}
	ov := map[string][]byte{}
	for _, f := range files {
		b, err := os.ReadFile(filepath.Join(tmp, f))
		if err != nil {
			return nil, err
		}
		ov[filepath.Join(repo, f)] = b
	}
	return ov, nil
}
